"""./check SELFTEST : demonstrates that the specifications are bound to what the traces say (DESIGN section 9):
accepted traces of the real library are corrupted in one field (or lose one event) and must then be REJECTED by the
trace specification.  Not a MANIFEST check (it says nothing about /repo); exit 0 iff every mandatory corruption is rejected."""
import copy, json, os, random
from . import core
from .core import log


def _load(files):
    traces, cur = [], None
    for f in files:
        for line in open(f):
            e = json.loads(line)
            if e["e"] == "Reset":
                cur = [e]
                traces.append(cur)
            else:
                cur.append(e)
    return traces


def _validate(mod, cfg, traces, name):
    d = core.rundir(name)
    parts = core.shard(traces, core.NCPU)
    paths = []
    for k, part in enumerate(parts):
        path = os.path.join(d, "t.%d.ndjson" % k)
        with open(path, "w") as f:
            for t in part:
                for e in t:
                    f.write(json.dumps(e, separators=(",", ":")) + "\n")
        paths.append(path)
    res = core.validate(mod, cfg, paths, name, max_rej=len(traces) + 1)
    return {r["tid"] for r in res["rejections"]}


def _corrupt_each(traces, pick, change, label):
    """For each trace apply `change` to the first event satisfying `pick`; returns list of (tid, corrupted trace)."""
    out = []
    for t in traces:
        for i, e in enumerate(t):
            if i > 0 and pick(e):
                t2 = copy.deepcopy(t)
                r = change(t2, i)
                if r is not False:
                    t2[0]["tid"] = "%s#%s" % (t2[0]["tid"], label)
                    out.append(t2)
                break
    return out


def _first_tx(e, kind):
    return [k for k, o in enumerate(e.get("tx", [])) if o.get("t") == kind]


def selftest(tier):
    core.build_driver()
    rnd = random.Random(core.seed())
    results = []

    def report(fam, label, corrupted, rejected, mandatory=True):
        n = len(corrupted)
        k = sum(1 for t in corrupted if t[0]["tid"] in rejected)
        results.append((fam, label, n, k, mandatory))
        log("[SELFTEST] %-7s %-38s corrupted %3d  rejected %3d%s" % (fam, label, n, k, "" if mandatory else "  (informative)"))

    # ---------------- reader family
    r = core.run_mc("MC_C08.tla", "MC_C08_quick.cfg", "selftest-mc-c08")
    from . import reader
    r3 = core.run_mc("MC_C03.tla", "MC_C03_quick.cfg", "selftest-mc-c03")
    newops = [p for p in r3["progs"] if any(o["op"] in ("RJ", "WCL", "RDO") or (o["op"] == "JA" and o.get("r")) for o in p["reads"])]
    wcp = [p for p in r["progs"] if any(o["op"] in ("WCP", "SWD") for o in p["reads"])]
    progs = reader.concretise(rnd.sample(r["progs"], 60) + rnd.sample(newops, min(120, len(newops))) + rnd.sample(wcp, min(30, len(wcp))),
                              "ST", "quick", core.seed(), 1)
    core.rundir("selftest-r")
    files = core.drive("reader", progs, "selftest-r", shards=4)
    tr = _load(files)
    base_rej = _validate("WSReaderTrace.tla", "WSReaderTrace.cfg", tr, "selftest-r0")
    if base_rej:
        raise core.Infra("selftest: uncorrupted reader traces rejected: %s" % sorted(base_rej)[:3])
    cases = [
        ("RM: delivered length + 1", lambda e: e["e"] == "RM" and e.get("ok") and e["err"]["cls"] == "nil", lambda t, i: t[i].__setitem__("n", t[i]["n"] + 1)),
        ("RM: message type flipped", lambda e: e["e"] == "RM" and e.get("ok"), lambda t, i: t[i].__setitem__("type", 3 - t[i]["type"])),
        ("RM: content attributed elsewhere", lambda e: e["e"] == "RM" and e.get("ok") and not e.get("any"), lambda t, i: t[i].__setitem__("cand", [99])),
        ("NR: success turned into failure", lambda e: e["e"] in ("NR",) and e.get("ok"), lambda t, i: (t[i].__setitem__("ok", False), t[i].__setitem__("err", {"cls": "other", "id": 7, "code": 0, "cand": []}))),
        ("pong/close reply removed", lambda e: any(o.get("t") == "TX" for o in e.get("obs", [])), lambda t, i: t[i].__setitem__("obs", [o for o in t[i]["obs"] if o.get("t") != "TX"])),
        ("handler invocation removed", lambda e: any(o.get("t") == "H" for o in e.get("obs", [])), lambda t, i: t[i].__setitem__("obs", [o for o in t[i]["obs"] if o.get("t") != "H"][:])),
        ("close error code changed", lambda e: e.get("err", {}).get("cls") == "close" and e["err"].get("cand"), lambda t, i: t[i]["err"].__setitem__("code", t[i]["err"]["code"] + 1)),
        ("RJ: value attributed to another message", lambda e: e["e"] == "RJ" and e.get("ok") and e["cand"], lambda t, i: t[i].__setitem__("cand", [99])),
        ("RJ: failure reported as success", lambda e: e["e"] == "RJ" and not e.get("ok") and e["err"]["cls"] == "other",
         lambda t, i: (t[i].__setitem__("ok", True), t[i].__setitem__("err", {"cls": "nil", "id": -1, "code": 0, "cand": []}))),
        ("WCL: close frame of the application not written", lambda e: e["e"] == "WCL" and e["obs"], lambda t, i: t[i].__setitem__("obs", [])),
        ("WCL: second close reported as sent", lambda e: e["e"] == "WCL" and e["err"]["cls"] == "closesent",
         lambda t, i: t[i].__setitem__("err", {"cls": "nil", "id": -1, "code": 0, "cand": []})),
        ("RDO: stale reader delivers a byte", lambda e: e["e"] == "RDO", lambda t, i: t[i].__setitem__("n", 1)),
        ("JA: joined length + 1", lambda e: e["e"] == "JA" and e["segs"], lambda t, i: t[i].__setitem__("n", t[i]["n"] + 1)),
        ("WCP: timed-out WriteControl reported as sent", lambda e: e["e"] == "WCP" and e["err"]["cls"] == "timeout",
         lambda t, i: t[i].__setitem__("err", {"cls": "nil", "id": -1, "code": 0, "cand": []})),
        ("sticky error identity changes", lambda e: False, None),
    ]
    allc = []
    bycase = {}
    for label, pick, change in cases:
        if change is None:
            # change the error id of the LAST NextReader event of traces that end with >= 2 failing NR events
            cs = []
            for t in tr:
                idx = [i for i, e in enumerate(t) if e["e"] == "NR" and not e.get("ok")]
                if len(idx) >= 2:
                    t2 = copy.deepcopy(t)
                    t2[idx[-1]]["err"]["id"] = t2[idx[-1]]["err"]["id"] + 5
                    t2[0]["tid"] += "#" + label
                    cs.append(t2)
        else:
            cs = _corrupt_each(tr, pick, change, label)
        bycase[label] = cs
        allc += cs
    rej = _validate("WSReaderTrace.tla", "WSReaderTrace.cfg", allc, "selftest-r1")
    for label, _, _ in cases:
        report("reader", label, bycase[label], rej)

    # ---------------- writer family
    r = core.run_mc("MC_W.tla", "MC_W_conform_quick.cfg", "selftest-mc-w")
    from . import writer
    ps = [p for p in r["progs"] if p["conns"][0]["pool"]]
    rinv = core.run_mc("MC_W.tla", "MC_W_invalid_quick.cfg", "selftest-mc-winv")
    pj = [p for p in rinv["progs"] if p["conns"][0]["pool"] and any(o["op"] == "WJB" for o in p["ops"])]
    prf = [p for p in ps if any(o["op"] == "WR" and o.get("via") == "rf" for o in p["ops"])]
    progs = writer.concretise(rnd.sample(ps, 60) + rnd.sample(pj, min(40, len(pj))) + rnd.sample(prf, min(200, len(prf))), "STW", "quick", core.seed(), 1, [7, 16, 125])
    core.rundir("selftest-w")
    files = core.drive("writer", progs, "selftest-w", shards=4)
    tr = _load(files)
    base_rej = _validate("WSWriterTrace.tla", "WSWriterTrace.cfg", tr, "selftest-w0")
    if base_rej:
        raise core.Infra("selftest: uncorrupted writer traces rejected: %s" % sorted(base_rej)[:3])

    def tx_change(kind, fn):
        def ch(t, i):
            ks = _first_tx(t[i], kind)
            if not ks:
                return False
            fn(t[i]["tx"], ks[0])
        return ch
    def fin_frames(e):
        return [k for k, o in enumerate(e.get("tx", [])) if o.get("t") == "F" and o.get("fin")]

    def fin_change(fn):
        def ch(t, i):
            ks = fin_frames(t[i])
            if not ks:
                return False
            fn(t[i]["tx"], ks[0])
        return ch
    def wrs_change(t, i):
        # decidable only if the message is completed afterwards (the byte count is settled at its final frame)
        nxt = [e for e in t[i + 1:] if e["e"] in ("CL", "NW", "WM", "WJ", "WP", "XC", "WC")]
        if not nxt or nxt[0]["e"] != "CL" or nxt[0]["err"]["cls"] != "nil":
            return False
        t[i]["ret"] = t[i]["ret"] - 1

    # (flush points are free in the envelope: the length or the absence of a NON-final frame of a message that the program
    #  never completes is not decidable, so these two corruptions are applied to completing frames)
    wcases = [
        # (the wire length of a COMPRESSED frame is opaque to the model: only uncompressed, attributed frames are mandatory)
        ("frame length + 1", lambda e: [k for k in fin_frames(e)[:1] if e["tx"][k]["m"] >= 0], fin_change(lambda tx, k: tx[k].__setitem__("len", tx[k]["len"] + 1))),
        ("FIN bit flipped", lambda e: _first_tx(e, "F"), tx_change("F", lambda tx, k: tx[k].__setitem__("fin", not tx[k]["fin"]))),
        ("mask bit flipped", lambda e: _first_tx(e, "F"), tx_change("F", lambda tx, k: tx[k].__setitem__("mk", not tx[k]["mk"]))),
        ("frame dropped", lambda e: fin_frames(e), fin_change(lambda tx, k: tx.pop(k))),
        ("deadline of a frame changed", lambda e: _first_tx(e, "SWD") and _first_tx(e, "F"), tx_change("SWD", lambda tx, k: tx[k].__setitem__("d", "d2" if tx[k]["d"] != "d2" else "d1"))),
        ("pool Put dropped", lambda e: _first_tx(e, "PUT"), tx_change("PUT", lambda tx, k: tx.pop(k))),
        ("pool Put of another buffer", lambda e: [k for k in _first_tx(e, "PUT") if e["tx"][k]["buf"] > 0], tx_change("PUT", lambda tx, k: tx[k].__setitem__("buf", tx[k]["buf"] + 7))),
        ("success reported as error", lambda e: e["e"] in ("WM", "WC", "CL") and e["err"]["cls"] == "nil", lambda t, i: t[i].__setitem__("err", {"cls": "other", "id": 9})),
        ("WRS: fewer bytes taken than reported", lambda e: e["e"] == "WRS" and e["err"]["cls"] == "src" and e["ret"] > 0, wrs_change),
        ("WJB: unencodable value reported as sent", lambda e: e["e"] == "WJB" and e["err"]["cls"] == "other", lambda t, i: t[i].__setitem__("err", {"cls": "nil", "id": -1})),
        ("payload attributed to another message", lambda e: [k for k in _first_tx(e, "F") if e["tx"][k]["m"] >= 0], tx_change("F", lambda tx, k: tx[k].__setitem__("m", tx[k]["m"] + 50))),
    ]
    allc, bycase = [], {}
    for label, pick, change in wcases:
        cs = _corrupt_each(tr, pick, change, label)
        bycase[label] = cs
        allc += cs
    rej = _validate("WSWriterTrace.tla", "WSWriterTrace.cfg", allc, "selftest-w1")
    for label, _, _ in wcases:
        report("writer", label, bycase[label], rej, mandatory=(label != "pool Put of another buffer"))

    # ---------------- concurrency family
    sim = core.run_sim("MC_Conc.tla", "MC_Conc_sim.cfg", "selftest-sim", 300, 200, core.seed())
    from . import conc
    progs = conc.concretise(sim["progs"], "STC", "quick", core.seed())[:60]
    core.rundir("selftest-c")
    files = core.drive("conc", progs, "selftest-c", shards=4)
    tr = _load(files)
    for t in tr:
        cur = {}
        for e in t:
            if e["e"] == "Call":
                cur[e["t"]] = e["api"]
            elif e["e"] == "Ret":
                e["_api"] = cur.get(e["t"], "")
    base_rej = _validate("WSConcTrace.tla", "WSConcTrace.cfg", tr, "selftest-c0")
    if base_rej:
        raise core.Infra("selftest: uncorrupted concurrency traces rejected: %s" % sorted(base_rej)[:3])

    def swap_into_frame(t, _i):
        # move another thread's SWD between a thread's SWD and its frame (a frame no longer contiguous)
        for i in range(1, len(t) - 1):
            a, b = t[i], t[i + 1]
            if a["e"] == "Op" and b["e"] == "Op" and a["it"]["t"] == "SWD" and b["it"]["t"] == "F" and a["t"] == b["t"]:
                other = "K1" if a["t"] != "K1" else "K2"
                t.insert(i + 1, {"e": "Op", "t": other, "it": {"t": "SWD", "d": "zero", "err": False}})
                return
        return False

    def frame_after_close(t, _i):
        for i in range(1, len(t)):
            e = t[i]
            if e["e"] == "Op" and e["it"]["t"] == "F" and e["it"]["op"] == 8:
                t.insert(i + 1, {"e": "Op", "t": e["t"], "it": {"t": "SWD", "d": "zero", "err": False}})
                return
        return False
    def put_by_other(t, _i):
        for i in range(1, len(t)):
            e = t[i]
            if e["e"] == "Op" and e["it"]["t"] == "PUT":
                e["t"] = "K1"
                return
        return False
    ccases = [
        ("pool Put by a WriteControl caller", lambda e: True, put_by_other),
        ("foreign transport op inside a frame", lambda e: True, swap_into_frame),
        ("transport op after the close frame", lambda e: True, frame_after_close),
        ("timeout reported although frame written", lambda e: e["e"] == "Ret" and e["t"] in ("K1", "K2") and e["err"]["cls"] == "nil" and e.get("_api") == "WC",
         lambda t, i: t[i].__setitem__("err", {"cls": "timeout", "id": 3})),
        ("late WriteControl", lambda e: e["e"] == "Ret" and e["t"] in ("K1", "K2"), lambda t, i: t[i].__setitem__("late", True)),
    ]
    allc, bycase = [], {}
    for label, pick, change in ccases:
        cs = _corrupt_each(tr, pick, change, label)
        bycase[label] = cs
        allc += cs
    rej = _validate("WSConcTrace.tla", "WSConcTrace.cfg", allc, "selftest-c1")
    for label, _, _ in ccases:
        report("conc", label, bycase[label], rej)

    bad = [(f, l, n, k) for (f, l, n, k, m) in results if m and (n == 0 or k < n)]
    with open(os.path.join(core.ROOT, "evidence", "SELFTEST.txt"), "w") as f:
        for (fam, l, n, k, m) in results:
            f.write("%-8s %-42s corrupted=%d rejected=%d%s\n" % (fam, l, n, k, "" if m else " (informative)"))
    for b in bad:
        print("SELFTEST-FAIL: %s / %s: %d corrupted, %d rejected" % b)
    return 1 if bad else 0


TABLE = {"SELFTEST": selftest}
