"""Shared machinery: run TLC (model checking / program generation / trace
validation), run the Go driver, shard work over the cores, write evidence."""
import json, os, re, shutil, subprocess, sys, time, hashlib, random
from concurrent.futures import ThreadPoolExecutor

ROOT = os.path.dirname(os.path.dirname(os.path.abspath(__file__)))
SPEC = os.path.join(ROOT, "spec")
HARNESS = os.path.join(ROOT, "harness")
BIN = os.path.join(ROOT, "bin")
RUN = os.path.join(ROOT, "run")
EVID = os.path.join(ROOT, "evidence")
REPLAY = os.path.join(ROOT, "replay")
JARS = "/opt/veriftools/tla/tla2tools.jar:/opt/veriftools/tla/CommunityModules-deps.jar"
NCPU = os.cpu_count() or 8

GOENV = dict(os.environ, GOFLAGS="-mod=mod", GOPROXY="off", GOSUMDB="off", GOTOOLCHAIN="local")


class Infra(Exception):
    """Infrastructure trouble: never a verdict about /repo (exit 2)."""


def log(*a):
    print(*a, flush=True)


def rundir(name):
    d = os.path.join(RUN, name)
    shutil.rmtree(d, ignore_errors=True)
    os.makedirs(d, exist_ok=True)
    return d


REPO = os.environ.get("VERIF_REPO", "/repo")
_TAG = "" if REPO == "/repo" else "-" + hashlib.sha1(REPO.encode()).hexdigest()[:8]
if _TAG:
    # isolated run against a scratch copy of the repository (mutant testing):
    # separate binaries, run directories and replay directory
    BIN = os.path.join(ROOT, "bin" + _TAG)
    RUN = os.path.join(ROOT, "run", "alt" + _TAG)
    EVID = os.path.join(RUN, "evidence")
    REPLAY = os.path.join(RUN, "replay")


def build_driver(race=False):
    """Rebuild the driver from the repository's current working tree with hooks on."""
    os.makedirs(BIN, exist_ok=True)
    out = os.path.join(BIN, "wsdrive-race" if race else "wsdrive")
    cmd = ["go", "build", "-tags", "verif"] + (["-race"] if race else [])
    go_sum = os.path.join(HARNESS, "go.sum")
    if not os.path.exists(go_sum) and os.path.exists(os.path.join(REPO, "go.sum")):
        shutil.copy(os.path.join(REPO, "go.sum"), go_sum)
    if _TAG:
        alt = os.path.join(HARNESS, "go.alt%s.mod" % _TAG)
        with open(os.path.join(HARNESS, "go.mod")) as f:
            txt = f.read().replace("=> /repo", "=> " + REPO)
        with open(alt, "w") as f:
            f.write(txt)
        shutil.copy(go_sum, alt[:-4] + ".sum")
        cmd += ["-modfile", alt]
    cmd += ["-o", out, "./cmd/wsdrive"]
    p = subprocess.run(cmd, cwd=HARNESS, env=GOENV, capture_output=True, text=True)
    if p.returncode != 0:
        raise Infra("driver build failed:\n" + p.stdout + p.stderr)
    return out


def java(heap="4g"):
    return ["java", "-Xmx" + heap, "-Xss64m", "-XX:+UseParallelGC", "-XX:ParallelGCThreads=4", "-cp", JARS, "tlc2.TLC"]


STAT_RE = re.compile(r"(\d+) states generated, (\d+) distinct states found")


def run_tlc(module, cfg, metadir, workers=1, env=None, timeout=3600, heap="4g", extra=()):
    # TLC unpacks its standard modules into java.io.tmpdir on every start: keep that out of /tmp (one directory per run,
    # removed afterwards; tens of thousands of them had piled up in /tmp)
    tmpd = metadir.rstrip("/") + ".jtmp"
    os.makedirs(tmpd, exist_ok=True)
    j = java(heap)
    cmd = j[:1] + ["-Djava.io.tmpdir=" + tmpd] + j[1:] + ["-metadir", metadir, "-workers", str(workers), "-config", cfg] + list(extra) + [module]
    e = dict(os.environ)
    if env:
        e.update(env)
    t0 = time.time()
    try:
        p = subprocess.run(cmd, cwd=SPEC, env=e, capture_output=True, text=True, timeout=timeout)
    except subprocess.TimeoutExpired:
        shutil.rmtree(tmpd, ignore_errors=True)
        raise Infra("TLC timeout on %s %s" % (module, cfg))
    out = p.stdout + p.stderr
    shutil.rmtree(metadir, ignore_errors=True)
    shutil.rmtree(tmpd, ignore_errors=True)
    if "_TTrace_" in out:
        # TLC writes a trace-exploration spec next to the module when it reports an error
        import glob as _g
        for f in _g.glob(os.path.join(SPEC, "*_TTrace_*")):
            try:
                os.remove(f)
            except OSError:
                pass
    m = STAT_RE.findall(out)
    gen, dist = (int(m[-1][0]), int(m[-1][1])) if m else (0, 0)
    return dict(rc=p.returncode, out=out, generated=gen, distinct=dist, wall=time.time() - t0)


PROG_RE = re.compile(r'^<<"PROG", "(.*)">>$')


def unquote_tla(s):
    return s.replace('\\"', '"').replace("\\\\", "\\")


_MC_CACHE = {}


def run_mc(module, cfg, name, workers=NCPU, timeout=3600, heap="8g"):
    """Cached wrapper: one TLC run per (module, cfg) per process."""
    k = (module, cfg)
    if k not in _MC_CACHE:
        _MC_CACHE[k] = _disk_cached_mc(module, cfg, name, workers, timeout, heap)
    return _MC_CACHE[k]


def _disk_cached_mc(module, cfg, name, workers, timeout, heap):
    """Mutant testing only (VERIF_REPO set to a scratch copy): the TLC run depends on the specification alone, not on the
    repository, so its result is kept on disk keyed by the content of the specification. Registered checks (run against /repo)
    never use this cache: they run TLC every time."""
    if not _TAG:
        return _run_mc(module, cfg, name, workers, timeout, heap)
    h = hashlib.sha1()
    for fn in sorted(os.listdir(SPEC)):
        if fn.endswith(".tla") or fn == cfg:
            with open(os.path.join(SPEC, fn), "rb") as f:
                h.update(fn.encode()); h.update(f.read())
    h.update(("%s|%s" % (module, cfg)).encode())
    cdir = os.path.join(ROOT, "run", "mccache")
    os.makedirs(cdir, exist_ok=True)
    path = os.path.join(cdir, h.hexdigest() + ".json")
    if os.path.exists(path):
        try:
            with open(path) as f:
                return json.load(f)
        except Exception:
            pass
    r = _run_mc(module, cfg, name, workers, timeout, heap)
    tmp = path + ".%d.tmp" % os.getpid()
    with open(tmp, "w") as f:
        json.dump({k2: v for k2, v in r.items() if k2 != "text"} | {"text": ""}, f)
    os.replace(tmp, path)
    return r


def _run_mc(module, cfg, name, workers=NCPU, timeout=3600, heap="8g"):
    """Exhaustive model check of a bounded configuration. Returns states,
    transitions and the abstract programs TLC printed (one per initial state
    or per explored edge, depending on the spec)."""
    d = rundir(name)
    r = run_tlc(module, cfg, os.path.join(d, "meta"), workers=workers, timeout=timeout, heap=heap)
    progs = []
    rest = []
    for line in r["out"].splitlines():
        m = PROG_RE.match(line)
        if m:
            progs.append(json.loads(unquote_tla(m.group(1))))
        else:
            rest.append(line)
    text = "\n".join(rest)
    with open(os.path.join(d, "tlc.out"), "w") as f:
        f.write(text)
    if "Model checking completed. No error has been found." not in text:
        # an invariant violation of the MODEL is a defect of the specification
        # (or an expected-violation config), never a verdict about /repo
        tail = "\n".join(rest[-40:])
        raise Infra("TLC did not complete cleanly on %s/%s:\n%s" % (module, cfg, tail))
    return dict(progs=progs, states=r["distinct"], transitions=r["generated"], wall=r["wall"], text=text)


def run_tlapm(relpath, timeout=900):
    """Re-check a TLAPS proof (spec/proof/...); returns the number of obligations proved; anything else is an Infra error."""
    d = os.path.join(SPEC, os.path.dirname(relpath))
    shutil.rmtree(os.path.join(d, ".tlacache"), ignore_errors=True)
    try:
        p = subprocess.run(["tlapm", "--threads", str(NCPU), os.path.basename(relpath)], cwd=d, capture_output=True, text=True, timeout=timeout)
    except (subprocess.TimeoutExpired, FileNotFoundError) as e:
        raise Infra("tlapm failed to run: %r" % e)
    out = p.stdout + p.stderr
    shutil.rmtree(os.path.join(d, ".tlacache"), ignore_errors=True)
    m = re.search(r"All (\d+) obligations? proved", out)
    if not m:
        raise Infra("TLAPS proof %s not accepted:\n%s" % (relpath, out[-2000:]))
    return int(m.group(1))


def expect_violation(module, cfg, name, workers=8, timeout=900):
    """Sensitivity self-test of a specification: a config that encodes a deliberate deviation must make TLC report an
    invariant violation; if it does not, the model has lost its teeth (infrastructure error, not a verdict)."""
    d = rundir(name)
    r = run_tlc(module, cfg, os.path.join(d, "meta"), workers=workers, timeout=timeout, heap="6g")
    for f in os.listdir(SPEC):
        if "_TTrace_" in f:
            try:
                os.remove(os.path.join(SPEC, f))
            except OSError:
                pass
    m = re.search(r"Error: Invariant (\w+) is violated", r["out"])
    if not m:
        raise Infra("expected-violation config %s/%s did not produce a violation:\n%s" % (module, cfg, r["out"][-1500:]))
    return dict(invariant=m.group(1), states=r["distinct"])


def run_sim(module, cfg, name, num, depth, seed, workers=8, timeout=600):
    """TLC simulation mode: random behaviours of the model; returns the programs/schedules printed."""
    d = rundir(name)
    per = max(1, num // workers)
    r = run_tlc(module, cfg, os.path.join(d, "meta"), workers=workers, timeout=timeout, heap="4g",
                extra=["-simulate", "num=%d" % per, "-depth", str(depth), "-seed", str(seed)])
    progs = []
    rest = []
    for line in r["out"].splitlines():
        m = PROG_RE.match(line)
        if m:
            progs.append(json.loads(unquote_tla(m.group(1))))
        else:
            rest.append(line)
    text = "\n".join(rest)
    with open(os.path.join(d, "tlc.out"), "w") as f:
        f.write(text)
    if "Error:" in text and "violated" in text:
        raise Infra("TLC simulation found a model violation on %s/%s:\n%s" % (module, cfg, text[-3000:]))
    m = re.search(r"The number of states generated: (\d+)", text)
    return dict(progs=progs, states=int(m.group(1)) if m else 0, wall=r["wall"])


def write_ndjson(path, items):
    with open(path, "w") as f:
        for it in items:
            f.write(json.dumps(it, separators=(",", ":")) + "\n")


def shard(items, n):
    n = max(1, min(n, len(items)))
    k = (len(items) + n - 1) // n
    return [items[i:i + k] for i in range(0, len(items), k)]


def drive(fam, progs, name, shards=NCPU, race=False, timeout=1800, env_extra=None):
    """Execute programs on the real library; returns list of trace files (one
    per shard) and the number of programs run."""
    d = os.path.join(RUN, name)
    os.makedirs(d, exist_ok=True)
    exe = os.path.join(BIN, "wsdrive-race" if race else "wsdrive")
    parts = shard(progs, shards)
    files = []

    def one(i):
        pin = os.path.join(d, "progs.%d.ndjson" % i)
        pout = os.path.join(d, "traces.%d.ndjson" % i)
        write_ndjson(pin, parts[i])
        env = dict(os.environ, GORACE="halt_on_error=1 exitcode=66") if race else None
        if env_extra:
            env = dict(env or os.environ, **env_extra)
        p = subprocess.run([exe, "-fam", fam, "-in", pin, "-out", pout], capture_output=True, text=True, timeout=timeout, env=env)
        if race and (p.returncode == 66 or "DATA RACE" in p.stderr):
            # the race detector stopped the driver: record it as an event of the program that was running
            done = sum(1 for l in open(pout) if '"e":"Reset"' in l) if os.path.exists(pout) else 0
            with open(pout, "a") as f:
                f.write(json.dumps({"e": "Reset", "tid": parts[i][min(done, len(parts[i]) - 1)]["id"] + "/race", "conns": [], "pms": [], "crypto": True,
                                    "role": "server", "pmce": False, "raw": False, "cfg": {}, "fr": []}) + "\n")
                f.write(json.dumps({"e": "RACE", "report": p.stderr[-1500:]}) + "\n")
            return pout
        if p.returncode != 0:
            raise Infra("driver failed (shard %d): %s" % (i, p.stdout + p.stderr))
        return pout

    with ThreadPoolExecutor(max_workers=shards) as ex:
        files = list(ex.map(one, range(len(parts))))
    return files


def drive_history(fam, seq, name, attempt):
    """Re-run a history in one fresh process. Process-wide pools (sync.Pool) depend on which P a goroutine runs on: the first
    attempts pin the driver to one P, which makes them deterministic."""
    rundir(name)
    return drive(fam, seq, name, shards=1, env_extra={"GOMAXPROCS": "1"} if attempt < 2 else None)


def history_of(progs, prog_id, shards=NCPU):
    """The programs that ran before prog_id in its driver process (core.drive shards in order), including it: a verdict may
    depend on process-wide state left by earlier programs."""
    for part in shard(progs, shards):
        ids = [p["id"] for p in part]
        if prog_id in ids:
            return part[:ids.index(prog_id) + 1]
    return None


REJ_RE = re.compile(r'<<"REJECTED-AT", (\d+), (\d+)>>')


def _tv_one(module, cfg, path, meta, timeout):
    r = run_tlc(module, cfg, meta, workers=1, env={"TRACE_FILE": path}, timeout=timeout, heap="3g")
    out = r["out"]
    m = REJ_RE.search(out)
    if m:
        return dict(ok=False, line=int(m.group(1)), states=r["distinct"], out=out)
    if "Model checking completed. No error has been found." in out:
        return dict(ok=True, states=r["distinct"], out=out)
    raise Infra("trace validation crashed on %s:\n%s" % (path, out[-3000:]))


def validate_file(module, cfg, path, tag, max_rej=3, timeout=1800):
    """Validate one ndjson trace batch. Returns (n_traces, n_events, states,
    rejections) where a rejection is dict(tid, line, event, trace=[events])."""
    with open(path) as f:
        lines = f.readlines()
    n_traces = sum(1 for l in lines if '"e":"Reset"' in l)
    n_events = len(lines)
    rej = []
    states = 0
    cur = lines
    cur_path = path
    rnd = 0
    while cur:
        res = _tv_one(module, cfg, cur_path, os.path.join(RUN, "meta-%s-%d" % (tag, rnd)), timeout)
        states += res["states"]
        if res["ok"]:
            break
        ln = res["line"]  # 1-based index of the event that could not be matched
        # locate the trace
        start = ln - 1
        while start > 0 and '"e":"Reset"' not in cur[start]:
            start -= 1
        end = ln
        while end < len(cur) and '"e":"Reset"' not in cur[end]:
            end += 1
        trace = [json.loads(x) for x in cur[start:end]]
        rej.append(dict(tid=trace[0].get("tid"), index=ln - 1 - start, event=json.loads(cur[ln - 1]), trace=trace))
        if len(rej) >= max_rej:
            break
        cur = cur[end:]
        rnd += 1
        cur_path = path + ".rest%d" % rnd
        with open(cur_path, "w") as f:
            f.writelines(cur)
    return n_traces, n_events, states, rej


def validate(module, cfg, files, name, max_rej=3):
    with ThreadPoolExecutor(max_workers=NCPU) as ex:
        res = list(ex.map(lambda a: validate_file(module, cfg, a[1], "%s-%d" % (name, a[0]), max_rej), enumerate(files)))
    tr = sum(r[0] for r in res)
    ev = sum(r[1] for r in res)
    st = sum(r[2] for r in res)
    rej = [x for r in res for x in r[3]]
    return dict(traces=tr, events=ev, states=st, rejections=rej)


def seed():
    try:
        return int(os.environ.get("VERIF_SEED", "1"))
    except ValueError:
        return 1


def write_evidence(pid, tier, level, coverage, wall, violations, assumptions):
    os.makedirs(EVID, exist_ok=True)
    ev = dict(property_id=pid, tier=tier, seed=seed(), level=level, coverage=coverage,
              assumptions=assumptions, wall_s=round(wall, 2), violations=violations)
    with open(os.path.join(EVID, pid + ".json"), "w") as f:
        json.dump(ev, f, indent=1)


def load_known():
    path = os.path.join(ROOT, "known_findings.jsonl")
    out = []
    if os.path.exists(path):
        for l in open(path):
            l = l.strip()
            if l and not l.startswith("#"):
                out.append(json.loads(l))
    return out


def save_replay(pid, fam, prog, trace, why, extra=None):
    os.makedirs(REPLAY, exist_ok=True)
    h = hashlib.sha1(json.dumps(prog, sort_keys=True).encode()).hexdigest()[:10]
    path = os.path.join(REPLAY, "%s-%s.json" % (pid, h))
    with open(path, "w") as f:
        json.dump(dict(property=pid, family=fam, program=prog, trace=trace, why=why, extra=extra or {}), f, indent=1)
    return path
