"""Specification growth beyond the listed properties: the helper API (WSHelpers). Run with ./check HELPERS."""
import json, time
from . import core


def helpers(tier):
    core.build_driver()
    r = core.run_mc("WSHelpersMC.tla", "MC_Helpers.cfg", "helpers-mc")
    progs = []
    for i, c in enumerate(r["progs"]):
        c = dict(c); c["id"] = "H-%d" % i
        progs.append(c)
    core.rundir("helpers")
    files = core.drive("helpers", progs, "helpers", shards=4)
    res = core.validate("WSHelpersTrace.tla", "WSHelpersTrace.cfg", files, "helpers")
    core.log("[HELPERS] %d calls enumerated by TLC (%d states), %d validated, %d rejected" % (len(progs), r["states"], res["traces"], len(res["rejections"])))
    for rj in res["rejections"][:5]:
        print("HELPERS-MISMATCH:", json.dumps(rj["event"])[:400])
    return 1 if res["rejections"] else 0


TABLE = {"HELPERS": helpers}
TRACE_SPEC = {"helpers": ("WSHelpersTrace.tla", "WSHelpersTrace.cfg")}
