"""Concurrency checks (C09 interleavings, C11): exhaustive TLC check of the lock-protocol model against the
monitor WSConc, TLC-generated schedules replayed through the verification gates on the real library, free-running
stress (optionally under the race detector), all traces validated against the monitor."""
import json, os, random, subprocess, time
from . import core
from .core import log


def concretise(scheds, pid, tier, seed, roles=("server", "client")):
    rnd = random.Random(seed * 271 + 3)
    out = []
    seen = set()
    nrt = 0
    for i, s in enumerate(scheds):
        k = json.dumps(s, sort_keys=True)
        if k in seen:
            continue
        seen.add(k)
        if any(st["t"] == "R" and st["s"] == "timeout" for st in s["sched"]):
            nrt += 1
            if nrt > 2:      # each costs the library's 1 s writeWait
                continue
        out.append(dict(id="%s-%s-s%d" % (pid, tier[0], i), role=rnd.choice(roles), wbuf=rnd.choice([16, 64, 200]),
                        progs=s["progs"], sched=s["sched"], faultAt=s["faultAt"], free=False, seed=rnd.randrange(1, 1 << 30),
                        pool=rnd.random() < 0.5, faultKind=rnd.choice(["err", "err", "timeout", "short"])))
    return out


def free_programs(scheds, pid, tier, seed, count, block=False):
    rnd = random.Random(seed * 911 + 17)
    base = [s["progs"] for s in scheds]
    out = []
    for i in range(count):
        pr = rnd.choice(base)
        out.append(dict(id="%s-%s-f%d" % (pid, tier[0], i), role=rnd.choice(["server", "client"]), wbuf=rnd.choice([16, 64, 200]),
                        progs=pr, sched=[], faultAt=rnd.choice([0, 0, 0, 2, 4]), free=True, seed=rnd.randrange(1, 1 << 30),
                        blockms=(rnd.choice([0, 0, 45]) if block else 0)))
        # large WriteMessage payloads: several frames per call (client) / the direct-write path (server)
        out[-1]["scale"] = rnd.choice([1, 1, 3 * out[-1]["wbuf"] + 30])
        out[-1]["pool"] = rnd.random() < 0.5
        out[-1]["faultKind"] = rnd.choice(["err", "timeout", "short"])
    return out


def run_race(progs, name):
    """Run programs under the Go race detector; returns list of (program, report) for detected races."""
    exe = os.path.join(core.BIN, "wsdrive-race")
    d = os.path.join(core.RUN, name)
    os.makedirs(d, exist_ok=True)
    parts = core.shard(progs, core.NCPU)
    found = []
    files = []
    import concurrent.futures as cf

    def one(i):
        pin = os.path.join(d, "race.progs.%d.ndjson" % i)
        pout = os.path.join(d, "race.traces.%d.ndjson" % i)
        core.write_ndjson(pin, parts[i])
        env = dict(os.environ, GORACE="halt_on_error=1 exitcode=66")
        p = subprocess.run([exe, "-fam", "conc", "-in", pin, "-out", pout], capture_output=True, text=True, timeout=1800, env=env)
        if p.returncode == 66 or "DATA RACE" in p.stderr:
            # the program being executed is the one after the last completed trace
            done = 0
            if os.path.exists(pout):
                done = sum(1 for l in open(pout) if '"e":"Reset"' in l)
            idx = min(done, len(parts[i]) - 1)
            return (None, (parts[i][idx], p.stderr[-3000:]))
        if p.returncode != 0:
            raise core.Infra("race driver failed: " + p.stderr[-2000:])
        return (pout, None)

    with cf.ThreadPoolExecutor(max_workers=core.NCPU) as ex:
        for f, r in ex.map(one, range(len(parts))):
            if f:
                files.append(f)
            if r:
                found.append(r)
    return files, found


def run_share(pid, tier, count, nconn=6, race=True):
    """Connections running concurrently (one goroutine each) that share one buffer pool and one set of prepared
    messages; every connection's own trace is validated against WSWriter; optionally under the race detector."""
    from . import writer
    seed = core.seed()
    core.build_driver()
    if race:
        core.build_driver(race=True)
    q = tier == "quick"
    progs = []
    states = trans = 0
    import copy
    for fam, filt in (("prepared", None), ("invalid", lambda p: p["conns"][0]["pool"])):
        r = core.run_mc("MC_W.tla", "MC_W_%s%s.cfg" % (fam, "_quick" if q else ""), "%s-mc-share-%s" % (pid, fam))
        ps = [copy.deepcopy(p) for p in r["progs"] if (filt is None or filt(p))]
        # no close / no misuse in shared runs: keep programs whose ops are WP WM NW WR CL EC SL SD WC(non-close)
        ps = [p for p in ps if all(not (o["op"] in ("WC", "WM", "NW") and o.get("type") == 8) and not (o["op"] == "WP" and o.get("pm") == 3) for o in p["ops"])]
        for p in ps:
            for c in p["conns"]:
                c["pool"] = True
        progs += writer.interleave(ps, seed + len(progs), count // 2, nconn)
        states += r["states"]; trans += r["transitions"]
    conc = writer.concretise(progs, pid + ".sh", tier, seed, 1, [16, 125, 1024, 4096])
    name = "%s-%s-share" % (pid, tier)
    core.rundir(name)
    files = core.drive("share", conc, name, race=race)
    res = core.validate("WSWriterTrace.tla", "WSWriterTrace.cfg", files, name)
    log("[%s] shared pool/PreparedMessage: %d concurrent groups of %d connections, %d traces / %d events%s" % (
        pid, len(conc), nconn, res["traces"], res["events"], " (race detector on)" if race else ""))
    byid = {p["id"]: p for p in conc}
    violations = []
    for rj in res["rejections"][:4]:
        base = rj["tid"].rsplit("/", 1)[0]
        prog = byid.get(base, dict(id=base))
        violations.append(core.save_replay(pid, "share", prog, rj["trace"], "event %d not explained by WSWriter (concurrent shared pool / prepared message): %s" % (
            rj["index"], json.dumps(rj["event"])[:500])))
    cov = dict(states=states, transitions=trans, traces_validated_against_impl=res["traces"], trace_events=res["events"], groups=len(conc),
               samples=[dict(program=conc[0])] if conc else [])
    return violations, cov


def run_conc_check(pid, tier, n_sched, n_free, race=False, assumptions=(), fault_only=False, light=False):
    """fault_only (C10): only the replay part, over schedules in which a write-side transport operation fails while
    other writers are queued; the exhaustive model runs belong to C09/C11."""
    t0 = time.time()
    seed = core.seed()
    core.build_driver()
    if race:
        core.build_driver(race=True)
    if fault_only:
        return _replay_part(pid, tier, n_sched, n_free, race, seed, t0, None, "MC_Conc_sim_fault.cfg")
    if light:
        # replay part only (C02: the wire stays well-formed under concurrent WriteControl callers)
        return _replay_part(pid, tier, n_sched, n_free, race, seed, t0, None, "MC_Conc_sim.cfg" if tier == "quick" else "MC_Conc_sim_thorough.cfg",
                            force_fault=False)
    mc = core.run_mc("MC_Conc.tla", "MC_Conc_quick.cfg" if tier == "quick" else "MC_Conc_thorough.cfg", "%s-mc-conc" % pid, heap="16g")
    log("[%s] MC lock protocol vs monitor: %d distinct states, %d generated, %.1fs" % (pid, mc["states"], mc["transitions"], mc["wall"]))
    live = core.run_mc("MC_Conc.tla", "MC_Conc_live.cfg", "%s-mc-live" % pid, workers=8)
    log("[%s] liveness (WriteControl with a finite deadline always returns, fairness of the control callers only): %d states" % (pid, live["states"]))
    ref = core.run_mc("MC_Conc.tla", "MC_Conc_refine.cfg", "%s-mc-refine" % pid, workers=8)
    nobl = core.run_tlapm("proof/WSLockCoreProof.tla")
    log("[%s] lock protocol refines WSLockCore (%d states); TLAPS: %d obligations of the inductive invariant proved (any number of threads)" % (pid, ref["states"], nobl))
    mut = core.expect_violation("MC_Conc.tla", "MC_Conc_mutation.cfg", "%s-mc-mutation" % pid)
    log("[%s] sensitivity: the 'sticky check before the lock' deviation violates %s after %d states (as it must)" % (pid, mut["invariant"], mut["states"]))
    return _replay_part(pid, tier, n_sched, n_free, race, seed, t0, dict(mc=mc, live=live, ref=ref, nobl=nobl, mut=mut),
                        "MC_Conc_sim.cfg" if tier == "quick" else "MC_Conc_sim_thorough.cfg")


def _replay_part(pid, tier, n_sched, n_free, race, seed, t0, model, sim_cfg, force_fault=True):
    sim = core.run_sim("MC_Conc.tla", sim_cfg, "%s-sim" % pid, n_sched, 200, seed)
    scheds = sim["progs"]
    if not scheds:
        raise core.Infra("no schedules generated")
    conc = concretise(scheds, pid, tier, seed)
    free = free_programs(scheds, pid, tier, seed, n_free, block=True)
    if model is None and force_fault:
        for p in free:
            if p["faultAt"] == 0:
                p["faultAt"] = 1 + (p["seed"] % 5)
    allp = conc + free
    byid = {p["id"]: p for p in allp}
    name = "%s-%s-conc" % (pid, tier)
    core.rundir(name)
    files = core.drive("conc", allp, name)
    violations = []
    races = 0
    if race:
        rfiles, found = run_race(free_programs(scheds, pid + "r", tier, seed + 1, n_free, block=False) + conc[: max(50, len(conc) // 4)], name)
        files += rfiles
        for prog, report in found[:3]:
            races += 1
            path = core.save_replay(pid, "conc", prog, [], "data race reported by the Go race detector", extra=dict(report=report))
            violations.append(path)
    # vacuity control: the replayed executions must contain the situations the properties are about
    floors = dict(wc_timeout=0, wc_closesent=0, ctl_between_fragments=0, transport_fault=0, close_by_reader=0, write_after_close_attempt=0)
    for fn in files:
        last_w_open = False
        closed = False
        for line in open(fn):
            e = json.loads(line)
            if e["e"] == "Reset":
                last_w_open = False; closed = False
            elif e["e"] == "Ret" and e["err"]["cls"] == "timeout":
                floors["wc_timeout"] += 1
            elif e["e"] == "Ret" and e["err"]["cls"] == "closesent":
                floors["wc_closesent"] += 1
            elif e["e"] == "Call" and closed:
                floors["write_after_close_attempt"] += 1
            elif e["e"] == "Op":
                it = e["it"]
                if it["t"] == "WERR" or (it["t"] == "SWD" and it.get("err")):
                    floors["transport_fault"] += 1
                if it["t"] == "F":
                    if e["t"] == "W" and it["op"] < 8:
                        last_w_open = not it["fin"]
                    elif e["t"] != "W" and last_w_open:
                        floors["ctl_between_fragments"] += 1
                    if it["op"] == 8:
                        closed = True
                        if e["t"] == "R":
                            floors["close_by_reader"] += 1
    # (the auxiliary replay parts of C02 / C08 have no mandatory floor: what they observed is recorded in the coverage)
    need = ("wc_timeout", "wc_closesent", "transport_fault", "write_after_close_attempt") if model else (("transport_fault",) if force_fault else ())
    missing = [k for k, v in floors.items() if v == 0 and k in need]
    if missing:
        raise core.Infra("coverage floor not met in the replayed schedules (never observed): %s" % ", ".join(missing))
    res = core.validate("WSConcTrace.tla", "WSConcTrace.cfg", files, name)
    log("[%s] replayed %d schedules + %d free runs, validated %d traces / %d events" % (pid, len(conc), len(free), res["traces"], res["events"]))
    for rj in res["rejections"][:6]:
        prog = byid.get(rj["tid"])
        if prog is None:
            # a race-mode program
            prog = dict(id=rj["tid"])
            path = core.save_replay(pid, "conc", prog, rj["trace"], "event %d not explained by WSConc: %s" % (rj["index"], json.dumps(rj["event"])[:500]))
            violations.append(path)
            continue
        # reproduce (schedules are deterministic; free runs are retried a few times)
        ok = False
        for attempt in range(5 if prog["free"] else 2):
            rname = name + "-repro"
            core.rundir(rname)
            f2 = core.drive("conc", [prog], rname, shards=1)
            r2 = core.validate("WSConcTrace.tla", "WSConcTrace.cfg", f2, rname)
            if r2["rejections"]:
                ok = True
                rj = r2["rejections"][0]
                break
        if not ok and not prog["free"]:
            raise core.Infra("rejection of %s did not reproduce" % rj["tid"])
        path = core.save_replay(pid, "conc", prog, rj["trace"], "event %d not explained by WSConc: %s" % (rj["index"], json.dumps(rj["event"])[:500]),
                                extra=dict(reproduced=ok))
        violations.append(path)
    if model is None:
        cov = dict(situations_observed=floors, states=sim["states"], transitions=sim["states"], traces_validated_against_impl=res["traces"],
                   trace_events=res["events"], simulated_model_states=sim["states"], schedules_replayed=len(conc), free_runs=len(free),
                   evaluations=res["traces"], distinct_nontrivial=len(conc), exhaustive=False,
                   rule="schedules with a failing write-side transport operation drawn by TLC -simulate from WSConcMC (%s), replayed through the "
                        "verification gates; free runs with a fault; validated against the monitor WSConc" % sim_cfg,
                   samples=[dict(program=conc[0])] if conc else [])
        return violations, cov, time.time() - t0
    mc, live, ref, nobl, mut = model["mc"], model["live"], model["ref"], model["nobl"], model["mut"]
    cov = dict(refinement=dict(config="MC_Conc_refine.cfg", states=ref["states"], property="Core!Spec (WSLockCore)"),
               proof=dict(module="spec/proof/WSLockCoreProof.tla", obligations=nobl, discharged=nobl, checker_cmd="tlapm --threads 16 WSLockCoreProof.tla",
                          theorem="Spec => []IndInv, hence a close frame is the last frame written and the transport section is exclusive, for any set of threads"),
               situations_observed=floors, expected_violation=dict(config="MC_Conc_mutation.cfg", invariant=mut["invariant"]), states=mc["states"] + live["states"], transitions=mc["transitions"] + live["transitions"], liveness_states=live["states"],
               traces_validated_against_impl=res["traces"],
               trace_events=res["events"], simulated_model_states=sim["states"], schedules_replayed=len(conc), free_runs=len(free),
               race_detector=race, races=races, evaluations=res["traces"], distinct_nontrivial=len(conc),
               rule="schedules = behaviours of the lock-protocol model WSConcMC drawn by TLC -simulate (distinct step sequences), replayed "
                    "through the verification gates; free runs = the same thread programs without gates and with random yields; "
                    "every recorded execution is validated against the monitor WSConc",
               samples=[dict(program=conc[0]), dict(program=free[0])] if conc and free else [dict(program=allp[0])],
               exhaustive=False)
    return violations, cov, time.time() - t0
