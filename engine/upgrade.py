"""Checks built on the server handshake model (WSTokens / WSOrigin / WSUpgrade / WSUpgradeMC /
WSUpgradeTrace): C12, C13 and the server part of C16.  Pipeline: TLC enumerates abstract programs
(request x Upgrader settings x responseHeader x fault) -> concretise (case, OWS, extra tokens, line
splitting, keys, buffer sizes) -> Go driver family "upgrade" (real Upgrader.Upgrade over a fake
ResponseWriter/Hijacker and a fault-injecting logged connection) -> TLC trace validation against the
envelope WSUpgrade!OutcomeAllowed (TLC parses the request lines and the raw 101 bytes itself)."""
import base64, hashlib, json, os, random, time
from concurrent.futures import ThreadPoolExecutor
from . import core
from .core import log

MAX_REPRO = 4   # rejections re-executed and reported per run (each costs a fresh driver + TLC process)
TRACE = ("WSUpgradeTrace.tla", "WSUpgradeTrace.cfg")
FAM = "upgrade"

ASSUME = [
    "TLC 1.8.0 and the CommunityModules (Json, IOUtils) are correct",
    "the driver reports facts faithfully: header lines of the request as handed to Upgrade, return values, "
    "ResponseWriter status/headers, operations on the hijacked connection, raw bytes written to it; the RFC 6455 "
    "accept digest of the key is computed by harness code (crypto/sha1, encoding/base64) independent of the library",
    "requests are handed to Upgrade as net/http would (canonical header keys, Host in Request.Host)",
    "token-list header fields that are not well-formed 1#token lists, malformed extension offers and "
    "multiply-defective requests have no fixed outcome/status in the envelope (DESIGN 8)",
    "bounds: only the program spaces named in the MC configs are explored",
]


def cps(s):
    return [ord(c) for c in s]


def text(c):
    return "".join(chr(x) for x in c)


# ---- concretisation -------------------------------------------------------------------------

EXTRA_TOKENS = ["keep-alive", "foo", "TE", "x-1", "h2c"]
TCHARS = "!#$%&'*+-.^_`|~0123456789ABCDEFGHIJKLMNOPQRSTUVWXYZabcdefghijklmnopqrstuvwxyz"


def rand_token(rnd):
    """An unrelated token over the WHOLE RFC 7230 tchar alphabet (the specification re-parses the bytes, so any token
    is fine): a list element made of characters the library's token table must know."""
    if rnd.random() < 0.3:
        return rnd.choice(EXTRA_TOKENS)
    return "".join(rnd.choice(TCHARS) for _ in range(rnd.choice([1, 1, 2, 3])))


def split_commas(line):
    out, cur = [], []
    for c in line:
        if c == 44:
            out.append(cur)
            cur = []
        else:
            cur.append(c)
    out.append(cur)
    return out


def mutate_token_lines(lines, rnd, fold=True, extra=True):
    """Vary a token-list header field without changing which tokens it contains up to ASCII case:
    flip letter case (fold=True only), put random OWS around commas, add an unrelated token, split a
    line at a comma into two header lines.  The trace specification re-parses the resulting bytes."""
    out = []
    for line in lines:
        elems = split_commas(line)
        if fold:
            elems = [[(c ^ 32) if (65 <= c <= 90 or 97 <= c <= 122) and rnd.random() < 0.3 else c for c in e] for e in elems]
        if len(elems) > 1 or rnd.random() < 0.5:
            def ows():
                return [rnd.choice([32, 9]) for _ in range(rnd.choice([0, 0, 1, 1, 2]))]
            elems = [ows() + strip_ows(e) + ows() if strip_ows(e) else e for e in elems]
        if extra and rnd.random() < 0.3:
            t = cps(rand_token(rnd))
            if rnd.random() < 0.5:
                elems.append([32] + t)
            else:
                elems.insert(0, t + [32] if rnd.random() < 0.5 else t)
        if len(elems) > 1 and rnd.random() < 0.25:
            k = rnd.randrange(1, len(elems))
            out.append(join_commas(elems[:k]))
            out.append(join_commas(elems[k:]))
        else:
            out.append(join_commas(elems))
    return out


def strip_ows(e):
    a, b = 0, len(e)
    while a < b and e[a] in (32, 9):
        a += 1
    while b > a and e[b - 1] in (32, 9):
        b -= 1
    return e[a:b]


def join_commas(elems):
    out = []
    for i, e in enumerate(elems):
        if i:
            out.append(44)
        out += e
    return out


def gen_key(cls, rnd):
    def rb(n):
        return bytes(rnd.randrange(256) for _ in range(n))
    if cls == "valid":
        return cps(base64.b64encode(rb(16)).decode())
    if cls.startswith("len"):
        return cps(base64.b64encode(rb(int(cls[3:]))).decode())
    if cls == "badalpha":
        k = list(base64.b64encode(rb(16)).decode())
        k[rnd.randrange(0, 21)] = rnd.choice("*!. ~")
        return cps("".join(k))
    if cls == "noncanon":
        # 16 octets in a non-canonical spelling: the 22nd symbol keeps its 2 data bits, the 4 unused bits are non-zero
        k = list(base64.b64encode(rb(16)).decode())
        alpha = "ABCDEFGHIJKLMNOPQRSTUVWXYZabcdefghijklmnopqrstuvwxyz0123456789+/"
        k[21] = alpha[(alpha.index(k[21]) // 16) * 16 + rnd.randrange(1, 16)]
        return cps("".join(k))
    if cls == "urlsafe":
        # 16 bytes whose encoding needs the characters 62/63 of the alphabet, URL-safe variant
        while True:
            raw = rb(16)
            u = base64.urlsafe_b64encode(raw).decode()
            if "-" in u or "_" in u:
                return cps(u)
    return []


RBUFS = [0, 1, 125, 256, 1024, 4096]
WBUFS = [0, 1, 16, 512, 4096]
HSIZES = [16, 256, 257, 4096]
HWSIZES = [16, 256, 4096, 8192]
HTOS = [0, 0, 1, 5000]


def concretise(progs, pid, tier, seed, mult, vary_cfg=True, vary_lines=True):
    rnd = random.Random(seed * 15485863 + 17)
    out = []
    for i, p in enumerate(progs):
        for m in range(mult):
            q = json.loads(json.dumps(p))
            req, cfg = q["req"], q["cfg"]
            if vary_lines and (m > 0 or mult == 1 and rnd.random() < 0.5):
                for f in ("conn", "upg", "ver"):
                    req[f] = mutate_token_lines(req[f], rnd)
                req["proto"] = mutate_token_lines(req["proto"], rnd, fold=False, extra=False)
            k = req["key"]
            if k.get("cls") in ("valid", "len14", "len15", "len17", "len18", "badalpha", "urlsafe", "noncanon") and (
                    m > 0 or (k["cls"] != "noncanon" and rnd.random() < 0.7)):   # the enumerated non-canonical spellings are kept as they are
                k["v"] = gen_key(k["cls"], rnd)
            if vary_cfg:
                cfg["rbuf"] = rnd.choice(RBUFS)
                cfg["wbuf"] = rnd.choice(WBUFS)
                cfg["pool"] = rnd.random() < 0.3
                cfg["hsize"] = rnd.choice(HSIZES)
                cfg["hwsize"] = rnd.choice(HWSIZES)
                if q["fault"]["op"] == 0:
                    cfg["hto"] = rnd.choice(HTOS)
                cfg["errfn"] = rnd.random() < 0.25
            out.append(dict(id="%s-%s-%d-%d" % (pid, tier[0], i, m), p=q))
    return out


def _afold(cp):
    return [c + 32 if 65 <= c <= 90 else c for c in cp]


def likely_same_origin(p):
    """ORDERING HEURISTIC ONLY (never a verdict): does the request look like a same-origin one?"""
    r = p["req"]
    o = r["origin"]
    if not o["present"] or o["shape"] not in ("plain", "userinfo", "path") or p["cfg"]["checkOrigin"] != "nil":
        return False
    auth = o["y"] + ([58] + o["port"] if o["port"] else [])
    return _afold(auth) == _afold(r["host"])


def order_by_origin(conc, rnd):
    """The default origin policy is a function of (Host, Origin) of ONE request; a library that remembers earlier requests
    (a cache keyed by the Origin string, say) answers differently depending on what the process saw before.  All programs of
    a driver process share the library's process-wide state, so the order matters: programs that send the same Origin
    header value are placed next to each other (same shard), and for most such groups the same-origin request(s) come
    first and the requests of the other Hosts follow; the remaining groups are shuffled (refusals first, too)."""
    groups, order = {}, []
    for c in conc:
        o = c["p"]["req"]["origin"]
        k = tuple(o["str"]) if o["present"] and c["p"]["cfg"]["checkOrigin"] == "nil" else None
        if k not in groups:
            groups[k] = []
            order.append(k)
        groups[k].append(c)
    out, primed = [], 0
    for k in order:
        g = groups[k]
        if k is None or len(g) == 1:
            out += g
            continue
        acc = [c for c in g if likely_same_origin(c["p"])]
        rej = [c for c in g if not likely_same_origin(c["p"])]
        if acc and rej and rnd.random() < 0.75:
            out += acc + rej
            primed += 1
        else:
            rnd.shuffle(g)
            out += g
    return out, primed


def primed_refusals(conc):
    """Coverage accounting: requests that should be refused and run, in the same driver process, AFTER a same-origin request
    with the byte-identical Origin header value (and the reverse: same-origin requests after a refusal of that value)."""
    a_then_r = r_then_a = 0
    for part in core.shard(conc, core.NCPU):
        acc, rej = set(), set()
        for c in part:
            o = c["p"]["req"]["origin"]
            if not o["present"] or c["p"]["cfg"]["checkOrigin"] != "nil":
                continue
            k = tuple(o["str"])
            if likely_same_origin(c["p"]):
                r_then_a += k in rej
                acc.add(k)
            else:
                a_then_r += k in acc
                rej.add(k)
    return dict(refusal_after_same_origin_accept_with_identical_Origin=a_then_r,
                same_origin_accept_after_refusal_with_identical_Origin=r_then_a)


def key_of(p):
    return json.dumps(p, sort_keys=True)


# ---- generic check ---------------------------------------------------------------------------

def describe(prog):
    """Human readable summary of a concrete upgrade program (for replay files / reports)."""
    p = prog["p"]
    r = p["req"]
    d = dict(method=r["method"], connection=[text(x) for x in r["conn"]], upgrade=[text(x) for x in r["upg"]],
             version=[text(x) for x in r["ver"]], key=text(r["key"]["v"]) if r["key"]["present"] else None,
             host=text(r["host"]), origin=text(r["origin"]["str"]) if r["origin"]["present"] else None,
             offered_protocols=[text(x) for x in r["proto"]], extensions=[text(x) for x in r["ext"]],
             upgrader=dict(CheckOrigin=p["cfg"]["checkOrigin"], Subprotocols=None if p["cfg"]["subsNil"] else [text(x) for x in p["cfg"]["subs"]],
                           EnableCompression=p["cfg"]["compress"], HandshakeTimeout_ms=p["cfg"]["hto"], ReadBufferSize=p["cfg"]["rbuf"],
                           WriteBufferSize=p["cfg"]["wbuf"], pool=p["cfg"]["pool"], custom_Error=p["cfg"]["errfn"]),
             responseHeader=None if p["rh"]["nil"] else dict(
                 **({"Sec-Websocket-Protocol": text(p["rh"]["proto"]["v"])} if p["rh"]["proto"]["present"] else {}),
                 **({text(p["rh"].get("extKey") or cps("Sec-Websocket-Extensions")): text(p["rh"].get("extV") or [])} if p["rh"]["hasExt"] else {}),
                 extras=[[text(e["name"]), text(e["v"])] for e in p["rh"]["extras"]]),
             fault=p["fault"])
    return d


def run_mcs(pid, mcs):
    """Run several MC configs in parallel (each with a share of the cores)."""
    def one(mc):
        mod, cfg = mc
        r = core.run_mc(mod, cfg, "upg-%s-mc-%s" % (pid, cfg.replace(".cfg", "")), workers=max(2, core.NCPU // len(mcs)))
        log("[%s] MC %s/%s: %d states, %d programs, %.1fs" % (pid, mod, cfg, r["states"], len(r["progs"]), r["wall"]))
        return r
    with ThreadPoolExecutor(max_workers=len(mcs)) as ex:
        return list(ex.map(one, mcs))


def validate(trace, files, name):
    """core.validate with a JIT setting suited to many short-lived JVMs running side by side (C1 only)."""
    old = os.environ.get("JAVA_TOOL_OPTIONS")
    os.environ["JAVA_TOOL_OPTIONS"] = ((old + " ") if old else "") + "-XX:TieredStopAtLevel=1"
    try:
        return core.validate(trace[0], trace[1], files, name)
    finally:
        if old is None:
            os.environ.pop("JAVA_TOOL_OPTIONS", None)
        else:
            os.environ["JAVA_TOOL_OPTIONS"] = old


def find_program(trace_files, tid):
    """Read a concrete program back from the shard files written by core.drive (progs.N.ndjson next to traces.N.ndjson)."""
    needle = json.dumps(tid)
    for tf in trace_files:
        pf = os.path.join(os.path.dirname(tf), os.path.basename(tf).replace("traces.", "progs."))
        if not os.path.exists(pf):
            continue
        for line in open(pf):
            if needle in line:
                p = json.loads(line)
                if p.get("id") == tid:
                    return p
    return None


def history_from_files(trace_files, tid):
    """The programs that ran in the same driver process up to and including tid (shard file order = execution order)."""
    needle = json.dumps(tid)
    for tf in trace_files:
        pf = os.path.join(os.path.dirname(tf), os.path.basename(tf).replace("traces.", "progs."))
        if not os.path.exists(pf):
            continue
        lines = open(pf).readlines()
        for i, line in enumerate(lines):
            if needle in line and json.loads(line).get("id") == tid:
                return [json.loads(l) for l in lines[:i + 1]]
    return None


def reproduce_after(fam, trace, seq, tid, rname):
    """Execute seq in ONE fresh driver process and validate the trace of its last program tid alone (every trace is judged
    on its own: the specification is history-free).  Returns the rejection or None."""
    core.rundir(rname)
    f = core.drive(fam, seq, rname, shards=1)
    lines = open(f[0]).readlines()
    start = None
    for i, l in enumerate(lines):
        if '"e":"Reset"' in l:
            if start is not None:
                lines = lines[:i]
                break
            if json.loads(l).get("tid") == tid:
                start = i
    if start is None:
        return None
    tf = os.path.join(os.path.dirname(f[0]), "traces.target.ndjson")
    with open(tf, "w") as out:
        out.writelines(lines[start:])
    r = validate(trace, [tf], rname + "-t")
    return r["rejections"][0] if r["rejections"] else None


def shrink_history(fam, trace, before, prog, rname, budget):
    """Delta-debugging (ddmin, bounded): drop parts of the history as long as the last program is still rejected."""
    n = 2
    while before and budget > 0:
        chunk = (len(before) + n - 1) // n
        removed = False
        for i in range(0, len(before), chunk):
            cand = before[:i] + before[i + chunk:]
            budget -= 1
            if reproduce_after(fam, trace, cand + [prog], prog["id"], rname):
                before, n, removed = cand, max(n - 1, 2), True
                break
            if budget <= 0:
                break
        if not removed:
            if chunk <= 1:
                break
            n = min(n * 2, len(before))
    return before


def run_check(pid, tier, parts, fam=FAM, trace=TRACE, assumptions=ASSUME, floors=None, rule="", describe_fn=describe,
              evidence_id=None, extra_cov=None):
    """parts: list of dict(mc=(module,cfg), conc=function(progs, rnd_seed)->concrete programs, max_progs=None).
    Returns (exit code, coverage)."""
    t0 = time.time()
    seed = core.seed()
    core.build_driver()
    rs = run_mcs(pid, [pt["mc"] for pt in parts])
    conc = []
    states = trans = 0
    nabs = 0
    exhaustive = True
    distinct = set()
    for pt, r in zip(parts, rs):
        progs = r["progs"]
        if not progs:
            raise core.Infra("no programs generated by %s/%s" % pt["mc"])
        states += r["states"]
        trans += r["transitions"]
        if pt.get("max_progs") and len(progs) > pt["max_progs"]:
            progs = random.Random(seed).sample(progs, pt["max_progs"])
            exhaustive = False
        # TLC prints an initial state once per generation (before fingerprint deduplication)
        # (memory: thorough tiers have several 10^5 programs; keep digests, release TLC's parsed output early)
        uniq = {}
        for p in progs:
            uniq.setdefault(hashlib.md5(key_of(p).encode()).digest(), p)
        progs = list(uniq.values())
        nabs += len(progs)
        distinct.update(uniq.keys())
        del uniq
        r["progs"] = None
        conc += pt["conc"](progs, seed)
        del progs
    ids = set()
    for c in conc:
        if c["id"] in ids:
            raise core.Infra("duplicate program id %s" % c["id"])
        ids.add(c["id"])
    name = "upg-%s-%s" % (pid, tier)
    core.rundir(name)
    files = core.drive(fam, conc, name)
    cov_extra = {}
    if floors:
        cov_extra = floors(conc, files)
    nconc = len(conc)
    samples = [dict(program=conc[i]) for i in sorted({0, nconc // 2, nconc - 1})]
    del conc, ids          # (memory) the programs are in the shard files now; a rejected one is read back from there
    res = validate(trace, files, name)
    log("[%s] drove %d programs, validated %d traces / %d events (%d TLC states), %.1fs so far"
        % (pid, nconc, res["traces"], res["events"], res["states"], time.time() - t0))
    if res["traces"] != nconc:
        raise core.Infra("trace count mismatch: %d programs, %d traces" % (nconc, res["traces"]))
    violations = []
    nhist = 0
    for rj in res["rejections"][:MAX_REPRO]:
        prog = find_program(files, rj["tid"])
        if prog is None:
            raise core.Infra("rejected trace without program: %r" % rj["tid"])
        rname = name + "-repro"
        core.rundir(rname)
        f2 = core.drive(fam, [prog], rname, shards=1)
        r2 = validate(trace, f2, rname)
        if not r2["rejections"]:
            # Not reproducible alone: does the verdict depend on what ran before it in the same process?  The property
            # quantifies over the requests of one process, so a rejection that needs a history is a violation too: re-drive
            # the programs of its shard up to and including it (same order, fresh process), then shrink the history.
            seq = history_from_files(files, rj["tid"])
            hit = reproduce_after(fam, trace, seq, rj["tid"], rname) if seq else None
            if not hit:
                raise core.Infra("rejection of %s did not reproduce (neither alone nor after the %d programs that ran before it)"
                                 % (rj["tid"], len(seq or []) - 1))
            before = shrink_history(fam, trace, seq[:-1], prog, rname, budget=14 if nhist < 2 else 0)
            nhist += 1
            hit = reproduce_after(fam, trace, before + [prog], rj["tid"], rname) or hit
            why = ("event %d (%s) is not admitted by the specification, but only after %d other program(s) ran before it in the same "
                   "process (history-dependent verdict; alone the program is accepted): %s"
                   % (hit["index"], hit["event"].get("e"), len(before), json.dumps(hit["event"])[:500]))
            extra = dict(summary=describe_fn(prog), history=[describe_fn(q) for q in before[-5:]]) if describe_fn else None
            violations.append(core.save_replay(pid, fam, dict(id=prog["id"], batch=before + [prog]), hit["trace"], why, extra=extra))
            continue
        rj2 = r2["rejections"][0]
        why = "event %d (%s) is not admitted by the specification: %s" % (rj2["index"], rj2["event"].get("e"), json.dumps(rj2["event"])[:600])
        path = core.save_replay(pid, fam, prog, rj2["trace"], why, extra=dict(summary=describe_fn(prog)) if describe_fn else None)
        violations.append(path)
    cov = dict(states=states, transitions=trans, traces_validated_against_impl=res["traces"],
               trace_events=res["events"], trace_validation_states=res["states"],
               evaluations=nconc, distinct_nontrivial=len(distinct), abstract_programs=nabs,
               rule=rule or "abstract programs = initial states of the TLC runs; every one performs a complete Upgrade call "
                            "(non-trivial); distinct by abstract program; each is concretised and executed on the real library",
               samples=samples, exhaustive=exhaustive, mc_configs=["%s/%s" % pt["mc"] for pt in parts])
    cov.update(cov_extra)
    if extra_cov:
        cov.update(extra_cov)
    core.write_evidence(evidence_id or pid, tier, "model_checking", cov, time.time() - t0, len(violations), list(assumptions))
    for v in violations:
        print("VIOLATION property=%s replay=%s" % (pid, v), flush=True)
    return (1 if violations else 0), cov


# ---- C12 --------------------------------------------------------------------------------------

def c12_floors(conc, files):
    """Sub-space accounting: port cells of the origin clause (every cell hit) and quoted-string extension offers."""
    cells = port_cells(conc)
    missing = [k for k in PORT_CELLS if cells[k] == 0]
    if missing:
        raise core.Infra("coverage floor missed: no same-host request in port cells %s" % missing)
    quoted = qpair = pmd_in_quotes = 0
    for c in conc:
        ext = [text(x) for x in c["p"]["req"]["ext"]]
        if any('"' in e for e in ext):
            quoted += 1
            if any("\\" in e for e in ext):
                qpair += 1
            if any(in_quotes(e, "permessage-deflate") for e in ext):
                pmd_in_quotes += 1
    if qpair == 0 or pmd_in_quotes == 0:
        raise core.Infra("coverage floor missed: quoted-pair offers=%d, permessage-deflate inside quotes=%d" % (qpair, pmd_in_quotes))
    hist = primed_refusals(conc)
    if min(hist.values()) == 0:
        raise core.Infra("coverage floor missed: request order does not exercise process-wide state: %r" % hist)
    return dict(port_cells_same_host=dict(cells), history=hist, ext_offers_with_quoted_string=quoted, ext_offers_with_quoted_pair=qpair,
                ext_offers_with_pmd_text_inside_quotes=pmd_in_quotes)


def in_quotes(line, needle):
    """Does `needle` occur inside a quoted-string of the header line (RFC 7230 scan; accounting only)?"""
    i, n = 0, len(line)
    while i < n:
        if line[i] == '"':
            j = i + 1
            while j < n and line[j] != '"':
                j += 2 if line[j] == "\\" else 1
            if needle in line[i + 1:j]:
                return True
            i = j + 1
        else:
            i += 1
    return False


def c12(tier):
    q = tier == "quick"
    sfx = "quick" if q else "thorough"
    parts = [
        dict(mc=("MC_C12.tla", "MC_C12_core_%s.cfg" % sfx),
             conc=lambda progs, seed: order_by_origin(concretise(progs, "C12c", tier, seed, 3 if q else 1),
                                                      random.Random(seed * 101 + 7))[0]),
        dict(mc=("MC_C12.tla", "MC_C12_nego_%s.cfg" % sfx),
             conc=lambda progs, seed: concretise(progs, "C12n", tier, seed + 1, 1)),
        dict(mc=("MC_C12.tla", "MC_C12_ext_%s.cfg" % sfx),
             conc=lambda progs, seed: concretise(progs, "C12x", tier, seed + 2, 1)),
    ]
    rc, _ = run_check("C12", tier, parts, floors=c12_floors,
                      rule="abstract programs = initial states of MC_C12 (core: method x Connection x Upgrade x Version x Key x "
                           "(CheckOrigin, Origin) x app extension header; nego: offers x Subprotocols x responseHeader x extension "
                           "offers x EnableCompression; ext: quoted-string parameter values with quoted-pairs, commas, semicolons, '=' and the "
                           "text permessage-deflate inside the quotes x element frames x one/two header lines x EnableCompression; core "
                           "also: Host port {none,:80,:443,:8080} x Origin scheme {http,https,ws,wss} x Origin port {none,80,443,8080} on "
                           "the same host name, alone and with one other deviation); every program is one complete Upgrade call (non-trivial); distinct by "
                           "abstract program; concretised with random case/OWS/extra tokens/line splitting, keys, buffer sizes, "
                           "pool, HandshakeTimeout, custom Error func")
    return rc


# ---- C13 --------------------------------------------------------------------------------------

def base_p(host, origin):
    return dict(req=dict(method="GET", conn=[cps("Upgrade")], upg=[cps("websocket")], ver=[cps("13")],
                         key=dict(present=True, cls="valid", v=cps("dGhlIHNhbXBsZSBub25jZQ==")),
                         host=host, origin=origin, proto=[], ext=[]),
                cfg=dict(checkOrigin="nil", subsNil=True, subs=[], compress=False, hto=0, errfn=False,
                         rbuf=0, wbuf=0, pool=False, hsize=4096, hwsize=4096),
                rh=dict(nil=True, hasExt=False, extKey=cps("Sec-Websocket-Extensions"), extV=cps("x-app-extension"),
                        proto=dict(present=False, v=[]), extras=[]),
                fault=dict(op=0, kind="err", closeErr=False, hijackErr=False))


def conc_c13(progs, tier, seed):
    rnd = random.Random(seed * 7 + 3)
    out = []
    for i, a in enumerate(progs):
        p = base_p(a["host"], a["origin"])
        if rnd.random() < 0.3:
            p["cfg"]["errfn"] = True
        p["req"]["key"]["v"] = gen_key("valid", rnd)
        out.append(dict(id="C13-%s-%d" % (tier[0], i), p=p))
    out, _ = order_by_origin(out, rnd)
    return out


def outcome_counts(conc, files):
    up = ref = 0
    for f in files:
        for line in open(f):
            if '"e":"Upgrade"' in line:
                if '"conn":true' in line:
                    up += 1
                else:
                    ref += 1
    if up == 0 or ref == 0:
        raise core.Infra("coverage floor missed: upgraded=%d refused=%d (both outcomes must occur)" % (up, ref))
    return dict(upgraded=up, refused=ref)


def port_class(port, scheme):
    """Class of an explicit port relative to the origin's scheme: none / default (of that scheme) / otherdefault / other."""
    if not port:
        return "none"
    dflt = {"http": "80", "ws": "80", "https": "443", "wss": "443"}
    if dflt.get(scheme) == port:
        return "default"
    return "otherdefault" if port in ("80", "443") else "other"


def port_cells(conc):
    """(Host port class, Origin port class) cells hit by requests whose origin has an authority with the same host name."""
    from collections import Counter
    cells = Counter()
    for c in conc:
        r = c["p"]["req"]
        o = r["origin"]
        if not o["present"] or o["shape"] not in ("plain", "userinfo", "path") or c["p"]["cfg"]["checkOrigin"] != "nil":
            continue
        host = text(r["host"])
        hname, _, hport = host.rpartition(":") if (":" in host and not host.endswith("]")) else (host, "", "")
        if hname.lower() != text(o["y"]).lower():
            continue
        sch = text(o["scheme"])
        cells["host=%s,origin=%s" % (port_class(hport, sch), port_class(text(o["port"]), sch))] += 1
    return cells


PORT_CELLS = ["host=%s,origin=%s" % (a, b) for a in ("none", "default", "otherdefault", "other")
              for b in ("none", "default", "otherdefault", "other")]


def c13_floors(conc, files):
    cov = outcome_counts(conc, files)
    cells = port_cells(conc)
    missing = [k for k in PORT_CELLS if cells[k] == 0]
    if missing:
        raise core.Infra("coverage floor missed: no same-host request in port cells %s" % missing)
    cov["port_cells_same_host"] = dict(cells)
    cov["history"] = primed_refusals(conc)
    if min(cov["history"].values()) == 0:
        raise core.Infra("coverage floor missed: request order does not exercise process-wide state: %r" % cov["history"])
    return cov


def c13(tier):
    sfx = "quick" if tier == "quick" else "thorough"
    parts = [dict(mc=("MC_C13.tla", "MC_C13_%s.cfg" % sfx), conc=lambda progs, seed: conc_c13(progs, tier, seed))]
    rc, _ = run_check("C13", tier, parts, floors=c13_floors,
                      rule="abstract programs = initial states of MC_C13: (Host, Origin) pairs over the adversarial alphabet "
                           "(edit distance <= 1, Unicode-fold variants, all short pairs) x origin shapes x ports x embeddings, "
                           "IP literals; structured ports: Host port {none, :80, :443, :81} x Origin port {none, 80, 443, 81, 82} x Origin "
                           "scheme {http, https, ws, wss} (port absent / default of the scheme / default of the other scheme / other, on "
                           "either side: every cell hit, floor); each is embedded into an otherwise valid handshake for an Upgrader without CheckOrigin "
                           "and executed once (non-trivial: a complete Upgrade call); distinct by abstract program")
    return rc


# ---- C16, server part ------------------------------------------------------------------------

def conc_c16s(progs, tier, seed, mult):
    rnd = random.Random(seed * 31 + 11)
    out = []
    for i, a in enumerate(progs):
        for m in range(mult):
            p = json.loads(json.dumps(a))
            if m > 0:
                p["cfg"]["wbuf"] = rnd.choice(WBUFS)
                p["cfg"]["hwsize"] = rnd.choice(HWSIZES)
                p["cfg"]["pool"] = rnd.random() < 0.5
                p["cfg"]["errfn"] = rnd.random() < 0.5
                p["req"]["key"]["v"] = gen_key("valid", rnd)
            out.append(dict(id="C16S-%s-%d-%d" % (tier[0], i, m), p=p))
    return out


def fault_counts(conc, files):
    """Fault-enumeration accounting: a program is non-trivial if the injected fault was actually hit
    (some transport operation on the hijacked connection failed) or the hijack itself was refused."""
    hit = closed = refused = ok = 0
    for f in files:
        for line in open(f):
            if '"e":"Upgrade"' not in line:
                continue
            o = json.loads(line)["o"]
            if any(not x["ok"] and x["k"] != "C" for x in o["ops"]):
                hit += 1
                if any(x["k"] == "C" for x in o["ops"]):
                    closed += 1
            elif o["conn"]:
                ok += 1
            else:
                refused += 1
    if hit == 0 or ok == 0 or refused == 0:
        raise core.Infra("coverage floor missed: fault hit=%d success=%d refused=%d" % (hit, ok, refused))
    return dict(fault_hit=hit, closed_after_fault=closed, succeeded=ok, refused_before_hijack=refused)


def c16_server(tier):
    """Server part of C16 (complete standalone check): returns (exit code, coverage dict); evidence id C16S."""
    sfx = "quick" if tier == "quick" else "thorough"
    mult = 1 if tier == "quick" else 4
    parts = [dict(mc=("MC_C16S.tla", "MC_C16S_%s.cfg" % sfx), conc=lambda progs, seed: conc_c16s(progs, tier, seed, mult))]
    rc, cov = run_check("C16", tier, parts, floors=fault_counts, evidence_id="C16S",
                        rule="fault enumeration: valid handshake x every index k (0..4) of a transport operation on the hijacked "
                             "connection x fault kind {error, timeout, EOF, short write} x Close failing or not x HandshakeTimeout "
                             "{0, 1 ms, 5 s} x reader selection path, plus un-hijackable ResponseWriter and refused requests; "
                             "evaluations = programs executed; non-trivial (fault_hit) = an operation actually failed")
    cov["distinct_nontrivial_fault_hit"] = cov.get("fault_hit", 0)
    return rc, cov


# ---- C17 --------------------------------------------------------------------------------------

READER_TRACE = ("WSBoundaryTrace.tla", "WSBoundaryTrace.cfg")


def rframe(f, side):
    # a close frame of n >= 2 bytes is a status code (1000) plus a reason of n - 2 bytes
    code = 1000 if f["op"] == 8 and f["len"] >= 2 else -1
    return dict(op=f["op"], fin=f["fin"], r1=False, r2=False, r3=False, mk=(side == "server"), len=f["len"], lk="n",
                nonmin=False, code=code, rs="ok", comp="", plain=0, key="")


def conc_c17(progs, tier, seed, mult):
    rnd = random.Random(seed * 131 + 5)
    out = []
    for i, a in enumerate(progs):
        for m in range(mult):
            chunk = ["whole", "byte", "rand", "half"][m % 4] if mult > 1 else rnd.choice(["whole", "byte", "rand", "half"])
            out.append(dict(id="C17-%s-%d-%d" % (tier[0], i, m), side=a["side"], rbuf=a["rbuf"], hsize=a["hsize"], k=a["k"],
                            chunk=chunk, pre=rnd.choice(["whole", "whole", "byte"]) if a["side"] == "client" else "whole",
                            frames=[rframe(f, a["side"]) for f in a["frames"]], seed=rnd.randrange(1, 1 << 30),
                            reads=a["reads"], path=a["path"], total=a["total"]))
    return out


def path_floors(conc, files):
    from collections import Counter
    c = Counter(p["path"] for p in conc)
    for need in ("reuse", "wrap", "fresh", "client"):
        if c[need] == 0:
            raise core.Infra("coverage floor missed: no program on reader-selection path %r" % need)
    delivered = 0
    for f in files:
        for line in open(f):
            if '"e":"RM"' in line and '"ok":true' in line:
                delivered += 1
    if delivered == 0:
        raise core.Infra("coverage floor missed: no message was delivered")
    # control-frame sub-space: a control frame with a payload larger than a small configured read buffer, bytes buffered
    ctl = Counter()
    for p in conc:
        big = max([f["len"] for f in p["frames"] if f["op"] >= 8] or [-1])
        if big >= 0:
            ctl["programs_with_control_frames"] += 1
            if 0 < p["rbuf"] < big and p["k"] > 0:
                ctl["control_payload_above_ReadBufferSize_with_early_data_%s" % p["side"]] += 1
    for need in ("control_payload_above_ReadBufferSize_with_early_data_server", "control_payload_above_ReadBufferSize_with_early_data_client"):
        if ctl[need] == 0:
            raise core.Infra("coverage floor missed: no program with %s" % need)
    return dict(paths=dict(c), messages_delivered=delivered, control_frame_subspace=dict(ctl),
                read_buffer_sizes=sorted({p["rbuf"] for p in conc}), hijacked_reader_sizes=sorted({p["hsize"] for p in conc}),
                control_payload_sizes=sorted({f["len"] for p in conc for f in p["frames"] if f["op"] >= 8}))


def describe_c17(prog):
    return {k: prog[k] for k in ("side", "rbuf", "hsize", "k", "chunk", "pre", "path", "total")} | dict(
        frames=[(f["op"], f["fin"], f["len"]) for f in prog["frames"]])


def c17(tier):
    sfx = "quick" if tier == "quick" else "thorough"
    mult = 1 if tier == "quick" else 2
    parts = [dict(mc=("MC_C17.tla", "MC_C17_%s.cfg" % sfx), conc=lambda progs, seed: conc_c17(progs, tier, seed, mult))]
    rc, _ = run_check("C17", tier, parts, fam="boundary", trace=READER_TRACE, floors=path_floors, describe_fn=describe_c17,
                      assumptions=ASSUME[:1] + [
                          "the harness' abstraction functions are correct: independent frame codec (harness/wire), payload identity by "
                          "deterministic payload streams, error classification; the fake Hijacker pre-loads the hijacked bufio.Reader "
                          "with Peek(k) exactly as net/http leaves bytes read behind the request",
                          "the delivered messages are judged by the reader model (WSReaderTrace): they must be the messages of the glued stream",
                          "bounds: only the program spaces named in the MC configs are explored"],
                      rule="abstract programs = initial states of MC_C17: frame stream x EVERY split offset k x ReadBufferSize x hijacked "
                           "reader size (server; paths reuse/wrap/fresh each hit: floor) and x Dialer.ReadBufferSize with the split anywhere in "
                           "'101 response + frames' (client); control-frame sub-space: ping / pong / close of every payload size up to 125 (quick: the "
                           "sizes around the small buffer sizes) in the glued bytes x ReadBufferSize {1,16,64,124,125,126,..} x hijacked reader size x "
                           "split points {0, 1, in / after the first header, mid payload, end of first frame, all but one byte, all}; "
                           "non-trivial: every program delivers at least one message; distinct by abstract program")
    return rc


# ---- C15 --------------------------------------------------------------------------------------

NEG_TRACE = ("WSNegotiateTrace.tla", "WSNegotiateTrace.cfg")
MSG_SIZES = [1, 2, 17, 300, 5000, 70000]


def conc_c15(progs, tier, seed, mult):
    rnd = random.Random(seed * 977 + 29)
    out = []
    for i, a in enumerate(progs):
        for m in range(mult):
            steps = []
            for st in a["steps"]:
                q = dict(op=st["op"], side=st["side"], comp=st.get("comp", False), on=st.get("on", False), level=st.get("level", 0), n=0)
                if st["op"] == "send":
                    q["n"] = rnd.choice(MSG_SIZES + [0])
                elif st["op"] == "feed":
                    q["n"] = rnd.choice(MSG_SIZES)
                elif st["op"] == "wr":
                    # mostly writes that stay inside the 4096-byte write buffer (the first frame is flushed by Close)
                    q["n"] = rnd.choice([1, 17, 300, 300, 2000, 5000, 70000])
                steps.append(q)
            out.append(dict(id="C15-%s-%d-%d" % (tier[0], i, m), seed=rnd.randrange(1, 1 << 30),
                            prog=dict(mode=a["mode"], dEn=a["dEn"], uEn=a["uEn"], offer=a["offer"], reply=a["reply"],
                                      rhx=a.get("rhx") or dict(present=False, key=[], v=[]), steps=steps)))
    return out


def neg_floors(conc, files):
    from collections import Counter
    c = Counter()
    for f in files:
        for line in open(f):
            if '"e":"Send"' in line:
                c["send_rsv1" if '"rsv1":true' in line else "send_plain"] += 1
            elif '"e":"Feed"' in line and '"comp":true' in line:
                c["compressed_accepted" if '"res":"ok"' in line else "compressed_refused"] += 1
            elif '"e":"Handshake"' in line:
                c["handshake_ok" if '"ok":true' in line else "handshake_failed"] += 1
            elif '"e":"Cls"' in line:
                c[("implicit" if '"implicit":true' in line else "explicit") + "_close_of_open_message_" +
                  ("rsv1" if '"rsv1":true' in line else "plain")] += 1
    for k in ("send_rsv1", "send_plain", "compressed_accepted", "compressed_refused", "handshake_ok", "handshake_failed",
              "implicit_close_of_open_message_rsv1", "implicit_close_of_open_message_plain",
              "explicit_close_of_open_message_rsv1", "explicit_close_of_open_message_plain"):
        if c[k] == 0:
            raise core.Infra("coverage floor missed: no %s observation" % k)
    return dict(observations=dict(c), modes=dict(Counter(p["prog"]["mode"] for p in conc)))


def describe_c15(prog):
    p = prog["prog"]
    return dict(mode=p["mode"], Dialer_EnableCompression=p["dEn"], Upgrader_EnableCompression=p["uEn"],
                offer=[text(x) for x in p["offer"]], reply=[text(x) for x in p["reply"]],
                responseHeader={text(p["rhx"]["key"]): text(p["rhx"]["v"])} if p.get("rhx", {}).get("present") else None,
                steps=[{k: v for k, v in st.items() if k in ("op", "side") or (k == "n" and st["op"] in ("send", "feed", "wr")) or (st["op"] == "feed" and k == "comp") or
                        (st["op"] == "ewc" and k == "on") or (st["op"] == "scl" and k == "level")} for st in p["steps"]])


def c15(tier):
    sfx = "quick" if tier == "quick" else "thorough"
    parts = [dict(mc=("MC_C15.tla", "MC_C15_%s.cfg" % sfx), conc=lambda progs, seed: conc_c15(progs, tier, seed, 1))]
    rc, _ = run_check("C15", tier, parts, fam="negotiate", trace=NEG_TRACE, floors=neg_floors, describe_fn=describe_c15,
                      assumptions=ASSUME[:1] + [
                          "the harness' abstraction functions are correct: wire tap of the in-memory pipe, extraction of the "
                          "Sec-WebSocket-Extensions lines from the handshake bytes, independent frame codec and DEFLATE writer/inflater "
                          "(harness/wire, compress/flate), payload identity by deterministic payload streams",
                          "'an endpoint compresses' is observed as RSV1 on a message it writes with write compression enabled; 'accepts "
                          "compressed' by feeding it an RSV1 message produced by the harness' own DEFLATE writer",
                          "a Dial that fails on a reply carrying extensions is admitted (RFC 6455 4.1 / DESIGN C14 oracle decision); "
                          "malformed extension headers leave the agreement unasserted",
                          "bounds: only the program spaces named in the MC configs are explored"],
                      rule="abstract programs = initial states of MC_C15: pair: (Dialer.EnableCompression, Upgrader.EnableCompression) x toggle "
                           "scripts (EnableWriteCompression / SetCompressionLevel incl. invalid levels, on either side, between messages in both "
                           "directions) followed by compressed probes, plus one toggle INSIDE an open message (NextWriter; toggle before / after / "
                           "between Writes; Close or implicit close by the next WriteMessage; with and without EnableWriteCompression(false) "
                           "before); offer: client offers (incl. quoted-string parameter values with quoted-pairs / commas / "
                           "permessage-deflate inside the quotes) x Upgrader setting x scripts; reply: server replies (same) "
                           "x Dialer setting x scripts; every program performs a handshake and at least one message (non-trivial); distinct by "
                           "abstract program; message sizes chosen by seed")
    return rc
