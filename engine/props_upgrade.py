"""Server-handshake family: C12 C13 C15 C17 and the server part of C16 (c16_server)."""
from . import upgrade

TABLE = {"C12": upgrade.c12, "C13": upgrade.c13, "C15": upgrade.c15, "C17": upgrade.c17}
TRACE_SPEC = {"upgrade": upgrade.TRACE, "boundary": upgrade.READER_TRACE, "negotiate": upgrade.NEG_TRACE}


def c16_server(tier):
    """Server part of C16: (exit code, coverage). The coordinator combines it with the client part."""
    return upgrade.c16_server(tier)
