"""Server-handshake family: C12 C13 C15 C17 and the server part of C16 (c16_server)."""
from . import upgrade



def c17(tier):
    """Server + client boundary programs of this family (upgrade.c17), then - when the client-dial family provides it -
    its client part (props_dial.c17_client_part: frames glued to the 101 response on every dial path), combined."""
    rc = upgrade.c17(tier)
    try:
        from . import props_dial
        part = getattr(props_dial, "c17_client_part", None)
    except Exception:
        part = None
    return part(tier, rc) if part else rc


TABLE = {"C12": upgrade.c12, "C13": upgrade.c13, "C15": upgrade.c15, "C17": c17}
NOTE = ("Trusted: TLC, the bounds of the MC configs, the driver's fact reporting (request lines as handed to Upgrade, "
        "return values, ResponseWriter status/headers, operations on the hijacked connection, raw bytes written), "
        "harness-side SHA-1/base64 for the accept digest, the scripted transports. TLC itself parses the request's "
        "token lists, the key, the extension offers and the raw 101 bytes (WSTokens/WSUpgrade).")

INFO = {
    "C12": dict(
        text="Exhaustive TLC model check of the bounded server-handshake model (WSUpgradeMC over MC_C12: decision product "
             "method x Connection x Upgrade x Version x Key x (CheckOrigin, Origin) x app extension header; negotiation: offers x "
             "Subprotocols x responseHeader incl. control bytes x extension offers x EnableCompression) with C12 as invariants and "
             "the refinement 'strict model within envelope'; every abstract program is executed on the real Upgrader.Upgrade and the "
             "recorded outcome (return values, ResponseWriter, hijacked-connection operations, raw 101 bytes) is validated by TLC "
             "against WSUpgrade!OutcomeAllowed.",
        note=NOTE + " Not asserted: status of multiply-defective requests, outcome for token lists that are not well-formed 1#token, "
             "announcement for malformed extension offers, subprotocol membership when Upgrader.Subprotocols is nil.",
        technique="TLA+ model (WSTokens, WSOrigin, WSUpgrade) checked with TLC; TLC-generated programs replayed on the real code; trace validation with TLC"),
    "C13": dict(
        text="Exhaustive TLC enumeration (MC_C13) of (Host, Origin) pairs over the adversarial alphabet a A k K U+212A s S U+017F . - 1 : "
             "(all pairs at edit distance <= 1, all Unicode-fold variants, all short pairs) x 8 origin shapes x ports x embeddings and IP "
             "literals, with C13 restated as invariants independent of the folding operator; each pair is embedded into a valid handshake, "
             "executed on the real Upgrader without CheckOrigin, and the outcome 101/403 is validated by TLC against WSOrigin!Expected.",
        note=NOTE + " Domain: Host values are valid uri-host[:port]; origin strings are assembled from (shape, host text) by WSOrigin!OriginString.",
        technique="TLA+ model (WSOrigin, WSUpgrade) checked with TLC; TLC-generated programs replayed on the real code; trace validation with TLC"),
    "C15": dict(
        text="Exhaustive TLC model check of the negotiation model (WSNegotiateMC over MC_C15: settings^2 x toggle scripts on a real "
             "Dialer/Upgrader pair, hand-made offers against the Upgrader, scripted replies against the Dialer) with CompressionAgreement and "
             "UsedOnlyIfAnnouncedWithBothParams as invariants; every program is executed on the real library and the recorded observations "
             "(extension header bytes, RSV1 of written messages, decodability, acceptance of compressed input) are validated by TLC against "
             "the WSNegotiate envelope.",
        note="Trusted: TLC, MC bounds, the in-memory pipe and its wire tap, the independent frame codec and DEFLATE writer/inflater of the harness.",
        technique="TLA+ model (WSTokens, WSNegotiate) checked with TLC; TLC-generated programs replayed on the real code; trace validation with TLC"),
    "C17": dict(
        text="Exhaustive TLC model check of the boundary model (WSBoundaryMC over MC_C17: frame streams x EVERY split offset x "
             "ReadBufferSize x hijacked reader size; client: every split of '101 + frames' x Dialer.ReadBufferSize) with "
             "NoLossNoReorder/NoOverRead as invariants (verifies the reader-selection rule); every program is executed on the real "
             "Upgrader/Dialer and the messages delivered by the returned Conn are validated by TLC against the reader model (WSReaderTrace): "
             "they must be the messages of the glued stream, complete and in order. Coverage floor: each of reuse/wrap/fresh/client >= 1.",
        note="Trusted: TLC, MC bounds, the fake Hijacker's pre-loading of the bufio.Reader, the independent frame codec, payload identity.",
        technique="TLA+ model (WSUpgrade!ReaderSelection, WSBoundaryMC, WSReader) checked with TLC; TLC-generated programs replayed on the real code; trace validation with TLC"),
}

TRACE_SPEC = {"upgrade": upgrade.TRACE, "boundary": upgrade.READER_TRACE, "negotiate": upgrade.NEG_TRACE}


def c16_server(tier):
    """Server part of C16: (exit code, coverage). The coordinator combines it with the client part."""
    return upgrade.c16_server(tier)
