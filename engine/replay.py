"""./check <id> --replay <file>: re-execute the program of a replay file on the current tree and re-validate it."""
import json, os
from . import core

TRACE_SPEC = {"reader": ("WSReaderTrace.tla", "WSReaderTrace.cfg"), "writer": ("WSWriterTrace.tla", "WSWriterTrace.cfg"), "conc": ("WSConcTrace.tla", "WSConcTrace.cfg"),
              "rshare": ("WSReaderTrace.tla", "WSReaderTrace.cfg")}


import glob as _glob, importlib as _imp
for _f in sorted(_glob.glob(os.path.join(os.path.dirname(__file__), "props_*.py"))):
    _m = _imp.import_module("engine." + os.path.basename(_f)[:-3])
    TRACE_SPEC.update(getattr(_m, "TRACE_SPEC", {}))


def main(pid, path):
    r = json.load(open(path))
    fam = r["family"]
    if fam == "suitewire":
        from . import writer
        v, cov, _ = writer.suite_wire(pid, "quick")
        for x in v:
            print("VIOLATION property=%s replay=%s" % (pid, x))
        print("replay: repository test suite re-run under the wire tap: %d rejected connections" % len(v))
        return 1 if v else 0
    core.build_driver()
    name = "replay-%s" % pid
    core.rundir(name)
    # a verdict that depends on process-wide state carries the whole history of its driver process
    files = core.drive(fam, r["program"]["batch"] if "batch" in r["program"] else [r["program"]], name, shards=1)
    if fam == "pair":
        from . import pair
        wf, rf = pair.split_traces(files, name)
        res = core.validate("WSWriterTrace.tla", "WSWriterTrace.cfg", wf, name + "-w")
        if not res["rejections"]:
            res = core.validate("WSReaderTrace.tla", "WSReaderTrace.cfg", rf, name + "-r")
    else:
        mod, cfg = TRACE_SPEC[fam]
        res = core.validate(mod, cfg, files, name)
    if "batch" in r["program"]:
        res["rejections"] = [x for x in res["rejections"] if x["tid"].split("/")[0] == r["program"]["id"] or x["tid"].rsplit("/", 1)[0] == r["program"]["id"]]
    if res["rejections"]:
        rj = res["rejections"][0]
        print("replay: rejected at event %d: %s" % (rj["index"], json.dumps(rj["event"])[:500]))
        print("VIOLATION property=%s replay=%s" % (pid, path))
        return 1
    print("replay: trace accepted on the current tree")
    return 0
