"""C01 round trip: TLC-enumerated write programs run on connection A; the captured wire is re-chunked into a real
connection B of the opposite role running a read program; the writer trace is validated against WSWriter, the reader
trace against WSReader with contents compared to what the application wrote."""
import json, os, random, time
from . import core, writer
from .core import log

READS = [
    [dict(op="RM", k=0)] * 8,
    [dict(op="NR", k=0), dict(op="RL", k=4096)] * 6,
    [dict(op="NR", k=0), dict(op="RL", k=512)] * 6,
    [dict(op="NR", k=0), dict(op="RA", k=0)] * 6,
    [dict(op="NR", k=0), dict(op="RD", k=1), dict(op="RD", k=125), dict(op="RF", k=0)] * 6,
    [dict(op="NR", k=0), dict(op="RL", k=7)] * 6,
    [dict(op="JA", k=0), dict(op="NR", k=0)],
    [dict(op="RM", k=0), dict(op="JA", k=2), dict(op="NR", k=0)],
    [dict(op="JA", k=2, r=1), dict(op="NR", k=0)],
    [dict(op="JA", k=3, r=2), dict(op="NR", k=0)],
    # messages abandoned part-way (with a read limit equal to the largest message: all are within it)
    [dict(op="NR", k=0), dict(op="RD", k=1), dict(op="NR", k=0), dict(op="NR", k=0), dict(op="RD", k=3), dict(op="RM", k=0), dict(op="RM", k=0), dict(op="RM", k=0)],
    [dict(op="RJ", k=0)] * 8,
    [dict(op="RJ", k=0), dict(op="RM", k=0), dict(op="NR", k=0), dict(op="RD", k=3)] * 3,
]


def split_traces(files, name):
    wf = os.path.join(core.RUN, name, "w.all.ndjson")
    rfiles, wfiles = [], []
    for i, f in enumerate(files):
        wout = open(f + ".w", "w")
        rout = open(f + ".r", "w")
        cur = None
        for line in open(f):
            if '"e":"Reset"' in line:
                tid = json.loads(line)["tid"]
                cur = rout if tid.endswith("/r") else wout
            cur.write(line)
        wout.close(); rout.close()
        wfiles.append(f + ".w"); rfiles.append(f + ".r")
    return wfiles, rfiles


def run_pair_check(pid, tier, mcs, max_progs, mult=1, assumptions=()):
    t0 = time.time()
    seed = core.seed()
    core.build_driver()
    rnd = random.Random(seed * 37 + 1)
    progs = []
    states = trans = 0
    for (mod, cfg) in mcs:
        r = core.run_mc(mod, cfg, "%s-mc-%s" % (pid, cfg.replace(".cfg", "")))
        log("[%s] MC %s/%s: %d states, %d programs, %.1fs" % (pid, mod, cfg, r["states"], len(r["progs"]), r["wall"]))
        progs += r["progs"]
        states += r["states"]; trans += r["transitions"]
    # faults are not part of C01; prepared data messages inside an open writer are caller misuse
    total = len(progs)
    if len(progs) > max_progs:
        progs = rnd.sample(progs, max_progs)
    wconc = writer.concretise(progs, pid, tier, seed, mult)
    conc = []
    for w in wconc:
        total_bytes = sum(o.get("n", 0) for o in w["ops"])
        reads = rnd.choice(READS if total_bytes <= 3000 else READS[:6] + READS[11:])
        chunk = rnd.choice(["whole", "half", "frame", "hdr", "rand"] + (["byte"] if total_bytes <= 2000 else []))
        wid = w["id"]
        w2 = dict(w); w2["id"] = wid + "/w"
        conc.append(dict(id=wid, w=w2, limit=(rnd.random() < 0.3), rbuf=rnd.choice([0, 1, 125, 126, 256, 4096, 65536]), chunk=chunk, reads=reads, seed=w["seed"]))
    byid = {p["id"]: p for p in conc}
    name = "%s-%s" % (pid, tier)
    core.rundir(name)
    files = core.drive("pair", conc, name)
    wfiles, rfiles = split_traces(files, name)
    resw = core.validate("WSWriterTrace.tla", "WSWriterTrace.cfg", wfiles, name + "-w")
    resr = core.validate("WSReaderTrace.tla", "WSReaderTrace.cfg", rfiles, name + "-r")
    log("[%s] %d round trips: writer traces %d (%d events), reader traces %d (%d events)" % (pid, len(conc), resw["traces"], resw["events"], resr["traces"], resr["events"]))
    if resw["traces"] != len(conc) or resr["traces"] != len(conc):
        raise core.Infra("trace count mismatch")
    violations = []
    for side, res, mod, cfg in (("w", resw, "WSWriterTrace.tla", "WSWriterTrace.cfg"), ("r", resr, "WSReaderTrace.tla", "WSReaderTrace.cfg")):
        for rj in res["rejections"][:4]:
            base = rj["tid"].rsplit("/", 1)[0]
            prog = byid.get(base)
            if prog is None:
                raise core.Infra("rejected trace without program: %r" % rj["tid"])
            rname = name + "-repro"
            core.rundir(rname)
            f2 = core.drive("pair", [prog], rname, shards=1)
            w2, r2 = split_traces(f2, rname)
            rr = core.validate(mod, cfg, w2 if side == "w" else r2, rname)
            if not rr["rejections"]:
                # not reproducible alone: does it depend on what ran before it in the same process?
                seq = core.history_of(conc, base)
                core.rundir(rname)
                f3 = core.drive("pair", seq, rname, shards=1)
                w3, r3 = split_traces(f3, rname)
                rr = core.validate(mod, cfg, w3 if side == "w" else r3, rname, max_rej=50)
                rr["rejections"] = [x for x in rr["rejections"] if x["tid"].rsplit("/", 1)[0] == base]
                if not rr["rejections"]:
                    if rj["event"].get("e") == "HANG":
                        log("[%s] watchdog expiry of %s did not reproduce: ignored (driver starved of CPU)" % (pid, rj["tid"]))
                        continue
                    raise core.Infra("rejection of %s did not reproduce" % rj["tid"])
                prog = dict(id=base, batch=seq)
            rj2 = rr["rejections"][0]
            violations.append(core.save_replay(pid, "pair", prog, rj2["trace"], "%s side: event %d not explained: %s" % (
                "writer" if side == "w" else "reader", rj2["index"], json.dumps(rj2["event"])[:500])))
    cov = dict(states=states, transitions=trans, traces_validated_against_impl=resw["traces"] + resr["traces"],
               trace_events=resw["events"] + resr["events"], evaluations=len(conc), distinct_nontrivial=len({writer.key_of(p) for p in progs}),
               rule="abstract write programs = initial states of the TLC run; each is instantiated for a real write buffer size, executed on a real "
                    "connection, and its wire bytes are re-chunked into a real connection of the opposite role under a read program "
                    "(ReadMessage / NextReader+Read(k) loops / ReadAll / exact reads); distinct by abstract write program",
               samples=[dict(program=conc[0]), dict(program=conc[-1])], exhaustive=(total <= len(progs)), abstract_programs_total=total,
               mc_configs=["%s/%s" % m for m in mcs])
    core.write_evidence(pid, tier, "model_checking", cov, time.time() - t0, len(violations), list(assumptions))
    for v in violations:
        print("VIOLATION property=%s replay=%s" % (pid, v), flush=True)
    return 1 if violations else 0
