"""Client-dial family: C14, C16 (client part), C18, C07 (handshake-reply / proxy-reply / header-value parts)."""
from . import core, dial

DIAL_ASSUME = [
    "TLC 1.8.0 and the CommunityModules (Json, IOUtils) are correct",
    "the harness' abstraction functions are correct: in-memory network (boundary-preserving pipe, counting/fault-injecting net.Conn "
    "wrapper), protocol-sniffing peer (own HTTP request scanner, SOCKS5 parser, crypto/tls server with a run-time test CA), "
    "RFC 6455 accept digest computed by harness code, error classification of DialContext results",
    "the concretiser (engine/dial.py) renders abstract programs faithfully (URL strings, header bytes, reply bytes)",
    "std-lib crypto/tls, crypto/x509, net/http request parser are used as independent peers/decoders",
    "bounds: only the program spaces named in the MC configs are explored",
]


def c14(tier):
    q = tier == "quick"
    cfg = "MC_C14_quick.cfg" if q else "MC_C14_thorough.cfg"
    rc, _ = dial.run_dial_check("C14", tier, [dict(mc=("MC_C14.tla", cfg), max_progs=None, mult=1 if q else 2)],
                                assumptions=DIAL_ASSUME)
    return rc


def c16_client(tier):
    q = tier == "quick"
    cfg = "MC_C16_quick.cfg" if q else "MC_C16_thorough.cfg"
    return dial.run_dial_check("C16", tier, [dict(mc=("MC_C16.tla", cfg), max_progs=None,
                                                  opts=dict(allk=True, kinds=["error", "timeout", "eof"], stallms=60))],
                               assumptions=DIAL_ASSUME,
                               rule="abstract programs = initial states of the TLC run (dial path x hooks x timeout setting x reply / "
                                    "proxy-reply / certificate class x abstract fault); distinct by abstract program with the fault "
                                    "position dropped; each is executed once without fault (dry run), once with a failing dial hook and "
                                    "once per CONCRETE transport-operation index k of the real execution and fault kind "
                                    "{error, timeout (= stall until deadline-or-close when a timeout is configured), EOF}")


def c16(tier):
    """Client part (this family) + server part (engine.props_upgrade.c16_server, if present); exit codes combined."""
    import importlib, json, os
    rc, cov = c16_client(tier)
    rcs, covs = 0, None
    try:
        pu = importlib.import_module("engine.props_upgrade")
        server = getattr(pu, "c16_server", None)
    except Exception:
        server = None
    if server:
        r = server(tier)
        rcs, covs = (r if isinstance(r, tuple) else (r, None))
        # record the server part in the evidence of C16
        path = os.path.join(core.EVID, "C16.json")
        try:
            ev = json.load(open(path))
            ev["coverage"]["server_part"] = covs if covs is not None else "engine.props_upgrade.c16_server (exit %d)" % rcs
            if covs:
                for k in ("states", "transitions", "traces_validated_against_impl", "evaluations"):
                    if isinstance(covs.get(k), int):
                        ev["coverage"][k] = ev["coverage"].get(k, 0) + covs[k]
            if rcs == 1:
                ev["violations"] = ev.get("violations", 0) + 1
            json.dump(ev, open(path, "w"), indent=1)
        except (OSError, ValueError, KeyError):
            pass
    if rc == 2 or rcs == 2:
        return 2
    return 1 if (rc == 1 or rcs == 1) else 0


def c17_client_part(tier, server_rc=0):
    """Client side of C17 (frames glued to the 101 response; engine.dial.c17_client) combined with the exit code of the
    server side: merges the coverage into evidence/C17.json (written by the server part), prints the VIOLATION lines
    and returns the combined exit code.  Wiring (engine/props_upgrade.py):
        def c17(tier):
            from . import props_dial
            return props_dial.c17_client_part(tier, upgrade.c17(tier))
    """
    import json, os
    viol, cov = dial.c17_client(tier)
    path = os.path.join(core.EVID, "C17.json")
    try:
        ev = json.load(open(path))
        ev["coverage"]["client_part"] = cov
        for k in ("states", "transitions", "traces_validated_against_impl", "evaluations", "distinct_nontrivial"):
            if isinstance(cov.get(k), int) and isinstance(ev["coverage"].get(k), int):
                ev["coverage"][k] += cov[k]
        ev["violations"] = ev.get("violations", 0) + len(viol)
        json.dump(ev, open(path, "w"), indent=1)
    except (OSError, ValueError, KeyError):
        pass
    for v in viol:
        print("VIOLATION property=C17 replay=%s" % v, flush=True)
    if server_rc == 2:
        return 2
    return 1 if (viol or server_rc == 1) else 0


def c18(tier):
    q = tier == "quick"
    cfg = "MC_C18_quick.cfg" if q else "MC_C18_thorough.cfg"
    rc, _ = dial.run_dial_check("C18", tier, [dict(mc=("MC_C18.tla", cfg), max_progs=None, mult=1 if q else 2)],
                                assumptions=DIAL_ASSUME + [
                                    "cells whose first hop has no applicable dial hook use a real loopback listener (127.0.0.1, explicit "
                                    "port); other URL host forms are not realisable there and are skipped (counted in the evidence)"])
    return rc


def c07_handshake(tier):
    """Reply / proxy-reply / header-value parts of C07. Returns (violation paths, coverage)."""
    q = tier == "quick"
    v1, cov1 = dial.run_dial_check("C07", tier, [
        dict(mc=("MC_C07d.tla", "MC_C07d_quick.cfg" if q else "MC_C07d_thorough.cfg"),
             filt=lambda p: p["cfg"]["proxy"] == "none", opts=dict(allcut="reply", cuthead=96, cuttail=96, cutstep=997)),
        dict(mc=("MC_C07d.tla", "MC_C07d_quick.cfg" if q else "MC_C07d_thorough.cfg"),
             filt=lambda p: p["cfg"]["proxy"] != "none", opts=dict(allcut="creply", cuthead=96, cuttail=96, cutstep=997)),
    ], emit=False)
    v2, cov2 = dial.run_hsfuzz("C07", tier, ("MC_C07h.tla", "MC_C07h_quick.cfg" if q else "MC_C07h_thorough.cfg"))
    return v1 + v2, dict(replies=cov1, header_values=cov2)


def c07(tier):
    import time
    t0 = time.time()
    viol, cov = c07_handshake(tier)
    rc_frames = 0
    try:
        from . import reader
        frames = getattr(reader, "c07_frames", None)
    except Exception:
        frames = None
    cr = cov["replies"]
    ch = cov["header_values"]
    coverage = dict(states=cr["states"] + ch["states"], transitions=cr["transitions"] + ch["transitions"],
                    traces_validated_against_impl=cr["traces_validated_against_impl"] + ch["traces"],
                    evaluations=cr["evaluations"] + ch["presentations"], distinct_nontrivial=cr["distinct_nontrivial"] + ch["batches"],
                    samples=cr["samples"] + [dict(program=ch["sample"])], exhaustive=cr["exhaustive"],
                    rule="handshake part: (a) raw server replies and proxy CONNECT replies = status-line form x status code x "
                         "header-block form (TLC initial states), plus replies that DECLARE a body length (0 .. 2^63, -1, abc; a "
                         "256 MiB chunk) and deliver none / three / all of it, for refusing statuses and a 101 with a wrong Accept; "
                         "each truncated at every byte offset (long forms: first/last 96 bytes and every 997th offset); allocation "
                         "of a dial bounded by 8 x bytes received + 6 MiB; (b) header values: every class string up to the stated "
                         "length over the 11-class alphabet x context x header x side, 3 concretisations each, plus long structured "
                         "values (base64 text of lengths 0..1024 with every padding and one invalid character first / middle / "
                         "last; runs of tokens, commas, quotes, backslashes, parameters, extension elements, origin URLs up to 4 KiB, "
                         "thorough 1 MiB) for every header in every context, allocation bounded by 1024 x bytes presented + 256 KiB "
                         "per presentation + 4 MiB; oracle: any normal result or error return, PANIC/HANG/ALLOC events are "
                         "unexplainable",
                    parts=cov)
    if frames:
        r = frames(tier)
        if isinstance(r, tuple):
            fv, fcov = r  # (violation replay paths, coverage)
            viol = viol + list(fv)
            coverage["frame_part"] = fcov
            for k in ("states", "transitions", "traces_validated_against_impl", "evaluations", "distinct_nontrivial"):
                if isinstance(fcov.get(k), int):
                    coverage[k] += fcov[k]
        else:
            rc_frames = r
            coverage["frame_part"] = "engine.reader.c07_frames (exit %d)" % rc_frames
    core.write_evidence("C07", tier, "model_checking", coverage, time.time() - t0, len(viol), DIAL_ASSUME)
    for v in viol:
        print("VIOLATION property=C07 replay=%s" % v, flush=True)
    if rc_frames == 2:
        return 2
    return 1 if (viol or rc_frames == 1) else 0


TABLE = {"C14": c14, "C16": c16, "C18": c18, "C07": c07}
DNOTE = ("Trusted: TLC, the bounds of the MC configs, the concretiser (URL / header / reply bytes), the in-memory network of the "
         "harness (boundary-preserving pipe, counting and fault-injecting net.Conn wrapper, protocol-sniffing peer with its own HTTP "
         "request scanner and SOCKS5 parser, crypto/tls server with a run-time test CA), harness-side SHA-1/base64 for the accept "
         "digest, error classification of DialContext results. ")

INFO = {
    "C14": dict(
        text="Exhaustive TLC model check of the bounded client-handshake model (WSDialMC over MC_C14: reply product status x Upgrade x "
             "Connection x Accept{right, OWS, stale from the previous dial, other key, the key itself, case-mangled, truncated, empty, "
             "absent, duplicated} x body x extension header; refusing replies with bodies of 0/1/10/1023/1024/1025/3000 bytes, with and "
             "without Content-Length or declaring more than is sent, handed to the transport in 1-3 segments cut inside the final "
             "CRLFCRLF / behind it / inside the body / at byte 1024, x Dialer.ReadBufferSize {0, 1, 256, 8192; thorough up to 65536}; "
             "URLs scheme x userinfo {none, user, user:password, :password, :, bare @} x host form x path/query x fragment, the "
             "userinfo forms also with an http / socks5 proxy configured (no proxy lookup); caller header "
             "maps incl. every protocol-owned header and fields with 2-3 values (every value on the wire, in the caller's order; "
             "canonical and non-canonical key spellings); Dialer settings; httptrace hooks installed in half of the configurations; "
             "histories of 2-3 dials) with ConnOnlyIfProven, "
             "BadReplyIsErrBadHandshakeWithResponse, KeyFreshPerDial, RefusedBeforeNetwork as invariants and the refinement 'strict "
             "generator within envelope'; every abstract program is executed on the real Dialer against a scripted server and the "
             "recorded facts (dial hooks, request as parsed by an independent scanner, result class, response status/body) are "
             "validated by TLC against WSDial!DialAllowed.",
        note=DNOTE + "Oracle decisions: a proven 101 announcing permessage-deflate without both parameters fails with another error; "
             "two Accept header lines (one right) are undecided; protocol-owned caller headers may be refused or ignored; caller "
             "header maps use canonical keys; URLs are validly percent-encoded.",
        technique="TLA+ model (WSDial) checked with TLC; TLC-generated programs replayed on the real code; trace validation with TLC"),
    "C16": dict(
        text="Exhaustive TLC model check of the dial-path machine (WSDialMC over MC_C16: {direct, http proxy, https proxy, socks5} x "
             "{ws, wss} x dial hooks x {no timeout, HandshakeTimeout, context deadline, both with the context deadline earlier, both "
             "with the HandshakeTimeout earlier} x reply / proxy-reply / certificate "
             "classes x every abstract transport-operation index x fault kind) with FailureClosesObtainedConn, SuccessOpenNoDeadline, "
             "EveryOpUnderDeadline as invariants; each program is executed on the real Dialer once per CONCRETE transport-operation "
             "index k of the real execution (Read, Write, SetDeadline, Close on the connection returned by the dial hook, TLS layers "
             "included) and fault kind {error, timeout = stall until deadline-or-close, EOF}, plus a failing dial hook; every recorded "
             "run is validated by TLC against WSDial!DialAllowed (ResultSane, FaultFails, DeadlineOK). Server part: "
             "engine.props_upgrade.c16_server (WSUpgrade).",
        note=DNOTE + "The deadline clause is decided behaviourally: a stalled operation must end through the armed connection deadline "
             "(compared as instants with the earliest configured one: min(context deadline, hook time + HandshakeTimeout)) or through "
             "Close, within 3 s slack; the close_notify write of a failed dial's TLS "
             "layer is exempt (crypto/tls bounds it by 5 s).",
        technique="TLA+ model (WSDial, WSUpgrade) checked with TLC; fault enumeration over every transport operation of TLC-generated "
                  "programs on the real code; trace validation with TLC"),
    "C18": dict(
        text="Exhaustive TLC enumeration of the matrix {no proxy, http, https, socks5} x {ws, wss} x {NetDial, NetDialContext, "
             "NetDialTLSContext set/unset} x proxy credentials {none, user, user:password} x backend certificate {valid, other host, "
             "untrusted CA} x URL host forms (name, IPv4, IPv6, with/without port) x caller Host override {none, the URL's host, "
             "another host the 'other' certificate is valid for} x CONNECT replies {200, 407, 403, 202, 204, 299, 301, "
             "500, closed}, plus histories on one Dialer: two dials sharing one TLSClientConfig, and fail-then-succeed / "
             "succeed-then-succeed sequences of 2-3 dials to different hosts through a proxy with credentials (MC_C18), with ProxyOnlyPath, "
             "ConnectExactlyOnceWithTarget, AuthIffPassword, Non200Aborts, WssInsideVerifiedTLS, FirstHopUsesApplicableHook as "
             "invariants; every cell is executed on the real Dialer against in-process HTTP/HTTPS/SOCKS5 proxies and TLS/plain backends "
             "(in-memory connections from the dial hooks, a loopback listener for cells without an applicable hook) and the layer-by-layer "
             "log of the remote side is validated by TLC against WSDial!LayersOK / HooksOK.",
        note=DNOTE + "NetDialTLSContext cells assert that the hook is used and no TLS layer is added on that hop. SNI, if sent, must name "
             "the URL host, whatever the Host override says. SOCKS5: when the proxy URL carries user:password the username/password "
             "method with exactly these credentials must be used (on every dial of a history).",
        technique="TLA+ model (WSDial) checked with TLC; TLC-generated programs replayed on the real code; trace validation with TLC"),
}

TRACE_SPEC = {"dial": ("WSDialTrace.tla", "WSDialTrace.cfg"), "hsfuzz": ("WSHsFuzzTrace.tla", "WSHsFuzzTrace.cfg")}
