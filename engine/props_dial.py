"""Client-dial family: C14, C16 (client part), C18, C07 (handshake-reply / proxy-reply / header-value parts)."""
from . import core, dial

DIAL_ASSUME = [
    "TLC 1.8.0 and the CommunityModules (Json, IOUtils) are correct",
    "the harness' abstraction functions are correct: in-memory network (boundary-preserving pipe, counting/fault-injecting net.Conn "
    "wrapper), protocol-sniffing peer (own HTTP request scanner, SOCKS5 parser, crypto/tls server with a run-time test CA), "
    "RFC 6455 accept digest computed by harness code, error classification of DialContext results",
    "the concretiser (engine/dial.py) renders abstract programs faithfully (URL strings, header bytes, reply bytes)",
    "std-lib crypto/tls, crypto/x509, net/http request parser are used as independent peers/decoders",
    "bounds: only the program spaces named in the MC configs are explored",
]


def c14(tier):
    q = tier == "quick"
    cfg = "MC_C14_quick.cfg" if q else "MC_C14_thorough.cfg"
    rc, _ = dial.run_dial_check("C14", tier, [dict(mc=("MC_C14.tla", cfg), max_progs=None, mult=1 if q else 2)],
                                assumptions=DIAL_ASSUME)
    return rc


def c16_client(tier):
    q = tier == "quick"
    cfg = "MC_C16_quick.cfg" if q else "MC_C16_thorough.cfg"
    return dial.run_dial_check("C16", tier, [dict(mc=("MC_C16.tla", cfg), max_progs=None,
                                                  opts=dict(allk=True, kinds=["error", "timeout", "eof"], stallms=60))],
                               assumptions=DIAL_ASSUME,
                               rule="abstract programs = initial states of the TLC run (dial path x hooks x timeout setting x reply / "
                                    "proxy-reply / certificate class x abstract fault); distinct by abstract program with the fault "
                                    "position dropped; each is executed once without fault (dry run), once with a failing dial hook and "
                                    "once per CONCRETE transport-operation index k of the real execution and fault kind "
                                    "{error, timeout (= stall until deadline-or-close when a timeout is configured), EOF}")


def c16(tier):
    """Client part (this family) + server part (engine.props_upgrade.c16_server, if present); exit codes combined."""
    import importlib, json, os
    rc, cov = c16_client(tier)
    rcs, covs = 0, None
    try:
        pu = importlib.import_module("engine.props_upgrade")
        server = getattr(pu, "c16_server", None)
    except Exception:
        server = None
    if server:
        r = server(tier)
        rcs, covs = (r if isinstance(r, tuple) else (r, None))
        # record the server part in the evidence of C16
        path = os.path.join(core.EVID, "C16.json")
        try:
            ev = json.load(open(path))
            ev["coverage"]["server_part"] = covs if covs is not None else "engine.props_upgrade.c16_server (exit %d)" % rcs
            if covs:
                for k in ("states", "transitions", "traces_validated_against_impl", "evaluations"):
                    if isinstance(covs.get(k), int):
                        ev["coverage"][k] = ev["coverage"].get(k, 0) + covs[k]
            if rcs == 1:
                ev["violations"] = ev.get("violations", 0) + 1
            json.dump(ev, open(path, "w"), indent=1)
        except (OSError, ValueError, KeyError):
            pass
    if rc == 2 or rcs == 2:
        return 2
    return 1 if (rc == 1 or rcs == 1) else 0


def c18(tier):
    q = tier == "quick"
    cfg = "MC_C18_quick.cfg" if q else "MC_C18_thorough.cfg"
    rc, _ = dial.run_dial_check("C18", tier, [dict(mc=("MC_C18.tla", cfg), max_progs=None, mult=1 if q else 2)],
                                assumptions=DIAL_ASSUME + [
                                    "cells whose first hop has no applicable dial hook use a real loopback listener (127.0.0.1, explicit "
                                    "port); other URL host forms are not realisable there and are skipped (counted in the evidence)"])
    return rc


def c07_handshake(tier):
    """Reply / proxy-reply / header-value parts of C07. Returns (violation paths, coverage)."""
    q = tier == "quick"
    v1, cov1 = dial.run_dial_check("C07", tier, [
        dict(mc=("MC_C07d.tla", "MC_C07d_quick.cfg" if q else "MC_C07d_thorough.cfg"),
             filt=lambda p: p["cfg"]["proxy"] == "none", opts=dict(allcut="reply", cuthead=96, cuttail=96, cutstep=997)),
        dict(mc=("MC_C07d.tla", "MC_C07d_quick.cfg" if q else "MC_C07d_thorough.cfg"),
             filt=lambda p: p["cfg"]["proxy"] != "none", opts=dict(allcut="creply", cuthead=96, cuttail=96, cutstep=997)),
    ], emit=False)
    v2, cov2 = dial.run_hsfuzz("C07", tier, ("MC_C07h.tla", "MC_C07h_quick.cfg" if q else "MC_C07h_thorough.cfg"))
    return v1 + v2, dict(replies=cov1, header_values=cov2)


def c07(tier):
    import time
    t0 = time.time()
    viol, cov = c07_handshake(tier)
    rc_frames = 0
    try:
        from . import reader
        frames = getattr(reader, "c07_frames", None)
    except Exception:
        frames = None
    cr = cov["replies"]
    ch = cov["header_values"]
    coverage = dict(states=cr["states"] + ch["states"], transitions=cr["transitions"] + ch["transitions"],
                    traces_validated_against_impl=cr["traces_validated_against_impl"] + ch["traces"],
                    evaluations=cr["evaluations"] + ch["presentations"], distinct_nontrivial=cr["distinct_nontrivial"] + ch["batches"],
                    samples=cr["samples"] + [dict(program=ch["sample"])], exhaustive=cr["exhaustive"],
                    rule="handshake part: (a) raw server replies and proxy CONNECT replies = status-line form x status code x "
                         "header-block form (TLC initial states), each truncated at every byte offset (long forms: first/last 96 "
                         "bytes and every 997th offset); (b) header values: every class string up to the stated length over the "
                         "11-class alphabet x context x header x side, 3 concretisations each; oracle: any normal result or error "
                         "return, PANIC/HANG/ALLOC events are unexplainable",
                    parts=cov)
    if frames:
        rc_frames = frames(tier)
        coverage["frame_part"] = "engine.reader.c07_frames (exit %d)" % rc_frames
    core.write_evidence("C07", tier, "model_checking", coverage, time.time() - t0, len(viol), DIAL_ASSUME)
    for v in viol:
        print("VIOLATION property=C07 replay=%s" % v, flush=True)
    if rc_frames == 2:
        return 2
    return 1 if (viol or rc_frames == 1) else 0


TABLE = {"C14": c14, "C16": c16, "C18": c18, "C07": c07}
TRACE_SPEC = {"dial": ("WSDialTrace.tla", "WSDialTrace.cfg"), "hsfuzz": ("WSHsFuzzTrace.tla", "WSHsFuzzTrace.cfg")}
