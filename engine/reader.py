"""Checks built on the reader model (WSReader / WSReaderMC / WSReaderTrace):
C03 C04 C05 C06 C08 and the frame part of C07."""
import json, os, random, time
from . import core
from .core import log

RBUFS = [0, 1, 125, 126, 256, 4096]
CHUNKS = ["whole", "byte", "half", "frame", "hdr", "rand", "zsync"]


def concretise(progs, pid, tier, seed, mult, rbufs=RBUFS, chunks=CHUNKS, tail=3, long_tail=0.0):
    """Turn TLC's abstract programs into driver programs: pick buffer sizes,
    transport chunkings, payload seeds and cut offsets inside the abstract
    class (`mult` concretisations per abstract program)."""
    rnd = random.Random(seed * 7919 + 13)
    out = []
    for i, p in enumerate(progs):
        for m in range(mult):
            q = dict(p)
            q["id"] = "%s-%s-%d-%d" % (pid, tier[0], i, m)
            q["rbuf"] = rnd.choice(rbufs)
            q["chunk"] = rnd.choice(chunks)
            total = sum(max(f.get("len", 0), 0) for f in p.get("frames", []))
            if total > 2000 and q["chunk"] == "byte":
                q["chunk"] = "rand"
            big = max([o.get("k", 0) for o in p.get("reads", [])] + [0])
            q["seed"] = rnd.randrange(1, 1 << 30)
            q["tail"] = tail if rnd.random() > long_tail else 1003
            if any(o.get("op") == "RJ" for o in p.get("reads", [])):
                q["json"] = True
            c = p.get("cut")
            if not c or c.get("frame", 0) == 0:
                q["cut"] = None
            else:
                c = dict(c)
                c["var"] = rnd.randrange(0, 1 << 16)
                q["cut"] = c
            out.append(q)
    return out


def nontrivial(p):
    """A program is non-trivial if it has at least one frame and one read."""
    return len(p.get("frames", [])) > 0 and len(p.get("reads", [])) > 0


def key_of(p):
    return json.dumps({k: p[k] for k in ("role", "pmce", "limit", "hmode", "herrAt", "frames", "cut", "reads")}, sort_keys=True)


def run_reader_check(pid, tier, mcs, mult, known_match=None, rbufs=RBUFS, chunks=CHUNKS, tail=3,
                     floors=None, assumptions=(), level="model_checking", max_progs=None, extra=None):
    """mcs: list of (module, cfg). extra: optional callable() -> (violations, coverage) merged into the result. Returns exit code."""
    violations, cov, wall = reader_run(pid, tier, mcs, mult, known_match, rbufs, chunks, tail, max_progs)
    if extra:
        t1 = time.time()
        v2, cov2 = extra()
        violations += v2
        for k in ("states", "transitions", "traces_validated_against_impl", "trace_events"):
            cov[k] = cov.get(k, 0) + cov2.get(k, 0)
        cov.setdefault("extra_parts", []).append({k: v for k, v in cov2.items() if k != "samples"})
        wall += time.time() - t1
    core.write_evidence(pid, tier, level, cov, wall, len(violations), list(assumptions))
    for v in violations:
        print("VIOLATION property=%s replay=%s" % (pid, v), flush=True)
    return 1 if violations else 0


def garbage_programs(pid, seed, count):
    """Raw byte strings as frame streams (C07): the driver sends them verbatim; the model goes `wild` at the first
    unspecified/violating frame, so only the monitors (panic, hang, allocation) and fail-stop after an error decide."""
    rnd = random.Random(seed * 53 + 11)
    out = []
    for i in range(count):
        n = rnd.choice([1, 2, 3, 7, 14, 40, 300])
        raw = bytes(rnd.randrange(256) for _ in range(n))
        out.append(dict(id="%s-g-%d" % (pid, i), role=rnd.choice(["server", "client"]), pmce=rnd.random() < 0.5, limit=rnd.choice([0, 0, 10]),
                        rbuf=rnd.choice(RBUFS), hmode="default", herrAt=0, frames=[], raw=raw.hex(), cut=None,
                        chunk=rnd.choice(["whole", "byte", "rand"]), reads=[dict(op="RM", k=0)] * 4, seed=rnd.randrange(1, 1 << 30), tail=3))
    # floods: many tiny frames of one kind; memory must stay in proportion to the bytes received over the WHOLE run
    # (e.g. a decompressor that is not recycled after a corrupt compressed message costs tens of kilobytes per 3-byte frame)
    floods = [("c20107", True), ("c2020300", True), ("8900", False), ("8a00", False), ("c10100", True), ("820100", False)]
    for j, (unit, pm) in enumerate(floods):
        for role in ("client",):
            out.append(dict(id="%s-flood-%d" % (pid, j), role=role, pmce=pm, limit=0, rbuf=rnd.choice([0, 125, 4096]), hmode="default", herrAt=0,
                            frames=[], raw=unit * 400, cut=None, chunk=rnd.choice(["whole", "rand"]), reads=[dict(op="RM", k=0)] * 410,
                            seed=rnd.randrange(1, 1 << 30), tail=3, allocall=True))
    return out


def c07_frames(tier):
    """Frame-level part of C07: the C04 header alphabet and the C05 truncation space re-run for their monitors
    (Panic / Hang / AllocExcess events are unexplainable), plus raw garbage streams."""
    q = tier == "quick"
    v1, cov1, w1 = reader_run("C07", tier, [("MC_C04.tla", "MC_C04_quick.cfg" if q else "MC_C04_thorough.cfg")], 1, None, RBUFS, CHUNKS, 3,
                              2500 if q else None, extra=lambda seed: garbage_programs("C07", seed, 1500 if q else 40000), name="C07-frames-a")
    v2, cov2, w2 = reader_run("C07", tier, [("MC_C05.tla", "MC_C05_quick.cfg" if q else "MC_C05_thorough.cfg")], 1, None, [1, 125, 256, 4096], CHUNKS, 3,
                              1500 if q else None, name="C07-frames-b")
    cov = dict(cov1)
    for k in ("states", "transitions", "traces_validated_against_impl", "trace_events", "evaluations", "distinct_nontrivial"):
        cov[k] = cov1[k] + cov2[k]
    cov["mc_configs"] = cov1["mc_configs"] + cov2["mc_configs"]
    return v1 + v2, cov


def reader_run(pid, tier, mcs, mult, known_match=None, rbufs=RBUFS, chunks=CHUNKS, tail=3, max_progs=None, extra=None, name=None):
    t0 = time.time()
    seed = core.seed()
    core.build_driver()
    progs = []
    states = trans = 0
    for (mod, cfg) in mcs:
        r = core.run_mc(mod, cfg, "%s-mc-%s" % (pid, cfg.replace(".cfg", "")))
        log("[%s] MC %s/%s: %d states, %d programs, %.1fs" % (pid, mod, cfg, r["states"], len(r["progs"]), r["wall"]))
        progs += r["progs"]
        states += r["states"]
        trans += r["transitions"]
    if not progs:
        raise core.Infra("no programs generated")
    if max_progs and len(progs) > max_progs:
        rnd = random.Random(seed)
        # small sub-spaces that must not be lost by sampling (e.g. the big-limit claim shapes of C06) are always kept
        keep = lambda p: p.get("limit", 0) >= (1 << 30) or (p.get("pmce") and p.get("limit", 0) > 0) or (pid == "C03" and p.get("limit", 0) > 0)
        always = [p for p in progs if keep(p)]
        others = [p for p in progs if not keep(p)]
        progs = always + rnd.sample(others, max(0, max_progs - len(always)))
    conc = concretise(progs, pid, tier, seed, mult, rbufs, chunks, tail, long_tail=(0.01 if pid in ("C05", "C07") else 0.0))
    if extra:
        conc += extra(seed)
    byid = {p["id"]: p for p in conc}
    name = name or "%s-%s" % (pid, tier)
    core.rundir(name)
    files = core.drive("reader", conc, name)
    res = core.validate("WSReaderTrace.tla", "WSReaderTrace.cfg", files, name)
    log("[%s] drove %d programs, validated %d traces / %d events (%d TLC states)" % (pid, len(conc), res["traces"], res["events"], res["states"]))
    if res["traces"] != len(conc):
        raise core.Infra("trace count mismatch: %d programs, %d traces" % (len(conc), res["traces"]))
    violations = []
    known_hits = []
    unrepro = []
    # (at most eight rejections are reproduced: on a tree where everything fails the verdict does not need more)
    for rj in res["rejections"][:8]:
        prog = byid.get(rj["tid"])
        if prog is None:
            raise core.Infra("rejected trace without program: %r" % rj["tid"])
        # reproduce in a fresh process
        rname = name + "-repro"
        core.rundir(rname)
        f2 = core.drive("reader", [prog], rname, shards=1)
        r2 = core.validate("WSReaderTrace.tla", "WSReaderTrace.cfg", f2, rname)
        if not r2["rejections"]:
            # not reproducible alone: does it depend on what ran before it in the same process?
            seq = core.history_of(conc, prog["id"])
            hit = []
            for attempt in range(3):
                f3 = core.drive_history("reader", seq, rname, attempt)
                r3 = core.validate("WSReaderTrace.tla", "WSReaderTrace.cfg", f3, rname, max_rej=50)
                # any rejection in the re-run of the history counts: the behaviour was observed twice on the real code
                hit = [x for x in r3["rejections"] if x["tid"] == prog["id"]] or r3["rejections"][:1]
                if hit:
                    seq = core.history_of(seq, hit[0]["tid"], shards=1)
                    prog = dict(id=hit[0]["tid"])
                    break
            if not hit:
                unrepro.append((rj["tid"], rj["event"].get("e")))
                continue
            path = core.save_replay(pid, "reader", dict(id=prog["id"], batch=seq), hit[0]["trace"],
                                    "event %d not explained by WSReader (only after the %d programs that ran before it in the same process): %s" % (
                                        hit[0]["index"], len(seq) - 1, json.dumps(hit[0]["event"])[:400]))
            violations.append(path)
            continue
        rj2 = r2["rejections"][0]
        k = known_match(pid, prog, rj2) if known_match else None
        if k:
            known_hits.append((k, prog))
            continue
        path = core.save_replay(pid, "reader", prog, rj2["trace"], "event %d not explained by WSReader: %s" % (rj2["index"], json.dumps(rj2["event"])[:400]))
        violations.append(path)
    # a watchdog expiry that never reproduces (alone, and three times with its history) is CPU starvation of the driver,
    # not behaviour of the library: a real hang is deterministic in these single-goroutine programs
    starved = [t for t, e in unrepro if e == "HANG"]
    other = [t for t, e in unrepro if e != "HANG"]
    for t in starved:
        log("[%s] watchdog expiry of %s did not reproduce: ignored (driver starved of CPU)" % (pid, t))
    if other and not violations:
        raise core.Infra("rejection of %s did not reproduce (alone, and three times with its history)" % ", ".join(other[:3]))
    seen = set()
    for k, prog in known_hits:
        if k["id"] not in seen:
            seen.add(k["id"])
            print("KNOWN-FINDING: property=%s %s" % (pid, k["what"]), flush=True)
    distinct = len({key_of(p) for p in progs if nontrivial(p)})
    samples = [dict(program={k: conc[i][k] for k in conc[i] if k != "id"}) for i in (0, len(conc) // 2, len(conc) - 1)]
    cov = dict(states=states, transitions=trans, traces_validated_against_impl=res["traces"],
               trace_events=res["events"], trace_validation_states=res["states"],
               evaluations=len(conc), distinct_nontrivial=distinct,
               rule="abstract programs = initial states of the TLC run (configuration x stream x fault x read program); "
                    "non-trivial = at least one frame and one read call; distinct by abstract program; each is concretised "
                    "%d time(s) (buffer size, chunking, payload seed, cut offset) and executed on the real library" % mult,
               samples=samples, exhaustive=(max_progs is None), mc_configs=["%s/%s" % m for m in mcs],
               known_findings=len(seen))
    return violations, cov, time.time() - t0


def run_rshare(pid, tier, mcs, groups, nconn=6, race=True):
    """Several connections reading concurrently in one process (one goroutine each): they share only the library's
    process-wide state (inflater / deflater pools). Every connection's own trace is validated against the reader model;
    optionally under the race detector. Returns (violations, coverage)."""
    seed = core.seed()
    core.build_driver()
    if race:
        core.build_driver(race=True)
    progs = []
    states = trans = 0
    for (mod, cfg) in mcs:
        r = core.run_mc(mod, cfg, "%s-mc-%s" % (pid, cfg.replace(".cfg", "")))
        progs += r["progs"]
        states += r["states"]; trans += r["transitions"]
    # compressed conformant streams read to the end of each message (the inflater goes back to the pool and is taken again)
    progs = [p for p in progs if p.get("pmce") and any(f.get("comp") for f in p.get("frames", []))
             and not any(o["op"] in ("WCL",) for o in p["reads"])]
    if not progs:
        raise core.Infra("no compressed programs for the shared-reader runs")
    rnd = random.Random(seed * 31 + 5)
    conc = concretise(progs, pid + ".rs", tier, seed, 1, rbufs=[1, 125, 256, 4096], chunks=["byte", "half", "frame", "rand"], tail=2)
    grp = []
    for g in range(groups):
        members = []
        for k in range(nconn):
            q = dict(rnd.choice(conc))
            q["id"] = "%s-%s-g%d/c%d" % (pid, tier[0], g, k)
            q["seed"] = rnd.randrange(1, 1 << 30)
            members.append(q)
        grp.append(dict(id="%s-%s-g%d" % (pid, tier[0], g), progs=members))
    name = "%s-%s-rshare" % (pid, tier)
    core.rundir(name)
    files = core.drive("rshare", grp, name, race=race)
    res = core.validate("WSReaderTrace.tla", "WSReaderTrace.cfg", files, name)
    log("[%s] concurrent readers: %d groups of %d connections, %d traces / %d events%s" % (
        pid, len(grp), nconn, res["traces"], res["events"], " (race detector on)" if race else ""))
    byid = {g["id"]: g for g in grp}
    violations = []
    for rj in res["rejections"][:4]:
        base = rj["tid"].split("/")[0]
        prog = byid.get(base, dict(id=base))
        violations.append(core.save_replay(pid, "rshare", prog, rj["trace"], "event %d not explained by WSReader (connections reading concurrently in one process): %s" % (
            rj["index"], json.dumps(rj["event"])[:500])))
    cov = dict(states=states, transitions=trans, traces_validated_against_impl=res["traces"], trace_events=res["events"], groups=len(grp),
               samples=[dict(program=grp[0])] if grp else [])
    return violations, cov
