"""Property table: id -> callable(tier) -> exit code."""
from . import core, reader

BASE_ASSUME = [
    "TLC 1.8.0 and the CommunityModules (Json, IOUtils) are correct",
    "the harness' abstraction functions are correct: independent frame codec (harness/wire), payload identity by deterministic payload streams, error classification, arrival annotation of frames under the scripted transport",
    "the scripted net.Conn (harness/xport) behaves like a legal io.Reader/net.Conn",
    "bounds: only the program spaces named in the MC configs are explored",
]


def c06(tier):
    if tier == "quick":
        return reader.run_reader_check("C06", tier, [("MC_C06.tla", "MC_C06_quick.cfg")], mult=1, max_progs=4000,
                                       assumptions=BASE_ASSUME)
    return reader.run_reader_check("C06", tier, [("MC_C06.tla", "MC_C06_thorough.cfg")], mult=2, assumptions=BASE_ASSUME)


def c04(tier):
    if tier == "quick":
        return reader.run_reader_check("C04", tier, [("MC_C04.tla", "MC_C04_quick.cfg")], mult=1, max_progs=4000,
                                       assumptions=BASE_ASSUME)
    return reader.run_reader_check("C04", tier, [("MC_C04.tla", "MC_C04_thorough.cfg")], mult=1, assumptions=BASE_ASSUME)


def c05(tier):
    rb = [1, 125, 256, 4096]
    if tier == "quick":
        return reader.run_reader_check("C05", tier, [("MC_C05.tla", "MC_C05_quick.cfg")], mult=1, max_progs=5000,
                                       rbufs=rb, assumptions=BASE_ASSUME, level="model_checking")
    return reader.run_reader_check("C05", tier, [("MC_C05.tla", "MC_C05_thorough.cfg")], mult=4, rbufs=rb,
                                   assumptions=BASE_ASSUME, level="model_checking")


def c03(tier):
    if tier == "quick":
        return reader.run_reader_check("C03", tier, [("MC_C03.tla", "MC_C03_quick.cfg")], mult=1, max_progs=3000,
                                       assumptions=BASE_ASSUME)
    return reader.run_reader_check("C03", tier, [("MC_C03.tla", "MC_C03_thorough.cfg")], mult=2, assumptions=BASE_ASSUME)


def c08(tier):
    if tier == "quick":
        return reader.run_reader_check("C08", tier, [("MC_C08.tla", "MC_C08_quick.cfg")], mult=1, max_progs=4000,
                                       assumptions=BASE_ASSUME)
    return reader.run_reader_check("C08", tier, [("MC_C08.tla", "MC_C08_thorough.cfg")], mult=1, assumptions=BASE_ASSUME)


TABLE = {"C03": c03, "C04": c04, "C05": c05, "C06": c06, "C08": c08}

# per-property overrides for MANIFEST fields (category, text, note, technique, design_ref)
INFO = {}
# reasons for properties that are not claimed
NA = {}
