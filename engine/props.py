"""Property table: id -> callable(tier) -> exit code."""
from . import core, reader, writer, conc, pair

BASE_ASSUME = [
    "TLC 1.8.0 and the CommunityModules (Json, IOUtils) are correct",
    "the harness' abstraction functions are correct: independent frame codec (harness/wire), payload identity by deterministic payload streams, error classification, arrival annotation of frames under the scripted transport",
    "the scripted net.Conn (harness/xport) behaves like a legal io.Reader/net.Conn",
    "bounds: only the program spaces named in the MC configs are explored",
]


CONC_ASSUME = [
    "goroutine attribution of transport operations by goroutine id; schedules are commanded through the verif gates, the verdict is about the observed order",
    "data-race freedom is observed by the Go race detector on the explored schedules, not proved",
    "timeliness: a WriteControl is late only beyond its deadline + 5 s",
]


def c06(tier):
    # sensitivity self-test of the model: the as-coded policy of the pinned tree (length reset per NextReader call,
    # the defect repaired by 85a08ab) must violate the history-independence invariant at design level
    mut = core.expect_violation("MC_C06.tla", "MC_C06_percall.cfg", "C06-mc-percall")
    core.log("[C06] sensitivity: policy per_call violates %s after %d states (as it must)" % (mut["invariant"], mut["states"]))
    if tier == "quick":
        return reader.run_reader_check("C06", tier, [("MC_C06.tla", "MC_C06_quick.cfg")], mult=1, max_progs=4000,
                                       assumptions=BASE_ASSUME)
    return reader.run_reader_check("C06", tier, [("MC_C06.tla", "MC_C06_thorough.cfg")], mult=2, assumptions=BASE_ASSUME)


def c04(tier):
    if tier == "quick":
        return reader.run_reader_check("C04", tier, [("MC_C04.tla", "MC_C04_quick.cfg")], mult=1, max_progs=4000,
                                       assumptions=BASE_ASSUME)
    return reader.run_reader_check("C04", tier, [("MC_C04.tla", "MC_C04_thorough.cfg")], mult=1, assumptions=BASE_ASSUME)


def c05(tier):
    rb = [1, 125, 256, 4096]
    if tier == "quick":
        return reader.run_reader_check("C05", tier, [("MC_C05.tla", "MC_C05_quick.cfg")], mult=1, max_progs=5000,
                                       rbufs=rb, assumptions=BASE_ASSUME, level="model_checking")
    return reader.run_reader_check("C05", tier, [("MC_C05.tla", "MC_C05_thorough.cfg")], mult=4, rbufs=rb,
                                   assumptions=BASE_ASSUME, level="model_checking")


def c03(tier):
    # the decoding of one connection's stream must not depend on what other connections of the process are doing
    # (the inflaters come from a process-wide pool): groups of connections reading compressed streams concurrently
    q = tier == "quick"
    sh = lambda: reader.run_rshare("C03", tier, [("MC_C03.tla", "MC_C03_quick.cfg")], 60 if q else 1500, nconn=6, race=True)
    if q:
        return reader.run_reader_check("C03", tier, [("MC_C03.tla", "MC_C03_quick.cfg")], mult=1, max_progs=3252,
                                       assumptions=BASE_ASSUME + CONC_ASSUME[1:2], extra=sh)
    return reader.run_reader_check("C03", tier, [("MC_C03.tla", "MC_C03_thorough.cfg")], mult=2, assumptions=BASE_ASSUME + CONC_ASSUME[1:2], extra=sh)


def c08(tier):
    q = tier == "quick"
    # the replies of the default handlers are written by the read goroutine while another goroutine writes messages:
    # every pong must still carry the ping's payload (schedules of the lock-protocol model with fed pings and closes)
    def cx():
        v, cov, _ = conc.run_conc_check("C08", tier, 300 if q else 6000, 100 if q else 1500, light=True)
        return v, cov
    if q:
        return reader.run_reader_check("C08", tier, [("MC_C08.tla", "MC_C08_quick.cfg")], mult=1, max_progs=4000,
                                       assumptions=BASE_ASSUME + CONC_ASSUME[:1], extra=cx)
    return reader.run_reader_check("C08", tier, [("MC_C08.tla", "MC_C08_thorough.cfg")], mult=1, assumptions=BASE_ASSUME + CONC_ASSUME[:1], extra=cx)


W = "MC_W.tla"


def wcfg(fam, q):
    return "MC_W_%s%s.cfg" % (fam, "_quick" if q else "")


def c01(tier):
    q = tier == "quick"
    return pair.run_pair_check("C01", tier, [(W, wcfg("conform", q)), (W, wcfg("prepared", q))], max_progs=2500 if q else 60000,
                               assumptions=BASE_ASSUME)


def c02(tier):
    q = tier == "quick"
    return writer.run_writer_check("C02", tier, [
        dict(mc=(W, wcfg("conform", q)), max_progs=3000 if q else 60000, mult=1 if q else 2),
        dict(mc=(W, wcfg("prepared", q)), max_progs=500 if q else 10000),
        # several connections of one process with their messages open at overlapping times (process-wide deflater pools)
        dict(mc=(W, wcfg("conform", q)), inter=(300 if q else 6000, 3), filt=lambda p: p["conns"][0]["pmce"]),
        # "always": also when a transport write fails (error, timeout, short write) and the application carries on
        dict(mc=(W, wcfg("fault", q)), max_progs=80 if q else 2000, allk=True, bset=[7, 16, 126, 1024],
             filt=lambda p: p["mfault"]["at"] == 0),
    ], assumptions=BASE_ASSUME + ["the wire tap hook (verifWire) reports exactly the bytes of successful transport writes"],
        extra=[lambda: writer.suite_wire("C02", tier),
               # "always" also covers concurrent WriteControl callers and the reader's replies (frames stay whole and well-formed)
               lambda: conc.run_conc_check("C02", tier, 300 if q else 8000, 120 if q else 2000, light=True)])


def c09(tier):
    q = tier == "quick"
    return writer.run_writer_check("C09", tier, [
        dict(mc=(W, wcfg("close", q)), max_progs=2500 if q else 124800, mult=1),
        # a close after a write FAILURE is refused like everything else and stays refused (no close frame behind a broken frame,
        # no second close): fault enumeration over the programs that send closes after a data unit
        dict(mc=(W, wcfg("fault", q)), max_progs=60 if q else 1500, allk=True, bset=[16, 126, 1024],
             filt=lambda p: p["mfault"]["at"] == 0 and sum(1 for o in p["ops"] if o["op"] == "WC" and o.get("type") == 8) >= 2),
    ], assumptions=BASE_ASSUME + CONC_ASSUME,
        extra=lambda: conc.run_conc_check("C09", tier, 600 if q else 20000, 60 if q else 2000))


def c10(tier):
    q = tier == "quick"
    small = [1, 2, 7, 16, 125, 126, 1024, 4096]
    return writer.run_writer_check("C10", tier, [
        dict(mc=(W, wcfg("invalid", q)), max_progs=2000 if q else 50000),
        dict(mc=(W, wcfg("fault", q)), max_progs=150 if q else 4000, allk=True, bset=[7, 16, 126, 1024, 4096],
             filt=lambda p: p["mfault"]["at"] == 0),
        dict(mc=(W, wcfg("conform", q)), max_progs=500 if q else 10000,
             filt=lambda p: any(o["op"] in ("SD", "WC") for o in p["ops"])),
    ], assumptions=BASE_ASSUME + CONC_ASSUME, level="model_checking",
        # fail-stop also holds against writers that were already queued for the connection when the fault happened
        extra=lambda: conc.run_conc_check("C10", tier, 400 if q else 10000, 60 if q else 1000, fault_only=True))


def c11(tier):
    import time
    q = tier == "quick"
    t0 = time.time()
    v, cov, _ = conc.run_conc_check("C11", tier, 800 if q else 30000, 150 if q else 4000, race=True)
    v2, cov2 = conc.run_share("C11", tier, 60 if q else 2000, nconn=6, race=True)
    cov["shared"] = cov2
    for k in ("states", "transitions", "traces_validated_against_impl"):
        cov[k] += cov2[k]
    v += v2
    core.write_evidence("C11", tier, "model_checking", cov, time.time() - t0, len(v), BASE_ASSUME + CONC_ASSUME)
    for x in v:
        print("VIOLATION property=C11 replay=%s" % x, flush=True)
    return 1 if v else 0


def _share_extra(pid, tier, count):
    def f():
        v, cov = conc.run_share(pid, tier, count, nconn=6, race=True)
        return v, cov, 0
    return f


def c19(tier):
    q = tier == "quick"
    return writer.run_writer_check("C19", tier, [
        dict(mc=(W, wcfg("prepared", q)), max_progs=2500 if q else 40000),
        dict(mc=(W, wcfg("prepared", q)), inter=(500 if q else 10000, 3)),
    ], assumptions=BASE_ASSUME + CONC_ASSUME, extra=_share_extra("C19", tier, 40 if q else 1500))


def c20(tier):
    q = tier == "quick"
    pool = lambda p: p["conns"][0]["pool"]
    nf = lambda p: p["conns"][0]["pool"] and p["mfault"]["at"] == 0
    return writer.run_writer_check("C20", tier, [
        dict(mc=(W, wcfg("conform", q)), max_progs=1200 if q else 30000, filt=pool),
        dict(mc=(W, wcfg("invalid", q)), max_progs=600 if q else 20000, filt=pool),
        dict(mc=(W, wcfg("close", q)), max_progs=600 if q else 20000, filt=pool),
        dict(mc=(W, wcfg("fault", q)), max_progs=60 if q else 2000, allk=True, bset=[7, 16, 126, 1024], filt=nf),
        dict(mc=(W, wcfg("conform", q)), inter=(500 if q else 10000, 2), filt=pool),
        dict(mc=(W, wcfg("invalid", q)), inter=(300 if q else 5000, 3), filt=pool),
    ], assumptions=BASE_ASSUME + CONC_ASSUME, extra=_share_extra("C20", tier, 40 if q else 1500))


TABLE = {"C01": c01, "C02": c02, "C03": c03, "C04": c04, "C05": c05, "C06": c06, "C08": c08, "C09": c09, "C10": c10, "C11": c11, "C19": c19, "C20": c20}

# per-property overrides for MANIFEST fields (category, text, note, technique, design_ref)
_TB = ("Trusted: TLC and the bounds of the MC configs; the harness' abstraction functions (independent RFC 6455 codec and RFC 7692 inflate, "
       "payload identity by deterministic payload streams, error classification, arrival annotation) and its scripted transport. ")
INFO = {
    "C01": dict(note=_TB + "Round trip = two validated traces composed: the writer trace attributes every wire frame to bytes the application wrote; "
                "the reader trace (same wire bytes re-chunked into a real peer connection) attributes every delivered byte to the wire. Payload sizes up to 3*65536+5."),
    "C02": dict(note=_TB + "'Cryptographic random source' is established as identity of the package's mask source with crypto/rand.Reader at init plus "
                "freshness of every key as a non-overlapping, forward-moving window of an installed source; not by statistics. The repository's own test "
                "suite is additionally run under a wire tap (hook verifWire) and every connection's output validated against the wire grammar. "
                "'Always' includes runs in which a transport write fails and the application carries on (fault enumeration: every write-side transport operation x error / timeout / short write) "
                "and concurrent WriteControl callers (schedules of the lock-protocol model replayed through the verif gates)."),
    "C03": dict(note=_TB + "Read programs: ReadMessage, NextReader + Read(k) / io.ReadAll / exact reads, ReadJSON (operation RJ: an opaque consumer that needs at least the first JSON value), "
                "JoinMessages read with io.ReadAll and with 1-3 byte reads, a stale reader of an earlier message (RDO), the application's own close sent while reading (WCL). "
                "Groups of six connections additionally read compressed streams concurrently in one process (shared inflater pool) under the race detector; each connection's trace is validated."),
    "C06": dict(note=_TB + "The memory clause is an allocation measurement (TotalAlloc around library calls, bound 8 x bytes received + 4 MiB) on frames that "
                "declare 2^28, 2^63-1 or top-bit lengths while a few bytes are sent. The model config with the as-coded 'per_call' policy must violate the invariant (sensitivity self-test)."),
    "C07": dict(category="model_checking",
                text="Bounded-exhaustive enumeration generated from the TLA+ grammars, with Panic / Hang / AllocExcess monitors for which no specification action exists: "
                     "frame level = the C04 header alphabet and the C05 truncation space plus raw garbage streams; handshake level = server replies and proxy CONNECT replies "
                     "(status-line forms x codes x header blocks, cut at every byte) and all header values up to length 5 over an 11-class alphabet for the seven headers named in the property. "
                     "It is not coverage-guided fuzzing over all byte strings.",
                note=_TB + "Only the stated class alphabets and length bounds are explored; the documented panic at the 1000th read of a failed connection is the modelled exception (PanicAllowed)."),
    "C08": dict(note=_TB + "Reason texts of close frames cover the UTF-8 classes (multi-byte, U+FFFD, extremes; truncated, overlong, surrogate, beyond U+10FFFF, lone continuation). "
                "The replies are also observed while another goroutine writes messages (schedules of the lock-protocol model with fed pings and closes replayed through the verif gates): "
                "every pong must carry its ping's payload. A read limit, an expired application write deadline and a timed-out application WriteControl must not change the replies.",
                technique="TLA+ model (WSReader, WSConc) checked with TLC; TLC-generated programs and schedules replayed on the real code; trace validation with TLC"),
    "C09": dict(note=_TB + "Interleavings: the lock protocol model is checked exhaustively against the monitor (all interleavings of the modelled threads); on the real code a sample of "
                "TLC-simulated schedules is replayed through the verif gates and free runs are validated; a rejection is about the observed order. Goroutine attribution by goroutine id."),
    "C10": dict(category="model_checking",
                note=_TB + "Fault positions: a dry run counts the write-side transport operations of each program, then the program is run once per operation index and fault kind "
                "(error, timeout, short write). Deadlines are identified by value against the deadlines the driver set. Fail-stop is also checked against writers that were already "
                "queued for the connection when the fault happened: schedules of the lock-protocol model with a failing transport operation are replayed through the verif gates."),
    "C11": dict(note=_TB + "Data-race freedom is OBSERVED by the Go race detector on replayed schedules, free runs and concurrent shared-pool / shared-PreparedMessage runs; it is not proved. "
                "Atomicity, ordering and bounded waiting are decided by TLC (exhaustive lock-protocol model incl. a liveness property under fairness of the control callers only) and by the monitor on recorded executions. "
                "Timeliness: a WriteControl counts as late only beyond its deadline + 5 s."),
    "C19": dict(note=_TB + "The compression level in force is checked when the compressed bytes are attributable (they equal what compress/flate emits at that level for one write of the whole message); "
                "concurrent sharing is run under the race detector."),
    "C20": dict(note=_TB + "Buffer identity through reflection on the pooled value; released buffers are poisoned and checked on the next Get and at the end (TOUCHED); "
                "multi-connection programs are interleavings made by the concretiser; concurrent sharing runs under the race detector."),
}
# reasons for properties that are not claimed
NA = {}

# family modules engine/props_<name>.py may define TABLE / INFO / NA / TRACE_SPEC; they are merged here
import glob as _glob, importlib as _imp, os as _os
for _f in sorted(_glob.glob(_os.path.join(_os.path.dirname(__file__), "props_*.py"))):
    _m = _imp.import_module("engine." + _os.path.basename(_f)[:-3])
    TABLE.update(getattr(_m, "TABLE", {}))
    INFO.update(getattr(_m, "INFO", {}))
    NA.update(getattr(_m, "NA", {}))
