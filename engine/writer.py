"""Checks built on the writer model (WSWriter / WSWriterMC / WSWriterTrace):
sequential parts of C02 C09 C10 C19 C20."""
import json, os, random, time
from . import core
from .core import log

REAL_B = [0, 1, 2, 7, 16, 125, 126, 1024, 4096, 65536]     # 0 = not configured (default 4096; the server may reuse the hijacked buffer)


def sz(s, B):
    # WriteBufferSize 0 means the default size
    return max(0, s["mul"] * (B or 4096) + s["add"])


def concretise(progs, pid, tier, seed, mult, bset=REAL_B, allk=False, kinds=None, force=None):
    rnd = random.Random(seed * 104729 + 7)
    out = []
    for i, p in enumerate(progs):
        for m in range(mult):
            B = rnd.choice(bset)
            conns = []
            Bs = []
            for ci, c in enumerate(p["conns"]):
                cc = dict(c)
                # connections that share a pool / prepared messages may have different buffer sizes
                # (mixed only among moderate sizes: a pooled 1-byte buffer under a 128 KiB message would mean 10^5 frames)
                mix = [b for b in bset if 16 <= b <= 4096]
                cc["wbuf"] = B if (ci == 0 or B not in mix or rnd.random() < 0.5) else rnd.choice(mix)
                Bs.append(cc["wbuf"])
                if force:
                    cc.update(force)
                conns.append(cc)
            ops = []
            for o in p["ops"]:
                q = {k: v for k, v in o.items() if k != "size"}
                if "size" in o:
                    q["n"] = sz(o["size"], Bs[o.get("c", 0)] if o.get("c", 0) < len(Bs) else B)
                    if o["op"] == "WR" and o.get("via") == "rf":
                        n = q["n"]
                        k = rnd.choice([1, 2, 3])
                        q["chunks"] = [max(1, n // k)] * k
                        q["eofw"] = rnd.random() < 0.5
                        # every fourth copy reads from a source that fails instead of ending (not in fault enumeration runs)
                        if not allk and n > 0 and rnd.random() < 0.25:
                            q["via"] = "rfe"
                ops.append(q)
            ops = fuse_json_close(ops)
            pms = [dict(type=x["type"], n=sz(x["size"], min(B, 4096)), mutate=(rnd.random() < 0.5)) for x in p.get("pms", [])]
            # prepared data messages at the length-encoding boundaries (they are framed by their own code path)
            for x in pms:
                if x["type"] in (1, 2) and x["n"] > 0 and rnd.random() < 0.2:
                    x["n"] = rnd.choice([125, 126, 127, 4095, 4096, 4097, 65535, 65536, 65537])
            q = dict(id="%s-%s-%d-%d" % (pid, tier[0], i, m), conns=conns, ops=ops, pms=pms,
                     seed=rnd.randrange(1, 1 << 30), fault=None, allk=allk, kinds=kinds or [])
            out.append(q)
    return out


def fuse_json_close(ops):
    """NextWriter(text); WriteControl(close); Close of the writer, on one connection, is also what a WriteJSON call does whose
    value's MarshalJSON sends the close: every second occurrence is executed that way (driver op WJC emits the same three events)."""
    out = []
    i = 0
    k = 0
    while i < len(ops):
        a = ops[i]
        if (i + 2 < len(ops) and a["op"] == "NW" and a.get("type") == 1 and ops[i + 1]["op"] == "WC" and ops[i + 1].get("type") == 8
                and ops[i + 2]["op"] == "CL" and a["c"] == ops[i + 1]["c"] == ops[i + 2]["c"]):
            k += 1
            if k % 2 == 1:
                w = ops[i + 1]
                out.append(dict(op="WJC", c=a["c"], type=8, n=w["n"], dl=w.get("dl", "zero")))
                i += 3
                continue
        out.append(a)
        i += 1
    return out


def key_of(p):
    return json.dumps({k: p[k] for k in ("conns", "ops")}, sort_keys=True)


def interleave(progs, seed, count, nconn=2):
    """Sequential programs over several connections sharing one pool / one set
    of prepared messages: random interleavings of TLC programs (one per conn)."""
    rnd = random.Random(seed * 31 + 5)
    out = []
    for _ in range(count):
        parts = [rnd.choice(progs) for _ in range(nconn)]
        ops = []
        idx = [0] * nconn
        while any(idx[i] < len(parts[i]["ops"]) for i in range(nconn)):
            live = [i for i in range(nconn) if idx[i] < len(parts[i]["ops"])]
            i = rnd.choice(live)
            o = dict(parts[i]["ops"][idx[i]])
            o["c"] = i
            ops.append(o)
            idx[i] += 1
        out.append(dict(conns=[parts[i]["conns"][0] for i in range(nconn)], ops=ops, pms=parts[0].get("pms", [])))
    return out


def run_writer_check(pid, tier, groups, bset=REAL_B, assumptions=(), level="model_checking", extra=None):
    """extra: optional callable() -> (violation paths, coverage dict) whose results are merged (e.g. the concurrency part)."""
    """groups: list of dicts(mc=(module,cfg), max_progs, mult, allk, kinds, force, filt, inter=(count,nconn))."""
    t0 = time.time()
    seed = core.seed()
    core.build_driver()
    progs = []
    conc = []
    states = trans = 0
    total = 0
    allk_any = False
    mc_cache = {}
    for gi, g in enumerate(groups):
        mod, cfg = g["mc"]
        if (mod, cfg) not in mc_cache:
            r = core.run_mc(mod, cfg, "%s-mc-%s" % (pid, cfg.replace(".cfg", "")))
            log("[%s] MC %s/%s: %d states, %d programs, %.1fs" % (pid, mod, cfg, r["states"], len(r["progs"]), r["wall"]))
            mc_cache[(mod, cfg)] = r
            states += r["states"]
            trans += r["transitions"]
        ps = mc_cache[(mod, cfg)]["progs"]
        if g.get("filt"):
            ps = [p for p in ps if g["filt"](p)]
        total += len(ps)
        if g.get("inter"):
            ps = interleave(ps, seed + gi, g["inter"][0], g["inter"][1])
        elif g.get("max_progs") and len(ps) > g["max_progs"]:
            ps = random.Random(seed + gi).sample(ps, g["max_progs"])
        progs += ps
        allk_any = allk_any or g.get("allk", False)
        conc += concretise(ps, "%s.%d" % (pid, gi), tier, seed, g.get("mult", 1), g.get("bset", bset), g.get("allk", False), g.get("kinds"), g.get("force"))
    max_progs = None
    mcs = [g["mc"] for g in groups]
    allk = allk_any
    if not progs:
        raise core.Infra("no programs generated")
    byid = {p["id"]: p for p in conc}
    name = "%s-%s" % (pid, tier)
    core.rundir(name)
    files = core.drive("writer", conc, name)
    res = core.validate("WSWriterTrace.tla", "WSWriterTrace.cfg", files, name)
    log("[%s] drove %d programs, validated %d traces / %d events (%d TLC states)" % (pid, len(conc), res["traces"], res["events"], res["states"]))
    if res["traces"] < len(conc):
        raise core.Infra("trace count mismatch: %d programs, %d traces" % (len(conc), res["traces"]))
    violations = []
    unrepro = []
    for rj in res["rejections"][:6]:
        tid = rj["tid"]
        base = tid.split("/")[0]
        prog = byid.get(base)
        if prog is None:
            raise core.Infra("rejected trace without program: %r" % tid)
        prog = dict(prog)
        if "/" in tid and tid.split("/")[1] != "dry":
            # reproduce exactly the failing fault point
            suffix = tid.split("/")[1]  # c<ci>k<k><kind>
            import re
            m = re.match(r"c(\d+)k(\d+)([a-z]+)", suffix)
            prog["allk"] = False
            prog["fault"] = dict(c=int(m.group(1)), k=int(m.group(2)), kind=m.group(3), short=1 + int(m.group(2)) % 3)
            prog["id"] = tid
        elif "/" in tid:
            prog["allk"] = False
            prog["id"] = tid
        rname = name + "-repro"
        core.rundir(rname)
        f2 = core.drive("writer", [prog], rname, shards=1)
        r2 = core.validate("WSWriterTrace.tla", "WSWriterTrace.cfg", f2, rname)
        if not r2["rejections"]:
            # not reproducible alone: does it depend on what ran before it in the same process?
            seq = core.history_of(conc, base)
            hit = []
            for attempt in range(3 if seq else 0):
                f3 = core.drive_history("writer", seq, rname, attempt)
                r3 = core.validate("WSWriterTrace.tla", "WSWriterTrace.cfg", f3, rname, max_rej=50)
                # any rejection in the re-run of the history counts: the behaviour was observed twice on the real code
                hit = [x for x in r3["rejections"] if x["tid"].split("/")[0] == base] or r3["rejections"][:1]
                if hit:
                    base = hit[0]["tid"].split("/")[0]
                    seq = core.history_of(seq, base, shards=1)
                    break
            if not hit:
                unrepro.append((tid, rj["event"].get("e")))
                continue
            violations.append(core.save_replay(pid, "writer", dict(id=base, batch=seq), hit[0]["trace"],
                                               "event %d not explained by WSWriter (only after the %d programs that ran before it in the same process): %s" % (
                                                   hit[0]["index"], len(seq) - 1, json.dumps(hit[0]["event"])[:500])))
            continue
        rj2 = r2["rejections"][0]
        path = core.save_replay(pid, "writer", prog, rj2["trace"], "event %d not explained by WSWriter: %s" % (rj2["index"], json.dumps(rj2["event"])[:600]))
        violations.append(path)
    # a watchdog expiry that never reproduces (alone, and three times with its history) is CPU starvation of the driver,
    # not behaviour of the library: a real hang is deterministic in these single-goroutine programs
    starved = [t for t, e in unrepro if e == "HANG"]
    other = [t for t, e in unrepro if e != "HANG"]
    for t in starved:
        log("[%s] watchdog expiry of %s did not reproduce: ignored (driver starved of CPU)" % (pid, t))
    if other and not violations:
        raise core.Infra("rejection of %s did not reproduce (alone, and three times with its history)" % ", ".join(other[:3]))
    distinct = len({key_of(p) for p in progs})
    samples = [dict(program={k: conc[i][k] for k in conc[i] if k != "id"}) for i in (0, len(conc) // 2, len(conc) - 1)]
    cov = dict(states=states, transitions=trans, traces_validated_against_impl=res["traces"],
               trace_events=res["events"], trace_validation_states=res["states"],
               evaluations=res["traces"], distinct_nontrivial=distinct,
               rule="abstract write programs = initial states of the TLC run (connection config x op sequence with symbolic sizes k*B+d); "
                    "all are non-trivial (>= 1 write call); distinct by abstract program; each is instantiated for a real write buffer size"
                    + (" and executed once per write-side transport operation index and fault kind (fault enumeration)" if allk else ""),
               samples=samples, exhaustive=(total <= len(progs)), abstract_programs_total=total,
               mc_configs=["%s/%s" % m for m in mcs])
    for ex in (extra if isinstance(extra, (list, tuple)) else ([extra] if extra else [])):
        v2, cov2, _ = ex()
        violations += v2
        cov.setdefault("extra_parts", []).append({k: v for k, v in cov2.items() if k != "samples"})
        cov["states"] += cov2.get("states", 0)
        cov["transitions"] += cov2.get("transitions", 0)
        cov["traces_validated_against_impl"] += cov2.get("traces_validated_against_impl", 0)
        cov["samples"] += cov2.get("samples", [])[:1]
    core.write_evidence(pid, tier, level, cov, time.time() - t0, len(violations), list(assumptions))
    for v in violations:
        print("VIOLATION property=%s replay=%s" % (pid, v), flush=True)
    return 1 if violations else 0


def suite_wire(pid, tier):
    """E7: run the repository's own test suite with the wire tap on (build tag verif, VERIF_WIRE) and validate the
    frames every connection wrote against WSWireTrace (C02 grammar per role, nothing after a close frame)."""
    import subprocess
    t0 = time.time()
    d = core.rundir("%s-suitewire" % pid)
    runs = 1 if tier == "quick" else 3
    tool = os.path.join(core.BIN, "wswire")
    b = subprocess.run(["go", "build", "-o", tool, "./cmd/wswire"], cwd=core.HARNESS, env=core.GOENV, capture_output=True, text=True)
    if b.returncode != 0:
        raise core.Infra("wswire build failed: " + b.stderr)
    trs = []
    summary = []
    for i in range(runs):
        # one log per test process: connection ids are per process
        logf = os.path.join(d, "wire.%d.log" % i)
        env = dict(core.GOENV, VERIF_WIRE=logf)
        p = subprocess.run(["go", "test", "-tags", "verif", "-vet=off", "-count=1", "."], cwd=core.REPO, env=env, capture_output=True, text=True, timeout=900)
        if not os.path.exists(logf) or os.path.getsize(logf) == 0:
            raise core.Infra("suite wire tap produced nothing (build failure?):\n" + (p.stdout + p.stderr)[-1500:])
        tr = os.path.join(d, "wire.%d.ndjson" % i)
        c = subprocess.run([tool, logf, tr], capture_output=True, text=True)
        if c.returncode != 0:
            raise core.Infra("wswire failed: " + c.stderr)
        trs.append(tr)
        summary.append(c.stdout.strip())
    tr = trs[0]

    class _C:  # summary line for the log
        stdout = "; ".join(summary)
    c = _C()
    res = core.validate("WSWireTrace.tla", "WSWireTrace.cfg", trs, "%s-suitewire" % pid)
    log("[%s] repository test suite under the wire tap: %s; %d connections / %d events validated" % (pid, c.stdout.strip(), res["traces"], res["events"]))
    violations = []
    for rj in res["rejections"][:3]:
        violations.append(core.save_replay(pid, "suitewire", dict(id=rj["tid"], note="connection of the repository's own test suite (go test -tags verif with VERIF_WIRE)"),
                                           rj["trace"], "frame %d written during the repository's tests is not explained by WSWireTrace: %s" % (rj["index"], json.dumps(rj["event"]))))
    cov = dict(states=res["states"], transitions=res["states"], traces_validated_against_impl=res["traces"], trace_events=res["events"],
               samples=[dict(note="frames written by one connection during the repository's test suite", first_events=[json.loads(l) for l in open(tr).readlines()[:4]])])
    return violations, cov, time.time() - t0
