"""Regenerates /verif/MANIFEST.json from the property table (run: python3 -m engine.manifest)."""
import json, os, subprocess
from . import core, props

META = {
    "C01": ("WSPair", "write programs x read programs x role x pmce on a real client/server pair"),
    "C02": ("WSWriter", "write programs x role x pmce x buffer sizes; wire judged by WSWire!WF in TLC"),
    "C03": ("WSReader", "conformant streams x read programs x chunkings x roles"),
    "C04": ("WSReader", "every protocol state x full 2-byte header alphabet x close-body classes"),
    "C05": ("WSReader", "valid streams x every cut class (offsets expanded) x fault kinds x read programs"),
    "C06": ("WSReader", "limits x message shapes around L x read histories x huge lengths"),
    "C07": ("WSReader/WSTokens/WSDial", "bounded-exhaustive class alphabets with Panic/Hang/Alloc monitors"),
    "C08": ("WSReader", "control frames at every position x payload/code classes x handler configurations"),
    "C09": ("WSWriter", "interleavings of writer, WriteControl callers and reader-triggered closes"),
    "C10": ("WSWriter", "write programs x every transport-op index x fault kinds; invalid requests; deadlines"),
    "C11": ("WSWriter", "schedules incl. blocked transport; WriteControl bounded wait; race detector"),
    "C12": ("WSUpgrade", "handshake decision product x negotiation configs"),
    "C13": ("WSOrigin", "(Host, Origin) pairs over an adversarial alphabet x origin shapes"),
    "C14": ("WSDial", "reply product x URL classes x caller headers"),
    "C15": ("WSNegotiate", "settings x offers x replies x toggle scripts"),
    "C16": ("WSDial/WSUpgrade", "every transport-op index x fault kind x dial path"),
    "C17": ("WSUpgrade/WSDial", "every split point x buffer-size classes"),
    "C18": ("WSDial", "proxy x scheme x hooks x credentials x certificate matrix"),
    "C19": ("WSPrepared", "send sequences over the connection-config matrix x setting changes"),
    "C20": ("WSWriter", "write programs x fault scripts x connections sharing a pool"),
}


def main():
    plist = [json.loads(l) for l in open(os.path.join(core.ROOT, "properties.jsonl"))]
    hook_commits = []
    try:
        out = subprocess.run(["git", "-C", "/repo", "log", "--format=%H %s"], capture_output=True, text=True).stdout
        hook_commits = [l.split()[0] for l in out.splitlines() if " verif hooks:" in l or l.split(" ", 1)[1].startswith("verif:")]
    except Exception:
        pass
    checks = []
    na = []
    pend = os.path.join(core.ROOT, "engine", "pending.txt")
    pending = set(open(pend).read().split()) if os.path.exists(pend) else set()
    for p in plist:
        pid = p["id"]
        if pid in props.TABLE and pid not in pending:
            mod, space = META[pid]
            info = props.INFO.get(pid, {})
            checks.append(dict(
                property_id=pid,
                quick_cmd="./check %s --tier quick" % pid,
                thorough_cmd="./check %s --tier thorough" % pid,
                evidence_file="/verif/evidence/%s.json" % pid,
                replay_cmd_template="./check %s --replay {path}" % pid,
                engine="tlc-mc + wsdrive + tlc-trace",
                level_claimed=dict(
                    category=info.get("category", "model_checking"),
                    text=info.get("text", "Exhaustive TLC model check of the bounded %s model (%s) with the property as invariants; every "
                         "abstract program TLC enumerates is executed on the real library built from /repo and the recorded "
                         "external trace is validated against the same TLA+ actions (trace validation), so a violation is an "
                         "implementation behaviour that no behaviour of the specification explains." % (mod, space)),
                    design_ref=info.get("design_ref", "DESIGN.md section 5, " + pid)),
                level_note=info.get("note", "Trusted: TLC, the bounds of the MC configs, the harness' abstraction functions (independent frame codec, "
                           "payload identity, error classification, arrival annotation) and its scripted transport."),
                technique=info.get("technique", "TLA+ model (%s) checked with TLC; TLC-generated programs replayed on the real code; trace validation with TLC" % mod),
            ))
        else:
            na.append(dict(property_id=pid, reason=props.NA.get(pid, "check not built yet (build in progress; planned per DESIGN.md section 5)")))
    m = dict(
        version=1,
        setup_cmd="./check --setup",
        hooks=dict(guard="verif", enable="go build -tags verif (harness module /verif/harness replaces github.com/gorilla/websocket => /repo)",
                   baseline_off_cmd="cd /repo && go test -vet=off -count=1 -timeout 25m ./...",
                   source_commits=hook_commits, add_only=True),
        engines=[
            dict(name="tlc-mc", path="/verif/engine/core.py", serves_properties=sorted(props.TABLE), kind_free_text="exhaustive TLC model checking of bounded configs; prints abstract programs"),
            dict(name="wsdrive", path="/verif/harness/cmd/wsdrive", serves_properties=sorted(props.TABLE), kind_free_text="Go driver executing abstract programs on the real library through the public API over scripted transports; records external traces"),
            dict(name="tlc-trace", path="/verif/spec/*Trace.tla", serves_properties=sorted(props.TABLE), kind_free_text="TLC trace validation of recorded executions against the specification's actions"),
        ],
        checks=checks,
        notes="See DESIGN.md. exit 2 = infrastructure problem (never a verdict). known findings: /verif/known_findings.txt",
        not_applicable=na,
    )
    with open(os.path.join(core.ROOT, "MANIFEST.json"), "w") as f:
        json.dump(m, f, indent=1)
    print("MANIFEST: %d checks, %d not_applicable" % (len(checks), len(na)))


if __name__ == "__main__":
    main()
