"""./check --setup : build the driver from files on disk and parse every TLA+ module (offline)."""
import glob, os, subprocess, sys
from . import core


def main():
    try:
        core.build_driver()
        core.build_driver(race=True)
    except core.Infra as e:
        print("SETUP-ERROR:", e)
        return 2
    bad = 0
    for m in sorted(glob.glob(os.path.join(core.SPEC, "*.tla"))):
        p = subprocess.run(["java", "-cp", core.JARS, "tla2sany.SANY", os.path.basename(m)], cwd=core.SPEC, capture_output=True, text=True)
        if p.returncode != 0 or "error" in (p.stdout + p.stderr).lower().replace("0 error", ""):
            if "Semantic errors" in p.stdout or "Parse Error" in p.stdout or "Fatal" in p.stdout or p.returncode != 0:
                print("SANY failed on", m)
                print(p.stdout[-2000:])
                bad += 1
    print("setup: driver built, %d modules parsed, %d failed" % (len(glob.glob(os.path.join(core.SPEC, '*.tla'))), bad))
    return 2 if bad else 0
