"""Specification growth: the closing handshake between two real endpoints (WSClose). Run with ./check CLOSEHS."""
import json
from . import core


def closehs(tier):
    core.build_driver()
    r = core.run_mc("WSCloseMC.tla", "MC_Close.cfg", "closehs-mc", workers=8)
    progs = []
    for i, c in enumerate(r["progs"]):
        for rep in range(1 if tier == "quick" else 5):
            progs.append(dict(id="CH-%d-%d" % (i, rep), a=c["a"], b=c["b"], seed=core.seed() * 1000 + i * 7 + rep))
    core.rundir("closehs")
    files = core.drive("closehs", progs, "closehs")
    res = core.validate("WSCloseTrace.tla", "WSCloseTrace.cfg", files, "closehs")
    core.log("[CLOSEHS] model: %d states (safety + liveness); %d handshakes between real endpoints validated, %d rejected" % (r["states"], res["traces"], len(res["rejections"])))
    for rj in res["rejections"][:5]:
        print("CLOSEHS-MISMATCH:", json.dumps(rj["event"])[:600])
    return 1 if res["rejections"] else 0


TABLE = {"CLOSEHS": closehs}
TRACE_SPEC = {"closehs": ("WSCloseTrace.tla", "WSCloseTrace.cfg")}
