"""Checks built on the dial model (WSDial / WSDialMC / WSDialTrace): C14, the
client part of C16, C18 and the handshake-reply / proxy-reply part of C07.

Pipeline: TLC enumerates abstract programs (Dialer configuration x history of
DialContext calls) as the initial states of an MC_* configuration and checks
the model invariants; `concretise` turns them into driver programs (URL
strings, header bytes, credentials, certificates, loopback ports, raw reply
bytes); the Go family "dial" executes them on the real Dialer against the
in-memory network and logs facts; WSDialTrace judges every recorded call."""
import binascii, hashlib, json, os, random, re, time
from . import core
from .core import log

# Decision switch (see the builder's report): x/net's SOCKS5 client clears the
# connection deadline after its negotiation, so with a SOCKS5 proxy the
# WebSocket request/response run without any deadline although a
# HandshakeTimeout is configured.  TRUE = the C16 deadline clause binds those
# operations too (the unrepaired tree is then rejected: genuine defect).
SOCKS5_DEADLINE_STRICT = os.environ.get("VERIF_SOCKS5_LENIENT", "") == ""

TRACE_MOD = "WSDialTrace.tla"


def trace_cfg():
    return "WSDialTrace.cfg" if SOCKS5_DEADLINE_STRICT else "WSDialTrace_lenient.cfg"


EXT_VALUES = {
    "none": "",
    "pmd2": "permessage-deflate; server_no_context_takeover; client_no_context_takeover",
    "pmd_s": "permessage-deflate; server_no_context_takeover",
    "pmd_c": "permessage-deflate; client_no_context_takeover",
    "pmd0": "permessage-deflate",
    "other": "x-webkit-deflate-frame",
    "other_pmd2": "x-foo; a=1, permessage-deflate; client_no_context_takeover; server_no_context_takeover",
}
SEPS = [", ", ",", " , ", ",\t", ",  "]
WS_SCHEMES = {"ws", "WS", "Ws"}
WSS_SCHEMES = {"wss", "WSS", "wSs"}


def hx(b):
    return binascii.hexlify(b).decode()


def exp_hook(c, d):
    """Which dial function the first hop has to use (mirror of WSDial!ExpHook;
    used only to decide whether the harness needs a real loopback listener)."""
    if d["scheme"] not in WS_SCHEMES | WSS_SCHEMES or d["user"] != "none":
        return "refused"
    first_tls = (c["proxy"] == "https") if c["proxy"] != "none" else d["scheme"] in WSS_SCHEMES
    if first_tls and c["ndtc"]:
        return "ndtc"
    if c["ndc"]:
        return "ndc"
    if c["nd"]:
        return "nd"
    return "listener"


def url_of(d, rnd):
    s = d["scheme"]
    u = (s + "://") if s else "//"
    if d["user"] == "user":
        u += "user1@"
    elif d["user"] == "userpass":
        u += "user1:secret@"
    elif d["user"] == "pass":      # empty user name, password only
        u += ":secret@"
    elif d["user"] == "colon":     # empty user name, empty password
        u += ":@"
    elif d["user"] == "empty":     # bare "@": empty userinfo
        u += "@"
    elif d["user"] != "none":
        raise core.Infra("unknown userinfo class " + d["user"])
    u += d["host"]
    if d["port"]:
        u += ":" + d["port"]
    u += d["path"]
    if d["hasq"]:
        u += "?" + d["query"]
    if d["frag"]:
        u += "#frag"
    return u


# ---- raw replies for C07 ---------------------------------------------------

def raw_reply(r, target):
    """Bytes of a reply described by status-line form x code x header-block form."""
    code = r["code"]
    sl = r["sl"]
    if sl == "normal":
        line = "HTTP/1.1 %s Some Reason" % code
    elif sl == "noreason":
        line = "HTTP/1.1 %s" % code
    elif sl == "noreason_sp":
        line = "HTTP/1.1 %s " % code
    elif sl == "nospace":
        line = "HTTP/1.1%s" % code
    elif sl == "badversion":
        line = "HTTX/9.9 %s OK" % code
    elif sl == "http10":
        line = "HTTP/1.0 %s OK" % code
    elif sl == "empty":
        line = ""
    elif sl == "long":
        line = "HTTP/1.1 %s %s" % (code, "R" * 70000)
    elif sl == "lf":
        line = "HTTP/1.1 %s OK" % code
    else:
        raise core.Infra("unknown status-line form " + sl)
    eol = "\n" if sl == "lf" else "\r\n"
    ws = "Upgrade: websocket%sConnection: Upgrade%sSec-WebSocket-Accept: @ACCEPT@%s" % (eol, eol, eol)
    hb = r["hb"]
    body = ""
    if hb == "none":
        hdr = ""
    elif hb == "wellformed":
        hdr = ws + "X-A: b" + eol
    elif hb == "nocolon":
        hdr = ws + "this line has no colon" + eol
    elif hb == "hugeline":
        hdr = ws + "X-Huge: " + "h" * 70000 + eol
    elif hb == "manylines":
        hdr = ws + "".join("X-%d: v%s" % (i, eol) for i in range(300))
    elif hb == "cl_short":
        hdr = ws + "Content-Length: 10" + eol
        body = "abc"
    elif hb == "cl_long":
        hdr = ws + "Content-Length: 3" + eol
        body = "abcdefghij" * 200
    elif hb == "cl_bad":
        hdr = ws + "Content-Length: -5" + eol
        body = "abc"
    elif hb == "cl_huge":
        hdr = ws + "Content-Length: 99999999999999999999" + eol
        body = "abc"
    elif hb == "nobody_cl":
        hdr = ws
        body = "b" * 3000
    elif hb == "chunked":
        hdr = ws + "Transfer-Encoding: chunked" + eol
        body = "5\r\nhello\r\n0\r\n\r\n"
    elif hb == "chunked_bad":
        hdr = ws + "Transfer-Encoding: chunked" + eol
        body = "zz\r\nhello\r\n"
    elif hb == "chunked_huge":
        hdr = ws + "Transfer-Encoding: chunked" + eol
        body = "ffffffffffffffff\r\nhello"
    elif hb == "fold":
        hdr = "Upgrade: web%s socket%s" % (eol, eol) + ws
    elif hb == "nul":
        hdr = ws + "X-Nul: a\x00b" + eol
    elif hb == "emptyname":
        hdr = ws + ": novalue" + eol
    elif hb == "spacename":
        hdr = ws + "X Bad : v" + eol
    elif hb == "chunked_big":
        # a first chunk that declares 256 MiB and delivers five bytes
        hdr = ws + "Transfer-Encoding: chunked" + eol
        body = "10000000\r\nhello"
    elif hb.startswith("cld/") or hb.startswith("badacc_cld/"):
        # Content-Length DECLARES <decl>; <sent> body bytes are delivered ("all" = as many as declared), then the
        # server closes.  badacc_: the Accept value is not the digest of the key (a 101 is then refused as well).
        _, decl, sent = hb.split("/")
        h = ws if hb.startswith("cld/") else ws.replace("@ACCEPT@", "AAAAAAAAAAAAAAAAAAAAAAAAAAA=")
        hdr = h + "Content-Length: " + decl + eol
        body = "b" * (int(decl) if sent == "all" else int(sent))
    elif hb == "noend":
        return (line + eol + ws).encode("latin-1")
    else:
        raise core.Infra("unknown header-block form " + hb)
    return (line + eol + hdr + eol + body).encode("latin-1")


# ---- concretisation -----------------------------------------------------------

def clstr_of(r):
    """Declared Content-Length of a std reply whose server declares more than it sends (clx)."""
    x = r.get("clx", "0")
    if x == "0" or not r["cl"]:
        return ""
    if x == "max":
        return str((1 << 63) - 1)
    return str(r["blen"] + int(x))


def concretise(prog, pid, rnd, opts):
    """abstract program (TLC) -> driver program, or None if not realisable."""
    c = dict(prog["cfg"])
    dials = [dict(d) for d in prog["dials"]]
    hooks = [exp_hook(c, d) for d in dials]
    net_hooks = [h for h in hooks if h != "refused"]
    loop = any(h == "listener" for h in net_hooks)
    if loop and any(h != "listener" for h in net_hooks):
        return None
    port = 0
    if loop:
        # the driver listens on a free loopback port and substitutes it for the placeholder
        if c["proxy"] != "none":
            c["phost"], c["pport"] = "127.0.0.1", "@PORT@"
        else:
            nd = []
            for d in dials:
                if d["hform"] != "v4port":
                    return None
                d["host"] = d["bare"] = "127.0.0.1"
                d["port"] = "@PORT@"
                nd.append(d)
            dials = nd
    cc = dict(proxy=c["proxy"], puser="user1" if c["puser"] else "", ppass="p4ss w0rd:x" if c["ppass"] else "",
              haspass=bool(c["ppass"]), phost=c["phost"], pport=c["pport"], nd=c["nd"], ndc=c["ndc"], ndtc=c["ndtc"],
              subs=list(c["subs"]), comp=c["comp"], tmo=c["tmo"], jar=c["jar"], loop=loop, loopport=port,
              notlscfg=False, rbuf=c.get("rbuf", 0), trace=bool(c.get("trace", False)))
    out = []
    prev_hosts = []
    for d in dials:
        r = d["reply"]
        if r["mode"] == "std":
            def _tok(lines):
                # replace the placeholder token "foo" by a random token over the whole tchar alphabet
                from .upgrade import rand_token
                return [[(rand_token(rnd) if t == "foo" else t) for t in l] for l in lines]
            rep = dict(mode="std", status=r["status"], reason="", upg=_tok(r["upg"]), con=_tok(r["con"]), acc=r["acc"], blen=r["blen"],
                       cl=r["cl"], ext=EXT_VALUES[r["ext"]], sub="", sep=rnd.choice(SEPS), extra=[], hex="", cut=-1, tail="",
                       segs=list(r.get("seg", [])), segabs=False, clstr=clstr_of(r),
                       tailfr=[dict(op=f["op"], fin=f["fin"], len=f["len"]) for f in r.get("tail", [])])
            if c["subs"] and rnd.random() < 0.5:
                rep["sub"] = c["subs"][0]
        elif r["mode"] == "raw":
            rep = dict(mode="raw", status=0, reason="", upg=[], con=[], acc="", blen=0, cl=False, ext="", sub="", sep="",
                       extra=[], hex=hx(raw_reply(r, "server")), cut=-1, tail="")
        else:
            rep = dict(mode="none", status=0, reason="", upg=[], con=[], acc="", blen=0, cl=False, ext="", sub="", sep="",
                       extra=[], hex="", cut=-1, tail="")
        cr = d["creply"]
        if cr["mode"] == "raw":
            crep = dict(mode="raw", status=0, reason="", hex=hx(raw_reply(cr, "proxy")), cut=-1, rep=1)
        elif cr["mode"] == "status":
            # refusal status lines with and without a reason phrase ("-" = bare "HTTP/1.1 407")
            crep = dict(mode="status", status=cr["status"], reason=cr.get("reason", rnd.choice(["Some Reason", "-", "Proxy Authentication Required", "-"])), hex="", cut=-1,
                        rep=cr.get("rep", 5))
        else:
            crep = dict(mode=cr["mode"], status=200, reason="", hex="", cut=-1, rep=0)
        other = ["other.example.test"]
        if c["proxy"] != "none":
            other.append(c["phost"])
        other += prev_hosts
        other = sorted({h for h in other if h != d["bare"]})
        ad = dict(d)
        ad["fault"] = dict(at=0, kind="")
        cd = dict(url=url_of(d, rnd), urlhost=d["bare"], hdrs=[dict(k=h["k"], v=h["v"]) for h in d["hdrs"]], reply=rep,
                  creply=crep, cert=d["cert"], othersan=other, fault=dict(k=0, kind=""), hookerr=bool(d.get("hookerr")),
                  abs=ad)
        out.append(cd)
        prev_hosts.append(d["bare"])
    q = dict(id=pid, cfg=cc, cfgabs=c, dials=out, allk=bool(opts.get("allk")), kinds=opts.get("kinds") or [],
             allcut=opts.get("allcut", ""), cuthead=opts.get("cuthead", 0), cuttail=opts.get("cuttail", 0), cutstep=opts.get("cutstep", 97),
             tmoms=opts.get("tmoms", 30000), stallms=opts.get("stallms", 80), seed=rnd.randrange(1, 1 << 30),
             allsplit=opts.get("allsplit", ""), splitstep=opts.get("splitstep", 1))
    return q


def abstract_key(p, drop_fault=True):
    q = json.loads(json.dumps(p))
    if drop_fault:
        for d in q["dials"]:
            d["fault"] = dict(at=0, kind="")
            d["hookerr"] = False
    return json.dumps(q, sort_keys=True)


TID_RE = re.compile(r"^(.*)/(dry|h|k(\d+)([a-z]+)|c(\d+)|s([0-9.]+))$")


def single_run_of(prog, tid):
    """The driver program that re-executes exactly the expansion `tid`."""
    m = TID_RE.match(tid)
    q = json.loads(json.dumps(prog))
    q["id"] = tid
    if not m:
        return q
    q["allk"] = False
    q["allcut"] = ""
    q["allsplit"] = ""
    last = q["dials"][-1]
    what = m.group(2)
    if what == "h":
        last["hookerr"] = True
    elif what.startswith("k"):
        last["fault"] = dict(k=int(m.group(3)), kind=m.group(4))
    elif what.startswith("s"):
        last["reply"]["segs"] = [int(x) for x in m.group(6).split(".")]
        last["reply"]["segabs"] = True
    elif what.startswith("c"):
        if prog.get("allcut") == "creply":
            last["creply"]["cut"] = int(m.group(5))
        else:
            last["reply"]["cut"] = int(m.group(5))
    return q


def run_dial_check(pid, tier, groups, assumptions=(), level="model_checking", rule="", extra_cov=None, fam="dial",
                   trace=None, emit=True):
    """groups: list of dict(mc=(module, cfg), filt, max_progs, mult, opts (allk, kinds, allcut, ...), dedup).
    Returns (exit code, coverage dict)."""
    t0 = time.time()
    seed = core.seed()
    core.build_driver()
    conc = []
    states = trans = 0
    total_abs = 0
    used_abs = 0
    mc_cache = {}
    distinct = set()
    skipped = 0
    for gi, g in enumerate(groups):
        mod, cfg = g["mc"]
        if (mod, cfg) not in mc_cache:
            r = core.run_mc(mod, cfg, "dl-%s-mc-%s" % (pid, cfg.replace(".cfg", "")))
            log("[%s] MC %s/%s: %d states, %d programs, %.1fs" % (pid, mod, cfg, r["states"], len(r["progs"]), r["wall"]))
            mc_cache[(mod, cfg)] = r
            states += r["states"]
            trans += r["transitions"]
        ps = mc_cache[(mod, cfg)]["progs"]
        if g.get("dedup", True):
            seen = {}
            for p in ps:
                seen.setdefault(abstract_key(p), p)
            ps = list(seen.values())
        if g.get("filt"):
            ps = [p for p in ps if g["filt"](p)]
        ps.sort(key=lambda p: json.dumps(p, sort_keys=True))
        total_abs += len(ps)
        rnd = random.Random(seed * 1000003 + gi)
        if g.get("max_progs") and len(ps) > g["max_progs"]:
            ps = rnd.sample(ps, g["max_progs"])
        used_abs += len(ps)
        for i, p in enumerate(ps):
            for m in range(g.get("mult", 1)):
                q = concretise(p, "%s.%d-%s-%d-%d" % (pid, gi, tier[0], i, m), rnd, g.get("opts", {}))
                if q is None:
                    skipped += 1
                    continue
                if g.get("post"):
                    q = g["post"](q, rnd)
                conc.append(q)
                distinct.add(abstract_key(p))
    if not conc:
        raise core.Infra("no programs generated")
    tmod = TRACE_MOD
    tcfg = trace or trace_cfg()
    byid = {p["id"]: p for p in conc}
    random.Random(seed).shuffle(conc)  # balance the shards
    name = "dl-%s-%s" % (pid, tier)
    core.rundir(name)
    files = core.drive(fam, conc, name)
    res = core.validate(tmod, tcfg, files, name)
    log("[%s] drove %d programs, validated %d traces / %d events (%d TLC states), %.1fs so far" %
        (pid, len(conc), res["traces"], res["events"], res["states"], time.time() - t0))
    if res["traces"] < len(conc):
        raise core.Infra("trace count mismatch: %d programs, %d traces" % (len(conc), res["traces"]))
    violations = []
    seen_base = set()
    unreproduced = []
    for rj in res["rejections"]:
        tid = rj["tid"]
        if isinstance(rj["event"], dict) and rj["event"].get("e") == "SETUPFAIL":
            raise core.Infra("driver set-up failed for %s: %s" % (tid, rj["event"].get("v")))
        base = tid.split("/")[0]
        if base in seen_base or len(violations) >= 4 or len(unreproduced) >= 6:
            continue
        seen_base.add(base)
        prog = byid.get(base)
        if prog is None:
            raise core.Infra("rejected trace without program: %r" % tid)
        single = single_run_of(prog, tid)
        rname = name + "-repro"
        r2 = None
        # runs with a planned stall depend on the clock (the short deadline may strike before the stalled operation is
        # reached on a loaded machine, and such a run is admitted): give the reproduction three attempts
        for attempt in range(3 if "timeout" in tid else 1):
            core.rundir(rname)
            f2 = core.drive(fam, [single], rname, shards=1)
            r2 = core.validate(tmod, tcfg, f2, rname)
            if r2["rejections"]:
                break
        if not r2["rejections"]:
            unreproduced.append(tid)
            seen_base.discard(base)
            continue
        rj2 = r2["rejections"][0]
        ev = rj2["event"]
        brief = {k: ev[k] for k in ev if k not in ("d",)} if isinstance(ev, dict) else ev
        path = core.save_replay(pid, fam, single, rj2["trace"],
                                "event %d not explained by WSDial: %s" % (rj2["index"], json.dumps(brief)[:900]))
        violations.append(path)
    if unreproduced and not violations:
        raise core.Infra("rejection of %s did not reproduce" % ", ".join(unreproduced[:3]))
    samples = [dict(program={k: conc[i][k] for k in conc[i] if k not in ("id", "cfgabs")}) for i in
               sorted({0, len(conc) // 2, len(conc) - 1})]
    for s in samples:
        for d in s["program"]["dials"]:
            d.pop("abs", None)
            if len(d["reply"].get("hex", "")) > 400:
                d["reply"]["hex"] = d["reply"]["hex"][:400] + "..."
            if len(d["creply"].get("hex", "")) > 400:
                d["creply"]["hex"] = d["creply"]["hex"][:400] + "..."
    cov = dict(states=states, transitions=trans, traces_validated_against_impl=res["traces"],
               trace_events=res["events"], trace_validation_states=res["states"],
               evaluations=res["traces"], distinct_nontrivial=len(distinct),
               rule=rule or "abstract programs = initial states of the TLC run (Dialer configuration x history of DialContext "
                            "calls); every program makes at least one DialContext call (non-trivial); distinct by abstract "
                            "program (fault position dropped); each is concretised and executed on the real Dialer",
               samples=samples, exhaustive=(used_abs == total_abs), abstract_programs_total=total_abs,
               abstract_programs_used=used_abs, unrealisable_skipped=skipped,
               mc_configs=sorted({"%s/%s" % g["mc"] for g in groups}), trace_spec="%s/%s" % (tmod, tcfg))
    if extra_cov:
        cov.update(extra_cov)
    if not emit:
        return violations, cov
    core.write_evidence(pid, tier, level, cov, time.time() - t0, len(violations), list(assumptions))
    for v in violations:
        print("VIOLATION property=%s replay=%s" % (pid, v), flush=True)
    return (1 if violations else 0), cov


# ---- C17, client side ----------------------------------------------------------------

def c17_client(tier):
    """Client side of the handshake boundary (C17): frames glued to the 101 response, every split offset of
    'response + frames' across transport reads x Dialer.ReadBufferSize.  Returns (violation replay paths, coverage);
    writes no evidence and prints nothing (the caller owns the C17 verdict)."""
    q = tier == "quick"
    cfg = "MC_C17c_quick.cfg" if q else "MC_C17c_thorough.cfg"
    viol, cov = run_dial_check("C17", tier, [dict(mc=("MC_C17c.tla", cfg), max_progs=None,
                                                  opts=dict(allsplit="2" if q else "3", splitstep=7 if q else 1))],
                               emit=False,
                               rule="client side: abstract programs = initial states of MC_C17c (Dialer.ReadBufferSize x glued frame "
                                    "stream x ws/wss); each is executed once unsplit and once per split offset of 'response + frames' "
                                    "(two transport segments; thorough: also three segments around/behind the end of the header "
                                    "block); WSDial!RxOK demands the data messages of the glued frames, complete and in order, then "
                                    "the end of the stream")
    return viol, cov


# ---- header-value batches (family "hsfuzz") ------------------------------------

HS_CLASSES = ["alpha", "digit", "tsym", "comma", "semi", "eq", "dquote", "bslash", "ws", "sep", "obs"]
HS_REPS = {"alpha": [b"a", b"W"], "digit": [b"1", b"3"], "tsym": [b"-", b"!"], "comma": [b","], "semi": [b";"], "eq": [b"="],
           "dquote": [b'"'], "bslash": [b"\\"], "ws": [b" ", b"\t"], "sep": [b"/", b":"], "obs": [b"\xc3\xa9", b"\x80"]}
HS_GOOD = {"Connection": b"Upgrade", "Upgrade": b"websocket", "Sec-Websocket-Version": b"13",
           "Sec-Websocket-Key": b"dGhlIHNhbXBsZSBub25jZQ==", "Sec-Websocket-Accept": b"s3pPLMBiTxaQ9kYGzzhZRbK+xOo=",
           "Sec-Websocket-Protocol": b"chat", "Sec-Websocket-Extensions": b"permessage-deflate; client_max_window_bits",
           "Origin": b"http://example.test"}
HS_OTHER = {"Connection": b"keep-alive", "Upgrade": b"h2c", "Sec-Websocket-Protocol": b"superchat",
            "Sec-Websocket-Extensions": b"x-webkit-deflate-frame"}


def hs_ctx(header, ctx):
    good = HS_GOOD[header]
    if ctx == "raw":
        return b"", b""
    if ctx == "elem":
        return HS_OTHER[header] + b", ", b""
    if ctx == "lead":
        if header == "Origin":
            return b"", b"://example.test"
        if header in ("Sec-Websocket-Key", "Sec-Websocket-Version", "Sec-Websocket-Accept"):
            return b"", good
        return b"", b", " + good
    if ctx == "param":
        return b"permessage-deflate; x=", b""
    if ctx == "qparam":
        return b'permessage-deflate; x="', b""
    if ctx == "auth":
        return b"http://", b""
    raise core.Infra("unknown context " + ctx)


B64 = b"AbC9+/dEf0Gh"


def long_values(shape, L):
    """The structured values of one shape for target length L: list of values, each a list of (bytes, repeat)."""
    def rep(unit, pre=b"", suf=b""):
        return [[(pre, 1), (unit, max(0, (L - len(pre) - len(suf)) // len(unit))), (suf, 1)]]
    if shape == "b64":
        out = []
        for pad in (0, 1, 2):
            for bad in ("none", "start", "mid", "end"):
                body = max(0, L - pad)
                txt = (B64 * (body // len(B64) + 1))[:body]
                if bad != "none" and body > 0:
                    i = {"start": 0, "mid": body // 2, "end": body - 1}[bad]
                    txt = txt[:i] + b"!" + txt[i + 1:]
                out.append([(txt, 1), (b"=", pad)])
        return out
    table = {
        "tokens": (b"a,", b"", b"a"), "commas": (b",", b"", b""), "longtoken": (b"a", b"", b""), "quotes": (b'"', b"", b""),
        "bslashes": (b"\\", b"", b""), "openquote": (b"a", b'x; p="', b""), "openquote_esc": (b'\\"', b'x; p="', b""),
        "quoted": (b"a", b'x; p="', b'"'), "params": (b"; p=1", b"permessage-deflate", b""),
        "qparams": (b'; p="q"', b"permessage-deflate", b""), "exts": (b"permessage-deflate; client_max_window_bits, ", b"", b"x"),
        "spaces": (b" ", b"", b""), "obs": (b"\x80", b"", b""), "semis": (b";", b"", b""), "eqs": (b"=", b"", b""),
        "digits": (b"1", b"", b""),
        "urlhost": (b"a", b"http://", b".test"), "urlport": (b"9", b"http://example.test:", b""),
        "urlv6": (b":", b"http://[", b"]"), "urlpct": (b"%41", b"http://example.test/", b""),
        "urlbadpct": (b"%zz", b"http://", b""), "urluser": (b"u", b"http://", b":p@example.test"),
    }
    if shape not in table:
        raise core.Infra("unknown long-value shape " + shape)
    unit, pre, suf = table[shape]
    return rep(unit, pre, suf)


def hs_concretise(p, pid, rnd):
    pre, suf = hs_ctx(p["header"], p["ctx"])
    if p.get("kind") == "long":
        vals = []
        for L in p["lens"]:
            for v in long_values(p["shape"], L):
                vals.append([dict(hex=hx(b), n=n) for b, n in v if n > 0 and b])
        return dict(id=pid, side=p["side"], header=p["header"], pre=hx(pre), suf=hx(suf), stem=[], ext=0,
                    reps=[[hx(r) for r in HS_REPS[c]] for c in HS_CLASSES], seed=rnd.randrange(1, 1 << 30), abs=p, vals=vals)
    return dict(id=pid, side=p["side"], header=p["header"], pre=hx(pre), suf=hx(suf), stem=list(p["stem"]), ext=p["ext"],
                reps=[[hx(r) for r in HS_REPS[c]] for c in HS_CLASSES], seed=rnd.randrange(1, 1 << 30), abs=p)


def run_hsfuzz(pid, tier, mc, max_progs=None):
    """Returns (violations, coverage)."""
    seed = core.seed()
    core.build_driver()
    r = core.run_mc(mc[0], mc[1], "dl-%s-mc-%s" % (pid, mc[1].replace(".cfg", "")))
    log("[%s] MC %s/%s: %d states, %d programs, %.1fs" % (pid, mc[0], mc[1], r["states"], len(r["progs"]), r["wall"]))
    ps = sorted(r["progs"], key=lambda p: json.dumps(p, sort_keys=True))
    total = len(ps)
    rnd = random.Random(seed * 7907 + 3)
    if max_progs and len(ps) > max_progs:
        ps = rnd.sample(ps, max_progs)
    conc = [hs_concretise(p, "%s.h-%s-%d" % (pid, tier[0], i), rnd) for i, p in enumerate(ps)]
    byid = {p["id"]: p for p in conc}
    rnd.shuffle(conc)
    name = "dl-%s-hs-%s" % (pid, tier)
    core.rundir(name)
    files = core.drive("hsfuzz", conc, name)
    res = core.validate("WSHsFuzzTrace.tla", "WSHsFuzzTrace.cfg", files, name)
    presented = 0
    for f in files:
        for l in open(f):
            if '"e":"Batch"' in l:
                presented += json.loads(l)["n"]
    log("[%s] header values: %d batches, %d presentations, %d traces validated" % (pid, len(conc), presented, res["traces"]))
    if res["traces"] < len(conc):
        raise core.Infra("trace count mismatch: %d programs, %d traces" % (len(conc), res["traces"]))
    violations = []
    for rj in res["rejections"][:3]:
        prog = byid.get(rj["tid"])
        if prog is None:
            raise core.Infra("rejected trace without program: %r" % rj["tid"])
        single = dict(prog)
        ev = rj["event"]
        if isinstance(ev, dict) and ev.get("e") == "PANIC" and ev.get("cs") is not None:
            # narrow the batch to the offending class string
            single["stem"], single["ext"] = list(ev["cs"]), 0
            single["abs"] = dict(prog["abs"], stem=list(ev["cs"]), ext=0)
        rname = name + "-repro"
        core.rundir(rname)
        f2 = core.drive("hsfuzz", [single], rname, shards=1)
        r2 = core.validate("WSHsFuzzTrace.tla", "WSHsFuzzTrace.cfg", f2, rname)
        if not r2["rejections"]:
            raise core.Infra("rejection of %s did not reproduce" % rj["tid"])
        rj2 = r2["rejections"][0]
        violations.append(core.save_replay(pid, "hsfuzz", single, rj2["trace"],
                                           "event %d not explained by WSHsFuzz: %s" % (rj2["index"], json.dumps(rj2["event"])[:600])))
    cov = dict(states=r["states"], transitions=r["transitions"], traces=res["traces"], events=res["events"],
               tv_states=res["states"], batches=len(conc), presentations=presented, total_batches=total,
               sample={k: conc[0][k] for k in conc[0] if k not in ("abs", "reps")})
    return violations, cov
