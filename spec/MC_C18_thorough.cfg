SPECIFICATION Spec
CONSTANTS
  Cfgs <- MCCfgs
  Dials <- MCDials
  Proxies = {"none", "http", "https", "socks5"}
  HookSets = {"", "n", "c", "t", "nc", "nt", "ct", "nct"}
  Creds = {"none", "user", "userpass"}
  CReplyKinds = {"ok", "407", "403", "202", "204", "299", "500", "301", "none"}
  HostForms = {"name", "nameport", "v4", "v4port", "v6", "v6port"}
  WithHist = TRUE
  HostOvs = {"none", "same", "other"}
CONSTRAINT Emit
INVARIANTS InvRefines InvConnOnlyIfProven InvFailureCloses InvSuccessOpenNoDeadline InvProxyOnlyPath InvConnectOnce InvNon200Aborts InvWssInsideVerifiedTLS InvFirstHopHook
CHECK_DEADLOCK FALSE
