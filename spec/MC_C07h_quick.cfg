SPECIFICATION Spec
CONSTANTS
  Sides = {"server", "client"}
  StemLen = 2
  ExtServer = 3
  ExtClient = 2
  KeyLens <- KeyLensQuick
  ListLens <- ListLensQuick
CONSTRAINT Emit
INVARIANTS InvBatch InvPartition InvLongCovers
CHECK_DEADLOCK FALSE
