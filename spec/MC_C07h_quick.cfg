SPECIFICATION Spec
CONSTANTS
  Sides = {"server", "client"}
  StemLen = 2
  ExtServer = 3
  ExtClient = 2
CONSTRAINT Emit
INVARIANTS InvBatch InvPartition
CHECK_DEADLOCK FALSE
