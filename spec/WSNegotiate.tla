----------------------------- MODULE WSNegotiate -----------------------------
(***************************************************************************)
(* C15: after a handshake both endpoints agree on whether permessage-      *)
(* deflate (RFC 7692) is in use; it is used only when the 101 response     *)
(* announced it with both no_context_takeover parameters; messages then    *)
(* flow in both directions whatever write-compression / level toggles are  *)
(* applied.  Written from the property text and RFC 7692 sections 5-7.     *)
(*                                                                         *)
(* A PROGRAM is [mode, dEn, uEn, offer, reply, rhx, steps]:                *)
(*   mode "pair"   a real Dialer connected to a real Upgrader              *)
(*        "offer"  a hand-made client offer against the real Upgrader      *)
(*                 (endpoint "s" is the library, "c" the harness)          *)
(*        "reply"  a scripted server reply against the real Dialer         *)
(*                 (endpoint "c" is the library, "s" the harness)          *)
(*   dEn / uEn     Dialer / Upgrader EnableCompression                     *)
(*   offer, reply  Sec-WebSocket-Extensions header lines (code points)     *)
(*   rhx           [present, key, v]: the application passes a             *)
(*                 responseHeader map with the entry key (a spelling of    *)
(*                 Sec-WebSocket-Extensions) -> v to Upgrade (pair, offer) *)
(*   steps         sequence of                                             *)
(*     [op "send", side]           the endpoint writes a data message      *)
(*     [op "feed", side, comp]     a message (compressed with RSV1 / plain) *)
(*                                 is fed to the endpoint's reader          *)
(*     [op "ewc", side, on]        EnableWriteCompression(on)              *)
(*     [op "scl", side, level]     SetCompressionLevel(level)              *)
(*     [op "open", side]           w := NextWriter(TextMessage)            *)
(*     [op "wr", side]             w.Write(some bytes)                     *)
(*     [op "cls", side]            w.Close()                               *)
(*   ewc / scl steps may stand between open and cls (a toggle INSIDE an    *)
(*   open message); a "send" on a side whose writer is still open closes   *)
(*   that message implicitly (observed as a Cls with implicit = TRUE       *)
(*   directly before the Send).                                            *)
(*                                                                         *)
(* OBSERVATIONS (events of a recorded execution):                          *)
(*   Handshake [ok, reqExt, respExt]  extension header lines on the wire   *)
(*   Send [side, n, rsv1, wireok, recv, werr]                              *)
(*        rsv1   RSV1 bit of the message's first frame on the wire         *)
(*        wireok the wire bytes decode (independent codec + inflater) to   *)
(*               the message that was written                              *)
(*        recv   "ok" | "err" | "na": what the peer endpoint's ReadMessage *)
(*               returned (pair mode)                                      *)
(*   Feed [side, comp, res]  res "ok" (delivered intact) | "mismatch" |    *)
(*               "err"                                                     *)
(*   EWC [side, on], SCL [side, level, err]                                *)
(*   Open [side, err], Wr [side, n, err]                                   *)
(*   Cls [side, implicit, n, rsv1, wireok, recv, werr]  like Send, for the *)
(*        message written through the writer (n = bytes written to it)     *)
(*                                                                         *)
(* State of the envelope: ann "yes" | "no" | "any" (the 101 announced      *)
(* permessage-deflate with both parameters; "any": its header is not       *)
(* well-formed), comp "unknown" | "yes" | "no" (what has been observed so  *)
(* far about compression being in use: an endpoint compressing its output  *)
(* or accepting compressed input - every further observation has to agree: *)
(* "either both endpoints compress and accept compressed messages or       *)
(* neither does").  ow[side]: the EnableWriteCompression values that were  *)
(* in force at some moment since the side's open message writer was        *)
(* obtained ({} = no writer open).  Whether a message is compressed is     *)
(* decided once per message; when the setting was toggled inside the       *)
(* message either decision is admitted, but the message on the wire must   *)
(* be consistent (RSV1 and a deflate payload that inflates to what was     *)
(* written, or no RSV1 and the plain payload) and the peer must decode it: *)
(* "toggling write compression or the compression level on one side never  *)
(* makes its output undecodable by the other".                             *)
(***************************************************************************)
EXTENDS WSTokens, TLC

LibSides(mode) == CASE mode = "pair" -> {"c", "s"} [] mode = "offer" -> {"s"} [] OTHER -> {"c"}

N0 == [hs |-> "none", ann |-> "any", comp |-> "unknown", wc |-> [c |-> TRUE, s |-> TRUE], dead |-> {},
       ow |-> [c |-> {}, s |-> {}]]

(* Domain decision (DESIGN 0.4): responseHeader keys are canonical; a      *)
(* non-canonical spelling of the extension key is outside the domain       *)
(* (nothing is asserted about such a handshake).                           *)
NonCanonInDomain == FALSE
CanonExtKey == <<83,101,99,45,87,101,98,115,111,99,107,101,116,45,69,120,116,101,110,115,105,111,110,115>>  \* Sec-Websocket-Extensions
RhxPresent(pr) == pr.mode \in {"pair", "offer"} /\ pr.rhx.present
OutOfDomain(pr) == RhxPresent(pr) /\ pr.rhx.key # CanonExtKey /\ ~NonCanonInDomain

(* What the 101 announces.  The header lines are judged one by one: a      *)
(* lexically well-formed line announces what it says whatever the other    *)
(* lines look like (empty line, trailing comma, malformed line).           *)
(*   "yes"  a well-formed line announces permessage-deflate with both      *)
(*          parameters,                                                    *)
(*   "no"   every line is well-formed and none does,                       *)
(*   "any"  otherwise: a malformed line (that mentions the extension, or   *)
(*          when no well-formed line announces it) or a quoted value that  *)
(*          is not a token (RFC 6455 9.1): a client may use or refuse it.  *)
(* A lexically well-formed header in which permessage-deflate appears only *)
(* INSIDE a quoted string does not announce it.                            *)
Ann(respExt) == LET x == Extensions(respExt) IN
                IF PmdBothIn(x.wfexts) THEN (IF x.nontok \/ x.malpmd THEN "any" ELSE "yes")
                ELSE IF x.mal THEN "any" ELSE "no"

(* The handshake observation.                                              *)
HandshakeAllowed(pr, ev) ==
  LET reqX  == Extensions(ev.reqExt)
      respX == Extensions(ev.respExt)
  IN
  \/ OutOfDomain(pr)
  \/ \* a real Upgrader announces permessage-deflate only if enabled and offered
     \* (whoever put the line there: its own negotiation or an application
     \* supplied header), and what it announces is well-formed
     /\ (pr.mode \in {"pair", "offer"} /\ ev.ok) =>
           /\ ~respX.mal /\ ~respX.nontok
           /\ HasExt(respX, TokPmd) => (pr.uEn /\ (reqX.mal \/ HasExt(reqX, TokPmd)))
     \* valid handshakes succeed; a client may refuse a reply that carries
     \* extensions (RFC 6455 4.1: not offered / RFC 7692: unsupported parameters);
     \* an Upgrader may refuse an application supplied extension header (then no
     \* connection exists and nothing can disagree)
     /\ ~ev.ok => ((pr.mode = "reply" /\ ev.respExt # << >>) \/ RhxPresent(pr))

AfterHandshake(ns, ev) ==
  [ns EXCEPT !.hs = IF ev.ok THEN "ok" ELSE "failed", !.ann = Ann(ev.respExt)]

(* An observation o \in BOOLEAN of "compression is in use" against what is *)
(* known.                                                                  *)
Agrees(pr, ns, o) ==
  /\ ns.comp = "unknown" \/ ns.comp = (IF o THEN "yes" ELSE "no")
  \* used only if announced with both parameters
  /\ o => ns.ann # "no"
  \* with a single library endpoint the other one is a conformant peer, which
  \* compresses exactly when the 101 announced it with both parameters
  /\ (pr.mode # "pair" /\ ~o) => ns.ann # "yes"
Learn(ns, o) == [ns EXCEPT !.comp = IF o THEN "yes" ELSE "no"]

(* One data message written by a library endpoint; wcs = the write          *)
(* compression settings in force while it was written.                     *)
MsgAllowed(pr, ns, ev, wcs) ==
  /\ ns.hs = "ok" /\ ev.side \in LibSides(pr.mode) /\ ev.side \notin ns.dead
  /\ ~ev.werr /\ ev.wireok
  /\ ev.recv \in {"ok", "na"}
  /\ ev.recv = "na" <=> pr.mode # "pair"
  /\ ev.rsv1 => ns.ann # "no"
  /\ ev.rsv1 => ns.comp # "no"
  /\ (wcs = {TRUE} /\ ev.n > 0) => Agrees(pr, ns, ev.rsv1)
AfterMsg(ns, ev, wcs) ==
  IF wcs = {TRUE} /\ ev.n > 0 THEN Learn(ns, ev.rsv1)
  ELSE IF ev.rsv1 THEN Learn(ns, TRUE) ELSE ns

(* WriteMessage: no writer of this side is open (an open one was closed    *)
(* implicitly and reported as a Cls event before).                         *)
SendAllowed(pr, ns, ev) == ns.ow[ev.side] = {} /\ MsgAllowed(pr, ns, ev, {ns.wc[ev.side]})
AfterSend(ns, ev) == AfterMsg(ns, ev, {ns.wc[ev.side]})

OpenAllowed(pr, ns, ev) ==
  /\ ns.hs = "ok" /\ ev.side \in LibSides(pr.mode) /\ ev.side \notin ns.dead
  /\ ns.ow[ev.side] = {} /\ ~ev.err
AfterOpen(ns, ev) == [ns EXCEPT !.ow[ev.side] = {ns.wc[ev.side]}]
WrAllowed(pr, ns, ev) == ns.hs = "ok" /\ ev.side \in LibSides(pr.mode) /\ ns.ow[ev.side] # {} /\ ~ev.err
ClsAllowed(pr, ns, ev) == ns.ow[ev.side] # {} /\ MsgAllowed(pr, ns, ev, ns.ow[ev.side])
AfterCls(ns, ev) == [AfterMsg(ns, ev, ns.ow[ev.side]) EXCEPT !.ow[ev.side] = {}]

FeedAllowed(pr, ns, ev) ==
  /\ ns.hs = "ok" /\ ev.side \in LibSides(pr.mode) /\ ev.side \notin ns.dead
  /\ ev.res # "mismatch"
  /\ IF ev.comp THEN Agrees(pr, ns, ev.res = "ok")
     ELSE ev.res = "ok"       \* an uncompressed message is always acceptable
AfterFeed(ns, ev) ==
  LET n1 == IF ev.comp THEN Learn(ns, ev.res = "ok") ELSE ns IN
  IF ev.res = "ok" THEN n1 ELSE [n1 EXCEPT !.dead = @ \cup {ev.side}]

ToggleAllowed(pr, ns, ev) == ns.hs = "ok" /\ ev.side \in LibSides(pr.mode)
AfterEWC(ns, ev) == [ns EXCEPT !.wc[ev.side] = ev.on,
                                !.ow[ev.side] = IF @ = {} THEN {} ELSE @ \cup {ev.on}]

-----------------------------------------------------------------------------
(* The strict (implementation-shaped) model of the negotiation, used for   *)
(* model checking.                                                         *)
LExtValue == TokPmd \o <<59, 32>> \o TokSNCT \o <<59, 32>> \o TokCNCT

StrictReqExt(pr) == IF pr.mode = "offer" THEN pr.offer
                    ELSE IF pr.dEn THEN << LExtValue >> ELSE << >>
StrictServerOn(pr) == pr.uEn /\ HasExt(Extensions(StrictReqExt(pr)), TokPmd)
(* the Upgrader refuses a responseHeader with the canonical extension key;  *)
(* any other spelling is copied into the 101 behind its own header         *)
StrictRefused(pr) == RhxPresent(pr) /\ pr.rhx.key = CanonExtKey
StrictRespExt(pr) == IF pr.mode = "reply" THEN pr.reply
                     ELSE (IF StrictServerOn(pr) THEN << LExtValue >> ELSE << >>)
                          \o (IF RhxPresent(pr) /\ ~StrictRefused(pr) THEN << pr.rhx.v >> ELSE << >>)

(* the client walks the announced extensions: the first permessage-deflate  *)
(* decides (both parameters: on; otherwise the dial fails)                  *)
RECURSIVE FirstPmd(_, _)
FirstPmd(exts, i) == IF i > Len(exts) THEN 0 ELSE IF exts[i].name = TokPmd THEN i ELSE FirstPmd(exts, i + 1)
StrictClient(pr) ==
  LET x == Extensions(StrictRespExt(pr))
      i == FirstPmd(x.exts, 1)
  IN IF i = 0 THEN "off"
     ELSE IF HasParam(x.exts[i], TokSNCT) /\ HasParam(x.exts[i], TokCNCT) THEN "on" ELSE "fail"
=============================================================================
