----------------------------- MODULE WSWriterMC -----------------------------
(***************************************************************************)
(* Exhaustive exploration of the writer model over a finite program space. *)
(* Each initial state is one abstract write program (printed as JSON for   *)
(* the Go driver).  The behaviour executes it on an implementation-shaped  *)
(* ("strict") generator that follows the buffer arithmetic of conn.go      *)
(* (ncopy / flushFrame / the server direct-write path / the WriteMessage   *)
(* fast path / ReadFrom) with payload capacity B, produces the tx list of  *)
(* every call and feeds it to the envelope WSWriter.  Invariants:          *)
(*   InvRefines   the strict behaviour is admitted by the envelope         *)
(*   InvWire      the emitted frame sequence is WSWire-well-formed         *)
(*   InvDone      messages on the wire = calls that reported success       *)
(*   InvCloseLast, InvFailStop, InvPool                                    *)
(* Sizes in programs are symbolic [mul, add] = mul * B + add so that the   *)
(* concretiser can instantiate them for every real buffer size.            *)
(***************************************************************************)
EXTENDS WSWriter, Json

CONSTANTS B,            \* payload capacity of the write buffer used by the model run
          ConnCfgs,     \* set of connection configs [role, pmce, pool]
          Progs(_),     \* programs for a connection config: sequences of ops
          PMSet,        \* sequence of prepared messages [type, n(size)]
          FaultKinds    \* subset of {"swd", "w"}; {} = no fault injection in the model

VARIABLES prog, pc, cf, fault, nops, wire, rets, bad
mvars == << cs, pms, prog, pc, cf, fault, nops, wire, rets, bad >>

Sz(s) == s.mul * B + s.add
S(m, a) == [mul |-> m, add |-> a]

(* ---- op constructors (JSON field names are the driver's) ---- *)
NW(t)          == [op |-> "NW", c |-> 0, type |-> t]
WR(s, via)     == [op |-> "WR", c |-> 0, size |-> s, via |-> via]
CL             == [op |-> "CL", c |-> 0]
WM(t, s)       == [op |-> "WM", c |-> 0, type |-> t, size |-> s]
WJ(s)          == [op |-> "WJ", c |-> 0, size |-> s]
WJB            == [op |-> "WJB", c |-> 0]
WRO            == [op |-> "WRO", c |-> 0]     \* Write on a writer that has ended: no effect
WC(t, s, dl)   == [op |-> "WC", c |-> 0, type |-> t, size |-> s, dl |-> dl]
WP(p)          == [op |-> "WP", c |-> 0, pm |-> p]
SD(d)          == [op |-> "SD", c |-> 0, dl |-> d]
EC(on)         == [op |-> "EC", c |-> 0, on |-> on]
SL(lv)         == [op |-> "SL", c |-> 0, level |-> lv]
XC             == [op |-> "XC", c |-> 0]

Init ==
  /\ cf \in ConnCfgs
  /\ prog \in Progs(cf)
  /\ fault \in {[at |-> 0, kind |-> "none"]} \cup
               {[at |-> k, kind |-> x] : k \in 1..6, x \in FaultKinds}
  /\ cs = << C0(cf @@ [wbuf |-> B]) >>
  /\ pms = [i \in 1..Len(PMSet) |-> [type |-> PMSet[i].type, n |-> Sz(PMSet[i].size)]]
  /\ pc = 1 /\ nops = 0 /\ wire = << >> /\ rets = << >> /\ bad = FALSE

(***************************************************************************)
(* The strict generator.  g = [st, tx, k, failed] threads the envelope     *)
(* state fields it needs (read-only view), the tx list built so far, the   *)
(* count of transport ops, and whether the injected fault has fired.       *)
(***************************************************************************)
St == cs[1]
Buffered(st) == st.wrote - st.sent
Nil  == [cls |-> "nil", id |-> -1]
ErrX == [cls |-> "xerr", id |-> 1]
ErrO == [cls |-> "other", id |-> 2]
ErrC == [cls |-> "closesent", id |-> 3]

Frame(st, op, fin, r1, len, m, off, zm, zlen, key) ==
  [t |-> "F", c |-> 0, op |-> op, fin |-> fin, r1 |-> r1, r2 |-> FALSE, r3 |-> FALSE,
   mk |-> (st.role = "client"), len |-> len, lk |-> "n", min |-> TRUE,
   key |-> IF st.role = "client" THEN key ELSE -1, m |-> m, off |-> off, zm |-> zm, zlen |-> zlen, code |-> -1, zlv |-> << >>]

(* emit one frame of the current message through write(): SWD then Write *)
(* g.v is a scratch view of [wrote, sent, started, nextkey, err]          *)
EmitMsg(g, st, len, fin) ==
  IF g.failed \/ g.v.err # "none" THEN [g EXCEPT !.failed = TRUE]
  ELSE
  LET k1 == g.k + 1
      first == ~g.v.started
      f  == Frame(st, IF IsCtlT(st.mtype) THEN st.mtype ELSE IF first THEN st.mtype ELSE OpCont, fin,
                  first /\ st.mcomp /\ ~IsCtlT(st.mtype), len,
                  IF st.mcomp THEN -1 ELSE st.mid, IF st.mcomp THEN 0 ELSE g.v.sent,
                  IF st.mcomp /\ fin THEN st.mid ELSE -1, IF st.mcomp /\ fin THEN g.v.wrote ELSE 0, g.v.nextkey)
  IN IF fault.at = k1 /\ fault.kind = "swd"
       THEN [g EXCEPT !.tx = Append(g.tx, [t |-> "SWD", c |-> 0, d |-> st.dl, err |-> TRUE]), !.k = k1, !.failed = TRUE]
     ELSE IF fault.at = k1 + 1 /\ fault.kind = "w"
       THEN [g EXCEPT !.tx = g.tx \o << [t |-> "SWD", c |-> 0, d |-> st.dl, err |-> FALSE],
                                       [t |-> "WERR", c |-> 0, pending |-> 1, n |-> 1] >>,
                      !.k = k1 + 1, !.failed = TRUE]
     ELSE [g EXCEPT !.tx = g.tx \o << [t |-> "SWD", c |-> 0, d |-> st.dl, err |-> FALSE], f >>,
                    !.k = k1 + 1,
                    !.v = [g.v EXCEPT !.sent = g.v.sent + len, !.started = TRUE,
                                      !.nextkey = IF st.role = "client" THEN g.v.nextkey + 4 ELSE g.v.nextkey,
                                      !.err = IF f.op = OpClose THEN "closesent" ELSE g.v.err]]

G0(st, k) == [tx |-> << >>, k |-> k, failed |-> FALSE,
              v |-> [wrote |-> st.wrote, sent |-> st.sent, started |-> st.started, nextkey |-> st.nextkey, err |-> st.err]]

RECURSIVE EmitN(_, _, _, _)
EmitN(g, st, len, cnt) == IF cnt = 0 \/ g.failed THEN g ELSE EmitN(EmitMsg(g, st, len, FALSE), st, len, cnt - 1)

(* Write / WriteString of n bytes (uncompressed message) *)
GenWrite(g, st, n, via) ==
  LET x == (g.v.wrote - g.v.sent) + n
      g1 == [g EXCEPT !.v = [g.v EXCEPT !.wrote = g.v.wrote + n]]
  IN IF st.mcomp THEN g1          \* abstract deflater: flushed at Close (envelope-legal)
     ELSE IF via = "w" /\ st.role = "server" /\ n > 2 * (B + 14) THEN EmitMsg(g1, st, x, FALSE)
     ELSE IF via = "rf" THEN EmitN(g1, st, B, x \div B)
     ELSE IF x <= B THEN g1
     ELSE EmitN(g1, st, B, (x - 1) \div B)

GenClose(g, st) == EmitMsg(g, st, g.v.wrote - g.v.sent, TRUE)

PoolGet(g, st)  == IF st.pool THEN [g EXCEPT !.tx = Append(g.tx, [t |-> "GET", c |-> 0, buf |-> 0])] ELSE g
PoolPut(g, st)  == IF st.pool THEN [g EXCEPT !.tx = Append(g.tx, [t |-> "PUT", c |-> 0, buf |-> 1, dup |-> FALSE])] ELSE g

(* flush of an open message by the implicit close in beginMessage *)
GenImplicit(g, st) ==
  IF ~st.open THEN g
  ELSE IF CtlTooBig(st, 0) THEN PoolPut(g, st)
  ELSE PoolPut(GenClose(g, st), st)

ResultOf(g, st) == IF g.failed THEN (IF st.err = "closesent" \/ g.v.err = "closesent" THEN ErrC ELSE ErrX) ELSE Nil

(***************************************************************************)
(* One program step: generate the call's tx with the strict model, then    *)
(* take the envelope transition with it.                                   *)
(***************************************************************************)
MsgId == pc          \* the message id of the call at position pc

Record(o, e, tx, st2) ==
  /\ bad' = (bad \/ IsBad(st2))
  /\ cs' = IF IsBad(st2) THEN cs ELSE << st2 >>
  /\ rets' = Append(rets, [op |-> o.op, ok |-> IsNil(e),
                            m |-> CASE o.op \in {"WM", "WJ", "WC"} -> MsgId
                                    [] o.op = "WP" -> (IF St.wild \/ (St.open /\ IsDataT(pms[o.pm + 1].type)) THEN -1 ELSE 1000 + o.pm)
                                    [] o.op = "CL" -> (IF St.open THEN St.mid ELSE -1)
                                    [] OTHER -> -1])
  /\ wire' = wire \o SelectSeq(tx, LAMBDA it : it.t \in {"F", "WERR"})
  /\ nops' = nops + Cardinality({i \in 1..Len(tx) : tx[i].t \in {"SWD", "F", "WERR"}})


DoNW(o) ==
  LET st == St
      dead == st.err # "none"
      g1 == IF dead THEN (IF st.open THEN PoolPut(G0(st, nops), st) ELSE G0(st, nops)) ELSE GenImplicit(G0(st, nops), st)
      stAfter == [st EXCEPT !.err = g1.v.err]
      ok == ~dead /\ ~g1.failed /\ g1.v.err = "none" /\ ValidType(o.type)
      g2 == IF ok THEN PoolGet(g1, st) ELSE g1
      e  == IF ok THEN Nil ELSE IF dead \/ g1.v.err = "closesent" THEN (IF st.err = "fatal" THEN ErrX ELSE ErrC) ELSE IF g1.failed THEN ErrX ELSE ErrO
  IN Record(o, e, g2.tx, NWStep(st, o.type, MsgId, e, g2.tx))

DoWR(o) ==
  LET st == St
      n == Sz(o.size)
      dead == st.err # "none"
      tooBig == CtlTooBig(st, n) /\ (st.wrote + n > B \/ TRUE)
      g == IF ~st.open \/ dead THEN G0(st, nops)
           ELSE IF IsCtlT(st.mtype) THEN G0(st, nops)
           ELSE GenWrite(G0(st, nops), st, n, o.via)
      \* control message: buffered if it fits the buffer, else rejected at once
      ctlFail == st.open /\ ~dead /\ IsCtlT(st.mtype) /\ st.wrote + n > B
      g2 == IF (g.failed \/ ctlFail) /\ st.open THEN PoolPut(g, st) ELSE g
      e  == IF ~st.open THEN ErrO ELSE IF dead /\ ~IsCtlT(st.mtype) /\ Buffered(st) + n <= B /\ ~(st.role = "server" /\ o.via = "w" /\ n > 2 * (B + 14)) THEN Nil
            ELSE IF dead THEN (IF st.err = "fatal" THEN ErrX ELSE ErrC)
            ELSE IF g.failed THEN ErrX ELSE IF ctlFail THEN ErrO ELSE Nil
      g3 == IF dead /\ st.open /\ ~IsNil(e) THEN PoolPut(G0(st, nops), st) ELSE g2
  IN Record(o, e, g3.tx, WRStep(st, n, IF IsNil(e) THEN n ELSE 0, e, g3.tx))

DoCL(o) ==
  LET st == St
      dead == st.err # "none"
      bigCtl == CtlTooBig(st, 0)
      g == IF ~st.open THEN G0(st, nops)
           ELSE IF dead \/ bigCtl THEN PoolPut(G0(st, nops), st)
           ELSE PoolPut(GenClose(G0(st, nops), st), st)
      e == IF ~st.open THEN ErrO ELSE IF dead THEN (IF st.err = "fatal" THEN ErrX ELSE ErrC)
           ELSE IF bigCtl THEN ErrO ELSE IF g.failed THEN ErrX ELSE Nil
  IN Record(o, e, g.tx, CLStep(st, e, g.tx))

DoWMX(o, type, n, jfail) ==
  LET st == St
      dead == st.err # "none"
      g1 == IF dead THEN (IF st.open THEN PoolPut(G0(st, nops), st) ELSE G0(st, nops)) ELSE GenImplicit(G0(st, nops), st)
      valid == ValidType(type) /\ ~(IsCtlT(type) /\ n > 125)
      cont == ~dead /\ ~g1.failed /\ g1.v.err = "none"
      \* the new message, seen as a fresh writer
      s2 == [st EXCEPT !.open = TRUE, !.mtype = type, !.mid = MsgId, !.wrote = n, !.sent = 0, !.started = FALSE,
                       !.mcomp = Compresses(st, type)]
      gm == [g1 EXCEPT !.v = [g1.v EXCEPT !.wrote = n, !.sent = 0, !.started = FALSE]]
      fast == st.role = "server" /\ ~Compresses(st, type)
      body == IF ~ValidType(type) THEN gm
              ELSE IF IsCtlT(type) /\ n > 125 THEN PoolPut(PoolGet(gm, st), st)
              ELSE IF fast \/ s2.mcomp \/ IsCtlT(type) THEN PoolPut(EmitMsg(PoolGet(gm, st), s2, n, TRUE), st)
              ELSE \* NextWriter + Write + Close
                   LET gw == GenWrite([PoolGet(gm, st) EXCEPT !.v = [gm.v EXCEPT !.wrote = 0]], s2, n, "w") IN
                   PoolPut(GenClose(gw, s2), st)
      g2 == IF cont THEN body ELSE g1
      e  == IF dead THEN (IF st.err = "fatal" THEN ErrX ELSE ErrC)
            ELSE IF g1.failed THEN ErrX ELSE IF g1.v.err = "closesent" THEN ErrC
            ELSE IF ~valid THEN ErrO ELSE IF g2.failed THEN ErrX ELSE IF jfail THEN ErrO ELSE Nil
  IN Record([o EXCEPT !.op = IF jfail THEN "WJB" ELSE "WM"], e, g2.tx, WMStepX(st, type, n, MsgId, e, g2.tx, jfail))

DoWM(o, type, n) == DoWMX(o, type, n, FALSE)
DoWJB(o) == DoWMX(o, OpText, 0, TRUE)

DoWC(o) ==
  LET st == St
      n == Sz(o.size)
      valid == IsCtlT(o.type) /\ n <= 125
      dead == st.err # "none"
      k1 == nops + 1
      f == [Frame(st, o.type, TRUE, FALSE, n, MsgId, 0, -1, 0, st.nextkey) EXCEPT !.off = 0]
      tx == IF ~valid \/ o.dl = "past" \/ dead THEN << >>
            ELSE IF fault.at = k1 /\ fault.kind = "swd" THEN << [t |-> "SWD", c |-> 0, d |-> o.dl, err |-> TRUE] >>
            ELSE IF fault.at = k1 + 1 /\ fault.kind = "w" THEN << [t |-> "SWD", c |-> 0, d |-> o.dl, err |-> FALSE], [t |-> "WERR", c |-> 0, pending |-> 1, n |-> 1] >>
            ELSE << [t |-> "SWD", c |-> 0, d |-> o.dl, err |-> FALSE], f >>
      e == IF ~valid THEN ErrO ELSE IF o.dl = "past" THEN [cls |-> "timeout", id |-> 4]
           ELSE IF dead THEN (IF st.err = "fatal" THEN ErrX ELSE ErrC)
           ELSE IF Len(tx) > 0 /\ tx[Len(tx)].t # "F" THEN ErrX ELSE Nil
  IN Record(o, e, tx, WCStep(st, o.type, n, o.dl, MsgId, e, tx))

DoWP(o) ==
  LET st == St
      p == pms[o.pm + 1]
      dead == st.err # "none"
      z == Compresses(st, p.type)
      k1 == nops + 1
      \* rendered through WriteMessage on a 4096-byte buffer: one frame (server, control or compressed)
      \* or 4096-byte fragments (client)
      f == [Frame(st, p.type, TRUE, z, p.n, IF z THEN -1 ELSE 1000 + o.pm, 0, IF z THEN 1000 + o.pm ELSE -1, IF z THEN p.n ELSE 0, 0) EXCEPT !.key = IF st.role = "client" THEN 0 ELSE -1]
      tx == IF dead \/ (st.open /\ IsDataT(p.type)) THEN << >>
            ELSE IF fault.at = k1 /\ fault.kind = "swd" THEN << [t |-> "SWD", c |-> 0, d |-> st.dl, err |-> TRUE] >>
            ELSE IF fault.at = k1 + 1 /\ fault.kind = "w" THEN << [t |-> "SWD", c |-> 0, d |-> st.dl, err |-> FALSE], [t |-> "WERR", c |-> 0, pending |-> 1, n |-> 1] >>
            ELSE << [t |-> "SWD", c |-> 0, d |-> st.dl, err |-> FALSE], f >>
      e == IF dead THEN (IF st.err = "fatal" THEN ErrX ELSE ErrC)
           ELSE IF Len(tx) > 0 /\ tx[Len(tx)].t # "F" THEN ErrX ELSE Nil
  IN Record(o, e, tx, WPStep(st, o.pm, e, tx))

DoSet(o) ==
  LET st == St
      st2 == CASE o.op = "SD" -> [st EXCEPT !.dl = o.dl]
               [] o.op = "WRO" -> st
               [] o.op = "EC" -> [st EXCEPT !.wcomp = o.on]
               [] o.op = "SL" -> IF o.level \in -2..9 THEN [st EXCEPT !.level = o.level] ELSE st
               [] o.op = "XC" -> st
  IN Record(o, Nil, << >>, st2)

Step ==
  /\ pc <= Len(prog) /\ ~bad
  /\ LET o == prog[pc] IN
     CASE o.op = "NW" -> DoNW(o)
       [] o.op = "WR" -> DoWR(o)
       [] o.op = "CL" -> DoCL(o)
       [] o.op = "WM" -> DoWM(o, o.type, Sz(o.size))
       [] o.op = "WJ" -> DoWM(o, OpText, Sz(o.size) + 3)
       [] o.op = "WJB" -> DoWJB(o)
       [] o.op = "WC" -> DoWC(o)
       [] o.op = "WP" -> DoWP(o)
       [] OTHER -> DoSet(o)
  /\ pc' = pc + 1
  /\ UNCHANGED << pms, prog, cf, fault >>

Spec == Init /\ [][Step]_mvars

(* Printed once per initial state (= per abstract program); a CONSTRAINT so *)
(* that error-trace reconstruction does not print again.                    *)
Emit == pc = 1 => PrintT(<< "PROG", ToJson([conns |-> << cf >>, ops |-> prog, pms |-> PMSet, mfault |-> fault]) >>)

-----------------------------------------------------------------------------
InvRefines == ~bad

Frames == SelectSeq(wire, LAMBDA it : it.t = "F")
InvWire == WFPrefix(Frames, cf.role, cf.pmce)

(* C09: nothing follows a close frame.  C10: nothing follows a failure. *)
InvCloseLast == \A i \in 1..Len(wire) : (wire[i].t = "F" /\ wire[i].op = OpClose) => i = Len(wire)
InvFailStop  == \A i \in 1..Len(wire) : wire[i].t = "WERR" => i = Len(wire)

(* C20: no buffer is held when no message is open. *)
InvPool == (cf.pool /\ ~St.open) => St.held = -1

(* C01/C02/C09: every call that reported a message as sent (WriteMessage,   *)
(* WriteJSON, WriteControl, WritePreparedMessage, Close of a writer) has    *)
(* that message completely on the wire, in call order; a call that failed   *)
(* never has.                                                               *)
RECURSIVE IsSubSeq(_, _)
IsSubSeq(a, b) == IF a = << >> THEN TRUE
                  ELSE IF b = << >> THEN FALSE
                  ELSE IF Head(a) = Head(b) THEN IsSubSeq(Tail(a), Tail(b)) ELSE IsSubSeq(a, Tail(b))
DoneIds == [i \in 1..Len(St.done) |-> St.done[i].m]
OkIds   == LET ok == SelectSeq(rets, LAMBDA r : r.ok /\ r.m >= 0) IN [i \in 1..Len(ok) |-> ok[i].m]
FailedIds == {rets[i].m : i \in {j \in 1..Len(rets) : ~rets[j].ok /\ rets[j].m >= 0}}
InvDone == /\ IsSubSeq(OkIds, DoneIds)
           /\ \A i \in 1..Len(DoneIds) : DoneIds[i] < 1000 => DoneIds[i] \notin FailedIds   \* (a prepared message may be sent many times)
=============================================================================
