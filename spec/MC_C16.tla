------------------------------- MODULE MC_C16 -------------------------------
(* Program space for the client part of C16: dial paths {direct, http      *)
(* proxy, https proxy, socks5} x {ws, wss} x dial hooks x timeout settings *)
(* x reply classes {good, negative, malformed, none} x proxy reply classes *)
(* x certificate classes x abstract fault (every abstract transport        *)
(* operation index x kind, or a failing dial hook).  The Go driver expands *)
(* every program to EVERY CONCRETE transport-operation index of the real   *)
(* execution (dry run + one run per index and kind).                       *)
EXTENDS WSDialMC

CONSTANTS Proxies, HookSets, Tmos, ReplyKinds, CReplyKinds, Certs, MaxAt, Kinds

(* hook sets are named by the letters n (NetDial), c (NetDialContext), t (NetDialTLSContext) *)
HK(s) == CASE s = "c" -> << FALSE, TRUE, FALSE >> [] s = "ct" -> << FALSE, TRUE, TRUE >>
           [] s = "n" -> << TRUE, FALSE, FALSE >> [] s = "nt" -> << TRUE, FALSE, TRUE >>
           [] s = "nc" -> << TRUE, TRUE, FALSE >> [] s = "nct" -> << TRUE, TRUE, TRUE >>
           [] s = "t" -> << FALSE, FALSE, TRUE >> [] OTHER -> << FALSE, FALSE, FALSE >>
MCCfgs ==
  { [BaseCfg EXCEPT !.proxy = p, !.nd = HK(h)[1], !.ndc = HK(h)[2], !.ndtc = HK(h)[3], !.tmo = t,
                    !.puser = (p # "none"), !.ppass = (p # "none"),
                    !.trace = (t \in {"ctx", "bothl"})] :   \* httptrace hooks installed in two of the deadline settings
      p \in Proxies, h \in HookSets, t \in Tmos }

ReplyOf(k) ==
  CASE k = "good" -> GoodReply
    [] k = "neg"  -> StdReply(403, << >>, << << "close" >> >>, "absent", 2000, TRUE, "none")
    [] k = "malformed" -> [mode |-> "raw", sl |-> "badversion", code |-> "200", hb |-> "none"]
    [] OTHER -> [mode |-> "none"]

CReplyOf(k) ==
  CASE k = "ok" -> OkCReply
    [] k = "refuse" -> [mode |-> "status", status |-> 407]
    [] k = "malformed" -> [mode |-> "raw", sl |-> "badversion", code |-> "200", hb |-> "none"]
    [] OTHER -> [mode |-> "none", status |-> 0]

AbsFaults == { NoFault } \cup { [at |-> a, kind |-> k] : a \in 1..MaxAt, k \in Kinds }

Us == { PlainURL, [PlainURL EXCEPT !.scheme = "wss"] }

MCDials(c) ==
  { << Dial(u, << >>, ReplyOf(r), CReplyOf(cr), ce, f, he) >> :
      u \in Us, r \in ReplyKinds,
      cr \in (IF Proxied(c) THEN CReplyKinds ELSE {"ok"}),
      ce \in Certs, f \in AbsFaults, he \in BOOLEAN }
  \ { x \in { << Dial(u, << >>, ReplyOf(r), CReplyOf(cr), ce, f, he) >> :
                u \in Us, r \in ReplyKinds, cr \in (IF Proxied(c) THEN CReplyKinds ELSE {"ok"}),
                ce \in Certs, f \in AbsFaults, he \in BOOLEAN } :
        \/ x[1].hookerr /\ x[1].fault # NoFault
        \/ x[1].cert # "valid" /\ ~LibBackendTLS(c, x[1]) }
=============================================================================
