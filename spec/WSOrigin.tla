------------------------------ MODULE WSOrigin ------------------------------
(***************************************************************************)
(* The default origin policy of property C13, written from the property    *)
(* text, RFC 6454 (serialised origin = scheme "://" host [ ":" port ]) and *)
(* RFC 3986 section 3.2 (authority = [ userinfo "@" ] host [ ":" port ]).  *)
(*                                                                         *)
(* Hosts and origins are sequences of Unicode code points.  An Origin      *)
(* header value is described by its SHAPE and the host text y it was       *)
(* assembled from; OriginString is the value that is sent, Authority is    *)
(* the "host (with port)" a correct parser extracts from it.               *)
(*                                                                         *)
(*   shape        value sent                       host (with port)        *)
(*   "plain"      scheme "://" y [":" port]        y [":" port]            *)
(*   "userinfo"   scheme "://user@" y [":" port]   y [":" port]            *)
(*   "evil"       scheme "://" y "@evil.test"      evil.test   (y is only  *)
(*                                                 the userinfo)           *)
(*   "path"       scheme "://" y [":" port] "/p"   y [":" port]            *)
(*   "noscheme"   y [":" port]                     none (not an origin)    *)
(*   "null"       "null"                           none                    *)
(*   "badport"    scheme "://" y ":x"              none (unparsable)       *)
(*   "badhost"    scheme "://[" y                  none (unparsable)       *)
(***************************************************************************)
EXTENDS Integers, Sequences

(* ASCII-only case folding: exactly the 26 letters A..Z fold; in           *)
(* particular U+212A KELVIN SIGN and U+017F LATIN SMALL LETTER LONG S,     *)
(* which Unicode simple case folding maps to "k" and "s", do not.          *)
AFold(c) == IF c \in 65..90 THEN c + 32 ELSE c
AFoldEq(a, b) == Len(a) = Len(b) /\ \A i \in 1..Len(a) : AFold(a[i]) = AFold(b[i])

Kelvin == 8490
LongS  == 383

CColon == <<58>>
CSep   == <<58, 47, 47>>                               \* "://"
CEvil  == <<64, 101, 118, 105, 108, 46, 116, 101, 115, 116>>   \* "@evil.test"
CUser  == <<117, 115, 101, 114, 64>>                   \* "user@"
CPath  == <<47, 112>>                                  \* "/p"
CNull  == <<110, 117, 108, 108>>                       \* "null"
CBadP  == <<58, 120>>                                  \* ":x"
CLBr   == <<91>>                                       \* "["

Shapes == {"plain", "userinfo", "evil", "path", "noscheme", "null", "badport", "badhost"}
HasAuthority(shape) == shape \in {"plain", "userinfo", "evil", "path"}

WithPort(y, port) == IF port = << >> THEN y ELSE y \o CColon \o port

(* o = [present, shape, scheme, y, port] *)
OriginString(o) ==
  CASE o.shape = "plain"    -> o.scheme \o CSep \o WithPort(o.y, o.port)
    [] o.shape = "userinfo" -> o.scheme \o CSep \o CUser \o WithPort(o.y, o.port)
    [] o.shape = "evil"     -> o.scheme \o CSep \o o.y \o CEvil
    [] o.shape = "path"     -> o.scheme \o CSep \o WithPort(o.y, o.port) \o CPath
    [] o.shape = "noscheme" -> WithPort(o.y, o.port)
    [] o.shape = "null"     -> CNull
    [] o.shape = "badport"  -> o.scheme \o CSep \o o.y \o CBadP
    [] o.shape = "badhost"  -> o.scheme \o CSep \o CLBr \o o.y

Authority(o) ==
  CASE o.shape \in {"plain", "userinfo", "path"} -> WithPort(o.y, o.port)
    [] o.shape = "evil" -> Tail(CEvil)
    [] OTHER -> << >>

(* C13: with no CheckOrigin configured a request is admitted iff it has no *)
(* Origin header or the origin's host (with port) equals the request Host  *)
(* under ASCII case folding.  `host` is never empty in the generated       *)
(* domain, so an origin without authority is never admitted.               *)
SameOrigin(host, o) == HasAuthority(o.shape) /\ AFoldEq(Authority(o), host)
Expected(host, o) == ~o.present \/ SameOrigin(host, o)

(* The generated domain of Host values: uri-host [ ":" port ] with a       *)
(* non-empty host part without ":" (or a bracketed IP literal) and a port  *)
(* of digits only.                                                         *)
IsDigitCp(c) == c \in 48..57
ValidHost(h) ==
  /\ Len(h) > 0
  /\ IF h[1] = 91 THEN   \* "[" IP-literal "]" [ ":" port ]
        \E j \in 2..Len(h) : /\ h[j] = 93
                             /\ \A i \in 2..(j - 1) : h[i] # 93 /\ h[i] # 91
                             /\ j > 2
                             /\ (j = Len(h) \/ (h[j + 1] = 58 /\ \A i \in (j + 2)..Len(h) : IsDigitCp(h[i])))
     ELSE LET cols == {i \in 1..Len(h) : h[i] = 58} IN
          \/ cols = {}
          \/ \E c \in cols : cols = {c} /\ c > 1 /\ \A i \in (c + 1)..Len(h) : IsDigitCp(h[i])
=============================================================================
