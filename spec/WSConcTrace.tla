---------------------------- MODULE WSConcTrace ----------------------------
(* Trace validation of recorded concurrent executions against the monitor  *)
(* WSConc (the externally visible concurrency contract of C09 / C11).      *)
EXTENDS WSConc, Json, IOUtils

Trace == ndJsonDeserialize(IOEnv.TRACE_FILE)

VARIABLES mon, l
tvars == << mon, l >>

ASSUME TLCSet(1, 0)

Ev == Trace[l]
Is(e) == l <= Len(Trace) /\ Trace[l].e = e
Adv == l' = l + 1 /\ TLCSet(1, l)

TReset == /\ Is("Reset") /\ mon' = M0(Ev.role, Ev.pmce) /\ Adv
TCall  == /\ Is("Call")
          /\ mon' = Call(mon, Ev.t, [api |-> Ev.api, type |-> Ev.type, n |-> Ev.n, dl |-> Ev.dl, m |-> Ev.m])
          /\ ~mon'.bad /\ Adv
TOp    == /\ Is("Op") /\ Ev.t \in {"W", "K1", "K2", "R"}
          /\ mon' = Op(mon, Ev.t, Ev.it) /\ ~mon'.bad /\ Adv
TRet   == /\ Is("Ret") /\ mon' = Ret(mon, Ev.t, Ev.err, Ev.late) /\ ~mon'.bad /\ Adv

TInit == l = 1 /\ mon = M0("server", FALSE)
TNext == TReset \/ TCall \/ TOp \/ TRet
TSpec == TInit /\ [][TNext]_tvars

Accepted ==
  IF TLCGet(1) = Len(Trace) THEN TRUE
  ELSE PrintT(<< "REJECTED-AT", TLCGet(1) + 1, Len(Trace) >>) /\ FALSE
=============================================================================
