SPECIFICATION Spec
CONSTANTS
  Cfgs <- MCCfgs
  Dials <- MCDials
  Proxies = {"none", "http", "https", "socks5"}
  HookSets = {"c", "ct"}
  Tmos = {"none", "ht", "ctx", "bothe", "bothl"}
  ReplyKinds = {"good", "neg"}
  CReplyKinds = {"ok", "refuse"}
  Certs = {"valid", "other"}
  MaxAt = 15
  Kinds = {"error", "timeout", "eof"}
CONSTRAINT Emit
INVARIANTS InvRefines InvConnOnlyIfProven InvBadReplyIsBadHandshake InvFailureCloses InvSuccessOpenNoDeadline InvEveryOpUnderDeadline InvProxyOnlyPath InvConnectOnce InvNon200Aborts InvWssInsideVerifiedTLS InvFirstHopHook
CHECK_DEADLOCK FALSE
