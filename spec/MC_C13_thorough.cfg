SPECIFICATION Spec
CONSTANTS
  MaxLen = 3
  PairLen = 2
  ShapeLen = 2
  AllPairs = TRUE
  PortLen = 2
CONSTRAINT Emit
INVARIANTS InvOnlySameOrigin InvSameOriginAdmitted InvNoUnicodeFold
CHECK_DEADLOCK FALSE
