SPECIFICATION Spec
CONSTANTS
  Cfgs <- MCCfgs
  Dials <- MCDials
  Parts = {"reply", "url", "hdr", "hist", "body", "urlp"}
  MaxDev = 2
  BodyLens = {0, 1, 10, 1023, 1024, 1025, 3000}
  BodyRBufs = {0, 1, 256, 8192}
  BodySegs = {"one", "hdr|body", "hdr+1", "crlf", "mid", "hdr|512", "100|1023", "1024", "crlf|1"}
  BodyKinds = {"403", "200ok"}
  BodyClx = {"5", "268435456", "max"}
  BodyURLs = {"ws"}
CONSTRAINT Emit
INVARIANTS InvRefines InvConnOnlyIfProven InvBadReplyIsBadHandshake InvRefusedBeforeNetwork InvRefusedNoLookup InvBodyExact InvKeyFresh InvFailureCloses InvSuccessOpenNoDeadline InvEveryOpUnderDeadline InvFirstHopHook
CHECK_DEADLOCK FALSE
