------------------------------- MODULE MC_C18 -------------------------------
(* Program space for C18: the matrix {no proxy, http, https, socks5} x     *)
(* {ws, wss} x {NetDial, NetDialContext, NetDialTLSContext set / unset} x  *)
(* proxy credentials {none, user, user:password} x backend certificate     *)
(* {valid for the host, valid for another host, untrusted CA} x URL host   *)
(* forms, each cell also with refused / non-200 proxy replies, plus        *)
(* histories of two dials with one Dialer (shared TLSClientConfig) to two  *)
(* different hosts.                                                        *)
EXTENDS WSDialMC

CONSTANTS Proxies, HookSets, Creds, CReplyKinds, HostForms, WithHist,
          HostOvs   \* Host header overrides of the caller: subset of {"none", "same", "other"}

HK(s) == CASE s = "c" -> << FALSE, TRUE, FALSE >> [] s = "ct" -> << FALSE, TRUE, TRUE >>
           [] s = "n" -> << TRUE, FALSE, FALSE >> [] s = "nt" -> << TRUE, FALSE, TRUE >>
           [] s = "nc" -> << TRUE, TRUE, FALSE >> [] s = "nct" -> << TRUE, TRUE, TRUE >>
           [] s = "t" -> << FALSE, FALSE, TRUE >> [] OTHER -> << FALSE, FALSE, FALSE >>

MCCfgs ==
  { [BaseCfg EXCEPT !.proxy = p, !.nd = HK(h)[1], !.ndc = HK(h)[2], !.ndtc = HK(h)[3],
                    !.puser = (cr # "none"), !.ppass = (cr = "userpass"),
                    !.pport = IF p = "http" /\ cr = "user" THEN "" ELSE IF p = "socks5" THEN "1080" ELSE "3128"] :
      p \in Proxies, h \in HookSets, cr \in Creds }
  \ { c \in { [BaseCfg EXCEPT !.proxy = p, !.nd = HK(h)[1], !.ndc = HK(h)[2], !.ndtc = HK(h)[3],
                    !.puser = (cr # "none"), !.ppass = (cr = "userpass"),
                    !.pport = IF p = "http" /\ cr = "user" THEN "" ELSE IF p = "socks5" THEN "1080" ELSE "3128"] :
                  p \in Proxies, h \in HookSets, cr \in Creds } : c.proxy = "none" /\ c.puser }

AllHosts == { << "name", "example.test", "example.test", "" >>, << "nameport", "example.test", "example.test", "8080" >>,
              << "v4", "192.0.2.7", "192.0.2.7", "" >>, << "v4port", "192.0.2.7", "192.0.2.7", "8443" >>,
              << "v6", "[2001:db8::1]", "2001:db8::1", "" >>, << "v6port", "[2001:db8::1]", "2001:db8::1", "9443" >> }
Hosts == { h \in AllHosts : h[1] \in HostForms }

U(s, h) == URL(s, "none", h[1], h[2], h[3], h[4], "/ws", FALSE, "", FALSE)

CReplyOf(k) ==
  CASE k = "ok" -> OkCReply
    [] k = "407" -> [mode |-> "status", status |-> 407]
    [] k = "403" -> [mode |-> "status", status |-> 403]
    [] k = "202" -> [mode |-> "status", status |-> 202]
    [] k = "204" -> [mode |-> "status", status |-> 204]
    [] k = "299" -> [mode |-> "status", status |-> 299]
    [] k = "500" -> [mode |-> "status", status |-> 500]
    [] k = "301" -> [mode |-> "status", status |-> 301]
    [] OTHER -> [mode |-> "none", status |-> 0]

(* The caller's Host override (requestHeader["Host"]) names the URL's own host or ANOTHER host                 *)
(* (other.example.test, one of the names the "other" certificate is valid for): it changes the Host header of   *)
(* the request and nothing else - CONNECT target, SNI and the name the certificate is verified for remain the   *)
(* URL's host on every dial path.                                                                                *)
HostOv(k, u) ==
  CASE k = "same"  -> << Hdr("Host", HostHdr(u)) >>
    [] k = "other" -> << Hdr("Host", "other.example.test") >>
    [] OTHER       -> << >>
Cells(c) ==
  { << Dial(U(s, h), HostOv(ho, U(s, h)), GoodReply, CReplyOf(cr), ce, NoFault, FALSE) >> :
      s \in {"ws", "wss"}, h \in Hosts, ho \in HostOvs,
      cr \in (IF Proxied(c) THEN CReplyKinds ELSE {"ok"}),
      ce \in {"valid", "other", "untrusted"} }

HostA == << "name", "a.example.test", "a.example.test", "" >>
HostB == << "nameport", "b.example.test", "b.example.test", "8443" >>
Hist(c) ==
  { << Dial(U("wss", HostA), << >>, GoodReply, OkCReply, "valid", NoFault, FALSE),
       Dial(U(s2, HostB), << >>, GoodReply, OkCReply, ce, NoFault, FALSE) >> :
      s2 \in {"wss"}, ce \in {"valid", "other", "untrusted"} }

(* Histories on ONE Dialer value through a proxy with credentials: a dial that fails in the proxy stage (refused  *)
(* CONNECT / SOCKS request, proxy closes) or succeeds, then a dial to another host: each dial has to satisfy the  *)
(* single-dial obligations on its own (one CONNECT with Proxy-Authorization iff the proxy URL has a password).    *)
Hist2(c) ==
  IF ~Proxied(c) \/ ~c.puser THEN {}
  ELSE { << Dial(U(s1, HostA), << >>, GoodReply, CReplyOf(cr1), "valid", NoFault, FALSE),
            Dial(U(s2, HostB), << >>, GoodReply, OkCReply, "valid", NoFault, FALSE) >> :
           s1 \in {"ws", "wss"}, s2 \in {"ws", "wss"}, cr1 \in {"407", "500", "none", "ok"} }
         \cup { << Dial(U("ws", HostA), << >>, GoodReply, CReplyOf("407"), "valid", NoFault, FALSE),
                  Dial(U("ws", HostA), << >>, GoodReply, CReplyOf("none"), "valid", NoFault, FALSE),
                  Dial(U(s3, HostB), << >>, GoodReply, OkCReply, "valid", NoFault, FALSE) >> : s3 \in {"ws", "wss"} }

MCDials(c) ==
  { x \in Cells(c) : /\ x[1].cert = "valid" \/ (LibBackendTLS(c, x[1]) /\ CReplyOK(x[1]))
                     /\ x[1].hdrs = << >> \/ x[1].scheme = "wss" \/ x[1].hdrs[1].v = "other.example.test" }
  \cup (IF WithHist THEN { x \in Hist(c) : LibBackendTLS(c, x[2]) \/ x[2].cert = "valid" } \cup Hist2(c) ELSE {})
=============================================================================
