------------------------------- MODULE WSWire -------------------------------
(***************************************************************************)
(* Vocabulary of RFC 6455 / RFC 7692 framing, written from the RFC text.   *)
(* It is the independent grammar against which both directions are judged: *)
(* what a connection writes (WF, used by WSWriter) and what a reader must  *)
(* accept or refuse (FrameViolation / Messages, used by WSReader).         *)
(*                                                                         *)
(* An abstract frame is a record                                           *)
(*   [op, fin, r1, r2, r3, mk, len, lk, min]  (+ per-use extra fields)     *)
(* op  : 0..15      opcode                                                 *)
(* fin, r1..r3, mk  : header bits                                          *)
(* len : Nat        payload length when lk = "n"                           *)
(* lk  : "n" | "max" | "top"   TLC integers are 32 bit, so 2^63-1 ("max")  *)
(*                  and lengths with the top bit set ("top") are symbolic  *)
(* min : BOOLEAN    the length used the minimal encoding                   *)
(***************************************************************************)
EXTENDS Integers, Sequences, FiniteSets

OpCont  == 0
OpText  == 1
OpBin   == 2
OpClose == 8
OpPing  == 9
OpPong  == 10

IsCtlOp(op)      == op \in {OpClose, OpPing, OpPong}
IsDataOp(op)     == op \in {OpText, OpBin}
IsReservedOp(op) == op \in (3..7) \cup (11..15)

(* Close codes, RFC 6455 7.4 and the IANA registry.                        *)
MustAcceptCode(c) == c \in (1000..1003) \cup (1007..1011) \cup (3000..4999)
MustRejectCode(c) == \/ c < 1000
                     \/ c \in {1004, 1005, 1006, 1015}
                     \/ c \in 1016..2999
                     \/ c >= 5000
UnspecCode(c)     == ~MustAcceptCode(c) /\ ~MustRejectCode(c)   \* 1012..1014

(* Minimal length encoding classes: 7 bit up to 125, 16 bit up to 65535.   *)
EncOf(n) == IF n <= 125 THEN 7 ELSE IF n <= 65535 THEN 16 ELSE 64

(***************************************************************************)
(* Sender-side grammar: WFStep folds one frame into the state of the       *)
(* recogniser; state is "idle", "msg" (inside a fragmented data message)   *)
(* or "bad".  role is the role of the SENDER ("client" frames are masked). *)
(***************************************************************************)
WFFrameOK(f, st, role, pmce) ==
    /\ ~f.r2 /\ ~f.r3
    /\ f.lk = "n"
    /\ f.min
    /\ f.mk = (role = "client")
    /\ ~IsReservedOp(f.op)
    /\ IsCtlOp(f.op) => (f.fin /\ f.len <= 125 /\ ~f.r1)
    /\ IsDataOp(f.op) => (st = "idle" /\ (f.r1 => pmce))
    /\ f.op = OpCont => (st = "msg" /\ ~f.r1)

WFStep(st, f, role, pmce) ==
    IF st = "bad" \/ ~WFFrameOK(f, st, role, pmce) THEN "bad"
    ELSE IF IsCtlOp(f.op) THEN st
    ELSE IF f.fin THEN "idle" ELSE "msg"

RECURSIVE WFFold(_, _, _, _)
WFFold(st, s, role, pmce) ==
    IF s = <<>> THEN st
    ELSE WFFold(WFStep(st, Head(s), role, pmce), Tail(s), role, pmce)

(* A complete well-formed stream ends between messages; a prefix may end   *)
(* inside a fragmented message.                                            *)
WFPrefix(s, role, pmce) == WFFold("idle", s, role, pmce) # "bad"
WF(s, role, pmce)       == WFFold("idle", s, role, pmce) = "idle"

(***************************************************************************)
(* Receiver-side judgement of one frame: a violation of RFC 6455 framing   *)
(* as enumerated in property C04.  role is the role of the RECEIVER, frag  *)
(* is TRUE iff a fragmented data message is in progress.  The close-body   *)
(* fields are: blen (body length), code, utf8 (reason is valid UTF-8).     *)
(***************************************************************************)
HeaderViolation(f, frag, role, pmce) ==
    \/ f.r2 \/ f.r3
    \/ f.r1 /\ ~pmce
    \/ IsReservedOp(f.op)
    \/ IsCtlOp(f.op) /\ (~f.fin \/ f.lk # "n" \/ (f.lk = "n" /\ f.len > 125))
    \/ f.op = OpCont /\ ~frag
    \/ IsDataOp(f.op) /\ frag
    \/ f.mk # (role = "server")

CloseBodyViolation(f) ==
    /\ f.op = OpClose /\ f.lk = "n" /\ f.len >= 2
    /\ (MustRejectCode(f.code) \/ ~f.utf8)

FrameViolation(f, frag, role, pmce) ==
    \/ HeaderViolation(f, frag, role, pmce)
    \/ f.lk = "top"
    \/ CloseBodyViolation(f)

(* Frames on which the properties take no position (section 5 of DESIGN):  *)
(* the library is lenient on them and the checks neither require nor       *)
(* forbid acceptance.                                                      *)
Unspecified(f, frag, role, pmce) ==
    /\ ~FrameViolation(f, frag, role, pmce)
    /\ \/ ~f.min
       \/ f.r1 /\ pmce /\ ~IsDataOp(f.op)
       \/ f.op = OpClose /\ f.len = 1
       \/ f.op = OpClose /\ f.len >= 2 /\ UnspecCode(f.code)

=============================================================================
