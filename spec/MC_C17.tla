------------------------------- MODULE MC_C17 -------------------------------
(* Program space for C17: small frame streams x every split point x        *)
(* Upgrader.ReadBufferSize x hijacked reader size (server), x              *)
(* Dialer.ReadBufferSize (client, split anywhere in "101 + frames").       *)
EXTENDS WSBoundaryMC

CONSTANT Full

F(op, fin, len) == [op |-> op, fin |-> fin, len |-> len]

QuickStreams ==
  { << F(1, TRUE, 11) >>,
    << F(2, FALSE, 3), F(0, TRUE, 130) >>,
    << F(1, TRUE, 2), F(9, TRUE, 1), F(2, TRUE, 3) >> }
MoreStreams ==
  { << F(1, TRUE, 5), F(9, TRUE, 2), F(2, TRUE, 0), F(1, TRUE, 126) >>,
    << F(2, TRUE, 300), F(1, FALSE, 125), F(0, FALSE, 0), F(0, TRUE, 1), F(2, TRUE, 90) >>,
    << F(2, TRUE, 0) >> }
MCStreams == IF Full THEN QuickStreams \cup MoreStreams ELSE QuickStreams
=============================================================================
