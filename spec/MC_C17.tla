------------------------------- MODULE MC_C17 -------------------------------
(* Program space for C17: small frame streams x every split point x        *)
(* Upgrader.ReadBufferSize x hijacked reader size (server), x              *)
(* Dialer.ReadBufferSize (client, split anywhere in "101 + frames").       *)
EXTENDS WSBoundaryMC

CONSTANT Full

F(op, fin, len) == [op |-> op, fin |-> fin, len |-> len]

QuickStreams ==
  { << F(1, TRUE, 11) >>,
    << F(2, FALSE, 3), F(0, TRUE, 130) >>,
    << F(1, TRUE, 2), F(9, TRUE, 1), F(2, TRUE, 3) >> }
MoreStreams ==
  { << F(1, TRUE, 5), F(9, TRUE, 2), F(2, TRUE, 0), F(1, TRUE, 126) >>,
    << F(2, TRUE, 300), F(1, FALSE, 125), F(0, FALSE, 0), F(0, TRUE, 1), F(2, TRUE, 90) >>,
    << F(2, TRUE, 0) >> }
MCStreams == IF Full THEN QuickStreams \cup MoreStreams ELSE QuickStreams

(* Control frames of every payload size glued to the handshake: a ping or  *)
(* pong of n bytes followed by a text message, a text message followed by  *)
(* a close frame of n bytes (status code + reason), and a ping in the      *)
(* middle of a fragmented message.  Quick: the sizes around the small      *)
(* read-buffer sizes; Full: every size 0..125.                             *)
CtlSizes == IF Full THEN 0..125 ELSE {0, 1, 15, 16, 17, 63, 64, 65, 100, 123, 124, 125}
MCCtlStreams ==
  {<< F(op, TRUE, n), F(1, TRUE, 5) >> : op \in {9, 10}, n \in CtlSizes}
  \cup {<< F(1, TRUE, 3), F(8, TRUE, n) >> : n \in CtlSizes \ {1}}
  \cup {<< F(2, FALSE, 4), F(9, TRUE, n), F(0, TRUE, 2) >> : n \in (IF Full THEN CtlSizes ELSE {17, 65, 125})}
=============================================================================
