SPECIFICATION Spec
CONSTANTS
  Cfgs <- MCCfgs
  Dials <- MCDials
  Parts = {"reply", "url", "hdr", "hist"}
  MaxDev = 4
CONSTRAINT Emit
INVARIANTS InvRefines InvConnOnlyIfProven InvBadReplyIsBadHandshake InvRefusedBeforeNetwork InvKeyFresh InvFailureCloses InvSuccessOpenNoDeadline InvEveryOpUnderDeadline InvFirstHopHook
CHECK_DEADLOCK FALSE
