SPECIFICATION Spec
CONSTANTS
  Cfgs <- MCCfgs
  Dials <- MCDials
  Parts = {"reply", "url", "hdr", "hist", "body", "urlp"}
  MaxDev = 4
  BodyLens = {0, 1, 10, 1023, 1024, 1025, 3000, 5000}
  BodyRBufs = {0, 1, 125, 126, 256, 1024, 4096, 4097, 8192, 65536}
  BodySegs = {"one", "hdr|body", "hdr+1", "crlf", "mid", "hdr|512", "100|1023", "1024", "crlf|1", "1|2", "1000|1024", "2000", "hdr-40", "1023|1025"}
  BodyKinds = {"403", "200ok", "500close", "101other"}
  BodyClx = {"1", "5", "1048576", "268435456", "2147483648", "max"}
  BodyURLs = {"ws", "wss"}
CONSTRAINT Emit
INVARIANTS InvRefines InvConnOnlyIfProven InvBadReplyIsBadHandshake InvRefusedBeforeNetwork InvRefusedNoLookup InvBodyExact InvKeyFresh InvFailureCloses InvSuccessOpenNoDeadline InvEveryOpUnderDeadline InvFirstHopHook
CHECK_DEADLOCK FALSE
