------------------------------ MODULE WSConcMC ------------------------------
(***************************************************************************)
(* The lock protocol of the write path (conn.go: write(), WriteControl(),  *)
(* beginMessage()) for one connection used by several goroutines, at the   *)
(* granularity of the verification gates:                                  *)
(*   L  at the lock gate (write.lock / wc.lock), not yet trying            *)
(*   Q  blocked on the lock (a finite-deadline WriteControl may time out)  *)
(*   A  lock acquired (write.locked / wc.locked), sticky flag not read yet *)
(*   S  sticky flag was clear: about to call SetWriteDeadline              *)
(*   T  about to call Write                                                *)
(*   B  beginMessage has read the sticky flag WITHOUT the lock             *)
(*   N  between operations;  D  done                                       *)
(* Every observable step (call, transport operation, return) is fed to     *)
(* the monitor WSConc; the invariant MonitorOK says that EVERY interleaving*)
(* of the protocol satisfies the contract.  The history `sched` of thread  *)
(* steps is the schedule that the Go harness replays through the gates.    *)
(***************************************************************************)
EXTENDS WSConc, Json

CONSTANTS Role,
          WProgs,      \* set of programs of the message writer: sequences of [api, type, n, dl]
          KProgs,      \* set of pairs << K1 program, K2 program >> : sequences of [api |-> "WC", type, n, dl]
          RProgs,      \* set of sequences of reader-triggered replies [type, n]
          FaultAts,    \* set of transport-op indices at which one fault is injected (0 = none)
          WCCheckBeforeLock,  \* FALSE: conn.go as it is; TRUE: the deliberate deviation "WriteControl reads the
                       \* sticky flag BEFORE taking the lock" (expected-violation config MC_Conc_mutation.cfg)
          KeepSched,   \* record the schedule history (FALSE in the liveness config: no VIEW there)
          MultiQ       \* TRUE: any number of threads may block on the lock (liveness config);
                       \* FALSE: at most one (schedules that the harness can replay deterministically)

Threads == {"W", "K1", "K2", "R"}

VARIABLES mon, lock, err, pc, ip, seen, progs, sched, nops, faultAt, wmsg
vars == << mon, lock, err, pc, ip, seen, progs, sched, nops, faultAt, wmsg >>

Nil   == [cls |-> "nil", id |-> -1]
ErrC  == [cls |-> "closesent", id |-> 1]
ErrX  == [cls |-> "xerr", id |-> 2]
ErrT  == [cls |-> "timeout", id |-> 3]
ErrOf == IF err = "closesent" THEN ErrC ELSE ErrX

Init ==
  /\ \E w \in WProgs, k \in KProgs, r \in RProgs :
        progs = [t \in Threads |-> CASE t = "W" -> w [] t = "K1" -> k[1] [] t = "K2" -> k[2] [] t = "R" -> r]
  /\ faultAt \in FaultAts
  /\ mon = M0(Role, FALSE) /\ lock = "" /\ err = "none"
  /\ pc = [t \in Threads |-> "N"] /\ ip = [t \in Threads |-> 1]
  /\ seen = [t \in Threads |-> "none"]
  /\ sched = << >> /\ nops = 0
  /\ wmsg = [open |-> FALSE, type |-> 0, mid |-> 0, wrote |-> 0, sent |-> 0, started |-> FALSE, left |-> 0]

Cur(t)  == progs[t][ip[t]]
More(t) == ip[t] <= Len(progs[t])
Log(t, s) == sched' = IF KeepSched THEN Append(sched, [t |-> t, s |-> s]) ELSE sched

DL(t) == IF t = "R" THEN "auto" ELSE IF t = "W" THEN mon.dl ELSE Cur(t).dl

(* message id of the op at position ip of thread t (unique per program position) *)
Mid(t) == (CASE t = "W" -> 100 [] t = "K1" -> 200 [] t = "K2" -> 300 [] t = "R" -> 400) + ip[t]

CallRec(t) == LET o == Cur(t) IN [api |-> o.api, type |-> o.type, n |-> o.n, dl |-> o.dl, m |-> Mid(t)]

Finish(t, e) ==   \* the current call of t returns e
  /\ mon' = (IF t = "R" THEN mon ELSE Ret(mon, t, e, FALSE))
  /\ ip' = [ip EXCEPT ![t] = ip[t] + 1]
  /\ pc' = [pc EXCEPT ![t] = "N"]

(***************************************************************************)
(* Starting an operation.                                                  *)
(***************************************************************************)
Start(t) ==
  /\ pc[t] = "N" /\ More(t)
  /\ LET o == Cur(t) IN
     CASE o.api = "XC" ->
            \* Close() only closes the transport: no lock, no frame
            /\ mon' = Ret(Call(mon, t, CallRec(t)), t, Nil, FALSE)
            /\ ip' = [ip EXCEPT ![t] = ip[t] + 1] /\ UNCHANGED << pc, wmsg, seen >>
       [] o.api = "SD" ->
            /\ mon' = Ret(Call(mon, t, CallRec(t)), t, Nil, FALSE)
            /\ ip' = [ip EXCEPT ![t] = ip[t] + 1] /\ UNCHANGED << pc, wmsg, seen >>
       [] o.api = "NW" ->
            \* beginMessage: the sticky flag is read without the lock
            /\ mon' = Call(mon, t, CallRec(t))
            /\ seen' = [seen EXCEPT ![t] = err]
            /\ pc' = [pc EXCEPT ![t] = "B"] /\ UNCHANGED << ip, wmsg >>
       [] o.api = "WM" ->
            /\ mon' = Call(mon, t, CallRec(t))
            /\ seen' = [seen EXCEPT ![t] = err]
            /\ wmsg' = [open |-> TRUE, type |-> o.type, mid |-> Mid(t), wrote |-> o.n, sent |-> 0, started |-> FALSE, left |-> 1]
            /\ pc' = [pc EXCEPT ![t] = "B"] /\ UNCHANGED ip
       [] o.api = "WR" ->
            \* o.n frames of one byte each are flushed by this call (abstract buffer arithmetic)
            /\ mon' = Call(mon, t, CallRec(t))
            /\ wmsg' = [wmsg EXCEPT !.wrote = wmsg.wrote + o.n, !.left = o.n]
            /\ pc' = [pc EXCEPT ![t] = IF o.n > 0 /\ wmsg.open THEN "L" ELSE "RET"] /\ UNCHANGED << ip, seen >>
       [] o.api = "CL" ->
            /\ mon' = Call(mon, t, CallRec(t))
            /\ wmsg' = [wmsg EXCEPT !.left = 1]
            /\ pc' = [pc EXCEPT ![t] = IF wmsg.open THEN "L" ELSE "RET"] /\ UNCHANGED << ip, seen >>
       [] o.api = "WC" ->
            /\ mon' = (IF t = "R" THEN mon ELSE Call(mon, t, CallRec(t)))
            /\ seen' = [seen EXCEPT ![t] = err]       \* only consulted under WCCheckBeforeLock
            /\ pc' = [pc EXCEPT ![t] = IF o.dl = "past" THEN "TO" ELSE "L"] /\ UNCHANGED << ip, wmsg >>
  /\ Log(t, "start") /\ UNCHANGED << lock, err, progs, nops, faultAt >>

(* a call that returns without having reached the lock *)
RetNow(t) ==
  /\ pc[t] \in {"RET", "TO", "B"}
  /\ IF pc[t] = "TO" THEN Finish(t, ErrT) /\ UNCHANGED wmsg
     ELSE IF pc[t] = "RET" THEN Finish(t, IF wmsg.open THEN Nil ELSE (IF err = "none" THEN ErrX ELSE ErrOf)) /\ UNCHANGED wmsg
     ELSE \* B: beginMessage decides on the flag it read earlier
          IF seen[t] # "none" THEN
               /\ Finish(t, IF seen[t] = "closesent" THEN ErrC ELSE ErrX)
               /\ wmsg' = [wmsg EXCEPT !.open = FALSE]
          ELSE IF Cur(t).api = "NW" THEN
               /\ Finish(t, Nil)
               /\ wmsg' = [open |-> TRUE, type |-> Cur(t).type, mid |-> Mid(t), wrote |-> 0, sent |-> 0, started |-> FALSE, left |-> 0]
          ELSE /\ pc' = [pc EXCEPT ![t] = "L"] /\ UNCHANGED << mon, ip, wmsg >>
  /\ Log(t, "go") /\ UNCHANGED << lock, err, progs, nops, faultAt, seen >>

(***************************************************************************)
(* The lock protocol.                                                      *)
(***************************************************************************)
Acquire(t) ==
  /\ pc[t] = "L" /\ lock = ""
  /\ lock' = t /\ pc' = [pc EXCEPT ![t] = "A"]
  /\ Log(t, "go") /\ UNCHANGED << mon, err, ip, seen, progs, nops, faultAt, wmsg >>

(* go and block on a held lock; at most one thread is queued (replayability) *)
Enqueue(t) ==
  /\ pc[t] = "L" /\ lock # "" /\ (MultiQ \/ \A u \in Threads : pc[u] # "Q")
  /\ pc' = [pc EXCEPT ![t] = "Q"]
  /\ Log(t, "block") /\ UNCHANGED << mon, lock, err, ip, seen, progs, nops, faultAt, wmsg >>

(* the queued thread gets the lock as soon as it is released: see Release *)

Timeout(t) ==
  /\ pc[t] = "Q" /\ t # "W" /\ DL(t) # "zero"
  /\ IF t = "R" THEN /\ ip' = [ip EXCEPT ![t] = ip[t] + 1] /\ pc' = [pc EXCEPT ![t] = "N"] /\ UNCHANGED mon
     ELSE Finish(t, ErrT)
  /\ Log(t, "timeout") /\ UNCHANGED << lock, err, seen, progs, nops, faultAt, wmsg >>

Queued == {u \in Threads : pc[u] = "Q"}
Release(t, pcs) ==
  \* t gives up the lock; a queued thread (if any) acquires it immediately
  IF Queued = {} THEN lock' = "" /\ pc' = pcs
  ELSE LET u == CHOOSE u \in Queued : TRUE IN lock' = u /\ pc' = [pcs EXCEPT ![u] = "A"]

(* read the sticky flag under the lock *)
StickyAsSeenBy(t) == IF WCCheckBeforeLock /\ t # "W" THEN seen[t] ELSE err

Check(t) ==
  /\ pc[t] = "A" /\ lock = t
  /\ IF StickyAsSeenBy(t) # "none" THEN
        \* write()/WriteControl return the sticky error, nothing is written
        /\ (IF t = "W" THEN
               LET api == Cur(t).api IN
               /\ wmsg' = [wmsg EXCEPT !.open = FALSE, !.left = 0]
               /\ mon' = Ret(mon, t, ErrOf, FALSE)
               /\ ip' = [ip EXCEPT ![t] = ip[t] + 1]
            ELSE /\ UNCHANGED wmsg
                 /\ mon' = (IF t = "R" THEN mon ELSE Ret(mon, t, ErrOf, FALSE))
                 /\ ip' = [ip EXCEPT ![t] = ip[t] + 1])
        /\ Release(t, [pc EXCEPT ![t] = "N"])
     ELSE /\ pc' = [pc EXCEPT ![t] = "S"] /\ UNCHANGED << mon, ip, wmsg, lock >>
  /\ Log(t, "go") /\ UNCHANGED << err, seen, progs, nops, faultAt >>

FrameOf(t) ==
  IF t = "W" THEN
     LET fin == (Cur(t).api \in {"CL", "WM"})
         len == IF Cur(t).api = "WM" THEN wmsg.wrote ELSE IF fin THEN wmsg.wrote - wmsg.sent ELSE 1
     IN [t |-> "F", op |-> IF IsCtlT(wmsg.type) THEN wmsg.type ELSE IF wmsg.started THEN OpCont ELSE wmsg.type,
         fin |-> fin, r1 |-> FALSE, r2 |-> FALSE, r3 |-> FALSE, mk |-> (Role = "client"), len |-> len, lk |-> "n", min |-> TRUE,
         m |-> wmsg.mid, off |-> wmsg.sent]
  ELSE [t |-> "F", op |-> Cur(t).type, fin |-> TRUE, r1 |-> FALSE, r2 |-> FALSE, r3 |-> FALSE, mk |-> (Role = "client"),
        len |-> Cur(t).n, lk |-> "n", min |-> TRUE, m |-> Mid(t), off |-> 0]

FailCall(t) ==
  \* a transport failure: sticky fatal error, lock released, the call returns it
  /\ err' = "fatal"
  /\ (IF t = "R" THEN UNCHANGED wmsg ELSE IF t = "W" THEN wmsg' = [wmsg EXCEPT !.open = FALSE, !.left = 0] ELSE UNCHANGED wmsg)
  /\ ip' = [ip EXCEPT ![t] = ip[t] + 1]
  /\ Release(t, [pc EXCEPT ![t] = "N"])

SetDeadline(t) ==
  /\ pc[t] = "S" /\ lock = t
  /\ nops' = nops + 1
  /\ IF faultAt = nops + 1 THEN
        /\ mon' = (LET m1 == Op(mon, t, [t |-> "SWD", d |-> DL(t), err |-> TRUE]) IN IF t = "R" THEN m1 ELSE Ret(m1, t, ErrX, FALSE))
        /\ FailCall(t)
     ELSE /\ mon' = Op(mon, t, [t |-> "SWD", d |-> DL(t), err |-> FALSE])
          /\ pc' = [pc EXCEPT ![t] = "T"] /\ UNCHANGED << err, ip, wmsg, lock >>
  /\ Log(t, "go") /\ UNCHANGED << seen, progs, faultAt >>

Write(t) ==
  /\ pc[t] = "T" /\ lock = t
  /\ nops' = nops + 1
  /\ IF faultAt = nops + 1 THEN
        /\ mon' = (LET m1 == Op(mon, t, [t |-> "WERR", pending |-> 1]) IN IF t = "R" THEN m1 ELSE Ret(m1, t, ErrX, FALSE))
        /\ FailCall(t)
     ELSE LET f == FrameOf(t)
              m1 == Op(mon, t, f)
              isClose == f.op = OpClose
          IN /\ err' = IF isClose THEN "closesent" ELSE err
             /\ IF t = "W" THEN
                   LET left == wmsg.left - 1
                       w2 == [wmsg EXCEPT !.sent = wmsg.sent + f.len, !.started = TRUE, !.left = left, !.open = ~f.fin]
                   IN /\ wmsg' = w2
                      /\ IF left > 0 THEN
                            \* next frame of the same call: lock is released and re-taken
                            /\ mon' = m1 /\ UNCHANGED ip
                            /\ Release(t, [pc EXCEPT ![t] = "L"])
                         ELSE /\ mon' = Ret(m1, t, Nil, FALSE)
                              /\ ip' = [ip EXCEPT ![t] = ip[t] + 1]
                              /\ Release(t, [pc EXCEPT ![t] = "N"])
                ELSE /\ UNCHANGED wmsg
                     /\ mon' = (IF t = "R" THEN m1 ELSE Ret(m1, t, Nil, FALSE))
                     /\ ip' = [ip EXCEPT ![t] = ip[t] + 1]
                     /\ Release(t, [pc EXCEPT ![t] = "N"])
  /\ Log(t, "go") /\ UNCHANGED << seen, progs, faultAt >>

Next == \E t \in Threads : Start(t) \/ RetNow(t) \/ Acquire(t) \/ Enqueue(t) \/ Timeout(t) \/ Check(t) \/ SetDeadline(t) \/ Write(t)

Spec == Init /\ [][Next]_vars
(* liveness: a WriteControl caller with a finite deadline always returns, even if the lock holder never moves *)
FairSpec == Spec /\ \A t \in {"K1", "K2"} : WF_vars(Start(t) \/ RetNow(t) \/ Acquire(t) \/ Enqueue(t) \/ Timeout(t) \/ Check(t) \/ SetDeadline(t) \/ Write(t))

View == << mon, lock, err, pc, ip, seen, progs, nops, faultAt, wmsg >>

AllDone == \A t \in Threads : ~More(t) /\ pc[t] = "N"

MonitorOK == ~mon.bad

(* The model's own statement of C09: once a close frame is on the wire the sticky flag is set,   *)
(* and nobody is past the check.                                                                 *)
CloseLatched == (mon.err = "closesent") => (err = "closesent" /\ \A t \in Threads : pc[t] \notin {"S", "T"})

(* C11 bounded wait: a control caller with a finite deadline that is blocked can always time out *)
WCBounded == \A t \in {"K1", "K2"} : (pc[t] = "Q" /\ DL(t) # "zero") => ENABLED Timeout(t)
WCReturns == \A t \in {"K1", "K2"} : (More(t) /\ Cur(t).dl # "zero") ~> ~More(t)

(***************************************************************************)
(* Refinement: the lock protocol model implements the distilled core       *)
(* WSLockCore (whose inductive invariant is proved with TLAPS for any      *)
(* number of threads and checked with Apalache, spec/proof).  "Q" (blocked *)
(* on the lock) and every state outside the critical section map to "L";   *)
(* wroteAfterClose is mapped to FALSE, so a write after a close frame      *)
(* would not be a step of the core.                                        *)
(***************************************************************************)
Core == INSTANCE WSLockCore WITH
          Threads <- Threads, lock <- lock,
          pc <- [t \in Threads |-> IF pc[t] \in {"A", "S", "T"} THEN pc[t] ELSE "L"],
          sticky <- (err # "none"), closeOnWire <- (err = "closesent"), wroteAfterClose <- FALSE
RefinesCore == Core!Spec

(* schedules for replay: printed for complete behaviours *)
EmitSched == AllDone => PrintT(<< "PROG", ToJson([role |-> Role, progs |-> progs, sched |-> sched, faultAt |-> faultAt]) >>)
=============================================================================
