---------------------------- MODULE WSDialTrace ----------------------------
(***************************************************************************)
(* Trace validation for WSDial: a batch of recorded executions of the real *)
(* Dialer (one "Reset" event per program = one Dialer, then one "Dial"     *)
(* event per DialContext call with its inputs and every observed fact)     *)
(* must be admitted by the dial model.  Every event is fully logged, so    *)
(* the search is linear; acceptance is "the high-water mark reached the    *)
(* end".  PANIC / HANG / ALLOC / SETUPFAIL events have no action: a trace  *)
(* containing one is rejected at that event.                               *)
(***************************************************************************)
EXTENDS WSDial, Json, IOUtils

CONSTANT SocksStrict   \* TRUE: the deadline clause of C16 also binds the operations after a SOCKS5 negotiation

Trace == ndJsonDeserialize(IOEnv.TRACE_FILE)

VARIABLES l, cfg, st
tvars == << l, cfg, st >>

ASSUME TLCSet(1, 0)

Ev == Trace[l]
Is(e) == l <= Len(Trace) /\ Trace[l].e = e
Adv == l' = l + 1 /\ TLCSet(1, l)

TReset ==
  /\ Is("Reset")
  /\ cfg' = Ev.cfg /\ st' = DS0
  /\ Adv

TDial ==
  /\ Is("Dial")
  /\ LET o == [hooks |-> Ev.hooks, ops |-> Ev.ops, closed |-> Ev.closed, peer |-> Ev.peer, res |-> Ev.res, short |-> Ev.short,
               rx |-> Ev.rx, plook |-> Ev.plook] IN
     /\ DialAllowed(cfg, st, Ev.d, o, SocksStrict)
     /\ st' = DialNext(st, o)
  /\ UNCHANGED cfg /\ Adv

(* C07: a batch of runs over every truncation offset of a raw reply, each    *)
(* of which ended with a plain outcome: an open connection and no error,   *)
(* or (nil, _, err) with the obtained connection closed.  Runs with any    *)
(* other outcome are recorded as full traces and judged by TDial.          *)
TCuts ==
  /\ Is("Cuts")
  /\ Ev.n = Ev.ok + Ev.fail /\ Ev.n >= 0
  /\ UNCHANGED << cfg, st >> /\ Adv

TInit == l = 1 /\ cfg = [proxy |-> "none"] /\ st = DS0

TNext == TReset \/ TDial \/ TCuts

TSpec == TInit /\ [][TNext]_tvars

Accepted ==
  IF TLCGet(1) = Len(Trace) THEN TRUE
  ELSE PrintT(<< "REJECTED-AT", TLCGet(1) + 1, Len(Trace) >>) /\ FALSE
=============================================================================
