---- MODULE MC_W_TTrace_1790929005 ----
EXTENDS Sequences, TLCExt, Toolbox, Naturals, TLC, MC_W

_expression ==
    LET MC_W_TEExpression == INSTANCE MC_W_TEExpression
    IN MC_W_TEExpression!expression
----

_trace ==
    LET MC_W_TETrace == INSTANCE MC_W_TETrace
    IN MC_W_TETrace!trace
----

_inv ==
    ~(
        TLCGet("level") = Len(_TETrace)
        /\
        cs = (<<[role |-> "server", pmce |-> FALSE, pool |-> FALSE, dl |-> "zero", level |-> 1, wbuf |-> 16, wrote |-> 0, sent |-> 0, err |-> "closesent", started |-> FALSE, mtype |-> 0, mcomp |-> FALSE, mid |-> -1, nextkey |-> 0, open |-> FALSE, wild |-> FALSE, dead |-> FALSE, wcomp |-> TRUE, held |-> -1, done |-> <<[type |-> 8, m |-> 1003, n |-> 2]>>, armed |-> "zero", wst |-> "idle"]>>)
        /\
        wire = (<<[t |-> "F", c |-> 0, m |-> 1003, op |-> 8, fin |-> TRUE, r1 |-> FALSE, len |-> 2, off |-> 0, zm |-> -1, zlen |-> 0, key |-> -1, r2 |-> FALSE, r3 |-> FALSE, mk |-> FALSE, lk |-> "n", min |-> TRUE, code |-> -1]>>)
        /\
        cf = ([role |-> "server", pmce |-> FALSE, pool |-> FALSE])
        /\
        pc = (3)
        /\
        bad = (FALSE)
        /\
        nops = (2)
        /\
        pms = (<<[type |-> 1, n |-> 5], [type |-> 2, n |-> 53], [type |-> 9, n |-> 3], [type |-> 8, n |-> 2], [type |-> 1, n |-> 0]>>)
        /\
        rets = (<<[m |-> 1003, op |-> "WP", ok |-> TRUE], [m |-> 1003, op |-> "WP", ok |-> FALSE]>>)
        /\
        fault = ([at |-> 0, kind |-> "none"])
        /\
        prog = (<<[c |-> 0, op |-> "WP", pm |-> 3], [c |-> 0, op |-> "WP", pm |-> 3], [c |-> 0, op |-> "WP", pm |-> 2]>>)
    )
----

_init ==
    /\ bad = _TETrace[1].bad
    /\ prog = _TETrace[1].prog
    /\ nops = _TETrace[1].nops
    /\ pms = _TETrace[1].pms
    /\ wire = _TETrace[1].wire
    /\ cf = _TETrace[1].cf
    /\ cs = _TETrace[1].cs
    /\ pc = _TETrace[1].pc
    /\ fault = _TETrace[1].fault
    /\ rets = _TETrace[1].rets
----

_next ==
    /\ \E i,j \in DOMAIN _TETrace:
        /\ \/ /\ j = i + 1
              /\ i = TLCGet("level")
        /\ bad  = _TETrace[i].bad
        /\ bad' = _TETrace[j].bad
        /\ prog  = _TETrace[i].prog
        /\ prog' = _TETrace[j].prog
        /\ nops  = _TETrace[i].nops
        /\ nops' = _TETrace[j].nops
        /\ pms  = _TETrace[i].pms
        /\ pms' = _TETrace[j].pms
        /\ wire  = _TETrace[i].wire
        /\ wire' = _TETrace[j].wire
        /\ cf  = _TETrace[i].cf
        /\ cf' = _TETrace[j].cf
        /\ cs  = _TETrace[i].cs
        /\ cs' = _TETrace[j].cs
        /\ pc  = _TETrace[i].pc
        /\ pc' = _TETrace[j].pc
        /\ fault  = _TETrace[i].fault
        /\ fault' = _TETrace[j].fault
        /\ rets  = _TETrace[i].rets
        /\ rets' = _TETrace[j].rets

\* Uncomment the ASSUME below to write the states of the error trace
\* to the given file in Json format. Note that you can pass any tuple
\* to `JsonSerialize`. For example, a sub-sequence of _TETrace.
    \* ASSUME
    \*     LET J == INSTANCE Json
    \*         IN J!JsonSerialize("MC_W_TTrace_1790929005.json", _TETrace)

=============================================================================

 Note that you can extract this module `MC_W_TEExpression`
  to a dedicated file to reuse `expression` (the module in the 
  dedicated `MC_W_TEExpression.tla` file takes precedence 
  over the module `MC_W_TEExpression` below).

---- MODULE MC_W_TEExpression ----
EXTENDS Sequences, TLCExt, Toolbox, Naturals, TLC, MC_W

expression == 
    [
        \* To hide variables of the `MC_W` spec from the error trace,
        \* remove the variables below.  The trace will be written in the order
        \* of the fields of this record.
        bad |-> bad
        ,prog |-> prog
        ,nops |-> nops
        ,pms |-> pms
        ,wire |-> wire
        ,cf |-> cf
        ,cs |-> cs
        ,pc |-> pc
        ,fault |-> fault
        ,rets |-> rets
        
        \* Put additional constant-, state-, and action-level expressions here:
        \* ,_stateNumber |-> _TEPosition
        \* ,_badUnchanged |-> bad = bad'
        
        \* Format the `bad` variable as Json value.
        \* ,_badJson |->
        \*     LET J == INSTANCE Json
        \*     IN J!ToJson(bad)
        
        \* Lastly, you may build expressions over arbitrary sets of states by
        \* leveraging the _TETrace operator.  For example, this is how to
        \* count the number of times a spec variable changed up to the current
        \* state in the trace.
        \* ,_badModCount |->
        \*     LET F[s \in DOMAIN _TETrace] ==
        \*         IF s = 1 THEN 0
        \*         ELSE IF _TETrace[s].bad # _TETrace[s-1].bad
        \*             THEN 1 + F[s-1] ELSE F[s-1]
        \*     IN F[_TEPosition - 1]
    ]

=============================================================================



Parsing and semantic processing can take forever if the trace below is long.
 In this case, it is advised to uncomment the module below to deserialize the
 trace from a generated binary file.

\*
\*---- MODULE MC_W_TETrace ----
\*EXTENDS IOUtils, TLC, MC_W
\*
\*trace == IODeserialize("MC_W_TTrace_1790929005.bin", TRUE)
\*
\*=============================================================================
\*

---- MODULE MC_W_TETrace ----
EXTENDS TLC, MC_W

trace == 
    <<
    ([cs |-> <<[role |-> "server", pmce |-> FALSE, pool |-> FALSE, dl |-> "zero", level |-> 1, wbuf |-> 16, wrote |-> 0, sent |-> 0, err |-> "none", started |-> FALSE, mtype |-> 0, mcomp |-> FALSE, mid |-> -1, nextkey |-> 0, open |-> FALSE, wild |-> FALSE, dead |-> FALSE, wcomp |-> TRUE, held |-> -1, done |-> <<>>, armed |-> "none", wst |-> "idle"]>>,wire |-> <<>>,cf |-> [role |-> "server", pmce |-> FALSE, pool |-> FALSE],pc |-> 1,bad |-> FALSE,nops |-> 0,pms |-> <<[type |-> 1, n |-> 5], [type |-> 2, n |-> 53], [type |-> 9, n |-> 3], [type |-> 8, n |-> 2], [type |-> 1, n |-> 0]>>,rets |-> <<>>,fault |-> [at |-> 0, kind |-> "none"],prog |-> <<[c |-> 0, op |-> "WP", pm |-> 3], [c |-> 0, op |-> "WP", pm |-> 3], [c |-> 0, op |-> "WP", pm |-> 2]>>]),
    ([cs |-> <<[role |-> "server", pmce |-> FALSE, pool |-> FALSE, dl |-> "zero", level |-> 1, wbuf |-> 16, wrote |-> 0, sent |-> 0, err |-> "closesent", started |-> FALSE, mtype |-> 0, mcomp |-> FALSE, mid |-> -1, nextkey |-> 0, open |-> FALSE, wild |-> FALSE, dead |-> FALSE, wcomp |-> TRUE, held |-> -1, done |-> <<[type |-> 8, m |-> 1003, n |-> 2]>>, armed |-> "zero", wst |-> "idle"]>>,wire |-> <<[t |-> "F", c |-> 0, m |-> 1003, op |-> 8, fin |-> TRUE, r1 |-> FALSE, len |-> 2, off |-> 0, zm |-> -1, zlen |-> 0, key |-> -1, r2 |-> FALSE, r3 |-> FALSE, mk |-> FALSE, lk |-> "n", min |-> TRUE, code |-> -1]>>,cf |-> [role |-> "server", pmce |-> FALSE, pool |-> FALSE],pc |-> 2,bad |-> FALSE,nops |-> 2,pms |-> <<[type |-> 1, n |-> 5], [type |-> 2, n |-> 53], [type |-> 9, n |-> 3], [type |-> 8, n |-> 2], [type |-> 1, n |-> 0]>>,rets |-> <<[m |-> 1003, op |-> "WP", ok |-> TRUE]>>,fault |-> [at |-> 0, kind |-> "none"],prog |-> <<[c |-> 0, op |-> "WP", pm |-> 3], [c |-> 0, op |-> "WP", pm |-> 3], [c |-> 0, op |-> "WP", pm |-> 2]>>]),
    ([cs |-> <<[role |-> "server", pmce |-> FALSE, pool |-> FALSE, dl |-> "zero", level |-> 1, wbuf |-> 16, wrote |-> 0, sent |-> 0, err |-> "closesent", started |-> FALSE, mtype |-> 0, mcomp |-> FALSE, mid |-> -1, nextkey |-> 0, open |-> FALSE, wild |-> FALSE, dead |-> FALSE, wcomp |-> TRUE, held |-> -1, done |-> <<[type |-> 8, m |-> 1003, n |-> 2]>>, armed |-> "zero", wst |-> "idle"]>>,wire |-> <<[t |-> "F", c |-> 0, m |-> 1003, op |-> 8, fin |-> TRUE, r1 |-> FALSE, len |-> 2, off |-> 0, zm |-> -1, zlen |-> 0, key |-> -1, r2 |-> FALSE, r3 |-> FALSE, mk |-> FALSE, lk |-> "n", min |-> TRUE, code |-> -1]>>,cf |-> [role |-> "server", pmce |-> FALSE, pool |-> FALSE],pc |-> 3,bad |-> FALSE,nops |-> 2,pms |-> <<[type |-> 1, n |-> 5], [type |-> 2, n |-> 53], [type |-> 9, n |-> 3], [type |-> 8, n |-> 2], [type |-> 1, n |-> 0]>>,rets |-> <<[m |-> 1003, op |-> "WP", ok |-> TRUE], [m |-> 1003, op |-> "WP", ok |-> FALSE]>>,fault |-> [at |-> 0, kind |-> "none"],prog |-> <<[c |-> 0, op |-> "WP", pm |-> 3], [c |-> 0, op |-> "WP", pm |-> 3], [c |-> 0, op |-> "WP", pm |-> 2]>>])
    >>
----


=============================================================================

---- CONFIG MC_W_TTrace_1790929005 ----
CONSTANTS
    B = 16
    ConnCfgs <- MCConnCfgs
    Progs <- MCProgs
    PMSet <- MCPMSet
    FaultKinds = { }
    Family = "prepared"
    Roles = { "server" , "client" }
    PmceSet = { FALSE , TRUE }
    PoolSet = { FALSE , TRUE }
    Quick = TRUE

INVARIANT
    _inv

CHECK_DEADLOCK
    \* CHECK_DEADLOCK off because of PROPERTY or INVARIANT above.
    FALSE

INIT
    _init

NEXT
    _next

CONSTANT
    _TETrace <- _trace

ALIAS
    _expression
=============================================================================
\* Generated on Fri Oct 02 08:17:01 UTC 2026