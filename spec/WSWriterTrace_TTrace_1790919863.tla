---- MODULE WSWriterTrace_TTrace_1790919863 ----
EXTENDS Sequences, TLCExt, Toolbox, Naturals, TLC, WSWriterTrace

_expression ==
    LET WSWriterTrace_TEExpression == INSTANCE WSWriterTrace_TEExpression
    IN WSWriterTrace_TEExpression!expression
----

_trace ==
    LET WSWriterTrace_TETrace == INSTANCE WSWriterTrace_TETrace
    IN WSWriterTrace_TETrace!trace
----

_inv ==
    ~(
        TLCGet("level") = Len(_TETrace)
        /\
        cs = (<<[wild |-> FALSE, err |-> "none", dl |-> "zero", wcomp |-> TRUE, level |-> 1, role |-> "server", pmce |-> FALSE, pool |-> TRUE, armed |-> "none", open |-> TRUE, dead |-> FALSE, mtype |-> 1, mid |-> 1, wrote |-> 0, sent |-> 0, started |-> FALSE, mcomp |-> FALSE, wst |-> "idle", held |-> 0, nextkey |-> 0, done |-> <<>>]>>)
        /\
        pms = (<<>>)
        /\
        l = (3)
    )
----

_init ==
    /\ pms = _TETrace[1].pms
    /\ l = _TETrace[1].l
    /\ cs = _TETrace[1].cs
----

_next ==
    /\ \E i,j \in DOMAIN _TETrace:
        /\ \/ /\ j = i + 1
              /\ i = TLCGet("level")
        /\ pms  = _TETrace[i].pms
        /\ pms' = _TETrace[j].pms
        /\ l  = _TETrace[i].l
        /\ l' = _TETrace[j].l
        /\ cs  = _TETrace[i].cs
        /\ cs' = _TETrace[j].cs

\* Uncomment the ASSUME below to write the states of the error trace
\* to the given file in Json format. Note that you can pass any tuple
\* to `JsonSerialize`. For example, a sub-sequence of _TETrace.
    \* ASSUME
    \*     LET J == INSTANCE Json
    \*         IN J!JsonSerialize("WSWriterTrace_TTrace_1790919863.json", _TETrace)

=============================================================================

 Note that you can extract this module `WSWriterTrace_TEExpression`
  to a dedicated file to reuse `expression` (the module in the 
  dedicated `WSWriterTrace_TEExpression.tla` file takes precedence 
  over the module `WSWriterTrace_TEExpression` below).

---- MODULE WSWriterTrace_TEExpression ----
EXTENDS Sequences, TLCExt, Toolbox, Naturals, TLC, WSWriterTrace

expression == 
    [
        \* To hide variables of the `WSWriterTrace` spec from the error trace,
        \* remove the variables below.  The trace will be written in the order
        \* of the fields of this record.
        pms |-> pms
        ,l |-> l
        ,cs |-> cs
        
        \* Put additional constant-, state-, and action-level expressions here:
        \* ,_stateNumber |-> _TEPosition
        \* ,_pmsUnchanged |-> pms = pms'
        
        \* Format the `pms` variable as Json value.
        \* ,_pmsJson |->
        \*     LET J == INSTANCE Json
        \*     IN J!ToJson(pms)
        
        \* Lastly, you may build expressions over arbitrary sets of states by
        \* leveraging the _TETrace operator.  For example, this is how to
        \* count the number of times a spec variable changed up to the current
        \* state in the trace.
        \* ,_pmsModCount |->
        \*     LET F[s \in DOMAIN _TETrace] ==
        \*         IF s = 1 THEN 0
        \*         ELSE IF _TETrace[s].pms # _TETrace[s-1].pms
        \*             THEN 1 + F[s-1] ELSE F[s-1]
        \*     IN F[_TEPosition - 1]
    ]

=============================================================================



Parsing and semantic processing can take forever if the trace below is long.
 In this case, it is advised to uncomment the module below to deserialize the
 trace from a generated binary file.

\*
\*---- MODULE WSWriterTrace_TETrace ----
\*EXTENDS IOUtils, TLC, WSWriterTrace
\*
\*trace == IODeserialize("WSWriterTrace_TTrace_1790919863.bin", TRUE)
\*
\*=============================================================================
\*

---- MODULE WSWriterTrace_TETrace ----
EXTENDS TLC, WSWriterTrace

trace == 
    <<
    ([cs |-> <<>>,pms |-> <<>>,l |-> 1]),
    ([cs |-> <<[wild |-> FALSE, err |-> "none", dl |-> "zero", wcomp |-> TRUE, level |-> 1, role |-> "server", pmce |-> FALSE, pool |-> TRUE, armed |-> "none", open |-> FALSE, dead |-> FALSE, mtype |-> 0, mid |-> -1, wrote |-> 0, sent |-> 0, started |-> FALSE, mcomp |-> FALSE, wst |-> "idle", held |-> -1, nextkey |-> 0, done |-> <<>>]>>,pms |-> <<>>,l |-> 2]),
    ([cs |-> <<[wild |-> FALSE, err |-> "none", dl |-> "zero", wcomp |-> TRUE, level |-> 1, role |-> "server", pmce |-> FALSE, pool |-> TRUE, armed |-> "none", open |-> TRUE, dead |-> FALSE, mtype |-> 1, mid |-> 1, wrote |-> 0, sent |-> 0, started |-> FALSE, mcomp |-> FALSE, wst |-> "idle", held |-> 0, nextkey |-> 0, done |-> <<>>]>>,pms |-> <<>>,l |-> 3])
    >>
----


=============================================================================

---- CONFIG WSWriterTrace_TTrace_1790919863 ----

INVARIANT
    _inv

CHECK_DEADLOCK
    \* CHECK_DEADLOCK off because of PROPERTY or INVARIANT above.
    FALSE

INIT
    _init

NEXT
    _next

CONSTANT
    _TETrace <- _trace

ALIAS
    _expression
=============================================================================
\* Generated on Fri Oct 02 05:44:24 UTC 2026