---- MODULE MC_Conc_TTrace_1790924170 ----
EXTENDS Sequences, TLCExt, MC_Conc, Toolbox, Naturals, TLC

_expression ==
    LET MC_Conc_TEExpression == INSTANCE MC_Conc_TEExpression
    IN MC_Conc_TEExpression!expression
----

_trace ==
    LET MC_Conc_TETrace == INSTANCE MC_Conc_TETrace
    IN MC_Conc_TETrace!trace
----

_inv ==
    ~(
        TLCGet("level") = Len(_TETrace)
        /\
        faultAt = (0)
        /\
        pc = ([W |-> "N", K1 |-> "N", K2 |-> "N", R |-> "A"])
        /\
        sched = (<<[t |-> "K1", s |-> "start"], [t |-> "K1", s |-> "go"], [t |-> "K1", s |-> "go"], [t |-> "K1", s |-> "go"], [t |-> "K1", s |-> "go"], [t |-> "K2", s |-> "start"], [t |-> "R", s |-> "start"], [t |-> "R", s |-> "go"], [t |-> "K2", s |-> "block"], [t |-> "K2", s |-> "timeout"]>>)
        /\
        err = ("closesent")
        /\
        progs = ([W |-> <<[api |-> "WM", type |-> 1, n |-> 2, dl |-> "zero"], [api |-> "SD", type |-> 0, n |-> 0, dl |-> "d1"], [api |-> "WM", type |-> 2, n |-> 1, dl |-> "zero"]>>, K1 |-> <<[api |-> "WC", type |-> 8, n |-> 2, dl |-> "zero"]>>, K2 |-> <<[api |-> "WC", type |-> 9, n |-> 1, dl |-> "d1"]>>, R |-> <<[api |-> "WC", type |-> 10, n |-> 2, dl |-> "auto"]>>])
        /\
        nops = (2)
        /\
        ip = ([W |-> 1, K1 |-> 2, K2 |-> 2, R |-> 1])
        /\
        lock = ("R")
        /\
        wmsg = ([type |-> 0, open |-> FALSE, mid |-> 0, wrote |-> 0, sent |-> 0, started |-> FALSE, left |-> 0])
        /\
        mon = ([dl |-> "zero", err |-> "closesent", open |-> FALSE, mid |-> -1, wrote |-> 0, sent |-> 0, started |-> FALSE, bad |-> TRUE, role |-> "server", pmce |-> FALSE, owner |-> "", armed |-> "zero", wst |-> "idle", mtype |-> 0, calls |-> [W |-> [active |-> FALSE], K1 |-> [active |-> FALSE], K2 |-> [api |-> "WC", type |-> 9, n |-> 1, dl |-> "d1", wrote |-> FALSE, m |-> 301, active |-> TRUE, dead |-> TRUE, faulted |-> FALSE, done |-> FALSE], K3 |-> [active |-> FALSE]], closedSeen |-> FALSE])
        /\
        seen = ([W |-> "none", K1 |-> "none", K2 |-> "none", R |-> "none"])
    )
----

_init ==
    /\ progs = _TETrace[1].progs
    /\ nops = _TETrace[1].nops
    /\ wmsg = _TETrace[1].wmsg
    /\ pc = _TETrace[1].pc
    /\ sched = _TETrace[1].sched
    /\ lock = _TETrace[1].lock
    /\ faultAt = _TETrace[1].faultAt
    /\ mon = _TETrace[1].mon
    /\ ip = _TETrace[1].ip
    /\ err = _TETrace[1].err
    /\ seen = _TETrace[1].seen
----

_next ==
    /\ \E i,j \in DOMAIN _TETrace:
        /\ \/ /\ j = i + 1
              /\ i = TLCGet("level")
        /\ progs  = _TETrace[i].progs
        /\ progs' = _TETrace[j].progs
        /\ nops  = _TETrace[i].nops
        /\ nops' = _TETrace[j].nops
        /\ wmsg  = _TETrace[i].wmsg
        /\ wmsg' = _TETrace[j].wmsg
        /\ pc  = _TETrace[i].pc
        /\ pc' = _TETrace[j].pc
        /\ sched  = _TETrace[i].sched
        /\ sched' = _TETrace[j].sched
        /\ lock  = _TETrace[i].lock
        /\ lock' = _TETrace[j].lock
        /\ faultAt  = _TETrace[i].faultAt
        /\ faultAt' = _TETrace[j].faultAt
        /\ mon  = _TETrace[i].mon
        /\ mon' = _TETrace[j].mon
        /\ ip  = _TETrace[i].ip
        /\ ip' = _TETrace[j].ip
        /\ err  = _TETrace[i].err
        /\ err' = _TETrace[j].err
        /\ seen  = _TETrace[i].seen
        /\ seen' = _TETrace[j].seen

\* Uncomment the ASSUME below to write the states of the error trace
\* to the given file in Json format. Note that you can pass any tuple
\* to `JsonSerialize`. For example, a sub-sequence of _TETrace.
    \* ASSUME
    \*     LET J == INSTANCE Json
    \*         IN J!JsonSerialize("MC_Conc_TTrace_1790924170.json", _TETrace)

=============================================================================

 Note that you can extract this module `MC_Conc_TEExpression`
  to a dedicated file to reuse `expression` (the module in the 
  dedicated `MC_Conc_TEExpression.tla` file takes precedence 
  over the module `MC_Conc_TEExpression` below).

---- MODULE MC_Conc_TEExpression ----
EXTENDS Sequences, TLCExt, MC_Conc, Toolbox, Naturals, TLC

expression == 
    [
        \* To hide variables of the `MC_Conc` spec from the error trace,
        \* remove the variables below.  The trace will be written in the order
        \* of the fields of this record.
        progs |-> progs
        ,nops |-> nops
        ,wmsg |-> wmsg
        ,pc |-> pc
        ,sched |-> sched
        ,lock |-> lock
        ,faultAt |-> faultAt
        ,mon |-> mon
        ,ip |-> ip
        ,err |-> err
        ,seen |-> seen
        
        \* Put additional constant-, state-, and action-level expressions here:
        \* ,_stateNumber |-> _TEPosition
        \* ,_progsUnchanged |-> progs = progs'
        
        \* Format the `progs` variable as Json value.
        \* ,_progsJson |->
        \*     LET J == INSTANCE Json
        \*     IN J!ToJson(progs)
        
        \* Lastly, you may build expressions over arbitrary sets of states by
        \* leveraging the _TETrace operator.  For example, this is how to
        \* count the number of times a spec variable changed up to the current
        \* state in the trace.
        \* ,_progsModCount |->
        \*     LET F[s \in DOMAIN _TETrace] ==
        \*         IF s = 1 THEN 0
        \*         ELSE IF _TETrace[s].progs # _TETrace[s-1].progs
        \*             THEN 1 + F[s-1] ELSE F[s-1]
        \*     IN F[_TEPosition - 1]
    ]

=============================================================================



Parsing and semantic processing can take forever if the trace below is long.
 In this case, it is advised to uncomment the module below to deserialize the
 trace from a generated binary file.

\*
\*---- MODULE MC_Conc_TETrace ----
\*EXTENDS IOUtils, MC_Conc, TLC
\*
\*trace == IODeserialize("MC_Conc_TTrace_1790924170.bin", TRUE)
\*
\*=============================================================================
\*

---- MODULE MC_Conc_TETrace ----
EXTENDS MC_Conc, TLC

trace == 
    <<
    ([faultAt |-> 0,pc |-> [W |-> "N", K1 |-> "N", K2 |-> "N", R |-> "N"],sched |-> <<>>,err |-> "none",progs |-> [W |-> <<[api |-> "WM", type |-> 1, n |-> 2, dl |-> "zero"], [api |-> "SD", type |-> 0, n |-> 0, dl |-> "d1"], [api |-> "WM", type |-> 2, n |-> 1, dl |-> "zero"]>>, K1 |-> <<[api |-> "WC", type |-> 8, n |-> 2, dl |-> "zero"]>>, K2 |-> <<[api |-> "WC", type |-> 9, n |-> 1, dl |-> "d1"]>>, R |-> <<[api |-> "WC", type |-> 10, n |-> 2, dl |-> "auto"]>>],nops |-> 0,ip |-> [W |-> 1, K1 |-> 1, K2 |-> 1, R |-> 1],lock |-> "",wmsg |-> [type |-> 0, open |-> FALSE, mid |-> 0, wrote |-> 0, sent |-> 0, started |-> FALSE, left |-> 0],mon |-> [dl |-> "zero", err |-> "none", open |-> FALSE, mid |-> -1, wrote |-> 0, sent |-> 0, started |-> FALSE, bad |-> FALSE, role |-> "server", pmce |-> FALSE, owner |-> "", armed |-> "none", wst |-> "idle", mtype |-> 0, calls |-> [W |-> [active |-> FALSE], K1 |-> [active |-> FALSE], K2 |-> [active |-> FALSE], K3 |-> [active |-> FALSE]], closedSeen |-> FALSE],seen |-> [W |-> "none", K1 |-> "none", K2 |-> "none", R |-> "none"]]),
    ([faultAt |-> 0,pc |-> [W |-> "N", K1 |-> "L", K2 |-> "N", R |-> "N"],sched |-> <<[t |-> "K1", s |-> "start"]>>,err |-> "none",progs |-> [W |-> <<[api |-> "WM", type |-> 1, n |-> 2, dl |-> "zero"], [api |-> "SD", type |-> 0, n |-> 0, dl |-> "d1"], [api |-> "WM", type |-> 2, n |-> 1, dl |-> "zero"]>>, K1 |-> <<[api |-> "WC", type |-> 8, n |-> 2, dl |-> "zero"]>>, K2 |-> <<[api |-> "WC", type |-> 9, n |-> 1, dl |-> "d1"]>>, R |-> <<[api |-> "WC", type |-> 10, n |-> 2, dl |-> "auto"]>>],nops |-> 0,ip |-> [W |-> 1, K1 |-> 1, K2 |-> 1, R |-> 1],lock |-> "",wmsg |-> [type |-> 0, open |-> FALSE, mid |-> 0, wrote |-> 0, sent |-> 0, started |-> FALSE, left |-> 0],mon |-> [dl |-> "zero", err |-> "none", open |-> FALSE, mid |-> -1, wrote |-> 0, sent |-> 0, started |-> FALSE, bad |-> FALSE, role |-> "server", pmce |-> FALSE, owner |-> "", armed |-> "none", wst |-> "idle", mtype |-> 0, calls |-> [W |-> [active |-> FALSE], K1 |-> [api |-> "WC", type |-> 8, n |-> 2, dl |-> "zero", wrote |-> FALSE, m |-> 201, active |-> TRUE, dead |-> FALSE, faulted |-> FALSE, done |-> FALSE], K2 |-> [active |-> FALSE], K3 |-> [active |-> FALSE]], closedSeen |-> FALSE],seen |-> [W |-> "none", K1 |-> "none", K2 |-> "none", R |-> "none"]]),
    ([faultAt |-> 0,pc |-> [W |-> "N", K1 |-> "A", K2 |-> "N", R |-> "N"],sched |-> <<[t |-> "K1", s |-> "start"], [t |-> "K1", s |-> "go"]>>,err |-> "none",progs |-> [W |-> <<[api |-> "WM", type |-> 1, n |-> 2, dl |-> "zero"], [api |-> "SD", type |-> 0, n |-> 0, dl |-> "d1"], [api |-> "WM", type |-> 2, n |-> 1, dl |-> "zero"]>>, K1 |-> <<[api |-> "WC", type |-> 8, n |-> 2, dl |-> "zero"]>>, K2 |-> <<[api |-> "WC", type |-> 9, n |-> 1, dl |-> "d1"]>>, R |-> <<[api |-> "WC", type |-> 10, n |-> 2, dl |-> "auto"]>>],nops |-> 0,ip |-> [W |-> 1, K1 |-> 1, K2 |-> 1, R |-> 1],lock |-> "K1",wmsg |-> [type |-> 0, open |-> FALSE, mid |-> 0, wrote |-> 0, sent |-> 0, started |-> FALSE, left |-> 0],mon |-> [dl |-> "zero", err |-> "none", open |-> FALSE, mid |-> -1, wrote |-> 0, sent |-> 0, started |-> FALSE, bad |-> FALSE, role |-> "server", pmce |-> FALSE, owner |-> "", armed |-> "none", wst |-> "idle", mtype |-> 0, calls |-> [W |-> [active |-> FALSE], K1 |-> [api |-> "WC", type |-> 8, n |-> 2, dl |-> "zero", wrote |-> FALSE, m |-> 201, active |-> TRUE, dead |-> FALSE, faulted |-> FALSE, done |-> FALSE], K2 |-> [active |-> FALSE], K3 |-> [active |-> FALSE]], closedSeen |-> FALSE],seen |-> [W |-> "none", K1 |-> "none", K2 |-> "none", R |-> "none"]]),
    ([faultAt |-> 0,pc |-> [W |-> "N", K1 |-> "S", K2 |-> "N", R |-> "N"],sched |-> <<[t |-> "K1", s |-> "start"], [t |-> "K1", s |-> "go"], [t |-> "K1", s |-> "go"]>>,err |-> "none",progs |-> [W |-> <<[api |-> "WM", type |-> 1, n |-> 2, dl |-> "zero"], [api |-> "SD", type |-> 0, n |-> 0, dl |-> "d1"], [api |-> "WM", type |-> 2, n |-> 1, dl |-> "zero"]>>, K1 |-> <<[api |-> "WC", type |-> 8, n |-> 2, dl |-> "zero"]>>, K2 |-> <<[api |-> "WC", type |-> 9, n |-> 1, dl |-> "d1"]>>, R |-> <<[api |-> "WC", type |-> 10, n |-> 2, dl |-> "auto"]>>],nops |-> 0,ip |-> [W |-> 1, K1 |-> 1, K2 |-> 1, R |-> 1],lock |-> "K1",wmsg |-> [type |-> 0, open |-> FALSE, mid |-> 0, wrote |-> 0, sent |-> 0, started |-> FALSE, left |-> 0],mon |-> [dl |-> "zero", err |-> "none", open |-> FALSE, mid |-> -1, wrote |-> 0, sent |-> 0, started |-> FALSE, bad |-> FALSE, role |-> "server", pmce |-> FALSE, owner |-> "", armed |-> "none", wst |-> "idle", mtype |-> 0, calls |-> [W |-> [active |-> FALSE], K1 |-> [api |-> "WC", type |-> 8, n |-> 2, dl |-> "zero", wrote |-> FALSE, m |-> 201, active |-> TRUE, dead |-> FALSE, faulted |-> FALSE, done |-> FALSE], K2 |-> [active |-> FALSE], K3 |-> [active |-> FALSE]], closedSeen |-> FALSE],seen |-> [W |-> "none", K1 |-> "none", K2 |-> "none", R |-> "none"]]),
    ([faultAt |-> 0,pc |-> [W |-> "N", K1 |-> "T", K2 |-> "N", R |-> "N"],sched |-> <<[t |-> "K1", s |-> "start"], [t |-> "K1", s |-> "go"], [t |-> "K1", s |-> "go"], [t |-> "K1", s |-> "go"]>>,err |-> "none",progs |-> [W |-> <<[api |-> "WM", type |-> 1, n |-> 2, dl |-> "zero"], [api |-> "SD", type |-> 0, n |-> 0, dl |-> "d1"], [api |-> "WM", type |-> 2, n |-> 1, dl |-> "zero"]>>, K1 |-> <<[api |-> "WC", type |-> 8, n |-> 2, dl |-> "zero"]>>, K2 |-> <<[api |-> "WC", type |-> 9, n |-> 1, dl |-> "d1"]>>, R |-> <<[api |-> "WC", type |-> 10, n |-> 2, dl |-> "auto"]>>],nops |-> 1,ip |-> [W |-> 1, K1 |-> 1, K2 |-> 1, R |-> 1],lock |-> "K1",wmsg |-> [type |-> 0, open |-> FALSE, mid |-> 0, wrote |-> 0, sent |-> 0, started |-> FALSE, left |-> 0],mon |-> [dl |-> "zero", err |-> "none", open |-> FALSE, mid |-> -1, wrote |-> 0, sent |-> 0, started |-> FALSE, bad |-> FALSE, role |-> "server", pmce |-> FALSE, owner |-> "K1", armed |-> "zero", wst |-> "idle", mtype |-> 0, calls |-> [W |-> [active |-> FALSE], K1 |-> [api |-> "WC", type |-> 8, n |-> 2, dl |-> "zero", wrote |-> TRUE, m |-> 201, active |-> TRUE, dead |-> FALSE, faulted |-> FALSE, done |-> FALSE], K2 |-> [active |-> FALSE], K3 |-> [active |-> FALSE]], closedSeen |-> FALSE],seen |-> [W |-> "none", K1 |-> "none", K2 |-> "none", R |-> "none"]]),
    ([faultAt |-> 0,pc |-> [W |-> "N", K1 |-> "N", K2 |-> "N", R |-> "N"],sched |-> <<[t |-> "K1", s |-> "start"], [t |-> "K1", s |-> "go"], [t |-> "K1", s |-> "go"], [t |-> "K1", s |-> "go"], [t |-> "K1", s |-> "go"]>>,err |-> "closesent",progs |-> [W |-> <<[api |-> "WM", type |-> 1, n |-> 2, dl |-> "zero"], [api |-> "SD", type |-> 0, n |-> 0, dl |-> "d1"], [api |-> "WM", type |-> 2, n |-> 1, dl |-> "zero"]>>, K1 |-> <<[api |-> "WC", type |-> 8, n |-> 2, dl |-> "zero"]>>, K2 |-> <<[api |-> "WC", type |-> 9, n |-> 1, dl |-> "d1"]>>, R |-> <<[api |-> "WC", type |-> 10, n |-> 2, dl |-> "auto"]>>],nops |-> 2,ip |-> [W |-> 1, K1 |-> 2, K2 |-> 1, R |-> 1],lock |-> "",wmsg |-> [type |-> 0, open |-> FALSE, mid |-> 0, wrote |-> 0, sent |-> 0, started |-> FALSE, left |-> 0],mon |-> [dl |-> "zero", err |-> "closesent", open |-> FALSE, mid |-> -1, wrote |-> 0, sent |-> 0, started |-> FALSE, bad |-> FALSE, role |-> "server", pmce |-> FALSE, owner |-> "", armed |-> "zero", wst |-> "idle", mtype |-> 0, calls |-> [W |-> [active |-> FALSE], K1 |-> [active |-> FALSE], K2 |-> [active |-> FALSE], K3 |-> [active |-> FALSE]], closedSeen |-> FALSE],seen |-> [W |-> "none", K1 |-> "none", K2 |-> "none", R |-> "none"]]),
    ([faultAt |-> 0,pc |-> [W |-> "N", K1 |-> "N", K2 |-> "L", R |-> "N"],sched |-> <<[t |-> "K1", s |-> "start"], [t |-> "K1", s |-> "go"], [t |-> "K1", s |-> "go"], [t |-> "K1", s |-> "go"], [t |-> "K1", s |-> "go"], [t |-> "K2", s |-> "start"]>>,err |-> "closesent",progs |-> [W |-> <<[api |-> "WM", type |-> 1, n |-> 2, dl |-> "zero"], [api |-> "SD", type |-> 0, n |-> 0, dl |-> "d1"], [api |-> "WM", type |-> 2, n |-> 1, dl |-> "zero"]>>, K1 |-> <<[api |-> "WC", type |-> 8, n |-> 2, dl |-> "zero"]>>, K2 |-> <<[api |-> "WC", type |-> 9, n |-> 1, dl |-> "d1"]>>, R |-> <<[api |-> "WC", type |-> 10, n |-> 2, dl |-> "auto"]>>],nops |-> 2,ip |-> [W |-> 1, K1 |-> 2, K2 |-> 1, R |-> 1],lock |-> "",wmsg |-> [type |-> 0, open |-> FALSE, mid |-> 0, wrote |-> 0, sent |-> 0, started |-> FALSE, left |-> 0],mon |-> [dl |-> "zero", err |-> "closesent", open |-> FALSE, mid |-> -1, wrote |-> 0, sent |-> 0, started |-> FALSE, bad |-> FALSE, role |-> "server", pmce |-> FALSE, owner |-> "", armed |-> "zero", wst |-> "idle", mtype |-> 0, calls |-> [W |-> [active |-> FALSE], K1 |-> [active |-> FALSE], K2 |-> [api |-> "WC", type |-> 9, n |-> 1, dl |-> "d1", wrote |-> FALSE, m |-> 301, active |-> TRUE, dead |-> TRUE, faulted |-> FALSE, done |-> FALSE], K3 |-> [active |-> FALSE]], closedSeen |-> FALSE],seen |-> [W |-> "none", K1 |-> "none", K2 |-> "none", R |-> "none"]]),
    ([faultAt |-> 0,pc |-> [W |-> "N", K1 |-> "N", K2 |-> "L", R |-> "L"],sched |-> <<[t |-> "K1", s |-> "start"], [t |-> "K1", s |-> "go"], [t |-> "K1", s |-> "go"], [t |-> "K1", s |-> "go"], [t |-> "K1", s |-> "go"], [t |-> "K2", s |-> "start"], [t |-> "R", s |-> "start"]>>,err |-> "closesent",progs |-> [W |-> <<[api |-> "WM", type |-> 1, n |-> 2, dl |-> "zero"], [api |-> "SD", type |-> 0, n |-> 0, dl |-> "d1"], [api |-> "WM", type |-> 2, n |-> 1, dl |-> "zero"]>>, K1 |-> <<[api |-> "WC", type |-> 8, n |-> 2, dl |-> "zero"]>>, K2 |-> <<[api |-> "WC", type |-> 9, n |-> 1, dl |-> "d1"]>>, R |-> <<[api |-> "WC", type |-> 10, n |-> 2, dl |-> "auto"]>>],nops |-> 2,ip |-> [W |-> 1, K1 |-> 2, K2 |-> 1, R |-> 1],lock |-> "",wmsg |-> [type |-> 0, open |-> FALSE, mid |-> 0, wrote |-> 0, sent |-> 0, started |-> FALSE, left |-> 0],mon |-> [dl |-> "zero", err |-> "closesent", open |-> FALSE, mid |-> -1, wrote |-> 0, sent |-> 0, started |-> FALSE, bad |-> FALSE, role |-> "server", pmce |-> FALSE, owner |-> "", armed |-> "zero", wst |-> "idle", mtype |-> 0, calls |-> [W |-> [active |-> FALSE], K1 |-> [active |-> FALSE], K2 |-> [api |-> "WC", type |-> 9, n |-> 1, dl |-> "d1", wrote |-> FALSE, m |-> 301, active |-> TRUE, dead |-> TRUE, faulted |-> FALSE, done |-> FALSE], K3 |-> [active |-> FALSE]], closedSeen |-> FALSE],seen |-> [W |-> "none", K1 |-> "none", K2 |-> "none", R |-> "none"]]),
    ([faultAt |-> 0,pc |-> [W |-> "N", K1 |-> "N", K2 |-> "L", R |-> "A"],sched |-> <<[t |-> "K1", s |-> "start"], [t |-> "K1", s |-> "go"], [t |-> "K1", s |-> "go"], [t |-> "K1", s |-> "go"], [t |-> "K1", s |-> "go"], [t |-> "K2", s |-> "start"], [t |-> "R", s |-> "start"], [t |-> "R", s |-> "go"]>>,err |-> "closesent",progs |-> [W |-> <<[api |-> "WM", type |-> 1, n |-> 2, dl |-> "zero"], [api |-> "SD", type |-> 0, n |-> 0, dl |-> "d1"], [api |-> "WM", type |-> 2, n |-> 1, dl |-> "zero"]>>, K1 |-> <<[api |-> "WC", type |-> 8, n |-> 2, dl |-> "zero"]>>, K2 |-> <<[api |-> "WC", type |-> 9, n |-> 1, dl |-> "d1"]>>, R |-> <<[api |-> "WC", type |-> 10, n |-> 2, dl |-> "auto"]>>],nops |-> 2,ip |-> [W |-> 1, K1 |-> 2, K2 |-> 1, R |-> 1],lock |-> "R",wmsg |-> [type |-> 0, open |-> FALSE, mid |-> 0, wrote |-> 0, sent |-> 0, started |-> FALSE, left |-> 0],mon |-> [dl |-> "zero", err |-> "closesent", open |-> FALSE, mid |-> -1, wrote |-> 0, sent |-> 0, started |-> FALSE, bad |-> FALSE, role |-> "server", pmce |-> FALSE, owner |-> "", armed |-> "zero", wst |-> "idle", mtype |-> 0, calls |-> [W |-> [active |-> FALSE], K1 |-> [active |-> FALSE], K2 |-> [api |-> "WC", type |-> 9, n |-> 1, dl |-> "d1", wrote |-> FALSE, m |-> 301, active |-> TRUE, dead |-> TRUE, faulted |-> FALSE, done |-> FALSE], K3 |-> [active |-> FALSE]], closedSeen |-> FALSE],seen |-> [W |-> "none", K1 |-> "none", K2 |-> "none", R |-> "none"]]),
    ([faultAt |-> 0,pc |-> [W |-> "N", K1 |-> "N", K2 |-> "Q", R |-> "A"],sched |-> <<[t |-> "K1", s |-> "start"], [t |-> "K1", s |-> "go"], [t |-> "K1", s |-> "go"], [t |-> "K1", s |-> "go"], [t |-> "K1", s |-> "go"], [t |-> "K2", s |-> "start"], [t |-> "R", s |-> "start"], [t |-> "R", s |-> "go"], [t |-> "K2", s |-> "block"]>>,err |-> "closesent",progs |-> [W |-> <<[api |-> "WM", type |-> 1, n |-> 2, dl |-> "zero"], [api |-> "SD", type |-> 0, n |-> 0, dl |-> "d1"], [api |-> "WM", type |-> 2, n |-> 1, dl |-> "zero"]>>, K1 |-> <<[api |-> "WC", type |-> 8, n |-> 2, dl |-> "zero"]>>, K2 |-> <<[api |-> "WC", type |-> 9, n |-> 1, dl |-> "d1"]>>, R |-> <<[api |-> "WC", type |-> 10, n |-> 2, dl |-> "auto"]>>],nops |-> 2,ip |-> [W |-> 1, K1 |-> 2, K2 |-> 1, R |-> 1],lock |-> "R",wmsg |-> [type |-> 0, open |-> FALSE, mid |-> 0, wrote |-> 0, sent |-> 0, started |-> FALSE, left |-> 0],mon |-> [dl |-> "zero", err |-> "closesent", open |-> FALSE, mid |-> -1, wrote |-> 0, sent |-> 0, started |-> FALSE, bad |-> FALSE, role |-> "server", pmce |-> FALSE, owner |-> "", armed |-> "zero", wst |-> "idle", mtype |-> 0, calls |-> [W |-> [active |-> FALSE], K1 |-> [active |-> FALSE], K2 |-> [api |-> "WC", type |-> 9, n |-> 1, dl |-> "d1", wrote |-> FALSE, m |-> 301, active |-> TRUE, dead |-> TRUE, faulted |-> FALSE, done |-> FALSE], K3 |-> [active |-> FALSE]], closedSeen |-> FALSE],seen |-> [W |-> "none", K1 |-> "none", K2 |-> "none", R |-> "none"]]),
    ([faultAt |-> 0,pc |-> [W |-> "N", K1 |-> "N", K2 |-> "N", R |-> "A"],sched |-> <<[t |-> "K1", s |-> "start"], [t |-> "K1", s |-> "go"], [t |-> "K1", s |-> "go"], [t |-> "K1", s |-> "go"], [t |-> "K1", s |-> "go"], [t |-> "K2", s |-> "start"], [t |-> "R", s |-> "start"], [t |-> "R", s |-> "go"], [t |-> "K2", s |-> "block"], [t |-> "K2", s |-> "timeout"]>>,err |-> "closesent",progs |-> [W |-> <<[api |-> "WM", type |-> 1, n |-> 2, dl |-> "zero"], [api |-> "SD", type |-> 0, n |-> 0, dl |-> "d1"], [api |-> "WM", type |-> 2, n |-> 1, dl |-> "zero"]>>, K1 |-> <<[api |-> "WC", type |-> 8, n |-> 2, dl |-> "zero"]>>, K2 |-> <<[api |-> "WC", type |-> 9, n |-> 1, dl |-> "d1"]>>, R |-> <<[api |-> "WC", type |-> 10, n |-> 2, dl |-> "auto"]>>],nops |-> 2,ip |-> [W |-> 1, K1 |-> 2, K2 |-> 2, R |-> 1],lock |-> "R",wmsg |-> [type |-> 0, open |-> FALSE, mid |-> 0, wrote |-> 0, sent |-> 0, started |-> FALSE, left |-> 0],mon |-> [dl |-> "zero", err |-> "closesent", open |-> FALSE, mid |-> -1, wrote |-> 0, sent |-> 0, started |-> FALSE, bad |-> TRUE, role |-> "server", pmce |-> FALSE, owner |-> "", armed |-> "zero", wst |-> "idle", mtype |-> 0, calls |-> [W |-> [active |-> FALSE], K1 |-> [active |-> FALSE], K2 |-> [api |-> "WC", type |-> 9, n |-> 1, dl |-> "d1", wrote |-> FALSE, m |-> 301, active |-> TRUE, dead |-> TRUE, faulted |-> FALSE, done |-> FALSE], K3 |-> [active |-> FALSE]], closedSeen |-> FALSE],seen |-> [W |-> "none", K1 |-> "none", K2 |-> "none", R |-> "none"]])
    >>
----


=============================================================================

---- CONFIG MC_Conc_TTrace_1790924170 ----
CONSTANTS
    Role = "server"
    WProgs <- MCWProgs
    KProgs <- MCKProgs
    RProgs <- MCRProgs
    FaultAts = { 0 , 2 , 3 }

INVARIANT
    _inv

CHECK_DEADLOCK
    \* CHECK_DEADLOCK off because of PROPERTY or INVARIANT above.
    FALSE

INIT
    _init

NEXT
    _next

CONSTANT
    _TETrace <- _trace

ALIAS
    _expression
=============================================================================
\* Generated on Fri Oct 02 06:56:15 UTC 2026