SPECIFICATION TSpec
CONSTANT SocksStrict = TRUE
POSTCONDITION Accepted
CHECK_DEADLOCK FALSE
