----------------------------- MODULE WSLockCore -----------------------------
(***************************************************************************)
(* The core of the write-lock protocol of conn.go (write(), WriteControl): *)
(* any number of goroutines repeatedly take the lock, read the sticky      *)
(* error flag UNDER the lock, set the deadline, write one frame (possibly  *)
(* a close frame, which sets the flag before the lock is released) and     *)
(* release.  Distilled from WSConcMC for an inductive argument that does   *)
(* not depend on program length: IndInv is inductive (checked by Apalache  *)
(* for a fixed thread set; see /verif/spec/proof/README) and implies C09's *)
(* core clause NothingAfterClose and C11's FrameAtomic (mutual exclusion   *)
(* of the transport section).                                              *)
(***************************************************************************)
EXTENDS Integers

CONSTANT
  \* @type: Set(Str);
  Threads

VARIABLES
  \* @type: Str;
  lock,          \* "" or the holder
  \* @type: Str -> Str;
  pc,            \* "L" idle / waiting, "A" acquired, "S" flag was clear, "T" deadline set
  \* @type: Bool;
  sticky,        \* ErrCloseSent (or a fatal error) has been recorded
  \* @type: Bool;
  closeOnWire,   \* a close frame has been written
  \* @type: Bool;
  wroteAfterClose \* ghost: some frame was written after the close frame

vars == << lock, pc, sticky, closeOnWire, wroteAfterClose >>

Init ==
  /\ lock = "" /\ pc = [t \in Threads |-> "L"]
  /\ sticky = FALSE /\ closeOnWire = FALSE /\ wroteAfterClose = FALSE

(* t gives up the lock: it becomes free, or it is handed directly to a goroutine waiting for it *)
\* @type: (Str) => Bool;
Release(t) ==
  \/ lock' = "" /\ pc' = [pc EXCEPT ![t] = "L"]
  \/ \E u \in Threads : u # t /\ pc[u] = "L" /\ lock' = u /\ pc' = [pc EXCEPT ![t] = "L", ![u] = "A"]

Acquire(t) == /\ pc[t] = "L" /\ lock = ""
              /\ lock' = t /\ pc' = [pc EXCEPT ![t] = "A"]
              /\ UNCHANGED << sticky, closeOnWire, wroteAfterClose >>

Check(t) == /\ pc[t] = "A"
            /\ IF sticky THEN Release(t)
                         ELSE lock' = lock /\ pc' = [pc EXCEPT ![t] = "S"]
            /\ UNCHANGED << sticky, closeOnWire, wroteAfterClose >>

SetDeadline(t) == /\ pc[t] = "S"
                  /\ \/ pc' = [pc EXCEPT ![t] = "T"] /\ UNCHANGED << lock, sticky >>
                     \/ Release(t) /\ sticky' = TRUE                 \* SetWriteDeadline failed: fatal
                  /\ UNCHANGED << closeOnWire, wroteAfterClose >>

\* @type: (Str, Bool) => Bool;
Write(t, isClose) ==
  /\ pc[t] = "T"
  /\ wroteAfterClose' = (wroteAfterClose \/ closeOnWire)
  /\ closeOnWire' = (closeOnWire \/ isClose)
  /\ sticky' = (sticky \/ isClose)          \* writeFatal(ErrCloseSent) before the deferred unlock
  /\ Release(t)

WriteFails(t) == /\ pc[t] = "T"
                 /\ sticky' = TRUE /\ Release(t)
                 /\ UNCHANGED << closeOnWire, wroteAfterClose >>

Next == \E t \in Threads : Acquire(t) \/ Check(t) \/ SetDeadline(t) \/ Write(t, TRUE) \/ Write(t, FALSE) \/ WriteFails(t)

Spec == Init /\ [][Next]_vars

TypeOK == /\ lock \in Threads \cup {""}
          /\ pc \in [Threads -> {"L", "A", "S", "T"}]
          /\ sticky \in BOOLEAN /\ closeOnWire \in BOOLEAN /\ wroteAfterClose \in BOOLEAN

(* the inductive invariant *)
IndInv ==
  /\ TypeOK
  /\ \A t \in Threads : pc[t] \in {"A", "S", "T"} <=> lock = t         \* FrameAtomic: the transport section is exclusive
  /\ closeOnWire => sticky
  /\ sticky => \A t \in Threads : pc[t] \notin {"S", "T"}               \* nobody is past the check once the flag is set
  /\ ~wroteAfterClose                                                    \* C09: a close frame is the last thing written

NothingAfterClose == ~wroteAfterClose
CInit == Threads = {"w", "k1", "k2", "r", "x"}
IndInit == IndInv
=============================================================================
