-------------------------- MODULE WSLockCoreProof --------------------------
(* TLAPS proof that IndInv is an inductive invariant of WSLockCore for ANY  *)
(* set of threads (not containing the "free" sentinel "").                  *)
EXTENDS WSLockCore, TLAPS

ASSUME NoSentinel == "" \notin Threads

THEOREM Safety == Spec => []IndInv
<1>1. Init => IndInv
  BY NoSentinel DEF Init, IndInv, TypeOK
<1>2. IndInv /\ [Next]_vars => IndInv'
  <2> SUFFICES ASSUME IndInv, [Next]_vars PROVE IndInv'
    OBVIOUS
  <2>1. CASE UNCHANGED vars
    BY <2>1 DEF IndInv, TypeOK, vars
  <2>2. ASSUME NEW t \in Threads, Acquire(t) PROVE IndInv'
    BY <2>2, NoSentinel DEF IndInv, TypeOK, Acquire
  <2>3. ASSUME NEW t \in Threads, Check(t) PROVE IndInv'
    BY <2>3, NoSentinel DEF IndInv, TypeOK, Check, Release
  <2>4. ASSUME NEW t \in Threads, SetDeadline(t) PROVE IndInv'
    BY <2>4, NoSentinel DEF IndInv, TypeOK, SetDeadline, Release
  <2>5. ASSUME NEW t \in Threads, Write(t, TRUE) PROVE IndInv'
    BY <2>5, NoSentinel DEF IndInv, TypeOK, Write, Release
  <2>6. ASSUME NEW t \in Threads, Write(t, FALSE) PROVE IndInv'
    BY <2>6, NoSentinel DEF IndInv, TypeOK, Write, Release
  <2>7. ASSUME NEW t \in Threads, WriteFails(t) PROVE IndInv'
    BY <2>7, NoSentinel DEF IndInv, TypeOK, WriteFails, Release
  <2> QED
    BY <2>1, <2>2, <2>3, <2>4, <2>5, <2>6, <2>7 DEF Next
<1> QED
  BY <1>1, <1>2, PTL DEF Spec

THEOREM CloseIsLast == Spec => []NothingAfterClose
  BY Safety, PTL DEF IndInv, NothingAfterClose
=============================================================================
