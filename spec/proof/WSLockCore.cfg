SPECIFICATION Spec
CONSTANT Threads = {"w", "k1", "k2", "r"}
INVARIANTS IndInv
