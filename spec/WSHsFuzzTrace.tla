--------------------------- MODULE WSHsFuzzTrace ---------------------------
(* Trace validation for the header-value batches (family "hsfuzz").        *)
(* PANIC / HANG / ALLOC events have no action.                             *)
EXTENDS WSHsFuzz, Json, IOUtils

Trace == ndJsonDeserialize(IOEnv.TRACE_FILE)

VARIABLES l, p
tvars == << l, p >>
ASSUME TLCSet(1, 0)
Ev == Trace[l]
Is(e) == l <= Len(Trace) /\ Trace[l].e = e
Adv == l' = l + 1 /\ TLCSet(1, l)

TReset == Is("Reset") /\ p' = Ev.prog /\ Adv
TBatch == Is("Batch") /\ BatchAllowed(p, [n |-> Ev.n, normal |-> Ev.normal, errors |-> Ev.errors]) /\ UNCHANGED p /\ Adv

(* after a hang in the same driver process the remaining batches are skipped (the hang has its own, rejected, trace) *)
TSkipped == Is("Skipped") /\ UNCHANGED p /\ Adv

TInit == l = 1 /\ p = [kind |-> "enum", ext |-> 0]
TNext == TReset \/ TBatch \/ TSkipped
TSpec == TInit /\ [][TNext]_tvars

Accepted ==
  IF TLCGet(1) = Len(Trace) THEN TRUE
  ELSE PrintT(<< "REJECTED-AT", TLCGet(1) + 1, Len(Trace) >>) /\ FALSE
=============================================================================
