SPECIFICATION Spec
CONSTANTS
  IsProgram <- MCIsProgram
  Levels <- LevelsQuick
  MaxToggles = 2
CONSTRAINT Emit
INVARIANTS InvRefinesEnvelope InvAgreement InvOnlyIfBoth InvPair InvLatched
CHECK_DEADLOCK FALSE
