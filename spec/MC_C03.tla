------------------------------- MODULE MC_C03 -------------------------------
(* Program space for C03: RFC-conformant peer streams (arbitrary            *)
(* fragmentation incl. empty frames, control frames between fragments,      *)
(* compressed messages from an independent deflater) x read programs.       *)
EXTENDS WSReaderMC

CONSTANTS Roles, Lens, BigLens, Variants, HModes

MCCfgs == {[role |-> r, pmce |-> p, limit |-> 0, hmode |-> h, herrAt |-> 0, policy |-> "per_message"]
             : r \in Roles, p \in BOOLEAN, h \in HModes}
          \* a read limit that no message of the stream exceeds must not disturb decoding, whatever was abandoned before
          \* (limit 126, every message of LimStreams has at most 126 payload bytes; round 7, seeded/C03-M)
          \cup {[role |-> r, pmce |-> FALSE, limit |-> 126, hmode |-> h, herrAt |-> 0, policy |-> "per_message"]
                  : r \in Roles, h \in HModes}

T(c, fin, n) == Fr(c, OpText, fin, n)
D(c, fin, n) == Fr(c, OpBin, fin, n)
C(c, fin, n) == Fr(c, OpCont, fin, n)
Z(f, v, plain) == [f EXCEPT !.r1 = TRUE, !.comp = v, !.plain = plain]
Ping(c, n) == Fr(c, OpPing, TRUE, n)
Pong(c, n) == Fr(c, OpPong, TRUE, n)

PlainMsgs(c) ==
  {<< D(c, TRUE, n) >> : n \in Lens \cup BigLens}
  \cup {<< T(c, FALSE, a), C(c, TRUE, b) >> : a \in Lens, b \in Lens \cup BigLens}
  \cup {<< D(c, FALSE, a), C(c, FALSE, 0), C(c, TRUE, b) >> : a, b \in Lens}
  \cup {<< T(c, FALSE, a), Ping(c, 3), C(c, FALSE, b), Pong(c, 0), C(c, TRUE, 1) >> : a, b \in Lens}

CompMsgs(c) ==
  {<< Z(T(c, TRUE, 0), v, n) >> : v \in Variants, n \in {1, 20, 5000}}
  \cup {<< Z(D(c, FALSE, w), v, 300), C(c, FALSE, 1), C(c, TRUE, 0) >> : v \in Variants, w \in {0, 1, 3}}
  \cup {<< Z(T(c, FALSE, -2), v, 40), Ping(c, 1), C(c, FALSE, 1), C(c, TRUE, 0) >> : v \in Variants}
  \cup {<< Z(T(c, FALSE, -5), "std6", 400), C(c, FALSE, 1), C(c, FALSE, 1), C(c, FALSE, 1), C(c, TRUE, 0) >>}

Small(c) == {<< D(c, TRUE, 2) >>, << T(c, FALSE, 1), C(c, TRUE, 1) >>}

LimFrag(c) == {<< T(c, FALSE, 1), C(c, TRUE, 125) >>, << T(c, FALSE, 0), C(c, FALSE, 125), C(c, TRUE, 1) >>,
               << D(c, FALSE, 1), C(c, FALSE, 0), Ping(c, 3), C(c, FALSE, 124), C(c, TRUE, 1) >>}
LimWhole(c) == {<< D(c, TRUE, 126) >>, << T(c, FALSE, 125), C(c, TRUE, 1) >>}
LimStreams(c) == {m \o t \o << D(c, TRUE, 126) >> : m \in LimFrag(c), t \in LimWhole(c)}

MCStreams(c) ==
  IF c.limit > 0 THEN LimStreams(c) ELSE
  LET one == PlainMsgs(c) \cup (IF c.pmce THEN CompMsgs(c) ELSE {}) IN
  one
  \cup {<< Ping(c, 0) >> \o m \o << Pong(c, 125) >> \o t : m \in Small(c), t \in Small(c)}
  \cup {m \o t \o << CloseFr(c, 1000, 0) >> : m \in one, t \in Small(c)}

MCCuts(st) == {NoCut}

HasComp(st) == \E i \in 1..Len(st) : st[i].comp # ""
Total(st) == LET RECURSIVE Sum(_) Sum(i) == IF i > Len(st) THEN 0 ELSE (IF st[i].len > 0 THEN st[i].len ELSE 0) + Sum(i + 1) IN Sum(1)

MCProgs(st) ==
  { << Op("RM"), Op("RM"), Op("RM") >>,
    << Op("NR"), Op("RA"), Op("NR"), Op("RA"), Op("NR") >>,
    << Op("NR"), Rc, Op("NR"), Rc, Op("RM") >>,
    << Op("NR"), Op("NR"), Op("RM") >>,
    << Op("NR"), Rl(4096), Op("NR"), Rl(512), Op("NR") >>,
    << Op("NR"), Rd(1), Op("NR"), Op("RA"), Op("NR") >>,
    << Op("NR"), Rd(2), Rd(125), Op("RA"), Op("RM"), Op("RM") >>,
    << Op("WCL"), Op("RM"), Op("RM"), Op("RM") >>,
    << Op("NR"), Rd(1), Op("WCL"), Op("RA"), Op("RM"), Op("WCL"), Op("RM") >>,
    << Op("NR"), Rd(1), Op("NR"), Rdo(4096), Op("RA"), Rdo(1), Op("RM"), Rdo(7), Op("RM") >>,
    << Op("NR"), Op("RM"), Rdo(4096), Op("RM"), Rdo(4096) >>,
    << Op("RJ"), Op("RJ"), Op("RJ") >>,
    << Op("RJ"), Op("NR"), Rd(1), Op("RJ"), Op("RM") >>,
    << Op("RM"), Op("RJ"), Ja(0) >>,
    << Ja(0), Op("NR") >>, << Ja(1), Op("NR") >>, << Op("RM"), Ja(3), Op("RM") >>,
    << Jar(2, 1), Op("NR") >>, << Jar(3, 2), Op("NR") >>, << Op("RM"), Jar(5, 3), Op("NR") >>, << Jar(0, 1), Op("NR") >> }
  \cup (IF HasComp(st) THEN {} ELSE { << Op("NR"), Rd(2), Rd(125), Op("RF"), Op("RM"), Op("RM") >> })
  \cup (IF Total(st) <= 600 THEN {<< Op("NR"), Rl(1), Op("NR"), Rl(7), Op("NR") >>} ELSE {})
=============================================================================
