SPECIFICATION Spec
CONSTANTS
  IsProgram <- IsC16Program
  Space = "core"
  Full = FALSE
  ScrubProto = TRUE
CONSTRAINT Emit
INVARIANTS InvRefinesEnvelope InvIff InvFailNeverHijacks InvErrorAfterHijackCloses InvSuccessNoDeadline InvModelResponse
CHECK_DEADLOCK FALSE
