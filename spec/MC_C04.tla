------------------------------- MODULE MC_C04 -------------------------------
(* Program space for C04: every protocol state x the full 2-byte header    *)
(* alphabet (16 opcodes x FIN x RSV1-3 x MASK x length classes x close     *)
(* body classes), both roles, compression negotiated or not.               *)
EXTENDS WSReaderMC

CONSTANTS Full,      \* TRUE: full product; FALSE: at most one deviation from a normal frame
          HModes

MCCfgs == {[role |-> r, pmce |-> p, limit |-> 0, hmode |-> h, herrAt |-> 0, policy |-> "per_message"]
             : r \in {"server", "client"}, p \in BOOLEAN, h \in HModes}

(* protocol states, reached by the shortest prefix *)
Prefixes(c) ==
  { << >>,
    << Fr(c, OpText, FALSE, 3) >>,
    << Fr(c, OpBin, FALSE, 3) >>,
    << Fr(c, OpBin, TRUE, 3) >>,
    << Fr(c, OpText, FALSE, 2), Fr(c, OpPing, TRUE, 2), Fr(c, OpCont, FALSE, 0) >> }

LenClasses == {<<0, "n", FALSE>>, <<1, "n", FALSE>>, <<125, "n", FALSE>>, <<126, "n", FALSE>>,
               <<65536, "n", FALSE>>, <<5, "top", FALSE>>, <<5, "max", FALSE>>, <<5, "n", TRUE>>,
               <<268435456, "n", FALSE>>}     \* 2^28 declared, 3 bytes sent (memory clause of C06/C07)

Hdr(c, op, fin, r1, r2, r3, mkok, lc) ==
  [Fr(c, op, fin, lc[1]) EXCEPT !.r1 = r1, !.r2 = r2, !.r3 = r3,
        !.mk = IF mkok THEN (c.role = "server") ELSE (c.role # "server"),
        !.lk = lc[2], !.nonmin = lc[3], !.short = IF lc[1] > 1000000 THEN 4 ELSE 0,
        \* a data frame with RSV1 under permessage-deflate carries a real deflate stream
        !.comp = IF r1 /\ c.pmce /\ IsDataOp(op) /\ lc[2] = "n" /\ lc[1] < 1000000 THEN "fixed" ELSE "",
        !.plain = IF r1 /\ c.pmce /\ IsDataOp(op) /\ lc[2] = "n" /\ lc[1] < 1000000 THEN (IF lc[1] = 0 THEN 1 ELSE lc[1]) ELSE 0]

Deviations(r1, r2, r3, mkok, lc) ==
  (IF r1 THEN 1 ELSE 0) + (IF r2 THEN 1 ELSE 0) + (IF r3 THEN 1 ELSE 0) + (IF mkok THEN 0 ELSE 1)
  + (IF lc = <<1, "n", FALSE>> THEN 0 ELSE 1)

HeaderFrames(c) ==
  {Hdr(c, op, fin, r1, r2, r3, mkok, lc) :
     op \in 0..15, fin \in BOOLEAN, r1 \in BOOLEAN, r2 \in BOOLEAN, r3 \in BOOLEAN, mkok \in BOOLEAN, lc \in LenClasses}

QuickHeaderFrames(c) ==
  UNION {{Hdr(c, op, fin, r1, r2, r3, mkok, lc) : op \in 0..15, fin \in BOOLEAN} :
         <<r1, r2, r3, mkok, lc>> \in {t \in BOOLEAN \X BOOLEAN \X BOOLEAN \X BOOLEAN \X LenClasses :
                                         Deviations(t[1], t[2], t[3], t[4], t[5]) <= 1}}

(* close frames with a legal header and every body class *)
AcceptCodes == {1000, 1001, 1002, 1003, 1007, 1008, 1009, 1010, 1011, 3000, 4999}
RejectCodes == {0, 999, 1004, 1005, 1006, 1015, 1016, 1100, 2000, 2999, 5000, 65535}
UnspecCodes == {1012, 1013, 1014}
CloseFrames(c) ==
  {CloseFr(c, code, 0) : code \in AcceptCodes \cup RejectCodes \cup UnspecCodes}
  \cup {CloseFr(c, 1000, 5), CloseFr(c, 1000, 123), CloseFr(c, 3000, 123)}
  \cup {[CloseFr(c, code, n) EXCEPT !.rs = "bad"] : code \in {1000, 1001}, n \in {1, 7}}
  \cup {[CloseFr(c, 1000, n) EXCEPT !.rs = r] : r \in BadReasons \ {"bad"}, n \in {4, 12, 123}}
  \cup {[CloseFr(c, 1001, n) EXCEPT !.rs = r] : r \in GoodReasons \ {"ok"}, n \in {4, 40}}
  \cup {Fr(c, OpClose, TRUE, 0), Fr(c, OpClose, TRUE, 1)}

Epilogue(c) == << Fr(c, OpBin, TRUE, 2) >>

MCStreams(c) ==
  {p \o << f >> \o Epilogue(c) :
     p \in Prefixes(c),
     f \in (IF Full THEN HeaderFrames(c) ELSE QuickHeaderFrames(c)) \cup CloseFrames(c)}

MCCuts(st) == {NoCut}

MCProgs(st) ==
  { << Op("RM"), Op("RM"), Op("RM"), Op("RM") >>,
    << Swd(-1), Op("RM"), Op("RM"), Op("RM"), Op("RM") >>,
    << Op("WCP"), Op("RM"), Op("RM"), Op("RM"), Op("RM") >>,
    << Op("NR"), Rd(1), Rd(4096), Rd(4096), Op("NR"), Op("NR") >>,
    << Op("NR"), Op("NR"), Op("NR") >> }
=============================================================================
