------------------------------ MODULE WSTokens ------------------------------
(***************************************************************************)
(* HTTP header field grammar used by the WebSocket opening handshake,      *)
(* written from the RFC text (RFC 7230 sections 3.2.3, 3.2.6 and 7;        *)
(* RFC 6455 section 9.1; RFC 4648 section 4), NOT from the library.        *)
(*                                                                         *)
(* A header field value is a sequence of code points (integers).  The      *)
(* driver reports the actual bytes of every header line it sent or         *)
(* received as such sequences, so the grammar below is evaluated by TLC on *)
(* the real bytes.                                                         *)
(*                                                                         *)
(*   token          = 1*tchar                                              *)
(*   OWS            = *( SP / HTAB )                                       *)
(*   1#token        = token *( OWS "," OWS token )        (sender form)    *)
(*   #token         = [ ( "," / token ) *( OWS "," [ OWS token ] ) ]       *)
(*                                              (what a recipient accepts) *)
(*   quoted-string  = DQUOTE *( qdtext / quoted-pair ) DQUOTE              *)
(*   extension-list = 1#extension                                          *)
(*   extension      = token *( ";" extension-param )                       *)
(*   extension-param= token [ "=" ( token / quoted-string ) ]              *)
(*                    ; the unescaped quoted-string must be a token        *)
(* with optional white space around "," ";" "=" (RFC 2616 implied LWS,     *)
(* under which RFC 6455 states its grammar).                               *)
(*                                                                         *)
(* Two levels of well-formedness are distinguished for extension lists:    *)
(*   lexical (RFC 7230)  every element is token *( ";" token [ "=" ( token *)
(*            / quoted-string ) ] ) with a well-formed quoted-string       *)
(*            (qdtext and quoted-pairs between two DQUOTEs).  What is      *)
(*            inside a quoted-string is NEVER a list element or a          *)
(*            parameter, whatever it contains (commas, semicolons, "=",    *)
(*            escaped quotes, the text "permessage-deflate"): the          *)
(*            extensions offered by such a field are fully determined.     *)
(*   RFC 6455 9.1        additionally every unescaped quoted value is a    *)
(*            token (field `nontok` of Extensions is FALSE).               *)
(* Only a field that is not even lexically well-formed (`mal`) leaves the  *)
(* set of offered extensions open.                                         *)
(***************************************************************************)
EXTENDS Integers, Sequences, FiniteSets

SP == 32
HTAB == 9
COMMA == 44
SEMI == 59
EQ == 61
DQUOTE == 34
BSLASH == 92

IsAlpha(c) == c \in (65..90) \cup (97..122)
IsDigit(c) == c \in 48..57
\* "!" "#" "$" "%" "&" "'" "*" "+" "-" "." "^" "_" "`" "|" "~"
IsTchar(c) == IsAlpha(c) \/ IsDigit(c) \/ c \in {33, 35, 36, 37, 38, 39, 42, 43, 45, 46, 94, 95, 96, 124, 126}
IsOWS(c) == c \in {SP, HTAB}
IsObsText(c) == c \in 128..255
IsQdtext(c) == c \in {HTAB, SP, 33} \cup (35..91) \cup (93..126) \/ IsObsText(c)
IsQPairChar(c) == c \in {HTAB, SP} \cup (33..126) \/ IsObsText(c)

(* ASCII-only case folding (RFC 4790 i;ascii-casemap): exactly A..Z fold.  *)
Fold(c) == IF c \in 65..90 THEN c + 32 ELSE c
FoldEq(a, b) == Len(a) = Len(b) /\ \A i \in 1..Len(a) : Fold(a[i]) = Fold(b[i])

IsToken(s) == Len(s) > 0 /\ \A i \in 1..Len(s) : IsTchar(s[i])

(***************************************************************************)
(* Scanners.  Positions are 1-based; Len(s)+1 is "end of input".           *)
(***************************************************************************)
RECURSIVE SkipOWS(_, _)
SkipOWS(s, i) == IF i <= Len(s) /\ IsOWS(s[i]) THEN SkipOWS(s, i + 1) ELSE i

RECURSIVE TokEnd(_, _)
TokEnd(s, i) == IF i <= Len(s) /\ IsTchar(s[i]) THEN TokEnd(s, i + 1) ELSE i

RECURSIVE TrimEnd(_, _)
TrimEnd(s, j) == IF j >= 1 /\ IsOWS(s[j]) THEN TrimEnd(s, j - 1) ELSE j

Trim(s) == LET a == SkipOWS(s, 1)
               b == TrimEnd(s, Len(s))
           IN IF a > b THEN << >> ELSE SubSeq(s, a, b)

(* Split s at the positions P of a separator of width w (positions in      *)
(* ascending order are consumed by Min, so the recursion depth is the      *)
(* number of pieces, not the number of characters).                        *)
MinOf(P) == CHOOSE x \in P : \A y \in P : x <= y
RECURSIVE Pieces(_, _, _, _)
Pieces(s, from, P, w) ==
  IF P = {} THEN << SubSeq(s, from, Len(s)) >>
  ELSE LET i == MinOf(P) IN << SubSeq(s, from, i - 1) >> \o Pieces(s, i + w, P \ {i}, w)

(* Split s at every occurrence of the code point c.                        *)
Split(s, c) == Pieces(s, 1, {i \in 1..Len(s) : s[i] = c}, 1)

(***************************************************************************)
(* Token lists.  A header LINE is classified as                            *)
(*   "strict"    it matches the sender grammar 1#token                     *)
(*   "lenient"   it matches only the recipient grammar (empty elements,    *)
(*               or no element at all)                                     *)
(*   "malformed" some element is not a token                               *)
(* and LineTokens is the sequence of its tokens.                           *)
(***************************************************************************)
LineElems(s) == LET p == Split(s, COMMA) IN [i \in 1..Len(p) |-> Trim(p[i])]

LineClass(s) ==
  LET e == LineElems(s) IN
  IF \E i \in 1..Len(e) : e[i] # << >> /\ ~IsToken(e[i]) THEN "malformed"
  ELSE IF \E i \in 1..Len(e) : e[i] = << >> THEN "lenient"
  ELSE "strict"

LineTokens(s) == SelectSeq(LineElems(s), LAMBDA x : IsToken(x))

AllStrict(lines) == \A i \in 1..Len(lines) : LineClass(lines[i]) = "strict"

(* Does the header field (all its lines) contain the token `value` under   *)
(* ASCII case folding?  "yes" / "no" when every line is a strict 1#token   *)
(* list; "either" when some line is not (the property quantifies over      *)
(* well-formed lists; how a recipient treats a line with empty or          *)
(* malformed elements is its own choice).                                  *)
TokenListContains(lines, value) ==
  IF ~AllStrict(lines) THEN "either"
  ELSE IF \E i \in 1..Len(lines) :
            LET t == LineTokens(lines[i]) IN \E j \in 1..Len(t) : FoldEq(t[j], value)
       THEN "yes" ELSE "no"

(* All tokens of a strict token-list field, exact bytes (subprotocols are   *)
(* compared case-sensitively).                                             *)
RECURSIVE FlatTokens(_)
FlatTokens(lines) == IF lines = << >> THEN << >>
                     ELSE LineTokens(Head(lines)) \o FlatTokens(Tail(lines))
Rng(q) == {q[i] : i \in DOMAIN q}

(***************************************************************************)
(* Quoted strings.  QScan starts after the opening DQUOTE and returns the  *)
(* unescaped value and the position after the closing DQUOTE.              *)
(***************************************************************************)
RECURSIVE QScan(_, _, _)
QScan(s, j, acc) ==
  IF j > Len(s) THEN [ok |-> FALSE, val |-> acc, nxt |-> j]
  ELSE IF s[j] = DQUOTE THEN [ok |-> TRUE, val |-> acc, nxt |-> j + 1]
  ELSE IF s[j] = BSLASH THEN
       IF j + 1 <= Len(s) /\ IsQPairChar(s[j + 1]) THEN QScan(s, j + 2, Append(acc, s[j + 1]))
       ELSE [ok |-> FALSE, val |-> acc, nxt |-> j]
  ELSE IF IsQdtext(s[j]) THEN QScan(s, j + 1, Append(acc, s[j]))
  ELSE [ok |-> FALSE, val |-> acc, nxt |-> j]

(***************************************************************************)
(* Extension lists (RFC 6455 9.1).  Recursive descent; every parser        *)
(* returns [ok, nxt, ...].  An extension is [name, params] with params a   *)
(* sequence of [k, v, hasv].                                               *)
(***************************************************************************)
Fail(i) == [ok |-> FALSE, nxt |-> i]

(* extension-param, i at the first character of the parameter name.        *)
PParam(s, i) ==
  LET j == TokEnd(s, i) IN
  IF j = i THEN Fail(i)
  ELSE LET k  == SubSeq(s, i, j - 1)
           j2 == SkipOWS(s, j)
       IN IF j2 <= Len(s) /\ s[j2] = EQ THEN
             LET j3 == SkipOWS(s, j2 + 1) IN
             IF j3 <= Len(s) /\ s[j3] = DQUOTE THEN
                  LET q == QScan(s, j3 + 1, << >>) IN
                  IF q.ok
                  THEN [ok |-> TRUE, nxt |-> q.nxt, p |-> [k |-> k, v |-> q.val, hasv |-> TRUE, tokv |-> IsToken(q.val)]]
                  ELSE Fail(j3)
             ELSE LET j4 == TokEnd(s, j3) IN
                  IF j4 = j3 THEN Fail(j3)
                  ELSE [ok |-> TRUE, nxt |-> j4, p |-> [k |-> k, v |-> SubSeq(s, j3, j4 - 1), hasv |-> TRUE, tokv |-> TRUE]]
          ELSE [ok |-> TRUE, nxt |-> j, p |-> [k |-> k, v |-> << >>, hasv |-> FALSE, tokv |-> TRUE]]

(* *( ";" extension-param ), i after the extension token or a parameter.   *)
RECURSIVE PParams(_, _, _)
PParams(s, i, acc) ==
  LET j == SkipOWS(s, i) IN
  IF j <= Len(s) /\ s[j] = SEMI THEN
       LET r == PParam(s, SkipOWS(s, j + 1)) IN
       IF r.ok THEN PParams(s, r.nxt, Append(acc, r.p)) ELSE [ok |-> FALSE, nxt |-> r.nxt, ps |-> acc]
  ELSE [ok |-> TRUE, nxt |-> i, ps |-> acc]

(* #extension, i at an element position.  empties counts empty elements.   *)
RECURSIVE PExtList(_, _, _, _)
PExtList(s, i, acc, empties) ==
  LET j == SkipOWS(s, i) IN
  IF j > Len(s) THEN [ok |-> TRUE, exts |-> acc, empties |-> empties + 1]
  ELSE IF s[j] = COMMA THEN PExtList(s, j + 1, acc, empties + 1)
  ELSE LET t == TokEnd(s, j) IN
       IF t = j THEN [ok |-> FALSE, exts |-> acc, empties |-> empties]
       ELSE LET ps == PParams(s, t, << >>) IN
            IF ~ps.ok THEN [ok |-> FALSE, exts |-> acc, empties |-> empties]
            ELSE LET e  == [name |-> SubSeq(s, j, t - 1), params |-> ps.ps]
                     j2 == SkipOWS(s, ps.nxt)
                 IN IF j2 > Len(s) THEN [ok |-> TRUE, exts |-> Append(acc, e), empties |-> empties]
                    ELSE IF s[j2] = COMMA THEN PExtList(s, j2 + 1, Append(acc, e), empties)
                    ELSE [ok |-> FALSE, exts |-> acc, empties |-> empties]

ExtLine(s) == PExtList(s, 1, << >>, 0)

(* The extension offers / announcements of a header field.  A field may    *)
(* consist of several header LINES; each line is judged on its own:        *)
(*   mal     some line does not match the lexical (recipient) grammar;     *)
(*           what such a line offers / announces is not asserted,          *)
(*   exts    the extensions of all lines (for a malformed line: the        *)
(*           elements completed before the defect),                        *)
(*   wfexts  the extensions of the lexically well-formed lines only: they  *)
(*           are offered / announced whatever the other lines look like    *)
(*           (an empty line, a trailing comma or a malformed line does not *)
(*           take away what another line says),                            *)
(*   malpmd  some malformed line mentions the text permessage-deflate (its *)
(*           contribution to the negotiation is then open),                *)
(*   nontok  some quoted parameter value is not a token after unescaping   *)
(*           (RFC 6455 9.1 forbids it; the extension NAMES of the field    *)
(*           are nevertheless determined).                                 *)
RECURSIVE ExtsOf(_)
ExtsOf(lines) == IF lines = << >> THEN << >>
                 ELSE ExtLine(Head(lines)).exts \o ExtsOf(Tail(lines))
RECURSIVE WfExtsOf(_)
WfExtsOf(lines) == IF lines = << >> THEN << >>
                   ELSE LET x == ExtLine(Head(lines)) IN (IF x.ok THEN x.exts ELSE << >>) \o WfExtsOf(Tail(lines))
HasSub(s, t) == \E i \in 1..(Len(s) - Len(t) + 1) : SubSeq(s, i, i + Len(t) - 1) = t
TokPmdText == <<112,101,114,109,101,115,115,97,103,101,45,100,101,102,108,97,116,101>>
Extensions(lines) ==
  LET es == ExtsOf(lines) IN
  [mal    |-> \E i \in 1..Len(lines) : ~ExtLine(lines[i]).ok,
   malpmd |-> \E i \in 1..Len(lines) : ~ExtLine(lines[i]).ok /\ HasSub(lines[i], TokPmdText),
   nontok |-> \E i \in 1..Len(es) : \E j \in 1..Len(es[i].params) : ~es[i].params[j].tokv,
   exts   |-> es,
   wfexts |-> WfExtsOf(lines)]

HasParam(e, k) == \E i \in 1..Len(e.params) : e.params[i].k = k
HasExt(x, name) == \E i \in 1..Len(x.exts) : x.exts[i].name = name
NumExt(x, name) == Cardinality({i \in 1..Len(x.exts) : x.exts[i].name = name})

(***************************************************************************)
(* Frequently used literals as code points.                                *)
(***************************************************************************)
TokUpgrade   == <<117,112,103,114,97,100,101>>
TokWebsocket == <<119,101,98,115,111,99,107,101,116>>
Tok13        == <<49,51>>
TokPmd       == <<112,101,114,109,101,115,115,97,103,101,45,100,101,102,108,97,116,101>>
TokSNCT      == <<115,101,114,118,101,114,95,110,111,95,99,111,110,116,101,120,116,95,116,97,107,101,111,118,101,114>>
TokCNCT      == <<99,108,105,101,110,116,95,110,111,95,99,111,110,116,101,120,116,95,116,97,107,101,111,118,101,114>>

(* permessage-deflate present with both no_context_takeover parameters.    *)
PmdBothIn(es) == \E i \in 1..Len(es) :
                 es[i].name = TokPmd /\ HasParam(es[i], TokSNCT) /\ HasParam(es[i], TokCNCT)
PmdBoth(x) == PmdBothIn(x.exts)
HasExtIn(es, name) == \E i \in 1..Len(es) : es[i].name = name

(***************************************************************************)
(* RFC 4648 section 4 base64: number of octets a string decodes to, -1 if  *)
(* it is not a base64 encoding (alphabet A-Z a-z 0-9 + /, length a         *)
(* multiple of four, padding "=" only as the last one or two characters).  *)
(***************************************************************************)
(* Canonical encoding (RFC 4648 3.5): the unused low bits of the last       *)
(* symbol before the padding are zero.  A decoder MAY reject other         *)
(* spellings; one that accepts them decodes the same octets.               *)
B64Val(c) == IF c \in 65..90 THEN c - 65 ELSE IF c \in 97..122 THEN c - 71 ELSE IF c \in 48..57 THEN c + 4
             ELSE IF c = 43 THEN 62 ELSE 63
B64Canonical(s) ==
  LET n == Len(s) IN
  IF n = 0 \/ n % 4 # 0 THEN FALSE
  ELSE LET pad == IF s[n] = 61 THEN (IF s[n - 1] = 61 THEN 2 ELSE 1) ELSE 0 IN
       CASE pad = 2 -> B64Val(s[n - 2]) % 16 = 0
         [] pad = 1 -> B64Val(s[n - 1]) % 4 = 0
         [] OTHER -> TRUE
IsB64(c) == IsAlpha(c) \/ IsDigit(c) \/ c \in {43, 47}
B64DecLen(s) ==
  LET n == Len(s) IN
  IF n = 0 \/ n % 4 # 0 THEN -1
  ELSE LET pad == IF s[n] = 61 THEN (IF s[n - 1] = 61 THEN 2 ELSE 1) ELSE 0 IN
       IF \A i \in 1..(n - pad) : IsB64(s[i]) THEN (n \div 4) * 3 - pad ELSE -1
=============================================================================
