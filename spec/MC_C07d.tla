------------------------------- MODULE MC_C07d -------------------------------
(* Program space for the reply part of C07: raw replies of the server to   *)
(* the opening handshake and of an HTTP(S) proxy to CONNECT, as the        *)
(* product status-line form x status code x header-block form.  The        *)
(* concretiser renders the bytes; the driver truncates every reply at      *)
(* every byte offset.  Oracle: any normal result or error return;          *)
(* PANIC / HANG / ALLOC events are not explainable.                        *)
EXTENDS WSDialMC

CONSTANTS Targets, SLForms, Codes, HBForms, MaxDev,
          Decls, DeclCodes   \* declared body lengths (decimal strings) and the status codes they are combined with

B2I(b) == IF b THEN 1 ELSE 0
Dev(sl, code, hb) == B2I(sl # "normal") + B2I(code \notin {"101", "200"}) + B2I(hb # "wellformed")

Raws == { [mode |-> "raw", sl |-> t[1], code |-> t[2], hb |-> t[3]] :
            t \in { x \in SLForms \X Codes \X HBForms : Dev(x[1], x[2], x[3]) <= MaxDev } }

(* Replies that DECLARE a body length in Content-Length and deliver none / three / all (small lengths only) of     *)
(* the bytes before the connection ends, for refusing statuses and for a 101 whose Accept value is wrong: what    *)
(* Dial allocates must be in proportion to the bytes received, never to the number the peer declares.             *)
SmallDecls == {"0", "1", "1023", "1024", "1025"}
DeclForms ==
  { pre \o "cld/" \o dc \o "/" \o sn : pre \in {"", "badacc_"}, dc \in Decls, sn \in {"0", "3"} }
  \cup { pre \o "cld/" \o dc \o "/all" : pre \in {"", "badacc_"}, dc \in Decls \cap SmallDecls }
DeclRaws == { [mode |-> "raw", sl |-> "normal", code |-> cd, hb |-> f] : cd \in DeclCodes, f \in DeclForms }
             \cup { [mode |-> "raw", sl |-> "normal", code |-> cd, hb |-> "chunked_big"] : cd \in DeclCodes }

MCCfgs == { [BaseCfg EXCEPT !.proxy = p] : p \in Targets }   \* "none": the reply is the server's; else the proxy's

MCDials(c) ==
  IF c.proxy = "none"
  THEN { << Dial(u, << >>, r, OkCReply, "valid", NoFault, FALSE) >> : u \in {PlainURL}, r \in Raws \cup DeclRaws }
  ELSE { << Dial(u, << >>, GoodReply, [mode |-> "raw", sl |-> r.sl, code |-> r.code, hb |-> r.hb], "valid", NoFault, FALSE) >> :
           u \in {PlainURL}, r \in Raws \cup DeclRaws }
=============================================================================
