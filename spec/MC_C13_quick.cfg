SPECIFICATION Spec
CONSTANTS
  MaxLen = 2
  PairLen = 1
  ShapeLen = 1
  AllPairs = TRUE
  PortLen = 1
CONSTRAINT Emit
INVARIANTS InvOnlySameOrigin InvSameOriginAdmitted InvNoUnicodeFold
CHECK_DEADLOCK FALSE
