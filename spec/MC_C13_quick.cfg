SPECIFICATION Spec
CONSTANTS
  MaxLen = 2
  PairLen = 1
  ShapeLen = 1
  AllPairs = TRUE
CONSTRAINT Emit
INVARIANTS InvOnlySameOrigin InvSameOriginAdmitted InvNoUnicodeFold
CHECK_DEADLOCK FALSE
