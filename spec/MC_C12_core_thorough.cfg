SPECIFICATION Spec
CONSTANTS
  IsProgram <- MCIsProgram
  Space = "core"
  Full = TRUE
  ScrubProto = TRUE
CONSTRAINT Emit
INVARIANTS InvRefinesEnvelope InvIff InvFailNeverHijacks InvErrorAfterHijackCloses InvSuccessNoDeadline InvModelResponse
CHECK_DEADLOCK FALSE
