------------------------------ MODULE WSUpgrade ------------------------------
(***************************************************************************)
(* The server side of the WebSocket opening handshake (Upgrader.Upgrade)   *)
(* as a decision model, written from RFC 6455 section 4.2 and from the     *)
(* texts of properties C12, C13, C16 (server part) and C17.                *)
(*                                                                         *)
(* A PROGRAM is p = [req, cfg, rh, fault]:                                 *)
(*  req   = [method, conn, upg, ver   header fields: sequences of lines,   *)
(*                                    a line is a sequence of code points  *)
(*           key    = [present, v]    Sec-WebSocket-Key                    *)
(*           host, origin             see WSOrigin (origin = [present,     *)
(*                                    shape, scheme, y, port])             *)
(*           proto, ext]              subprotocol / extension offers       *)
(*  cfg   = [checkOrigin ("nil" | "true" | "false"), subsNil, subs,        *)
(*           compress, hto (HandshakeTimeout, ms), errfn, rbuf, wbuf,      *)
(*           pool, hsize, hwsize]                                          *)
(*  rh    = responseHeader [nil, hasExt, extKey, extV, proto = [present,   *)
(*           v], extras = sequence of [name, v]]; hasExt: the map has an   *)
(*           entry extKey (a spelling of Sec-WebSocket-Extensions) with    *)
(*           the value extV                                                *)
(*  fault = [op (index of the post-hijack transport operation that fails,  *)
(*           0 = none), kind, closeErr, hijackErr]                         *)
(*                                                                         *)
(* An OBSERVATION is o = [conn, err, status, upgHdr, hijacked, ops, raw,   *)
(* accept]: what Upgrade returned, what it did to the ResponseWriter, the  *)
(* operations it performed on the hijacked connection, the bytes it wrote  *)
(* there and (a harness-evaluated fact) the RFC 6455 digest of the key.    *)
(*                                                                         *)
(* The ENVELOPE OutcomeAllowed(p, o) admits every observation the          *)
(* properties allow; the STRICT model (StrictStatus, StrictResponse,       *)
(* StrictOps) follows the order of checks of the implementation and is     *)
(* used for model checking, where TLC verifies that it refines the         *)
(* envelope (WSUpgradeMC).                                                 *)
(***************************************************************************)
EXTENDS WSTokens, WSOrigin, TLC

CR == 13
LF == 10
COLON == 58

NUpgrade    == <<117,112,103,114,97,100,101>>
NConnection == <<99,111,110,110,101,99,116,105,111,110>>
NAccept     == <<115,101,99,45,119,101,98,115,111,99,107,101,116,45,97,99,99,101,112,116>>
NProtocol   == <<115,101,99,45,119,101,98,115,111,99,107,101,116,45,112,114,111,116,111,99,111,108>>
NExtensions == <<115,101,99,45,119,101,98,115,111,99,107,101,116,45,101,120,116,101,110,115,105,111,110,115>>
StatusPrefix == <<72,84,84,80,47,49,46,49,32,49,48,49>>       \* "HTTP/1.1 101"

-----------------------------------------------------------------------------
(* 1. Is the request a valid opening handshake?  Each condition is "yes",  *)
(* "no" or "either" (the latter only for header fields that are not        *)
(* well-formed 1#token lists).                                             *)

B(x) == IF x THEN "yes" ELSE "no"

(* Domain decision (DESIGN 0.4): the keys of the responseHeader map are in *)
(* canonical form, as net/http documents for http.Header and as            *)
(* Header.Set/Add produce them.  An application extension header under a   *)
(* non-canonical spelling of the key is outside the domain: the programs   *)
(* are run (well-formed 101 or refusal, no panic) but neither the refusal  *)
(* nor the announcement clause is asserted for them.  NonCanonInDomain is  *)
(* the switch (a cfg may override it with <-).                             *)
NonCanonInDomain == FALSE
CanonExtKey == <<83,101,99,45,87,101,98,115,111,99,107,101,116,45,69,120,116,101,110,115,105,111,110,115>>  \* Sec-Websocket-Extensions
ExtKeyInDomain(p) == p.rh.extKey = CanonExtKey \/ NonCanonInDomain

Conds(p) ==
  [method |-> B(p.req.method = "GET"),
   conn   |-> TokenListContains(p.req.conn, TokUpgrade),
   upg    |-> TokenListContains(p.req.upg, TokWebsocket),
   ver    |-> TokenListContains(p.req.ver, Tok13),
   \* a key that decodes to 16 octets but is not the canonical encoding (non-zero unused bits in
   \* the last symbol) may be accepted or refused (RFC 4648 3.5); if it is accepted, the accept
   \* value is the digest of the key text AS SENT (o.accept, RFC 6455 4.2.2)
   key    |-> IF p.req.key.present /\ B64DecLen(p.req.key.v) = 16
              THEN (IF B64Canonical(p.req.key.v) THEN "yes" ELSE "either") ELSE "no",
   origin |-> CASE p.cfg.checkOrigin = "true"  -> "yes"
                [] p.cfg.checkOrigin = "false" -> "no"
                [] OTHER -> B(Expected(p.req.host, p.req.origin)),
   appext |-> IF ~p.rh.hasExt THEN "yes" ELSE IF ExtKeyInDomain(p) THEN "no" ELSE "either"]

CondNames == {"method", "conn", "upg", "ver", "key", "origin", "appext"}
Defects(p) == LET c == Conds(p) IN {n \in CondNames : c[n] = "no"}
Unsure(p)  == LET c == Conds(p) IN {n \in CondNames : c[n] = "either"}

Verdict(p) == LET c == Conds(p) IN
              IF \E n \in CondNames : c[n] = "no" THEN "no"
              ELSE IF \E n \in CondNames : c[n] = "either" THEN "either" ELSE "yes"

-----------------------------------------------------------------------------
(* 2. The bytes written to the hijacked connection, parsed by TLC.         *)

SplitCRLF(s) == Pieces(s, 1, {i \in 1..(Len(s) - 1) : s[i] = CR /\ s[i + 1] = LF}, 2)

IndexOf(s, c) == LET P == {i \in 1..Len(s) : s[i] = c} IN IF P = {} THEN 0 ELSE MinOf(P)

Lower(s) == [i \in 1..Len(s) |-> Fold(s[i])]

(* A header line "name: value" -> [ok, name (lower case), v].              *)
HeaderLine(l) ==
  LET c == IndexOf(l, COLON) IN
  IF c <= 1 THEN [ok |-> FALSE, name |-> << >>, v |-> << >>]
  ELSE [ok |-> IsToken(SubSeq(l, 1, c - 1)), name |-> Lower(SubSeq(l, 1, c - 1)),
        v |-> Trim(SubSeq(l, c + 1, Len(l)))]

(* raw -> [framed, status, hdrs]: framed = the bytes are a status line and *)
(* header lines, each terminated by CRLF, closed by one empty line, with   *)
(* nothing behind it, no empty line before it, and no bare CR or LF.       *)
Response(raw) ==
  LET ls == SplitCRLF(raw)
      n  == Len(ls)
  IN IF n < 3 THEN [framed |-> FALSE, status |-> << >>, hdrs |-> << >>]
     ELSE [framed |-> /\ ls[n] = << >> /\ ls[n - 1] = << >>
                      /\ \A i \in 1..(n - 2) : /\ ls[i] # << >>
                                               /\ \A j \in 1..Len(ls[i]) : ls[i][j] \notin {CR, LF},
           status |-> ls[1],
           hdrs   |-> [i \in 1..(n - 3) |-> HeaderLine(ls[i + 1])]]

StatusIs101(st) ==
  /\ Len(st) >= Len(StatusPrefix)
  /\ SubSeq(st, 1, Len(StatusPrefix)) = StatusPrefix
  /\ Len(st) > Len(StatusPrefix) => st[Len(StatusPrefix) + 1] = SP

Named(r, name) == SelectSeq(r.hdrs, LAMBDA h : h.name = name)
Owned == {NUpgrade, NConnection, NAccept, NProtocol, NExtensions}

-----------------------------------------------------------------------------
(* 3. Transport operations on the hijacked connection.                     *)
(* op = [k ("SD" SetDeadline | "SWD" | "SRD" | "W" | "R" | "C" Close),     *)
(*       zero (the deadline argument is the zero time), ok]                *)

Failed(ops) == {i \in 1..Len(ops) : ops[i].k # "C" /\ ~ops[i].ok}
Closes(ops) == {i \in 1..Len(ops) : ops[i].k = "C"}

(* Deadlines armed BY THE HANDSHAKE after the operations (C16: "no         *)
(* handshake deadline left armed").                                        *)
RECURSIVE Armed(_, _, _)
Armed(ops, i, st) ==
  IF i > Len(ops) THEN st
  ELSE LET o == ops[i] IN
       Armed(ops, i + 1,
             IF ~o.ok THEN st
             ELSE CASE o.k = "SD"  -> [r |-> ~o.zero, w |-> ~o.zero]
                    [] o.k = "SWD" -> [st EXCEPT !.w = ~o.zero]
                    [] o.k = "SRD" -> [st EXCEPT !.r = ~o.zero]
                    [] OTHER -> st)
ArmedAfter(ops) == Armed(ops, 1, [r |-> FALSE, w |-> FALSE])

-----------------------------------------------------------------------------
(* 4. The envelope.                                                        *)

OfferedProtos(p) == Rng(FlatTokens(p.req.proto))
Offer(p) == Extensions(p.req.ext)

Count(q, P(_)) == Cardinality({i \in 1..Len(q) : P(q[i])})

(* C12 success clauses on the 101 response.                                *)
ResponseOK(p, o) ==
  LET r   == Response(o.raw)
      up  == Named(r, NUpgrade)
      co  == Named(r, NConnection)
      ac  == Named(r, NAccept)
      pr  == Named(r, NProtocol)
      ex  == Named(r, NExtensions)
      off == Offer(p)
  IN
  /\ r.framed
  /\ StatusIs101(r.status)
  /\ \A i \in 1..Len(r.hdrs) : r.hdrs[i].ok
  \* exactly one Upgrade: websocket, Connection: upgrade, correct accept
  /\ Len(up) = 1 /\ TokenListContains(<< up[1].v >>, TokWebsocket) = "yes"
  /\ Len(co) = 1 /\ TokenListContains(<< co[1].v >>, TokUpgrade) = "yes"
  /\ Len(ac) = 1 /\ ac[1].v = o.accept
  \* subprotocol: offered by the client and supported by the server
  /\ Len(pr) <= 1
  /\ Len(pr) = 1 =>
        IF p.cfg.subsNil THEN ~p.rh.nil /\ p.rh.proto.present   \* the application's own choice
        ELSE pr[1].v \in OfferedProtos(p) /\ pr[1].v \in Rng(p.cfg.subs)
  \* permessage-deflate only if offered and enabled
  /\ (p.rh.hasExt /\ ~ExtKeyInDomain(p)) \/
        (/\ Len(ex) <= 1
         /\ Len(ex) = 1 => (p.cfg.compress /\ (off.mal \/ HasExt(off, TokPmd))))
  \* no line injected by application supplied values: every other line is
  \* one of the application's headers, at most as often as supplied
  /\ \A i \in 1..Len(r.hdrs) : r.hdrs[i].name \notin Owned =>
        LET nm == r.hdrs[i].name IN
        /\ ~p.rh.nil
        /\ Count(r.hdrs, LAMBDA h : h.name = nm) <= Count(p.rh.extras, LAMBDA e : Lower(e.name) = nm)

(* C12/C16: success.                                                       *)
SuccessOK(p, o) ==
  /\ o.conn /\ o.err = "nil" /\ o.hijacked
  /\ Failed(o.ops) = {} /\ Closes(o.ops) = {}
  /\ LET a == ArmedAfter(o.ops) IN ~a.r /\ ~a.w
  /\ ResponseOK(p, o)

(* C12/C16: refusal before hijack: an HTTP error status on the             *)
(* ResponseWriter, the connection untouched (it is left to net/http).      *)
RefusalCore(o) ==
  /\ ~o.conn /\ ~o.hijacked /\ o.err # "nil"
  /\ o.ops = << >> /\ o.raw = << >>
  /\ o.status \in 400..599

(* The status is fixed by the property only for requests with exactly one  *)
(* defect (403 origin, 426 + Upgrade header for a missing Upgrade token).  *)
RefusalOK(p, o) ==
  LET d == Defects(p)
      u == Unsure(p)
  IN
  /\ RefusalCore(o)
  /\ o.err = "handshake"
  /\ (d = {"origin"} /\ u = {}) => o.status = 403
  /\ (d = {"upg"} /\ u = {}) => (o.status = 426 /\ o.upgHdr)

(* C16 server: an operation on the hijacked connection failed.             *)
AfterHijackFailOK(p, o) ==
  /\ ~o.conn /\ o.err # "nil" /\ o.hijacked
  /\ \E c \in Closes(o.ops) : \A f \in Failed(o.ops) : f < c

OutcomeAllowed(p, o) ==
  LET v == Verdict(p) IN
  IF p.fault.hijackErr /\ v # "no" THEN
       \* the ResponseWriter cannot be hijacked: nothing can be upgraded
       RefusalCore(o)
  ELSE IF Failed(o.ops) # {} THEN v # "no" /\ AfterHijackFailOK(p, o)
  ELSE CASE v = "yes" -> SuccessOK(p, o)
         [] v = "no"  -> RefusalOK(p, o)
         [] OTHER -> SuccessOK(p, o) \/ RefusalOK(p, o)

-----------------------------------------------------------------------------
(* 5. The strict (implementation-shaped) model.                            *)

CONSTANT ScrubProto   \* TRUE: control bytes of an application supplied subprotocol are
                      \* replaced like those of every other value; FALSE: copied raw
                      \* (the pinned tree before the repair of defect 6.4)

Yes(x) == x = "yes"      \* a field that is not well-formed does not contain the token

(* status of the refusal in source order, 0 = the request is accepted      *)
StrictStatus(p) ==
  LET c == Conds(p) IN
  IF ~Yes(c.conn) THEN 400
  ELSE IF ~Yes(c.upg) THEN 426
  ELSE IF ~Yes(c.method) THEN 405
  ELSE IF ~Yes(c.ver) THEN 400
  ELSE IF p.rh.hasExt /\ p.rh.extKey = CanonExtKey THEN 500      \* only the canonical key is looked up
  ELSE IF ~Yes(c.origin) THEN 403
  ELSE IF c.key = "no" THEN 400                                  \* the decoder accepts non-canonical spellings
  ELSE IF p.fault.hijackErr THEN 500
  ELSE 0

Scrub(v) == [i \in 1..Len(v) |-> IF v[i] <= 31 THEN SP ELSE v[i]]

RECURSIVE FirstMatch(_, _)
FirstMatch(offers, subs) ==
  IF offers = << >> THEN << >>
  ELSE IF Head(offers) \in Rng(subs) THEN Head(offers) ELSE FirstMatch(Tail(offers), subs)

StrictProto(p) ==
  IF ~p.cfg.subsNil THEN FirstMatch(FlatTokens(p.req.proto), p.cfg.subs)
  ELSE IF ~p.rh.nil /\ p.rh.proto.present THEN (IF ScrubProto THEN Scrub(p.rh.proto.v) ELSE p.rh.proto.v)
  ELSE << >>

StrictCompress(p) == p.cfg.compress /\ HasExt(Offer(p), TokPmd)

CRLF == << CR, LF >>
LStatus     == <<72,84,84,80,47,49,46,49,32,49,48,49,32,83,119,105,116,99,104,105,110,103,32,80,114,111,116,111,99,111,108,115>>
LUpgrade    == <<85,112,103,114,97,100,101,58,32,119,101,98,115,111,99,107,101,116>>
LConnection == <<67,111,110,110,101,99,116,105,111,110,58,32,85,112,103,114,97,100,101>>
LAcceptPfx  == <<83,101,99,45,87,101,98,83,111,99,107,101,116,45,65,99,99,101,112,116,58,32>>
LProtoPfx   == <<83,101,99,45,87,101,98,83,111,99,107,101,116,45,80,114,111,116,111,99,111,108,58,32>>
LExt        == <<83,101,99,45,87,101,98,83,111,99,107,101,116,45,69,120,116,101,110,115,105,111,110,115,58,32,112,101,114,109,101,115,115,97,103,101,45,100,101,102,108,97,116,101,59,32,115,101,114,118,101,114,95,110,111,95,99,111,110,116,101,120,116,95,116,97,107,101,111,118,101,114,59,32,99,108,105,101,110,116,95,110,111,95,99,111,110,116,101,120,116,95,116,97,107,101,111,118,101,114>>
ColonSp     == <<58, 32>>

RECURSIVE ExtraLines(_)
ExtraLines(es) == IF es = << >> THEN << >>
                  ELSE Head(es).name \o ColonSp \o Scrub(Head(es).v) \o CRLF \o ExtraLines(Tail(es))

StrictResponse(p, accept) ==
  LStatus \o CRLF \o LUpgrade \o CRLF \o LConnection \o CRLF \o LAcceptPfx \o accept \o CRLF
  \o (IF StrictProto(p) # << >> THEN LProtoPfx \o StrictProto(p) \o CRLF ELSE << >>)
  \o (IF StrictCompress(p) THEN LExt \o CRLF ELSE << >>)
  \o (IF p.rh.nil THEN << >> ELSE ExtraLines(p.rh.extras))
  \o (IF ~p.rh.nil /\ p.rh.hasExt THEN p.rh.extKey \o ColonSp \o Scrub(p.rh.extV) \o CRLF ELSE << >>)   \* copied verbatim (non-canonical key)
  \o CRLF

(* post-hijack transport operations in source order *)
StrictOps(p) ==
  IF p.cfg.hto > 0 THEN << [k |-> "SWD", zero |-> FALSE], [k |-> "W", zero |-> FALSE], [k |-> "SWD", zero |-> TRUE] >>
  ELSE << [k |-> "SD", zero |-> TRUE], [k |-> "W", zero |-> FALSE] >>

(* C17: which reader the returned connection uses.  buffered = number of   *)
(* bytes in the hijacked bufio.Reader.                                     *)
ReaderSelection(rbuf, hsize, buffered) ==
  IF rbuf = 0 /\ hsize > 256 THEN "reuse"
  ELSE IF buffered > 0 THEN "wrap"
  ELSE "fresh"
=============================================================================
