SPECIFICATION Spec
CONSTRAINT Emit
INVARIANTS InvCloseRoundTrip InvCloseErrPartition InvSubprotocolsTrimmed InvSelfAgree
CHECK_DEADLOCK FALSE
