------------------------------ MODULE WSHsFuzz ------------------------------
(***************************************************************************)
(* C07, header-value part: every string up to a bounded length over the    *)
(* class alphabet of the HTTP token / list / quoted-string / extension /   *)
(* origin grammars (RFC 7230 section 3.2.6, RFC 6455 section 9.1), placed  *)
(* in a grammatical context of one handshake header, is presented          *)
(*   side = "server": as the value of a request header to Upgrader.Upgrade *)
(*   side = "client": as the value of a header of an otherwise accepting   *)
(*                    101 response to Dialer.Dial.                         *)
(* The model: every presentation yields a normal result or an error        *)
(* return; nothing else (panic, hang, allocation out of proportion) is a   *)
(* behaviour.                                                              *)
(*                                                                         *)
(* A program of kind "enum" is [side, header, ctx, stem, ext]: the strings *)
(* enumerated are stem \o x for every class string x with Len(x) <= ext,   *)
(* each class concretised with its representatives.                        *)
(*                                                                         *)
(* Bounded enumeration over the class alphabet only reaches short values.  *)
(* A program of kind "long" is [side, header, ctx, shape, lens]: one       *)
(* structured value per length in lens and per variant of the shape - long *)
(* runs of tokens, separators, quotes, backslashes, parameters, extension  *)
(* elements, base64 text of every padding with and without one invalid     *)
(* character, origin URLs with long hosts / ports / escapes - in the same  *)
(* grammatical contexts.  The judgement is the same: every presentation    *)
(* yields a normal result or an error return.                              *)
(***************************************************************************)
EXTENDS Integers, Sequences, FiniteSets, TLC

(* the class alphabet: 11 classes *)
Classes == << "alpha", "digit", "tsym", "comma", "semi", "eq", "dquote", "bslash", "ws", "sep", "obs" >>
NClasses == Len(Classes)

ServerHeaders == {"Connection", "Upgrade", "Sec-Websocket-Version", "Sec-Websocket-Key", "Sec-Websocket-Protocol",
                  "Sec-Websocket-Extensions", "Origin"}
ClientHeaders == {"Connection", "Upgrade", "Sec-Websocket-Accept", "Sec-Websocket-Protocol", "Sec-Websocket-Extensions"}

(* grammatical contexts: the enumerated string is placed ...                *)
(*   raw     alone                                                          *)
(*   elem    as a further element of a well-formed list                     *)
(*   lead    in front of a well-formed value                                *)
(*   param   as an extension parameter value (after "name=")                *)
(*   qparam  inside an opened quoted-string parameter value                 *)
(*   auth    as the authority of an origin URL (after "http://")            *)
CtxsOf(h) ==
  CASE h = "Sec-Websocket-Extensions" -> {"raw", "elem", "lead", "param", "qparam"}
    [] h = "Origin" -> {"raw", "auth", "lead"}
    [] h \in {"Sec-Websocket-Key", "Sec-Websocket-Version", "Sec-Websocket-Accept"} -> {"raw", "lead"}
    [] OTHER -> {"raw", "elem", "lead"}

(* Shapes of long values.  "b64": base64 text of the given length with    *)
(* 0 / 1 / 2 trailing "=" and an invalid character nowhere / first /       *)
(* in the middle / last (12 variants per length); every other shape has    *)
(* one value per length.                                                   *)
ListShapes == {"tokens", "commas", "longtoken", "quotes", "bslashes", "openquote", "openquote_esc", "quoted", "params",
               "qparams", "exts", "spaces", "obs", "semis", "eqs", "digits"}
UrlShapes  == {"urlhost", "urlport", "urlv6", "urlpct", "urlbadpct", "urluser"}
ShapesOf(h) ==
  CASE h \in {"Sec-Websocket-Key", "Sec-Websocket-Accept"} -> {"b64", "longtoken", "spaces", "obs", "commas"}
    [] h = "Origin" -> UrlShapes \cup {"longtoken", "spaces", "obs", "commas"}
    [] OTHER -> ListShapes
NVariants(shape) == IF shape = "b64" THEN 12 ELSE 1
LongCount(p) == Len(p.lens) * NVariants(p.shape)

(* number of class strings of length <= n *)
RECURSIVE Pow(_, _)
Pow(b, n) == IF n = 0 THEN 1 ELSE b * Pow(b, n - 1)
RECURSIVE UpToCount(_)
UpToCount(n) == IF n = 0 THEN 1 ELSE Pow(NClasses, n) + UpToCount(n - 1)

(* A batch report [n, normal, errors] is admissible iff every presentation *)
(* ended with a normal result or an error return.                          *)
BatchAllowed(p, b) ==
  /\ b.n = b.normal + b.errors
  /\ b.n >= (IF p.kind = "long" THEN LongCount(p)     \* one value per length and variant
             ELSE UpToCount(p.ext))                    \* at least one concretisation per class string
=============================================================================
