----------------------------- MODULE WSCloseRules -----------------------------
(* Constant-level part of WSClose: the predicates on what each endpoint sent *)
(* and reported, shared by the model (invariants) and by trace validation.   *)
EXTENDS Integers, Sequences, FiniteSets

E == {"a", "b"}
Peer(e) == IF e = "a" THEN "b" ELSE "a"

(***************************************************************************)
(* What must be true of the frames each side sent and of the codes its     *)
(* read loop reported: used as invariants of the model (on out / rerr) and *)
(* as the acceptance predicate for recorded executions (WSCloseTrace).     *)
(***************************************************************************)
Closes(s) == {i \in DOMAIN s : s[i].k = "close"}
OneCloseLast(s) == Cardinality(Closes(s)) <= 1 /\ \A i \in Closes(s) : i = Len(s)
CloseCode(s) == IF Closes(s) = {} THEN -1 ELSE s[Len(s)].code

Consistent(pl, o, r) ==
  /\ \A e \in E : OneCloseLast(o[e])                                     \* C09
  /\ \A e \in E : r[e] >= 0 => CloseCode(o[Peer(e)]) = r[e]              \* C08: the reported code is the peer's
  /\ \A e \in E : (~pl[e].init /\ CloseCode(o[e]) >= 0) => CloseCode(o[e]) = r[e]   \* C08: echo carries the received code
  /\ \A e \in E : (pl[e].init /\ CloseCode(o[e]) >= 0) =>
                     (CloseCode(o[e]) = pl[e].code \/ CloseCode(o[e]) = r[e])        \* own code, or an echo if the peer was first

Complete(pl, o, r) ==      \* after the handshake has run to its end
  (\E e \in E : pl[e].init) => \A e \in E : r[e] >= 0 /\ CloseCode(o[e]) >= 0
=============================================================================
