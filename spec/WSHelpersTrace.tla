--------------------------- MODULE WSHelpersTrace ---------------------------
EXTENDS WSHelpers, Json, IOUtils
Trace == ndJsonDeserialize(IOEnv.TRACE_FILE)
VARIABLE l
ASSUME TLCSet(1, 0)
Ev == Trace[l]
TCall == /\ l <= Len(Trace)
         /\ (Ev.e = "Reset" \/ (Ev.e = "Call" /\ Agrees(Ev.call, Ev.res)))
         /\ l' = l + 1 /\ TLCSet(1, l)
TSpec == l = 1 /\ [][TCall]_l
Accepted == IF TLCGet(1) = Len(Trace) THEN TRUE ELSE PrintT(<< "REJECTED-AT", TLCGet(1) + 1, Len(Trace) >>) /\ FALSE
=============================================================================
