SPECIFICATION FairSpec
CONSTANTS
  Role = "server"
  WProgs <- LWProgs
  KProgs <- LKProgs
  RProgs <- LRProgs
  FaultAts = {0}
  MultiQ = TRUE
  KeepSched = FALSE
  WCCheckBeforeLock = FALSE
INVARIANTS MonitorOK WCBounded
PROPERTIES WCReturns
CHECK_DEADLOCK FALSE
