------------------------------ MODULE WSWriter ------------------------------
(***************************************************************************)
(* The write half of WebSocket connections as a reference model of the     *)
(* write API (NextWriter / Write / WriteString / ReadFrom / Close,         *)
(* WriteMessage, WriteJSON, WriteControl, WritePreparedMessage,            *)
(* SetWriteDeadline, EnableWriteCompression, SetCompressionLevel) and of   *)
(* what may appear on the transport and in the buffer pool as a result.    *)
(* Written at the level of properties C01 C02 C09 C10 C19 C20 (the         *)
(* envelope): where frame boundaries fall and when buffered data is        *)
(* flushed is left open; WSWriterMC adds the implementation-shaped buffer  *)
(* arithmetic and checks that it refines this envelope.                    *)
(*                                                                         *)
(* One step = one application call on connection c, described by the call, *)
(* its result `err` and the ordered list `tx` of what the call did to the  *)
(* outside world:                                                          *)
(*   [t |-> "SWD", d, err]   SetWriteDeadline(d) on the transport          *)
(*   [t |-> "F", op, fin, r1, r2, r3, mk, len, min, key, m, off, zm, zlen] *)
(*                           a complete frame reached the transport;       *)
(*                           m/off: its payload equals bytes [off, off+len)*)
(*                           of message m; zm/zlen: the compressed message *)
(*                           ending here inflates to message zm            *)
(*   [t |-> "WERR", pending] a transport write failed (pending > 0: an     *)
(*                           incomplete frame is on the wire)              *)
(*   [t |-> "GET" / "PUT", buf, dup]   buffer pool traffic                 *)
(*   [t |-> "TOUCHED"]       a released buffer was modified                *)
(***************************************************************************)
EXTENDS Integers, Sequences, FiniteSets, TLC, WSWire

VARIABLES cs,    \* per connection state, see C0
          pms    \* prepared messages: [type, n]

IsDataT(t) == t \in {OpText, OpBin}
IsCtlT(t)  == t \in {OpClose, OpPing, OpPong}

C0(cf) == [role |-> cf.role, pmce |-> cf.pmce, pool |-> cf.pool, wbuf |-> cf.wbuf,
           wcomp |-> TRUE, level |-> 1, dl |-> "zero", armed |-> "none",
           err |-> "none",           \* "none" | "closesent" | "fatal"
           open |-> FALSE, dead |-> FALSE, mtype |-> 0, mid |-> -1,
           wrote |-> 0, sent |-> 0, started |-> FALSE, mcomp |-> FALSE, mlevel |-> 1,
           wst |-> "idle", held |-> -1, nextkey |-> 0, wild |-> FALSE,
           done |-> << >>]           \* messages completely written: << [m, type, n] >>

Compresses(st, type) == st.pmce /\ st.wcomp /\ IsDataT(type)

(***************************************************************************)
(* Folding one tx item into the connection state.  `ctx` says what the     *)
(* call in progress is entitled to write:                                  *)
(*   kind : "msg"  frames of the connection's current message              *)
(*          "ctl"  one control frame [op, m, n] under deadline ctx.dl      *)
(*          "pm"   the frames of prepared message ctx.pm                   *)
(*          "none" nothing                                                 *)
(* The fold returns the new state or Bad.                                  *)
(***************************************************************************)
Bad == [bad |-> TRUE]
IsBad(st) == "bad" \in DOMAIN st

FrameCommon(st, f, dl) ==
  /\ st.err = "none"                                   \* C09/C10: nothing after close / failure
  /\ WFStep(st.wst, f, st.role, st.pmce) # "bad"       \* C02: RFC grammar
  /\ st.armed = dl                                     \* C10: written under the right deadline
  /\ f.mk => f.key >= 0                                \* C02: key drawn from the installed source

AfterFrame(st, f) ==
  [st EXCEPT !.wst = WFStep(st.wst, f, st.role, st.pmce),
             !.err = IF f.op = OpClose THEN "closesent" ELSE st.err]

(* C15/C19: when the compressed bytes can be attributed to compression levels (they equal what   *)
(* a conformant deflater emits at those levels for one write of the whole message), the level   *)
(* in force on the connection must be among them.                                               *)
LevelOK(lv, f) == f.zlv = << >> \/ lv \in {f.zlv[i] : i \in DOMAIN f.zlv}

(* a frame of the connection's own current message *)
MsgFrame(st, f) ==
  IF ~st.open \/ st.dead THEN Bad
  ELSE IF ~FrameCommon(st, f, st.dl) \/ (f.mk /\ f.key < st.nextkey) THEN Bad
  ELSE IF st.pool /\ st.held = -1 THEN Bad             \* C20: built in a buffer it does not hold
  ELSE IF IsCtlT(st.mtype) THEN
       \* control message through NextWriter / WriteMessage: exactly one frame
       IF f.op = st.mtype /\ f.fin /\ f.m = st.mid /\ f.len = st.wrote /\ ~st.started
       THEN [AfterFrame(st, f) EXCEPT !.nextkey = IF f.mk THEN f.key + 4 ELSE st.nextkey,
                                      !.open = FALSE, !.sent = f.len,
                                      !.done = Append(st.done, [m |-> st.mid, type |-> st.mtype, n |-> st.wrote])]
       ELSE Bad
  ELSE LET first == ~st.started
           opOK  == f.op = (IF first THEN st.mtype ELSE OpCont)
           r1OK  == f.r1 = (first /\ st.mcomp)
           payOK == IF st.mcomp THEN TRUE
                    ELSE f.m = st.mid /\ f.off = st.sent /\ st.sent + f.len <= st.wrote
           finOK == f.fin => (IF st.mcomp THEN f.zm = st.mid /\ f.zlen = st.wrote /\ LevelOK(st.mlevel, f)   \* the level in force when the message was started
                              ELSE st.sent + f.len = st.wrote)
       IN IF opOK /\ r1OK /\ payOK /\ finOK
          THEN [AfterFrame(st, f) EXCEPT !.nextkey = IF f.mk THEN f.key + 4 ELSE st.nextkey,
                                         !.started = TRUE, !.sent = st.sent + f.len,
                                         !.open = ~f.fin,
                                         !.done = IF f.fin THEN Append(st.done, [m |-> st.mid, type |-> st.mtype, n |-> st.wrote])
                                                  ELSE st.done]
          ELSE Bad

CtlFrame(st, f, ctx) ==
  IF FrameCommon(st, f, ctx.dl) /\ ~(f.mk /\ f.key < st.nextkey)
     /\ f.op = ctx.op /\ f.fin /\ f.m = ctx.m /\ f.len = ctx.n /\ ~ctx.used
  THEN [AfterFrame(st, f) EXCEPT !.nextkey = IF f.mk THEN f.key + 4 ELSE st.nextkey,
                                 !.done = Append(st.done, [m |-> ctx.m, type |-> ctx.op, n |-> ctx.n])]
  ELSE Bad

(* frames of a prepared message: pst = [started, sent] progress inside it *)
PmFrame(st, f, ctx, pst) ==
  LET pm == pms[ctx.pm + 1]
      z  == Compresses(st, pm.type)
  IN IF ~FrameCommon(st, f, st.dl) THEN Bad
     ELSE IF IsCtlT(pm.type) THEN
          IF f.op = pm.type /\ f.fin /\ f.m = 1000 + ctx.pm /\ f.len = pm.n /\ ~pst.started THEN AfterFrame(st, f) ELSE Bad
     ELSE IF /\ f.op = (IF pst.started THEN OpCont ELSE pm.type)
             /\ f.r1 = (~pst.started /\ z)
             /\ (z \/ (f.m = 1000 + ctx.pm /\ f.off = pst.sent /\ pst.sent + f.len <= pm.n))
             /\ f.fin => (IF z THEN f.zm = 1000 + ctx.pm /\ f.zlen = pm.n /\ LevelOK(st.level, f) ELSE pst.sent + f.len = pm.n)
          THEN AfterFrame(st, f) ELSE Bad

(* The fold proper.  acc = [st, ctx, pst, stop] ; stop: a fault happened, only PUT may follow *)
Item(acc, it) ==
  LET st == acc.st IN
  IF IsBad(st) THEN acc
  ELSE CASE it.t = "TOUCHED" -> [acc EXCEPT !.st = Bad]
    [] it.t = "GET" ->
         IF st.pool /\ st.held = -1 /\ acc.ctx.mayStart /\ ~acc.stop
         THEN [acc EXCEPT !.st = [st EXCEPT !.held = it.buf]] ELSE [acc EXCEPT !.st = Bad]
    [] it.t = "PUT" ->
         IF st.pool /\ st.held # -1 /\ ~it.dup /\ (st.held = 0 \/ st.held = it.buf)
         THEN [acc EXCEPT !.st = [st EXCEPT !.held = -1]] ELSE [acc EXCEPT !.st = Bad]
    [] it.t = "SWD" ->
         IF acc.stop \/ st.err # "none" \/ acc.ctx.kind = "none" THEN [acc EXCEPT !.st = Bad]
         ELSE IF it.err THEN [acc EXCEPT !.st = [st EXCEPT !.err = "fatal"], !.stop = TRUE, !.faulted = TRUE]
         ELSE [acc EXCEPT !.st = [st EXCEPT !.armed = it.d]]
    [] it.t = "WERR" ->
         IF acc.stop \/ st.err # "none" \/ acc.ctx.kind = "none" THEN [acc EXCEPT !.st = Bad]
         ELSE [acc EXCEPT !.st = [st EXCEPT !.err = "fatal"], !.stop = TRUE, !.faulted = TRUE]
    [] it.t = "F" ->
         IF acc.stop THEN [acc EXCEPT !.st = Bad]
         ELSE IF acc.ctx.kind = "msg" THEN [acc EXCEPT !.st = MsgFrame(st, it)]
         ELSE IF acc.ctx.kind = "ctl" THEN
              [acc EXCEPT !.st = CtlFrame(st, it, acc.ctx), !.ctx = [acc.ctx EXCEPT !.used = TRUE]]
         ELSE IF acc.ctx.kind = "pm" THEN
              [acc EXCEPT !.st = PmFrame(st, it, acc.ctx, acc.pst),
                          !.pst = [started |-> TRUE, sent |-> acc.pst.sent + it.len, fin |-> it.fin]]
         ELSE [acc EXCEPT !.st = Bad]
    [] OTHER -> [acc EXCEPT !.st = Bad]

RECURSIVE Fold(_, _)
Fold(acc, tx) == IF tx = << >> THEN acc ELSE Fold(Item(acc, Head(tx)), Tail(tx))

Ctx(kind) == [kind |-> kind, mayStart |-> FALSE, op |-> 0, m |-> -1, n |-> 0, dl |-> "zero", used |-> FALSE, pm |-> -1]
Acc(st, ctx) == [st |-> st, ctx |-> ctx, pst |-> [started |-> FALSE, sent |-> 0, fin |-> FALSE], stop |-> FALSE, faulted |-> FALSE]

NoTransport(tx) == \A i \in 1..Len(tx) : tx[i].t \in {"PUT", "GET"}
IsNil(e) == e.cls = "nil"

(***************************************************************************)
(* Common epilogue: relate the folded state and the reported result.       *)
(*   pre   state before the call                                           *)
(*   a     fold result                                                     *)
(*   okEnd predicate on the final state that must hold if the call         *)
(*         reports success                                                 *)
(***************************************************************************)
Dead(pre) == pre.err # "none"

(* After a close frame or a failure: the call fails, writes nothing        *)
(* (C09 AfterCloseAllFail, C10 FailStop).                                  *)
DeadCallOK(pre, e, tx, valid) ==
  /\ ~IsNil(e) /\ NoTransport(tx)
  /\ (pre.err = "closesent" /\ valid) => e.cls = "closesent"

(* Valid range of message types of the write API *)
ValidType(t) == IsDataT(t) \/ IsCtlT(t)

(* Ending the current message by an error (invalid control message):       *)
EndDead(st) == [st EXCEPT !.open = FALSE, !.dead = FALSE]

(***************************************************************************)
(* NextWriter(type) -> m (message id, -1 on failure).                      *)
(***************************************************************************)
CtlTooBig(st, more) == IsCtlT(st.mtype) /\ st.wrote + more > 125
(* A control message sent through the message-writer path that does not fit *)
(* the write buffer would have to be fragmented: C10 calls that an invalid  *)
(* request, C01 calls the message valid.  Either outcome is admitted:       *)
(* accepted as one frame, or rejected without writing anything.             *)
CtlMayFail(st, more) == IsCtlT(st.mtype) /\ st.wrote + more > st.wbuf
CtlBad(st, more) == CtlTooBig(st, more) \/ CtlMayFail(st, more)

ImplicitClose(st, tx) ==
  \* frames that complete the previously open message (if any)
  Fold(Acc(st, [Ctx("msg") EXCEPT !.mayStart = TRUE]), tx)

NWStep(pre, type, m, e, tx) ==
  LET a  == ImplicitClose(pre, tx)
      st == a.st
  IN IF IsBad(st) THEN Bad
     ELSE IF Dead(pre) THEN (IF DeadCallOK(pre, e, tx, ValidType(type)) /\ st.held = -1 THEN [st EXCEPT !.open = FALSE] ELSE Bad)
     ELSE IF a.faulted THEN (IF ~IsNil(e) /\ st.held = -1 THEN [st EXCEPT !.open = FALSE] ELSE Bad)
     ELSE IF st.open /\ ~CtlBad(pre, 0) THEN Bad   \* the old message must have been finished
     ELSE IF st.err # "none" THEN
          \* the implicit close wrote a close frame (old message was a close message)
          (IF ~IsNil(e) /\ st.held = -1 THEN st ELSE Bad)
     ELSE IF ~ValidType(type) THEN (IF ~IsNil(e) /\ st.held = -1 THEN st ELSE Bad)
     ELSE IF IsNil(e) /\ (st.pool => st.held # -1) /\ (~st.pool => st.held = -1)
          THEN [st EXCEPT !.open = TRUE, !.dead = FALSE, !.mtype = type, !.mid = m, !.wrote = 0, !.sent = 0,
                          !.started = FALSE, !.mcomp = Compresses(st, type), !.mlevel = st.level]
          ELSE Bad

(***************************************************************************)
(* Write / WriteString / ReadFrom of n bytes on the open writer.           *)
(***************************************************************************)
WRStep(pre, n, ret, e, tx) ==
  IF ~pre.open THEN
     \* writer already ended (by Close, error or a close frame): the call fails and does nothing
     (IF ~IsNil(e) /\ tx = << >> THEN pre ELSE Bad)
  ELSE
  LET p1 == [pre EXCEPT !.wrote = pre.wrote + n]
      a  == Fold(Acc(p1, Ctx("msg")), tx)
      st == a.st
  IN IF IsBad(st) THEN Bad
     ELSE IF Dead(pre) THEN
          \* C09: a writer opened before the close may buffer but never writes
          IF NoTransport(tx) /\ (IsNil(e) \/ st.held = -1)
          THEN (IF IsNil(e) THEN st ELSE [st EXCEPT !.open = FALSE]) ELSE Bad
     ELSE IF a.faulted THEN (IF ~IsNil(e) /\ st.held = -1 THEN [st EXCEPT !.open = FALSE] ELSE Bad)
     ELSE IF IsNil(e) THEN
          \* a control message that can no longer be sent as one frame may fail now or at Close
          (IF ret = n /\ st.open THEN st ELSE Bad)
     ELSE IF CtlBad(pre, n) /\ NoTransport(tx) /\ st.held = -1 THEN [st EXCEPT !.open = FALSE]
     ELSE Bad

(* io.Copy / ReadFrom into the writer from a source that fails after ret bytes: the writer has taken exactly  *)
(* those bytes, reports the source's error and stays usable (it is the source that failed, not the             *)
(* connection); unless the connection itself made the call fail, which is judged as for a plain Write.         *)
WRSStep(pre, n, ret, e, tx) ==
  IF e.cls = "src" THEN WRStep(pre, ret, ret, [cls |-> "nil", id |-> -1], tx)
  ELSE WRStep(pre, n, ret, e, tx)

(***************************************************************************)
(* Close of the open writer.                                               *)
(***************************************************************************)
CLStep(pre, e, tx) ==
  IF ~pre.open THEN (IF ~IsNil(e) /\ tx = << >> THEN pre ELSE Bad)
  ELSE
  LET a  == Fold(Acc(pre, Ctx("msg")), tx)
      st == a.st
  IN IF IsBad(st) THEN Bad
     ELSE IF Dead(pre) THEN (IF ~IsNil(e) /\ NoTransport(tx) /\ st.held = -1 THEN [st EXCEPT !.open = FALSE] ELSE Bad)
     ELSE IF a.faulted THEN (IF ~IsNil(e) /\ st.held = -1 THEN [st EXCEPT !.open = FALSE] ELSE Bad)
     ELSE IF CtlTooBig(pre, 0) THEN (IF ~IsNil(e) /\ NoTransport(tx) /\ st.held = -1 THEN [st EXCEPT !.open = FALSE] ELSE Bad)
     ELSE IF CtlMayFail(pre, 0) /\ ~IsNil(e) THEN (IF NoTransport(tx) /\ st.held = -1 THEN [st EXCEPT !.open = FALSE] ELSE Bad)
     ELSE IF IsNil(e) /\ ~st.open /\ st.held = -1 THEN st ELSE Bad

(***************************************************************************)
(* WriteMessage(type, n) / WriteJSON: implicit close of an open writer,    *)
(* then one whole message m.                                               *)
(***************************************************************************)
RECURSIVE SplitAtFin(_, _)
(* index of the first item that completes the open message (a FIN data frame), 0 if none *)
SplitAtFin(tx, i) ==
  IF i > Len(tx) THEN 0
  ELSE IF tx[i].t = "F" /\ tx[i].fin /\ ~IsCtlT(tx[i].op) THEN i
  ELSE SplitAtFin(tx, i + 1)

(* jfail: WriteJSON of a value that cannot be encoded.  The library opens a text message, the encoder writes   *)
(* nothing, the message is closed (an empty text message goes out) and the encoder's error is returned: the    *)
(* call fails although its (empty) message was sent; the buffer is released and the connection is not poisoned *)
WMStepX(pre, type, n, m, e, tx, jfail) ==
  LET \* part 1: finish the open message, part 2: the new message
      needClose == pre.open /\ ~pre.dead
      k   == IF needClose /\ ~IsCtlT(pre.mtype) THEN SplitAtFin(tx, 1)
             ELSE IF needClose THEN (IF \E i \in 1..Len(tx) : tx[i].t = "F" THEN CHOOSE i \in 1..Len(tx) : tx[i].t = "F" /\ \A j \in 1..(i-1) : tx[j].t # "F" ELSE 0)
             ELSE 0
      \* the PUT that releases the old message's buffer belongs to part 1
      k2  == IF needClose /\ k = 0 /\ ~CtlBad(pre, 0) THEN Len(tx)      \* no completing frame: it all belongs to part 1
             ELSE IF needClose /\ k = 0 /\ Len(tx) > 0 /\ tx[1].t = "PUT" THEN 1   \* dropped control message: its buffer goes back first
             ELSE IF k > 0 /\ k < Len(tx) /\ tx[k + 1].t = "PUT" THEN k + 1 ELSE k
      tx1 == SubSeq(tx, 1, k2)
      tx2 == SubSeq(tx, k2 + 1, Len(tx))
      a1  == ImplicitClose(pre, tx1)
      s1  == a1.st
  IN IF IsBad(s1) THEN Bad
     ELSE IF Dead(pre) THEN
          \* C09/C10: fails, writes nothing; C20: an open message ends here and its buffer goes back
          LET a0 == Fold(Acc(pre, [Ctx("none") EXCEPT !.mayStart = TRUE]), tx) IN
          (IF DeadCallOK(pre, e, tx, ValidType(type) /\ ~(IsCtlT(type) /\ n > 125)) /\ ~IsBad(a0.st) /\ a0.st.held = -1
           THEN [a0.st EXCEPT !.open = FALSE] ELSE Bad)
     ELSE IF a1.faulted THEN (IF ~IsNil(e) /\ tx2 = << >> /\ s1.held = -1 THEN [s1 EXCEPT !.open = FALSE] ELSE Bad)
     ELSE IF needClose /\ s1.open /\ ~CtlBad(pre, 0) THEN Bad
     ELSE LET s1c == [s1 EXCEPT !.open = FALSE] IN
          IF s1c.err # "none" THEN (IF ~IsNil(e) /\ tx2 = << >> /\ s1c.held = -1 THEN s1c ELSE Bad)
          ELSE IF ~ValidType(type) \/ (IsCtlT(type) /\ n > 125) THEN
               \* C10: an invalid request writes nothing and does not poison
               LET a0 == Fold(Acc(s1c, [Ctx("none") EXCEPT !.mayStart = TRUE]), tx2) IN
               (IF ~IsNil(e) /\ ~IsBad(a0.st) /\ a0.st.held = -1 THEN a0.st ELSE Bad)
          ELSE IF IsCtlT(type) /\ n > s1c.wbuf /\ ~IsNil(e) /\ NoTransport(tx2) THEN
               LET a0 == Fold(Acc(s1c, [Ctx("none") EXCEPT !.mayStart = TRUE]), tx2) IN
               (IF ~IsBad(a0.st) /\ a0.st.held = -1 THEN a0.st ELSE Bad)
          ELSE LET s2 == [s1c EXCEPT !.open = TRUE, !.dead = FALSE, !.mtype = type, !.mid = m, !.wrote = n, !.sent = 0,
                                     !.started = FALSE, !.mcomp = Compresses(s1c, type), !.mlevel = s1c.level]
                   a2 == Fold(Acc(s2, [Ctx("msg") EXCEPT !.mayStart = TRUE]), tx2)
                   s3 == a2.st
               IN IF IsBad(s3) THEN Bad
                  ELSE IF a2.faulted THEN (IF ~IsNil(e) /\ s3.held = -1 THEN [s3 EXCEPT !.open = FALSE] ELSE Bad)
                  ELSE IF (IF jfail THEN ~IsNil(e) ELSE IsNil(e)) /\ ~s3.open /\ s3.held = -1 THEN s3 ELSE Bad

WMStep(pre, type, n, m, e, tx) == WMStepX(pre, type, n, m, e, tx, FALSE)
WJBStep(pre, m, e, tx) == WMStepX(pre, OpText, 0, m, e, tx, TRUE)

(***************************************************************************)
(* WriteControl(type, n, dl) with message id m.                            *)
(***************************************************************************)
WCStep(pre, type, n, dl, m, e, tx) ==
  LET valid == IsCtlT(type) /\ n <= 125 IN
  IF ~valid THEN (IF ~IsNil(e) /\ tx = << >> THEN pre ELSE Bad)
  ELSE IF dl = "past" THEN
       \* C11: a deadline that has passed: timeout, nothing written, not poisoned
       (IF ~IsNil(e) /\ tx = << >> THEN pre ELSE Bad)
  ELSE IF Dead(pre) THEN (IF DeadCallOK(pre, e, tx, TRUE) /\ tx = << >> THEN pre ELSE Bad)
  ELSE LET a == Fold(Acc(pre, [Ctx("ctl") EXCEPT !.op = type, !.m = m, !.n = n, !.dl = dl]), tx)
           st == a.st
       IN IF IsBad(st) THEN Bad
          ELSE IF a.faulted THEN (IF ~IsNil(e) THEN st ELSE Bad)
          ELSE IF IsNil(e) /\ a.ctx.used THEN st ELSE Bad

(***************************************************************************)
(* WritePreparedMessage(pm).                                               *)
(***************************************************************************)
WPStep(pre, pm, e, tx) ==
  LET p == pms[pm + 1] IN
  IF pre.open /\ IsDataT(p.type) THEN [pre EXCEPT !.wild = TRUE]    \* caller misuse, DESIGN 5/C02
  ELSE IF Dead(pre) THEN (IF DeadCallOK(pre, e, tx, TRUE) /\ tx = << >> THEN pre ELSE Bad)
  ELSE LET a == Fold(Acc(pre, [Ctx("pm") EXCEPT !.pm = pm]), tx)
           st == a.st
       IN IF IsBad(st) THEN Bad
          ELSE IF a.faulted THEN (IF ~IsNil(e) THEN st ELSE Bad)
          ELSE IF IsNil(e) /\ a.pst.fin
               THEN [st EXCEPT !.done = Append(st.done, [m |-> 1000 + pm, type |-> p.type, n |-> p.n])]
               ELSE Bad

=============================================================================
