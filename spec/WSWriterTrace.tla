--------------------------- MODULE WSWriterTrace ---------------------------
(* Trace validation for WSWriter (sequential write programs on one or more *)
(* connections that may share a buffer pool).                              *)
EXTENDS WSWriter, Json, IOUtils

Trace == ndJsonDeserialize(IOEnv.TRACE_FILE)

VARIABLE l
tvars == << cs, pms, l >>

ASSUME TLCSet(1, 0)

Ev == Trace[l]
Is(e) == l <= Len(Trace) /\ Trace[l].e = e
Adv == l' = l + 1 /\ TLCSet(1, l)

Upd(c, st) == /\ ~IsBad(st)
              /\ cs' = [cs EXCEPT ![c] = st]
              /\ UNCHANGED pms /\ Adv

Cur == cs[Ev.c + 1]
Wild == Cur.wild

TReset ==
  /\ Is("Reset")
  /\ Ev.crypto                       \* C02: mask keys come from crypto/rand
  /\ cs' = [i \in 1..Len(Ev.conns) |-> C0(Ev.conns[i])]
  /\ pms' = Ev.pms
  /\ Adv

TPMNew ==
  /\ Is("PMNEW")
  /\ LET p == pms[Ev.pm + 1] IN
     (ValidType(p.type) /\ ~(IsCtlT(p.type) /\ p.n > 125)) <=> IsNil(Ev.err)
  /\ UNCHANGED << cs, pms >> /\ Adv

TNW == Is("NW") /\ (IF Wild THEN Upd(Ev.c + 1, Cur) ELSE Upd(Ev.c + 1, NWStep(Cur, Ev.type, Ev.m, Ev.err, Ev.tx)))
TWR == Is("WR") /\ (IF Wild THEN Upd(Ev.c + 1, Cur) ELSE Upd(Ev.c + 1, WRStep(Cur, Ev.n, Ev.ret, Ev.err, Ev.tx)))
TWRS == Is("WRS") /\ (IF Wild THEN Upd(Ev.c + 1, Cur) ELSE Upd(Ev.c + 1, WRSStep(Cur, Ev.n, Ev.ret, Ev.err, Ev.tx)))
(* a writer that has ended (closed, or superseded by a later message) accepts nothing and does nothing *)
TWRO == Is("WRO") /\ (Wild \/ (~IsNil(Ev.err) /\ ~IsNil(Ev.cerr) /\ Ev.ret = 0 /\ Ev.tx = << >>)) /\ Upd(Ev.c + 1, Cur)
TCL == Is("CL") /\ (IF Wild THEN Upd(Ev.c + 1, Cur) ELSE Upd(Ev.c + 1, CLStep(Cur, Ev.err, Ev.tx)))
TWM == (Is("WM") \/ Is("WJ")) /\ (IF Wild THEN Upd(Ev.c + 1, Cur) ELSE Upd(Ev.c + 1, WMStep(Cur, Ev.type, Ev.n, Ev.m, Ev.err, Ev.tx)))
TWJB == Is("WJB") /\ (IF Wild THEN Upd(Ev.c + 1, Cur) ELSE Upd(Ev.c + 1, WJBStep(Cur, Ev.m, Ev.err, Ev.tx)))
TWC == Is("WC") /\ (IF Wild THEN Upd(Ev.c + 1, Cur) ELSE Upd(Ev.c + 1, WCStep(Cur, Ev.type, Ev.n, Ev.dl, Ev.m, Ev.err, Ev.tx)))
TWP == Is("WP") /\ (IF Wild THEN Upd(Ev.c + 1, Cur) ELSE Upd(Ev.c + 1, WPStep(Cur, Ev.pm, Ev.err, Ev.tx)))
(* Close() closes the transport; it neither writes nor touches the buffer pool (C20) *)
TXC == Is("XC") /\ Ev.tx = << >> /\ Upd(Ev.c + 1, Cur)
TSD == Is("SD") /\ Ev.tx = << >> /\ IsNil(Ev.err) /\ Upd(Ev.c + 1, [Cur EXCEPT !.dl = Ev.dl])
TEC == Is("EC") /\ Ev.tx = << >> /\ Upd(Ev.c + 1, [Cur EXCEPT !.wcomp = Ev.on])
TSL == /\ Is("SL") /\ Ev.tx = << >>
       /\ (Ev.level \in -2..9) <=> IsNil(Ev.err)
       /\ Upd(Ev.c + 1, IF Ev.level \in -2..9 THEN [Cur EXCEPT !.level = Ev.level] ELSE Cur)

TEnd == /\ Is("END") /\ (cs[Ev.c + 1].err = "fatal" \/ cs[Ev.c + 1].wild)      \* C10: at most one incomplete frame, only after a failure
        /\ UNCHANGED << cs, pms >> /\ Adv

TInit == l = 1 /\ cs = << >> /\ pms = << >>
TNext == TReset \/ TEnd \/ TPMNew \/ TNW \/ TWR \/ TWRS \/ TWRO \/ TCL \/ TWM \/ TWJB \/ TWC \/ TWP \/ TSD \/ TXC \/ TEC \/ TSL
TSpec == TInit /\ [][TNext]_tvars

Accepted ==
  IF TLCGet(1) = Len(Trace) THEN TRUE
  ELSE PrintT(<< "REJECTED-AT", TLCGet(1) + 1, Len(Trace) >>) /\ FALSE
=============================================================================
