------------------------------ MODULE WSDialMC ------------------------------
(***************************************************************************)
(* Exhaustive exploration of the dial model over a finite program space    *)
(* (Dialer configuration x history of DialContext calls x abstract fault). *)
(* Each initial state IS one abstract program, printed as JSON for the Go  *)
(* driver.  The behaviour from an initial state executes the program on a  *)
(* STRICT generator: the dial-path machine                                 *)
(*   hook -> [TLS first hop] -> [arm deadline] -> [CONNECT | SOCKS5]       *)
(*        -> [TLS backend] -> write request -> read response -> validate   *)
(*        -> clear deadline -> done,                                       *)
(* every transport step with a fault alternative leading to Fail + Close.  *)
(* The invariants state C14 / C16 / C18 on the generated observations in   *)
(* terms that do not use the envelope's own operators where possible, and  *)
(* InvRefines checks that the envelope (WSDial!DialAllowed, the only judge *)
(* of implementation traces) admits the strict generator.                  *)
(*                                                                         *)
(* Program space supplied by the extending module: Cfgs, Dials(c).         *)
(* A dial input d additionally carries the abstract fault                  *)
(*   fault = [at, kind]  (at = index of the abstract transport operation,  *)
(*   0 = none) and hookerr.                                                *)
(***************************************************************************)
EXTENDS WSDial, Json

CONSTANTS Cfgs, Dials(_)

VARIABLES cfg, prog, pc, st, hist
mvars == << cfg, prog, pc, st, hist >>

-----------------------------------------------------------------------------
(* The dial-path machine. *)
Steps(c, d) ==
  << [s |-> "hook", role |-> ""] >>
  \o (IF LibFirstTLS(c, d) THEN << [s |-> "tls", role |-> IF Proxied(c) THEN "proxy" ELSE "backend"] >> ELSE << >>)
  \o (IF c.tmo # "none" THEN << [s |-> "arm", role |-> ""] >> ELSE << >>)
  \o (IF c.proxy \in {"http", "https"} THEN << [s |-> "connect", role |-> "proxy"] >>
      ELSE IF c.proxy = "socks5" THEN << [s |-> "socks", role |-> "proxy"] >> ELSE << >>)
  \o (IF Proxied(c) /\ Secure(d) THEN << [s |-> "tls", role |-> "backend"] >> ELSE << >>)
  \o << [s |-> "req", role |-> ""], [s |-> "resp", role |-> ""], [s |-> "clear", role |-> ""] >>

KindsOf(s) ==
  CASE s = "tls"     -> << "W", "R", "R", "W" >>
    [] s = "arm"     -> << "SD" >>
    [] s = "connect" -> << "W", "R" >>
    [] s = "socks"   -> << "W", "R", "W", "R" >>
    [] s = "req"     -> << "W" >>
    [] s = "resp"    -> << "R" >>
    [] s = "clear"   -> << "SD" >>
    [] OTHER         -> << >>

MkOp(kind, zero, flt, how, armed, ctx) ==
  [c |-> 0, kind |-> kind, zero |-> zero, flt |-> flt, how |-> how, within |-> how # "unbounded",
   armed |-> armed, ctx |-> ctx]

CanonKey(s) == Cardinality(s.keys) + 1

GetLayer(c, d, s, depth, inner) ==
  [t |-> "get", c |-> 0, depth |-> depth, inner |-> inner, method |-> "GET", tgt |-> Target(d), proto |-> "HTTP/1.1",
   wf |-> TRUE, std |-> TRUE,
   hosth |-> IF HasHdr(d, "Host") THEN HdrVal(d, "Host") ELSE HostHdr(d),
   cnt |-> [host |-> 1, upgrade |-> 1, connection |-> 1, version |-> 1, key |-> 1,
            extensions |-> IF c.comp THEN 1 ELSE 0,
            protocol |-> IF Len(c.subs) > 0 \/ HasHdr(d, "Sec-Websocket-Protocol") THEN 1 ELSE 0],
   upg |-> << "websocket" >>, con |-> << "upgrade" >>, ver |-> << "13" >>, keylen |-> 16, keyid |-> CanonKey(s),
   protos |-> c.subs, exts |-> IF c.comp THEN << "permessage-deflate" >> ELSE << >>,
   seen |-> [i \in DOMAIN d.hdrs |-> TRUE],
   pos |-> [i \in DOMAIN d.hdrs |-> Cardinality({j \in 1..i : d.hdrs[j].k = d.hdrs[i].k})], jar |-> c.jar]

StepLayer(c, d, s, stp, depth, inner, done) ==
  CASE stp.s = "tls" ->
         [t |-> "tls", c |-> 0, role |-> stp.role, sni |-> IF stp.role = "proxy" THEN c.phost ELSE IF d.hform \in {"name", "nameport"} THEN d.bare ELSE "",
          done |-> done, cert |-> IF stp.role = "proxy" THEN "valid" ELSE d.cert, depth |-> depth]
    [] stp.s = "connect" ->
         [t |-> "connect", c |-> 0, method |-> "CONNECT", target |-> HostPort(d), hosth |-> HostPort(d),
          auth |-> IF c.ppass THEN "basic" ELSE "none", authok |-> c.ppass, depth |-> depth, inner |-> inner]
    [] stp.s = "socks" ->
         [t |-> "socks", c |-> 0, cmd |-> 1, atyp |-> 3, addr |-> d.bare, port |-> PortOf(d), methods |-> << 0 >>,
          userpass |-> c.puser, credok |-> c.puser, depth |-> depth]
    [] OTHER -> GetLayer(c, d, s, depth, inner)

(* Outcome of the validate step for a complete reply. *)
ReplyRes(d) ==
  LET r == d.reply IN
  IF r.mode = "none" THEN [conn |-> FALSE, resp |-> FALSE, err |-> "other", status |-> 0, marker |-> FALSE, bodyn |-> 0, bodyok |-> TRUE]
  ELSE IF r.mode = "raw" THEN [conn |-> FALSE, resp |-> FALSE, err |-> "other", status |-> 0, marker |-> FALSE, bodyn |-> 0, bodyok |-> TRUE]
  ELSE IF r.status = 101 /\ LineHas(r.upg, "websocket") /\ LineHas(r.con, "upgrade") /\ r.acc \in {"ok", "ows"} THEN
       IF r.ext \in {"pmd_s", "pmd_c", "pmd0"}
       THEN [conn |-> FALSE, resp |-> TRUE, err |-> "other", status |-> 101, marker |-> TRUE, bodyn |-> 0, bodyok |-> TRUE]
       ELSE [conn |-> TRUE, resp |-> TRUE, err |-> "nil", status |-> 101, marker |-> TRUE, bodyn |-> 0, bodyok |-> TRUE]
  ELSE [conn |-> FALSE, resp |-> TRUE, err |-> "badhs", status |-> r.status, marker |-> TRUE,
        bodyn |-> IF NoBody(r.status) THEN 0 ELSE DMin(r.blen, 1024), bodyok |-> TRUE]

FailRes(err) == [conn |-> FALSE, resp |-> FALSE, err |-> err, status |-> 0, marker |-> FALSE, bodyn |-> 0, bodyok |-> TRUE]

(* Walk state: [i step index, k abstract op counter, ops, peer, armed, depth, inner, end ("" = running), res] *)
RECURSIVE Walk(_, _, _, _)
Walk(c, d, s, w) ==
  IF w.end # "" \/ w.i > Len(Steps(c, d)) THEN w
  ELSE
  LET stp  == Steps(c, d)[w.i]
      ks   == KindsOf(stp.s)
      n    == Len(ks)
      f    == d.fault
      hit  == f.at > w.k /\ f.at <= w.k + n              \* the fault strikes inside this step
      upto == IF hit THEN f.at - w.k ELSE n
      ctx  == stp.s = "tls"                                \* tls.HandshakeContext watches the context
      isclear == stp.s = "clear"
      how(j) == IF hit /\ j = upto /\ f.kind = "timeout" /\ ks[j] \in {"R", "W"}
                THEN (IF c.tmo = "none" THEN "imm" ELSE IF w.armed THEN "deadline" ELSE IF ctx THEN "closed" ELSE "unbounded")
                ELSE ""
      newops == [j \in 1..upto |-> MkOp(ks[j], isclear, IF hit /\ j = upto THEN f.kind ELSE "", how(j), w.armed, ctx)]
      \* the remote side sees this step's layer if the first write of the step went out
      sent  == n > 0 /\ (~hit \/ upto > 1)
      stopInput == \/ stp.s \in {"connect", "socks"} /\ ~CReplyOK(d)
                   \/ stp.s = "tls" /\ stp.role = "backend" /\ d.cert # "valid"
      done  == ~hit /\ ~stopInput
      lay   == IF stp.s \in {"tls", "connect", "socks"} /\ sent THEN << StepLayer(c, d, s, stp, w.depth, w.inner, done) >>
               ELSE IF stp.s = "req" /\ ~hit THEN << GetLayer(c, d, s, w.depth, w.inner) >>
               ELSE << >>
      w1 == [w EXCEPT !.i = w.i + 1, !.k = w.k + n, !.ops = w.ops \o newops, !.peer = w.peer \o lay,
                      !.armed = IF stp.s = "arm" /\ ~hit THEN TRUE ELSE w.armed,
                      !.depth = IF stp.s = "tls" /\ done THEN w.depth + 1 ELSE w.depth,
                      !.inner = IF stp.s = "tls" /\ done THEN stp.role ELSE w.inner]
  IN IF stp.s = "hook" THEN
          IF d.hookerr THEN [w1 EXCEPT !.end = "hookerr", !.res = FailRes("other")]
          ELSE Walk(c, d, s, [w1 EXCEPT !.conn = TRUE])
     ELSE IF hit THEN [w1 EXCEPT !.end = "fault", !.res = FailRes(IF f.kind = "timeout" THEN "timeout" ELSE "other")]
     ELSE IF stopInput THEN [w1 EXCEPT !.end = "stop", !.res = FailRes("other")]
     ELSE IF stp.s = "resp" THEN
          LET r == ReplyRes(d) IN
          IF r.conn THEN Walk(c, d, s, [w1 EXCEPT !.res = r]) ELSE [w1 EXCEPT !.end = "reply", !.res = r]
     ELSE Walk(c, d, s, w1)

W0 == [i |-> 1, k |-> 0, ops |-> << >>, peer |-> << >>, armed |-> FALSE, depth |-> 0, inner |-> "none",
       end |-> "", res |-> FailRes("other"), conn |-> FALSE]

(* What the returned connection delivers when frames were glued to the 101: message by message, then the end. *)
CanonRx(fs) ==
  LET M == Messages(fs) IN
  [j \in 1..(Len(M) + 1) |->
     IF j <= Len(M) THEN [ok |-> TRUE, type |-> M[j].type, n |-> M[j].len, eq |-> << j >>]
     ELSE [ok |-> FALSE, type |-> 0, n |-> 0, eq |-> << >>]]

(* The canonical observation of one dial. *)
Canon(c, d, s) ==
  IF MayRefuse(c, d) THEN
     [hooks |-> << >>, ops |-> << >>, closed |-> << >>, peer |-> << >>, res |-> FailRes("other"), end |-> "refused", short |-> FALSE,
      rx |-> << >>, plook |-> 0]
  ELSE
  LET w == Walk(c, d, s, W0)
      ok == w.end = ""
      hk == << [hook |-> ExpHook(c, d), net |-> "tcp", addr |-> ExpAddr(c, d), ret |-> IF d.hookerr THEN "err" ELSE "conn"] >>
  IN [hooks |-> hk,
      ops |-> IF w.conn /\ ~ok THEN Append(w.ops, MkOp("C", FALSE, "", "", w.armed, FALSE)) ELSE w.ops,
      closed |-> IF ~w.conn THEN << >> ELSE IF ok THEN << 0 >> ELSE << 1 >>,
      peer |-> w.peer, res |-> w.res, end |-> IF ok THEN "done" ELSE w.end, short |-> FALSE,
      rx |-> IF ok /\ TailOf(d) # << >> THEN CanonRx(TailOf(d)) ELSE << >>,
      plook |-> IF Proxied(c) THEN 1 ELSE 0]

-----------------------------------------------------------------------------
Init ==
  /\ cfg \in Cfgs
  /\ prog \in Dials(cfg)
  /\ pc = 1 /\ st = DS0 /\ hist = << >>

Step ==
  /\ pc <= Len(prog)
  /\ LET o == Canon(cfg, prog[pc], st) IN
     /\ hist' = Append(hist, [d |-> prog[pc], o |-> o, keys |-> st.keys])
     /\ st' = DialNext(st, o)
  /\ pc' = pc + 1
  /\ UNCHANGED << cfg, prog >>

Next == Step
Spec == Init /\ [][Next]_mvars

Emit == pc = 1 => PrintT(<< "PROG", ToJson([cfg |-> cfg, dials |-> prog]) >>)

-----------------------------------------------------------------------------
AtEnd == pc > Len(prog)
H == DOMAIN hist

(* The envelope admits the strict generator (refinement). *)
InvRefines ==
  AtEnd => \A i \in H : DialAllowed(cfg, [keys |-> hist[i].keys], hist[i].d, hist[i].o, TRUE)

(* C14 *)
ProvenIndep(r) ==
  /\ r.mode = "std" /\ r.status = 101
  /\ \E i \in DOMAIN r.upg : \E j \in DOMAIN r.upg[i] : r.upg[i][j] \in {"websocket", "WebSocket", "WEBSOCKET", "webSocket"}
  /\ \E i \in DOMAIN r.con : \E j \in DOMAIN r.con[i] : r.con[i][j] \in {"upgrade", "Upgrade", "UPGRADE", "upGrade"}
  /\ r.acc \in {"ok", "ows"}
InvConnOnlyIfProven ==
  AtEnd => \A i \in H : hist[i].o.res.conn => ProvenIndep(hist[i].d.reply)
InvBadReplyIsBadHandshake ==
  AtEnd => \A i \in H :
     LET d == hist[i].d  o == hist[i].o IN
     (o.end = "reply" /\ d.reply.mode = "std" /\ ~ProvenIndep(d.reply)) =>
        o.res.err = "badhs" /\ o.res.resp /\ o.res.status = d.reply.status /\ o.res.bodyn <= 1024
InvRefusedBeforeNetwork ==
  AtEnd => \A i \in H :
     LET d == hist[i].d IN
     (d.user # "none" \/ d.scheme \notin {"ws", "wss", "WS", "WSS", "Ws", "wSs"}) =>
        hist[i].o.hooks = << >> /\ hist[i].o.peer = << >> /\ ~hist[i].o.res.conn
InvKeyFresh ==
  AtEnd => \A i, j \in H : \A a \in DOMAIN hist[i].o.peer : \A b \in DOMAIN hist[j].o.peer :
     (i < j /\ hist[i].o.peer[a].t = "get" /\ hist[j].o.peer[b].t = "get") =>
        hist[i].o.peer[a].keyid # hist[j].o.peer[b].keyid

InvRefusedNoLookup ==
  AtEnd => \A i \in H :
     (hist[i].d.user # "none" \/ hist[i].d.scheme \notin {"ws", "wss", "WS", "WSS", "Ws", "wSs"}) => hist[i].o.plook = 0
(* the body handed over with ErrBadHandshake does not depend on segmentation or buffer size *)
InvBodyExact ==
  AtEnd => \A i \in H :
     LET d == hist[i].d  o == hist[i].o IN
     (o.end = "reply" /\ d.reply.mode = "std" /\ o.res.err = "badhs" /\ d.reply.status \notin 100..199 /\ d.reply.status \notin {204, 304}) =>
        o.res.bodyn = (IF d.reply.blen < 1024 THEN d.reply.blen ELSE 1024)

(* C17, client side: stated on the frames directly (independent of Messages) *)
RECURSIVE SumLen(_, _)
SumLen(q, i) == IF i > Len(q) THEN 0 ELSE q[i] + SumLen(q, i + 1)
InvBoundaryNoLoss ==
  AtEnd => \A i \in H :
     LET d == hist[i].d  o == hist[i].o IN
     (o.res.conn /\ d.reply.mode = "std" /\ d.reply.tail # << >>) =>
        LET fs == d.reply.tail
            data == SelectSeq(fs, LAMBDA f : f.op < 8)
            heads == SelectSeq(fs, LAMBDA f : f.op \in {1, 2})
            oks == SelectSeq(o.rx, LAMBDA x : x.ok)
        IN /\ Len(oks) = Len(SelectSeq(data, LAMBDA f : f.fin))                       \* one delivery per complete message
           /\ [j \in DOMAIN oks |-> oks[j].type] = [j \in DOMAIN heads |-> heads[j].op]  \* in order
           /\ SumLen([j \in DOMAIN oks |-> oks[j].n], 1) = SumLen([j \in DOMAIN data |-> data[j].len], 1)  \* no byte lost
           /\ \A j \in DOMAIN oks : oks[j].eq = << j >>
           /\ ~o.rx[Len(o.rx)].ok

(* C16 *)
InvFailureCloses ==
  AtEnd => \A i \in H : LET o == hist[i].o IN
     /\ ~o.res.conn => (o.res.err # "nil" /\ \A ci \in DOMAIN o.closed : o.closed[ci] >= 1)
     /\ (o.end \in {"fault", "stop", "reply", "hookerr", "refused"}) => ~o.res.conn
InvSuccessOpenNoDeadline ==
  AtEnd => \A i \in H : LET o == hist[i].o IN
     o.res.conn => /\ o.closed = << 0 >>
                   /\ Len(o.ops) > 0 /\ o.ops[Len(o.ops)].kind = "SD" /\ o.ops[Len(o.ops)].zero
InvEveryOpUnderDeadline ==
  AtEnd => \A i \in H : LET o == hist[i].o IN
     cfg.tmo # "none" => \A k \in DOMAIN o.ops : o.ops[k].kind \in {"R", "W"} => (o.ops[k].armed \/ o.ops[k].ctx)

(* C18 *)
InvProxyOnlyPath ==
  AtEnd => \A i \in H : LET o == hist[i].o  d == hist[i].d IN
     (cfg.proxy # "none" /\ o.hooks # << >>) =>
        /\ o.hooks[1].addr = cfg.phost \o ":" \o ProxyPort(cfg)
        /\ \A j \in DOMAIN o.peer : o.peer[j].t = "get" =>
              \E k \in 1..(j - 1) : o.peer[k].t \in {"connect", "socks"}
InvConnectOnce ==
  AtEnd => \A i \in H : LET o == hist[i].o  d == hist[i].d IN
     /\ Cardinality({j \in DOMAIN o.peer : o.peer[j].t \in {"connect", "socks"}}) <= 1
     /\ (o.res.conn /\ cfg.proxy # "none") => Cardinality({j \in DOMAIN o.peer : o.peer[j].t \in {"connect", "socks"}}) = 1
     /\ \A j \in DOMAIN o.peer : o.peer[j].t = "connect" =>
           /\ o.peer[j].target = d.host \o ":" \o (IF d.port # "" THEN d.port ELSE IF d.scheme \in {"wss", "WSS", "wSs"} THEN "443" ELSE "80")
           /\ (o.peer[j].auth = "basic") <=> cfg.ppass
InvNon200Aborts ==
  AtEnd => \A i \in H : (cfg.proxy # "none" /\ hist[i].d.creply.mode # "ok") => ~hist[i].o.res.conn
InvWssInsideVerifiedTLS ==
  AtEnd => \A i \in H : LET o == hist[i].o  d == hist[i].d IN
     \A j \in DOMAIN o.peer : (o.peer[j].t = "get" /\ Secure(d)) =>
        \/ o.peer[j].inner = "backend" /\ d.cert = "valid"
        \/ cfg.proxy = "none" /\ cfg.ndtc                       \* custom NetDialTLSContext is trusted
InvFirstHopHook ==
  AtEnd => \A i \in H : LET o == hist[i].o  d == hist[i].d IN
     o.hooks # << >> =>
        LET tls1 == IF cfg.proxy = "none" THEN Secure(d) ELSE cfg.proxy = "https" IN
        o.hooks[1].hook = (IF tls1 /\ cfg.ndtc THEN "ndtc" ELSE IF cfg.ndc THEN "ndc" ELSE IF cfg.nd THEN "nd" ELSE "listener")

-----------------------------------------------------------------------------
(* Helpers for program spaces. *)
Hdr(k, v) == [k |-> k, v |-> v]
NoFault == [at |-> 0, kind |-> ""]
OkCReply == [mode |-> "ok", status |-> 200]
(* seg: offsets (relative to the end of the header block) at which the transport cuts the reply into separate    *)
(* reads; tail: frames [op, fin, len] glued to the reply; clx (with cl): how much MORE than the blen bytes it     *)
(* sends the server declares in Content-Length before it closes ("0", a decimal number, or "max" = the declared  *)
(* value is 2^63-1): blen is always what the transport delivers.                                                  *)
StdReply(status, upg, con, acc, blen, cl, ext) ==
  [mode |-> "std", status |-> status, upg |-> upg, con |-> con, acc |-> acc, blen |-> blen, cl |-> cl, ext |-> ext,
   seg |-> << >>, tail |-> << >>, clx |-> "0"]
Fr(op, fin, len) == [op |-> op, fin |-> fin, len |-> len]
GoodReply == StdReply(101, << << "websocket" >> >>, << << "Upgrade" >> >>, "ok", 0, FALSE, "none")
URL(scheme, user, hform, host, bare, port, path, hasq, query, frag) ==
  [scheme |-> scheme, user |-> user, hform |-> hform, host |-> host, bare |-> bare, port |-> port,
   path |-> path, hasq |-> hasq, query |-> query, frag |-> frag]
PlainURL == URL("ws", "none", "name", "example.test", "example.test", "", "/ws", FALSE, "", FALSE)
Dial(u, hdrs, reply, creply, cert, fault, hookerr) ==
  u @@ [hdrs |-> hdrs, reply |-> reply, creply |-> creply, cert |-> cert, fault |-> fault, hookerr |-> hookerr]
BaseCfg == [proxy |-> "none", phost |-> "proxy.example.test", pport |-> "3128", puser |-> FALSE, ppass |-> FALSE,
            nd |-> FALSE, ndc |-> TRUE, ndtc |-> TRUE, subs |-> << >>, comp |-> FALSE, tmo |-> "none", jar |-> FALSE, rbuf |-> 0, trace |-> FALSE]
=============================================================================
