SPECIFICATION Spec
CONSTANTS
  Cfgs <- MCCfgs
  Streams <- MCStreams
  Cuts <- MCCuts
  Progs <- MCProgs
  LimitSet = {1, 10}
  Hist = 1
  Policy = "per_message"
CONSTRAINT Emit
INVARIANTS InvCompleteIsWhole InvOrder InvFailStop InvNothingPastViolation InvLimitHistoryFree InvOverLimit InvDecode
CHECK_DEADLOCK FALSE
