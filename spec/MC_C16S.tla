------------------------------ MODULE MC_C16S ------------------------------
(***************************************************************************)
(* Program space for the server part of C16 (handshake cleanup and         *)
(* deadlines in Upgrader.Upgrade): a valid opening handshake x             *)
(*   every index k of a transport operation on the hijacked connection     *)
(*     (k = 0: no fault; k beyond the last operation: the fault is never   *)
(*     reached and the handshake must succeed)                             *)
(*   x fault kind {error, timeout, EOF, short write}                       *)
(*   x Close itself failing or not                                         *)
(*   x HandshakeTimeout {0, 1 ms, 5 s}                                     *)
(*   x reader selection path {reuse, wrap, fresh}                          *)
(* plus a ResponseWriter that cannot be hijacked, plus one request per     *)
(* kind of defect (refusal before hijack leaves the connection alone).     *)
(***************************************************************************)
EXTENDS MC_C12

Paths == { [rbuf |-> 0,    hsize |-> 4096, preload |-> 0],     \* reuse the hijacked reader
           [rbuf |-> 0,    hsize |-> 4096, preload |-> 7],
           [rbuf |-> 1024, hsize |-> 4096, preload |-> 7],     \* wrap (bytes buffered)
           [rbuf |-> 0,    hsize |-> 256,  preload |-> 3],
           [rbuf |-> 1024, hsize |-> 4096, preload |-> 0],     \* fresh reader
           [rbuf |-> 0,    hsize |-> 16,   preload |-> 0] }

ValidReq == Req("GET", ConnVars[1], UpgVars[1], VerVars[1], KeyVars[1], OriginVars[1][2], << >>, << >>)

FProg(req, path, hto, k, kind, ce, he, co) ==
  [req |-> req,
   cfg |-> [Cfg(co, TRUE, << >>, FALSE) EXCEPT !.rbuf = path.rbuf, !.hsize = path.hsize, !.hto = hto] @@ [preload |-> path.preload],
   rh  |-> NilRH,
   fault |-> [op |-> k, kind |-> kind, closeErr |-> ce, hijackErr |-> he]]

IsC16Program(x) ==
  \/ \E path \in Paths : \E hto \in {0, 1, 5000} : \E k \in 0..4 : \E kind \in {"err", "timeout", "eof", "short"} : \E ce \in BOOLEAN :
        x = FProg(ValidReq, path, hto, k, kind, ce, FALSE, "nil")
  \/ \E path \in Paths : \E hto \in {0, 5000} : \E k \in {0, 1} :
        x = FProg(ValidReq, path, hto, k, "err", FALSE, TRUE, "nil")
  \* refusals: one request per kind of defect, with a fault armed that must never be reached
  \/ \E d \in 2..7 : \E hto \in {0, 5000} : \E k \in {0, 1} :
        LET iv == [Base EXCEPT ![d] = Dims[d]]
            c  == CoreProg(iv)
        IN x = [c EXCEPT !.cfg = [c.cfg EXCEPT !.hto = hto] @@ [preload |-> 0], !.fault.op = k]
=============================================================================
