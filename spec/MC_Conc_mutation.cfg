SPECIFICATION Spec
CONSTANTS
  Role = "server"
  WProgs <- MCWProgs
  KProgs <- MCKProgs
  RProgs <- MCRProgs
  FaultAts = {0, 2, 3}
  MultiQ = FALSE
  KeepSched = TRUE
  WCCheckBeforeLock = TRUE
VIEW View
INVARIANTS MonitorOK CloseLatched WCBounded
CHECK_DEADLOCK FALSE
