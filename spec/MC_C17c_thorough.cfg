SPECIFICATION Spec
CONSTANTS
  Cfgs <- MCCfgs
  Dials <- MCDials
  RBufs = {0, 1, 16, 125, 126, 127, 255, 256, 1024, 4095, 4096, 4097, 8192, 65536}
  Full = TRUE
  Schemes17 = {"ws", "wss"}
CONSTRAINT Emit
INVARIANTS InvRefines InvBoundaryNoLoss InvConnOnlyIfProven InvFailureCloses InvSuccessOpenNoDeadline
CHECK_DEADLOCK FALSE
