----------------------------- MODULE WSReaderMC -----------------------------
(***************************************************************************)
(* Exhaustive exploration of the reader model over a finite program space  *)
(* (configuration x inbound stream x fault x application read program).    *)
(* Each initial state IS one abstract program; it is printed as JSON so    *)
(* that the Go driver can execute it on the real library (the recorded     *)
(* trace is then validated by WSReaderTrace).  The behaviour from an       *)
(* initial state executes the program on the model with canonical          *)
(* outcomes; the invariants state the properties C03..C06, C08 on the      *)
(* model in terms of definitions that are independent of the walks         *)
(* (Msgs, FirstViolation).                                                 *)
(*                                                                         *)
(* The program space is supplied by an extending module (MC_C03 ..) via    *)
(*   Cfgs     set of configuration records                                 *)
(*   Streams  set of frame sequences (abstract frames without arrival)     *)
(*   Cuts(st) set of fault descriptions for stream st                      *)
(*   Progs(st) set of read programs (sequences of [op, k])                 *)
(***************************************************************************)
EXTENDS WSReader, Json

CONSTANTS Cfgs, Streams(_), Cuts(_), Progs(_)

VARIABLES prog, pc, hist, cut, stream
mvars == << cfg, fr, s, prog, pc, hist, cut, stream >>

(* Constructors for abstract frames (mk follows the reader's role). *)
Fr(c, op, fin, len) ==
  [op |-> op, fin |-> fin, r1 |-> FALSE, r2 |-> FALSE, r3 |-> FALSE, mk |-> (c.role = "server"),
   len |-> len, lk |-> "n", nonmin |-> FALSE, code |-> -1, rs |-> "ok", comp |-> "", plain |-> 0, key |-> "", short |-> 0]
(* Close reason classes: the text is valid UTF-8 ("ok" ASCII, "u2"/"u3"/"u4" multi-byte sequences, "fffd" the   *)
(* validly encoded replacement character U+FFFD, "edge" the extremes U+0080 U+07FF U+0800 U+FFFF U+10000        *)
(* U+10FFFF) or not ("bad" 0xFF bytes, "trunc" a multi-byte sequence cut short at the end, "overlong" C0 80,     *)
(* "surr" an encoded surrogate ED A0 80, "big" F4 90 80 80 beyond U+10FFFF, "cont" a lone continuation byte).    *)
GoodReasons == {"ok", "u2", "u3", "u4", "fffd", "edge"}
BadReasons == {"bad", "trunc", "overlong", "surr", "big", "cont"}
CloseFr(c, code, rlen) == [Fr(c, OpClose, TRUE, 2 + rlen) EXCEPT !.code = code]
EmptyClose(c) == Fr(c, OpClose, TRUE, 0)

RECURSIVE SeqsOf(_, _)
SeqsOf(S, n) == IF n = 0 THEN {<< >>} ELSE {<< x >> \o r : x \in S, r \in SeqsOf(S, n - 1)}
RECURSIVE Concats(_, _)
Concats(S, n) == IF n = 0 THEN {<< >>} ELSE {x \o r : x \in S, r \in Concats(S, n - 1)}
UpTo(S, n) == UNION {Concats(S, k) : k \in 0..n}
NumData(st) == Cardinality({i \in 1..Len(st) : IsDataOp(st[i].op)})
Op(o) == [op |-> o, k |-> 0]
Rd(k) == [op |-> "RD", k |-> k]
Rl(k) == [op |-> "RL", k |-> k]
Ja(k) == [op |-> "JA", k |-> k]
Jar(k, r) == [op |-> "JA", k |-> k, r |-> r]     \* the joined reader is read with Read calls of r bytes
Rc == [op |-> "RA", k |-> 1]                        \* io.ReadAll semantics, executed with io.Copy (an io.WriterTo of the reader is used if there is one)
Rdo(k) == [op |-> "RDO", k |-> k]
Swd(k) == [op |-> "SWD", k |-> k]

NoCut == [frame |-> 0, part |-> "start", kind |-> "eof", with |-> FALSE, resume |-> FALSE]

(* Arrival annotation of abstract frame i under a cut (representative      *)
(* numbers: a payload cut delivers half of the payload).                   *)
HdrLen(f) == 2 + (IF f.lk # "n" THEN 8 ELSE IF f.nonmin THEN (IF f.len <= 125 THEN 2 ELSE 8)
                  ELSE IF f.len <= 125 THEN 0 ELSE IF f.len <= 65535 THEN 2 ELSE 8)
             + (IF f.mk THEN 4 ELSE 0)

Annotate(f0, i, c, sw) ==
  LET f == IF f0.len < 0 \/ (f0.comp # "" /\ f0.len = 0) THEN [f0 EXCEPT !.len = 5] ELSE f0   \* compressed payload: representative length
      base == [op |-> f.op, fin |-> f.fin, r1 |-> f.r1, r2 |-> f.r2, r3 |-> f.r3, mk |-> f.mk,
               len |-> f.len, lk |-> f.lk, min |-> ~f.nonmin,
               code |-> f.code, utf8 |-> (f.rs \in GoodReasons), plain |-> f.plain, comp |-> (f.comp # "")]
      huge == f.lk # "n" \/ f.short > 0
  IN IF sw THEN base @@ [arr |-> "none", h2 |-> FALSE, hdrOK |-> FALSE, pgot |-> 0]
     ELSE IF c.frame = 0 \/ i < c.frame THEN
          IF huge THEN base @@ [arr |-> "part", h2 |-> TRUE, hdrOK |-> TRUE, pgot |-> IF f.short > 0 THEN f.short - 1 ELSE f.len]
          ELSE base @@ [arr |-> "full", h2 |-> TRUE, hdrOK |-> TRUE, pgot |-> f.len]
     ELSE IF i > c.frame THEN base @@ [arr |-> "none", h2 |-> FALSE, hdrOK |-> FALSE, pgot |-> 0]
     ELSE CASE c.part = "start" -> base @@ [arr |-> "none", h2 |-> FALSE, hdrOK |-> FALSE, pgot |-> 0]
            [] c.part = "hdr1"  -> base @@ [arr |-> "part", h2 |-> FALSE, hdrOK |-> FALSE, pgot |-> 0]
            [] c.part = "hdr"   -> base @@ [arr |-> "part", h2 |-> TRUE, hdrOK |-> FALSE, pgot |-> 0]
            [] c.part = "pay0"  -> base @@ [arr |-> "part", h2 |-> TRUE, hdrOK |-> TRUE, pgot |-> 0]
            [] c.part = "pay"   -> base @@ [arr |-> "part", h2 |-> TRUE, hdrOK |-> TRUE, pgot |-> f.len \div 2]
            [] c.part = "end"   -> base @@ [arr |-> IF c.with /\ ~huge THEN "with" ELSE IF huge THEN "part" ELSE "full",
                                            h2 |-> TRUE, hdrOK |-> TRUE, pgot |-> f.len]

Program(c, st, ct, p) == [role |-> c.role, pmce |-> c.pmce, limit |-> c.limit, hmode |-> c.hmode,
                          herrAt |-> c.herrAt, frames |-> st, cut |-> ct, reads |-> p]

Init ==
  /\ cfg \in Cfgs
  /\ \E st \in Streams(cfg) :
       /\ cut \in Cuts(st)
       /\ fr = [i \in 1..Len(st) |-> Annotate(st[i], i, cut, \E j \in 1..(i - 1) : st[j].lk # "n" \/ st[j].short > 0)]
       /\ prog \in Progs(st)
       /\ stream = st
  /\ s = S0 /\ pc = 1 /\ hist = << >>

CanonErr(w) ==
  [cls |-> CASE w.res = "limit" -> "limit"
             [] w.res = "ovf" -> "limit"
             [] w.res = "herr" -> "herr"
             [] w.res = "close" -> "close"
             [] OTHER -> "other",
   id |-> 1, code |-> 0, cand |-> << >>]
NilErr == [cls |-> "nil", id |-> -1, code |-> 0, cand |-> << >>]
EofErr == [cls |-> "eof", id |-> 0, code |-> 0, cand |-> << >>]

DoNR ==
  LET w == NRWalk(s, FALSE)
      e == IF s.failed \/ ErrOutcome(w.res) THEN CanonErr(w) ELSE NilErr
  IN /\ s' = NRNext(s, w, e)
     /\ hist' = Append(hist, [op |-> "NR", res |-> IF s.failed THEN "failed" ELSE w.res,
                              start |-> IF ~s.failed /\ w.res = "data" THEN w.s.start ELSE 0, n |-> 0])

DoRD(k) ==
  IF s.rd # "open" THEN
     /\ s' = s
     /\ hist' = Append(hist, [op |-> "RD", res |-> s.rd, start |-> s.start, n |-> 0])
  ELSE
  LET w == RDSeek(s, << >>)
      n == IF w.res = "bytes" THEN Min(k, CurAvail(w.s)) ELSE 0
      e == IF w.res = "bytes" THEN NilErr ELSE IF w.res = "eom" THEN EofErr ELSE CanonErr(w)
  IN /\ s' = RDNext(s, w, n, e)
     /\ hist' = Append(hist, [op |-> "RD", res |-> w.res, start |-> s.start, n |-> n])

DoRA(st, h, opname) ==
  IF st.rd # "open" THEN
     /\ s' = st
     /\ hist' = Append(h, [op |-> opname, res |-> st.rd, start |-> st.start, n |-> 0])
  ELSE
  LET w == RALoop(st, << >>)
      e == IF w.res = "eom" THEN NilErr ELSE CanonErr(w)
  IN /\ s' = RANext(st, w, e)
     /\ hist' = Append(h, [op |-> opname, res |-> w.res, start |-> st.start, n |-> w.s.got - st.got])

DoRM ==
  LET w == NRWalk(s, FALSE) IN
  IF s.failed \/ w.res # "data" THEN DoNR ELSE DoRA(w.s, hist, "RM")

(* ReadJSON, canonical outcome: the decoder consumes the whole message. *)
DoRJ ==
  LET w == NRWalk(s, FALSE) IN
  IF s.failed \/ w.res # "data" THEN DoNR ELSE DoRA(w.s, hist, "RJ")

Step ==
  /\ pc <= Len(prog)
  /\ LET o == prog[pc] IN
     CASE o.op = "NR" -> DoNR
       [] o.op = "RD" -> DoRD(o.k)
       [] o.op = "RF" -> DoRA(s, hist, "RF")
       [] o.op = "RA" -> DoRA(s, hist, "RA")
       [] o.op = "RL" -> DoRA(s, hist, "RA")
       [] o.op = "SRD" -> s' = s /\ hist' = hist
       [] o.op = "WCL" -> s' = WCLNext(s) /\ hist' = hist
       [] o.op = "WCP" -> s' = s /\ hist' = hist
       [] o.op = "RDO" -> s' = s /\ hist' = hist
       [] o.op = "SWD" -> s' = s /\ hist' = hist
       [] o.op = "JA" ->
            LET j == JALoop(s, << >>, << >>, << >>, 0, o.k, FALSE) IN
            /\ s' = JANext(j, CanonErr(j.w))
            /\ hist' = hist \o [i \in 1..Len(j.starts) |-> [op |-> "JA", res |-> "eom", start |-> j.starts[i], n |-> j.lens[i]]]
                            \o << [op |-> "NR", res |-> IF j.w.res \in {"eom", "data"} THEN "starve" ELSE j.w.res, start |-> 0, n |-> 0] >>
       [] o.op = "RM" -> DoRM
       [] o.op = "RJ" -> DoRJ
  /\ pc' = pc + 1
  /\ UNCHANGED << cfg, fr, prog, cut, stream >>

Next == Step
Spec == Init /\ [][Next]_mvars

(* Printed once per initial state (= per abstract program); a CONSTRAINT so *)
(* that error-trace reconstruction does not print again.                    *)
Emit == pc = 1 => PrintT(<< "PROG", ToJson([role |-> cfg.role, pmce |-> cfg.pmce, limit |-> cfg.limit, hmode |-> cfg.hmode,
                                            herrAt |-> cfg.herrAt, frames |-> stream, cut |-> cut, reads |-> prog]) >>)

-----------------------------------------------------------------------------
(* Independent characterisations used by the invariants.                   *)

(* Index of the first frame at which the stream stops being acceptable:    *)
(* a framing violation (C04), an unspecified frame, or 0 if none.          *)
RECURSIVE FirstBad(_, _)
FirstBad(i, frag) ==
  IF i > Len(fr) THEN 0
  ELSE LET f == fr[i] IN
       IF FrameViolation(f, frag, cfg.role, cfg.pmce) \/ Unspecified(f, frag, cfg.role, cfg.pmce) THEN i
       ELSE FirstBad(i + 1, IF IsCtlOp(f.op) THEN frag ELSE ~f.fin)

(* The data messages encoded by frames 1..upto-1: sequence of             *)
(* [start, len, complete, arrived, huge].                                  *)
RECURSIVE MsgsFrom(_, _, _, _)
MsgsFrom(i, upto, cur, acc) ==
  IF i >= upto \/ i > Len(fr) THEN (IF cur.start > 0 THEN Append(acc, cur) ELSE acc)
  ELSE LET f == fr[i] IN
    IF f.op = OpClose THEN (IF cur.start > 0 THEN Append(acc, cur) ELSE acc)
    ELSE IF IsCtlOp(f.op) THEN
         MsgsFrom(i + 1, upto, IF cur.start > 0 THEN [cur EXCEPT !.arrived = cur.arrived /\ Arrived(f)] ELSE cur, acc)
    ELSE LET c0 == IF IsDataOp(f.op)
                   THEN [start |-> i, len |-> 0, complete |-> FALSE, arrived |-> TRUE, huge |-> FALSE]
                   ELSE cur
             c1 == [c0 EXCEPT !.len = c0.len + (IF f.lk = "n" THEN f.len ELSE 0),
                               !.complete = f.fin, !.arrived = c0.arrived /\ Arrived(f),
                               !.huge = c0.huge \/ f.lk # "n"]
         IN IF f.fin THEN MsgsFrom(i + 1, upto, [c1 EXCEPT !.start = 0], Append(acc, c1))
            ELSE MsgsFrom(i + 1, upto, c1, acc)

NoMsg == [start |-> 0, len |-> 0, complete |-> FALSE, arrived |-> TRUE, huge |-> FALSE]
Bad  == FirstBad(1, FALSE)
Msgs == MsgsFrom(1, IF Bad = 0 THEN Len(fr) + 1 ELSE Bad, NoMsg, << >>)
MsgAt(st) == LET c == {m \in Rng(Msgs) : m.start = st} IN
             IF c = {} THEN NoMsg ELSE CHOOSE m \in c : TRUE

Completed(h) == h.op \in {"RM", "RA", "RF", "JA", "RJ"} /\ h.res = "eom"

(* C03/C04/C05: whatever is reported complete is a message of the stream   *)
(* that lies before the first violation, arrived completely, and is        *)
(* reported with its full length.                                          *)
AtEnd == pc > Len(prog)

InvCompleteIsWhole ==
  AtEnd => \A i \in 1..Len(hist) : Completed(hist[i]) =>
     LET m == MsgAt(hist[i].start) IN
     /\ m.start > 0 /\ m.complete /\ m.arrived /\ ~m.huge
     /\ hist[i].op = "RM" => hist[i].n = m.len

(* C03: messages are delivered in stream order, each at most once.         *)
InvOrder ==
  AtEnd => \A i, j \in 1..Len(hist) :
     (i < j /\ hist[i].op \in {"NR", "RM", "RJ"} /\ hist[j].op \in {"NR", "RM", "RJ"}
      /\ hist[i].start > 0 /\ hist[j].start > 0) => hist[i].start < hist[j].start

(* C04/C05/C08: after a failed call nothing is delivered any more.         *)
IsFailure(h) == h.res \in {"starve", "viol", "top", "limit", "ovf", "herr", "close", "failed"}
InvFailStop ==
  AtEnd => \A i, j \in 1..Len(hist) :
     (i < j /\ IsFailure(hist[i])) => (IsFailure(hist[j]) \/ hist[j].res \in {"err", "eof", "none"})

(* C04: nothing at or after the first violation is ever opened.            *)
InvNothingPastViolation ==
  (AtEnd /\ Bad > 0) => \A i \in 1..Len(hist) : hist[i].start < Bad

(* C06: on a stream whose messages are all within the limit, the limit     *)
(* never fires, whatever the read history.                                 *)
AllWithin == LET M == Msgs IN \A i \in 1..Len(M) : ~M[i].huge /\ M[i].len <= Lim
InvLimitHistoryFree ==
  (AtEnd /\ Lim > 0 /\ Bad = 0 /\ AllWithin) => \A i \in 1..Len(hist) : hist[i].res \notin {"limit", "ovf"}

(* C06: a message over the limit is never completed and at most Lim of its *)
(* bytes are delivered.                                                    *)
InvOverLimit ==
  (AtEnd /\ Lim > 0) => \A i \in 1..Len(hist) :
     /\ Completed(hist[i]) => MsgAt(hist[i].start).len <= Lim
     /\ s.got <= Lim

(* C03: a program of ReadMessage calls on a fault-free conformant stream   *)
(* yields exactly the messages of the stream.                              *)
AllRM == \A i \in 1..Len(prog) : prog[i].op \in {"RM", "JA", "RJ", "WCL", "WCP", "SWD"}
NReads == Cardinality({i \in 1..Len(prog) : prog[i].op \notin {"WCL", "WCP", "SWD"}})
Conformant == Bad = 0 /\ cut.frame = 0 /\ \A i \in 1..Len(fr) : fr[i].lk = "n" /\ fr[i].arr = "full"
InvDecode ==
  (pc > Len(prog) /\ AllRM /\ Conformant /\ (Lim = 0 \/ AllWithin) /\ cfg.hmode # "err") =>
     LET done == SelectSeq(hist, LAMBDA h : Completed(h))
         want == SelectSeq(Msgs, LAMBDA m : m.complete)
         k == Min(Len(want), NReads)
     IN /\ Len(done) >= Min(k, Len(want))
        /\ \A i \in 1..Len(done) : done[i].start = want[i].start /\ (done[i].op = "JA" \/ done[i].n = want[i].len)
=============================================================================
