------------------------------- MODULE MC_C08 -------------------------------
(* Program space for C08: control frames at every position (before,        *)
(* between and after fragments, back to back), payloads 0..125, every      *)
(* close code that must be accepted, handler configurations.               *)
EXTENDS WSReaderMC

CONSTANTS CtlLens, ReasonLens

HCfgs == {<<"default", 0>>, <<"record", 0>>, <<"chain", 0>>, <<"err", 1>>, <<"err", 2>>, <<"err", 3>>}
(* limit 6: every data message of this space has at most 6 bytes; control frames are not counted against the  *)
(* read limit, so they must be handled exactly as without a limit                                             *)
MCCfgs == {[role |-> r, pmce |-> FALSE, limit |-> L, hmode |-> h[1], herrAt |-> h[2], policy |-> "per_message"]
             : r \in {"server", "client"}, h \in HCfgs, L \in {0, 6}}

T(c, fin, n) == Fr(c, OpText, fin, n)
D(c, fin, n) == Fr(c, OpBin, fin, n)
C(c, fin, n) == Fr(c, OpCont, fin, n)
Ctl(c) == {Fr(c, op, TRUE, n) : op \in {OpPing, OpPong}, n \in CtlLens}

AcceptCodes == {1000, 1001, 1002, 1003, 1007, 1008, 1009, 1010, 1011, 3000, 3999, 4000, 4999}
Closes(c) == {CloseFr(c, code, n) : code \in AcceptCodes, n \in ReasonLens} \cup {EmptyClose(c)}
             \cup {[CloseFr(c, code, n) EXCEPT !.rs = r] : code \in {1000, 4000}, n \in {3, 4, 123}, r \in GoodReasons \ {"ok"}}

MCStreams(c) ==
  {<< k1, T(c, FALSE, 2), k2, C(c, TRUE, 3), k3, D(c, TRUE, 1) >> : k1 \in Ctl(c), k2 \in Ctl(c), k3 \in Ctl(c)}
  \cup {<< k1, k2, k3, D(c, TRUE, 1) >> : k1 \in Ctl(c), k2 \in Ctl(c), k3 \in Ctl(c)}
  \cup {<< T(c, FALSE, 2), k1, C(c, FALSE, 0), k2, C(c, TRUE, 1) >> : k1 \in Ctl(c), k2 \in Ctl(c)}
  \cup {<< D(c, TRUE, 1), x, D(c, TRUE, 1) >> : x \in Closes(c)}
  \cup {<< T(c, FALSE, 1), x, C(c, TRUE, 1) >> : x \in Closes(c)}
  \cup {<< k, x >> : k \in Ctl(c), x \in Closes(c)}

MCCuts(st) == {NoCut}

MCProgs(st) ==
  { << Op("RM"), Op("RM"), Op("RM") >>,
    \* a WriteControl of the application that times out before it gets the connection writes nothing and poisons
    \* nothing: pings are still answered and closes echoed afterwards
    << Op("WCP"), Op("RM"), Op("WCP"), Op("RM"), Op("RM") >>,
    << Swd(-1), Op("RM"), Op("RM"), Op("RM") >>,
    << Op("NR"), Rd(1), Op("RA"), Op("NR"), Op("RA"), Op("NR") >>,
    << Op("NR"), Rl(1), Op("RM") >>,
    << Op("NR"), Op("NR"), Op("NR") >> }
=============================================================================
