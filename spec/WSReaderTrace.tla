--------------------------- MODULE WSReaderTrace ---------------------------
(***************************************************************************)
(* Trace validation for WSReader: a batch of recorded executions of the    *)
(* real library (one "Reset" event per execution, then one event per       *)
(* application call with its results and observed side effects) must be a  *)
(* behaviour of the reader model.  Every event is fully logged, so the     *)
(* search is linear; acceptance is "the high-water mark reached the end".  *)
(***************************************************************************)
EXTENDS WSReader, Json, IOUtils

Trace == ndJsonDeserialize(IOEnv.TRACE_FILE)

VARIABLE l
tvars == << cfg, fr, s, l >>

ASSUME TLCSet(1, 0)

Ev == Trace[l]
Is(e) == l <= Len(Trace) /\ Trace[l].e = e
Adv == l' = l + 1 /\ TLCSet(1, l)

ContentOK(st, ev) == ev.any \/ st.start \in Rng(ev.cand)

Comp(st) == Lazy(st)

TReset ==
  /\ Is("Reset")
  /\ cfg' = Ev.cfg /\ fr' = Ev.fr
  \* raw garbage streams (C07): only the monitors decide, the model is not consulted
  /\ s' = IF Ev.raw THEN [S0 EXCEPT !.wild = TRUE] ELSE S0
  /\ Adv

TNR ==
  /\ Is("NR")
  /\ \E len \in BOOLEAN :
     LET w0 == NRWalk(s, len)
         w == IF ~s.wild /\ Comp(s) THEN DropObs(w0, s.zobs) ELSE w0 IN
     /\ s.wild \/ NRAllowed(s, w, Ev.ok, Ev.type, Ev.err, Ev.obs)
     /\ s' = IF s.wild THEN (IF Ev.ok THEN s ELSE [s EXCEPT !.failed = TRUE, !.nerr = s.nerr + 1]) ELSE IF ~s.failed /\ w.res = "wild" /\ ~Ev.ok THEN [w.s EXCEPT !.failed = TRUE, !.nerr = s.nerr + 1]
                                 ELSE NRNext(s, w, Ev.err)
  /\ UNCHANGED << cfg, fr >> /\ Adv

TRD ==
  /\ Is("RD")
  /\ s.wild \/ s.rd # "none"
  /\ IF ~s.wild /\ Comp(s) THEN
        LET w == RALoop(s, << >>) IN
        IF w.res = "wild" THEN s' = w.s
        ELSE /\ RDZAllowed(s, w, Ev.k, Ev.n, Ev.err, Ev.obs) /\ ContentOK(s, Ev)
             /\ s' = RDZNext(s, w, Ev.n, Ev.err, Ev.obs)
     ELSE
     LET w == IF s.rd = "open" THEN RDSeek(s, << >>) ELSE Out(s, << >>, "none", FALSE) IN
     /\ s.wild \/ (RDAllowed(s, w, Ev.k, Ev.n, Ev.err, Ev.obs) /\ ContentOK(s, Ev))
     /\ s' = IF s.wild THEN s ELSE RDNext(s, w, Ev.n, Ev.err)
  /\ UNCHANGED << cfg, fr >> /\ Adv

TRA ==
  /\ Is("RA")
  /\ s.wild \/ s.rd # "none"
  /\ LET w0 == IF s.rd = "open" THEN RALoop(s, << >>) ELSE Out(s, << >>, "none", FALSE)
         w == IF Comp(s) THEN DropObs(w0, s.zobs) ELSE w0 IN
     /\ s.wild \/ (RAAllowed(s, w, Ev.n, Ev.err, Ev.obs) /\ ContentOK(s, Ev))
     /\ s' = IF s.wild THEN s ELSE RANext(s, w, Ev.err)
  /\ UNCHANGED << cfg, fr >> /\ Adv

(* ReadMessage = NextReader, then io.ReadAll on success. *)
TRM ==
  /\ Is("RM")
  /\ \E len \in BOOLEAN :
     LET w0 == NRWalk(s, len)
         w1 == IF ~s.wild /\ Comp(s) THEN DropObs(w0, s.zobs) ELSE w0 IN
     IF s.wild THEN s' = (IF Ev.ok THEN s ELSE [s EXCEPT !.failed = TRUE, !.nerr = s.nerr + 1])
     ELSE IF ~s.failed /\ w1.res = "wild" THEN s' = (IF Ev.ok THEN w1.s ELSE [w1.s EXCEPT !.failed = TRUE, !.nerr = 1])
     ELSE IF s.failed \/ w1.res # "data" THEN
          /\ NRAllowed(s, w1, Ev.ok, Ev.type, Ev.err, Ev.obs) /\ Ev.n = 0
          /\ s' = NRNext(s, w1, Ev.err)
     ELSE LET s1 == w1.s
              w2 == RALoop(s1, << >>)
              wc == [w2 EXCEPT !.obs = w1.obs \o w2.obs]
          IN /\ Ev.ok /\ Ev.type = fr[s1.start].op
             /\ RAAllowed(s1, wc, Ev.n, Ev.err, Ev.obs)
             /\ ContentOK(s1, Ev)
             /\ s' = RANext(s1, wc, Ev.err)
  /\ UNCHANGED << cfg, fr >> /\ Adv

TJA ==
  /\ Is("JA")
  /\ IF s.wild THEN s' = [s EXCEPT !.failed = TRUE, !.nerr = s.nerr + 1]
     ELSE \E cont \in BOOLEAN :
          LET j == JALoop(s, << >>, << >>, << >>, 0, Ev.tl, cont) IN
          /\ JAAllowed(j, Ev.tl, Ev.n, Ev.err, Ev.obs, Ev.segs, Ev.rest, Ev.restOK)
          /\ s' = IF j.w.res = "wild" THEN [j.s EXCEPT !.wild = TRUE, !.failed = TRUE, !.nerr = 1] ELSE JANext(j, Ev.err)
  /\ UNCHANGED << cfg, fr >> /\ Adv

(* ReadJSON: NextReader, then an opaque decoder (see the RJ operators of WSReader). *)
TRJ ==
  /\ Is("RJ")
  /\ \E len \in BOOLEAN :
     LET w0 == NRWalk(s, len)
         w1 == IF ~s.wild /\ Comp(s) THEN DropObs(w0, s.zobs) ELSE w0 IN
     IF s.wild THEN s' = s
     ELSE IF ~s.failed /\ w1.res = "wild" THEN s' = (IF Ev.ok THEN w1.s ELSE [w1.s EXCEPT !.failed = TRUE, !.nerr = 1])
     ELSE IF s.failed \/ w1.res # "data" THEN
          /\ NRAllowed(s, w1, Ev.ok, 0, Ev.err, Ev.obs)
          /\ s' = NRNext(s, w1, Ev.err)
     ELSE LET w2 == RALoop(w1.s, << >>) IN
          IF w2.res = "wild" THEN s' = w2.s
          ELSE \/ /\ RJValueAllowed(w1, w2, Ev.ok, Ev.err, Ev.obs, Ev.cand)
                  /\ s' = RJLazyNext(w1, Ev.obs)
               \/ /\ RJSyntaxAllowed(w1, w2, Ev.ok, Ev.err, Ev.obs)
                  /\ s' = RJLazyNext(w1, Ev.obs)
               \/ /\ RJFaultAllowed(w1, w2, Ev.ok, Ev.err, Ev.obs)
                  /\ s' = RJFaultNext(w2)
  /\ UNCHANGED << cfg, fr >> /\ Adv

TWCL ==
  /\ Is("WCL")
  /\ s.wild \/ WCLAllowed(s, Ev.err, Ev.obs)
  /\ s' = IF s.wild THEN s ELSE WCLNext(s)
  /\ UNCHANGED << cfg, fr >> /\ Adv

TWCP == /\ Is("WCP") /\ (s.wild \/ WCPAllowed(s, Ev.err, Ev.obs))
        /\ UNCHANGED << cfg, fr, s >> /\ Adv

(* a stale reader (of a message the application has left) delivers nothing and has no effect *)
TRDO == /\ Is("RDO") /\ (s.wild \/ (Ev.n = 0 /\ IsErr(Ev.err) /\ Ev.obs = << >>))
        /\ UNCHANGED << cfg, fr, s >> /\ Adv

(* the application's write deadline does not govern what the read side sends on its own *)
TSWD == /\ Is("SWD") /\ Ev.err.cls = "nil" /\ UNCHANGED << cfg, fr, s >> /\ Adv

TSRD == /\ Is("SRD") /\ Ev.err.cls = "nil" /\ UNCHANGED << cfg, fr, s >> /\ Adv

TPanic == /\ Is("PANIC") /\ PanicAllowed(s)
          /\ UNCHANGED << cfg, fr, s >> /\ Adv

TInit == l = 1 /\ cfg = [role |-> "server"] /\ fr = << >> /\ s = S0

TNext == TReset \/ TJA \/ TRJ \/ TWCL \/ TWCP \/ TRDO \/ TSWD \/ TSRD \/ TPanic \/ TNR \/ TRD \/ TRA \/ TRM

TSpec == TInit /\ [][TNext]_tvars

Accepted ==
  IF TLCGet(1) = Len(Trace) THEN TRUE
  ELSE PrintT(<< "REJECTED-AT", TLCGet(1) + 1, Len(Trace) >>) /\ FALSE
=============================================================================
