SPECIFICATION Spec
CONSTANTS
  Streams <- MCStreams
  Full = TRUE
  RBufs = {0, 64, 255, 256, 257, 1024}
  HSizes = {16, 255, 256, 257, 4096}
  ClientRBufs = {0, 1, 125, 200, 255, 256, 1024, 4096}
  RespLen = 129
  ScrubProto = TRUE
CONSTRAINT Emit
INVARIANTS InvNoLossNoReorder InvNoOverRead
CHECK_DEADLOCK FALSE
