SPECIFICATION Spec
CONSTANTS
  Streams <- MCStreams
  Full = TRUE
  RBufs = {0, 1, 64, 124, 125, 255, 256, 257, 1024, 4097, 8192}
  HSizes = {16, 255, 256, 257, 4096}
  ClientRBufs = {0, 1, 125, 200, 255, 256, 1024, 4096, 4097, 8192, 65536}
  RespLen = 129
  CtlStreams <- MCCtlStreams
  CtlRBufs = {0, 1, 16, 64, 124, 125, 126, 1024}
  CtlHSizes = {16, 256, 4096}
  CtlClientRBufs = {0, 1, 16, 64, 124, 125, 126}
  ScrubProto = TRUE
CONSTRAINT Emit
INVARIANTS InvNoLossNoReorder InvNoOverRead InvControlFits
CHECK_DEADLOCK FALSE
