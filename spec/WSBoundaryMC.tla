---------------------------- MODULE WSBoundaryMC ----------------------------
(***************************************************************************)
(* C17: no byte is lost or reordered at the handshake boundary.            *)
(*                                                                         *)
(* A program is [side, frames, total, k, rbuf, hsize, path]: a frame       *)
(* stream of `total` bytes glued to the handshake and split at offset k.   *)
(*  server  bytes [0,k) are already in the hijacked bufio.Reader (size     *)
(*          hsize) when Upgrade is called, bytes [k,total) are still in    *)
(*          the socket.  WSUpgrade!ReaderSelection chooses how the         *)
(*          returned connection reads:                                     *)
(*            "reuse"  it keeps the hijacked reader,                       *)
(*            "wrap"   a new reader over a wrapper that serves the         *)
(*                     buffered bytes first and never reads past them,     *)
(*            "fresh"  a new reader over the bare socket.                  *)
(*  client  the server sends its 101 response (RespLen bytes) and the      *)
(*          frames back to back; the transport delivers bytes [0,k) of     *)
(*          the glued bytes in one read and the rest in another.  The      *)
(*          response is parsed from the connection's own reader, so what   *)
(*          arrived behind it stays buffered there.                        *)
(* The model delivers byte intervals to the connection's frame parser; the *)
(* invariant says that the delivered intervals are exactly [0,total) (for  *)
(* the client: [RespLen, RespLen+total)) in order - so the connection sees *)
(* the frame stream itself and delivers Messages(stream) (which the trace  *)
(* validation of the real executions checks with the reader model).        *)
(* TLC thereby verifies the selection rule: "fresh" may only be chosen     *)
(* when nothing is buffered.                                               *)
(***************************************************************************)
EXTENDS WSUpgrade, Json

CONSTANTS Streams,      \* set of frame sequences, frame = [op, fin, len]
          RBufs, HSizes, ClientRBufs,
          RespLen,
          \* control-frame sub-space: streams that carry a control frame of every payload size up to 125
          \* x SMALL read buffers (below, at and above the 125-byte control payload maximum) x hijacked
          \* reader sizes x a set of split points (KSet) instead of every offset
          CtlStreams, CtlRBufs, CtlHSizes, CtlClientRBufs

VARIABLES prog, pc, b
mvars == << prog, pc, b >>

MinI(a, c) == IF a < c THEN a ELSE c
MaxI(a, c) == IF a > c THEN a ELSE c

HdrLen(f, masked) == 2 + (IF f.len <= 125 THEN 0 ELSE IF f.len <= 65535 THEN 2 ELSE 8) + (IF masked THEN 4 ELSE 0)
RECURSIVE Bytes(_, _)
Bytes(st, masked) == IF st = << >> THEN 0 ELSE HdrLen(Head(st), masked) + Head(st).len + Bytes(Tail(st), masked)

NumMsgs(st) == Cardinality({i \in 1..Len(st) : st[i].op \in {1, 2}})

ServerProg(st, k, rb, hs) ==
  [side |-> "server", frames |-> st, total |-> Bytes(st, TRUE), k |-> k, rbuf |-> rb, hsize |-> hs,
   path |-> ReaderSelection(rb, hs, k), reads |-> NumMsgs(st) + 1]
ClientProg(st, k, rb) ==
  [side |-> "client", frames |-> st, total |-> Bytes(st, FALSE), k |-> k, rbuf |-> rb, hsize |-> 0,
   path |-> "client", reads |-> NumMsgs(st) + 1]

(* split points of the control-frame sub-space: nothing buffered, inside the *)
(* first header, inside / at the end of the first payload, all but one     *)
(* byte, everything (base = 0 server, RespLen client)                      *)
KSet(st, masked, base) ==
  LET t  == Bytes(st, masked)
      h1 == HdrLen(st[1], masked)
  IN {0, base + 1, base + h1, base + h1 + (st[1].len \div 2), base + h1 + st[1].len, base + t - 1, base + t}

InitProg ==
  \/ \E st \in Streams : \E rb \in RBufs : \E hs \in HSizes : \E k \in 0..MinI(Bytes(st, TRUE), MaxI(hs, 16)) :
        prog = ServerProg(st, k, rb, hs)
  \/ \E st \in Streams : \E rb \in ClientRBufs : \E k \in 0..(RespLen + Bytes(st, FALSE)) :
        prog = ClientProg(st, k, rb)
  \/ \E st \in CtlStreams : \E rb \in CtlRBufs : \E hs \in CtlHSizes :
        \E k \in {x \in KSet(st, TRUE, 0) : x >= 0 /\ x <= MinI(Bytes(st, TRUE), MaxI(hs, 16))} :
        prog = ServerProg(st, k, rb, hs)
  \/ \E st \in CtlStreams : \E rb \in CtlClientRBufs :
        \E k \in {x \in KSet(st, FALSE, RespLen) \cup {RespLen - 1, RespLen} : x >= 0 /\ x <= RespLen + Bytes(st, FALSE)} :
        prog = ClientProg(st, k, rb)

(* b: hijacked / connection buffer holds [lo,hi); the socket will deliver  *)
(* from sk on; segs = intervals handed to the frame parser so far.         *)
Init ==
  /\ InitProg /\ pc = 1
  /\ b = IF prog.side = "server"
         THEN [lo |-> 0, hi |-> prog.k, sk |-> prog.k, segs |-> << >>, phase |-> "select", hdr |-> 0]
         ELSE [lo |-> 0, hi |-> 0, sk |-> 0, segs |-> << >>, phase |-> "response", hdr |-> 0]

End == IF prog.side = "server" THEN prog.total ELSE RespLen + prog.total

Deliver(x, lo, hi) == IF lo < hi THEN [x EXCEPT !.segs = Append(@, << lo, hi >>)] ELSE x

(* server *)
Select == b.phase = "select" /\ b' = [b EXCEPT !.phase = prog.path]

Reuse ==
  /\ b.phase = "reuse"
  /\ IF b.lo < b.hi THEN b' = [Deliver(b, b.lo, b.hi) EXCEPT !.lo = b.hi]
     ELSE IF b.sk < End THEN b' = [Deliver(b, b.sk, End) EXCEPT !.sk = End]
     ELSE b' = [b EXCEPT !.phase = "done"]

(* the wrapper: a Read of capacity c takes min(c, buffered) bytes from the *)
(* hijacked reader while it holds any, afterwards it reads the socket      *)
Cap == MaxI(prog.rbuf, 125)
Wrap ==
  /\ b.phase = "wrap"
  /\ IF b.lo < b.hi THEN LET m == MinI(Cap, b.hi - b.lo) IN b' = [Deliver(b, b.lo, b.lo + m) EXCEPT !.lo = b.lo + m]
     ELSE IF b.sk < End THEN b' = [Deliver(b, b.sk, End) EXCEPT !.sk = End]
     ELSE b' = [b EXCEPT !.phase = "done"]

(* a fresh reader on the bare socket never sees the hijacked buffer *)
Fresh ==
  /\ b.phase = "fresh"
  /\ IF b.sk < End THEN b' = [Deliver(b, b.sk, End) EXCEPT !.sk = End]
     ELSE b' = [b EXCEPT !.phase = "done"]

(* client: transport reads [0,k) and [k,End); the response occupies        *)
(* [0,RespLen) and is consumed from the connection's own reader            *)
ClientResponse ==
  /\ b.phase = "response"
  /\ IF b.hi < RespLen THEN   \* need more bytes: next transport read
          LET nxt == IF b.sk < prog.k THEN prog.k ELSE End IN b' = [b EXCEPT !.hi = nxt, !.sk = nxt]
     ELSE b' = [b EXCEPT !.lo = RespLen, !.hdr = RespLen, !.phase = "reuse"]

Next == (Select \/ Reuse \/ Wrap \/ Fresh \/ ClientResponse) /\ pc' = pc + 1 /\ UNCHANGED prog
Spec == Init /\ [][Next]_mvars

Emit == pc = 1 => PrintT(<< "PROG", ToJson(prog) >>)

-----------------------------------------------------------------------------
Start == IF prog.side = "server" THEN 0 ELSE RespLen

(* HijackBoundaryNoLossNoReorder / TrailingBytesDelivered *)
InvNoLossNoReorder ==
  b.phase = "done" =>
     IF Start = End THEN b.segs = << >>
     ELSE /\ b.segs # << >>
          /\ b.segs[1][1] = Start
          /\ b.segs[Len(b.segs)][2] = End
          /\ \A i \in 1..(Len(b.segs) - 1) : b.segs[i][2] = b.segs[i + 1][1]

(* Whatever reader the returned connection uses, a whole control frame     *)
(* payload (at most 125 bytes, RFC 6455 5.5) has to fit into it: the       *)
(* capacity of the connection's reader is the hijacked reader's on the     *)
(* reuse path and otherwise ReadBufferSize, never less than 125 (default   *)
(* 4096) - in particular NOT a smaller size when bytes were buffered.      *)
ReaderCap == IF prog.path = "reuse" THEN prog.hsize
             ELSE IF prog.rbuf = 0 THEN 4096 ELSE MaxI(prog.rbuf, 125)
InvControlFits == \A i \in 1..Len(prog.frames) : prog.frames[i].op >= 8 => prog.frames[i].len <= ReaderCap

(* the wrapper never reads past the buffered bytes in one call *)
InvNoOverRead ==
  \A i \in 1..Len(b.segs) : (b.segs[i][1] < prog.k /\ prog.side = "server") => b.segs[i][2] <= prog.k
=============================================================================
