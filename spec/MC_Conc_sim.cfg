SPECIFICATION Spec
CONSTANTS
  Role = "server"
  WProgs <- MCWProgs
  KProgs <- MCKProgs
  RProgs <- MCRProgs
  FaultAts = {0, 0, 0, 2, 3, 5}
CONSTRAINT EmitSched
INVARIANTS MonitorOK
CHECK_DEADLOCK FALSE
