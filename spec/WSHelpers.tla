----------------------------- MODULE WSHelpers -----------------------------
(***************************************************************************)
(* The small helper API of the package, as TLA+ functions (growth of the   *)
(* specification beyond the listed properties; DESIGN section 10 item 3):  *)
(*   FormatCloseMessage(code, text)      close frame body                  *)
(*   IsCloseError / IsUnexpectedCloseError(err, codes...)                  *)
(*   Subprotocols(request)               client's Sec-WebSocket-Protocol   *)
(*   IsWebSocketUpgrade(request)                                           *)
(* A call is [fn, ...args]; Result(call) is what the documentation         *)
(* promises.  Byte strings are sequences of code points.                   *)
(***************************************************************************)
EXTENDS WSTokens, TLC

NoStatus == 1005

FormatClose(code, text) ==
  IF code = NoStatus THEN << >>                      \* "An empty message is returned for code CloseNoStatusReceived"
  ELSE << code \div 256, code % 256 >> \o text

(* err = [kind |-> "close" | "other" | "nil", code] *)
IsCloseErr(err, codes)      == err.kind = "close" /\ err.code \in {codes[i] : i \in DOMAIN codes}
IsUnexpectedClose(err, codes) == err.kind = "close" /\ err.code \notin {codes[i] : i \in DOMAIN codes}

(* split a header value at commas and trim optional white space *)
RECURSIVE SplitComma(_, _, _)
SplitComma(s, i, cur) ==
  IF i > Len(s) THEN << cur >>
  ELSE IF s[i] = COMMA THEN << cur >> \o SplitComma(s, i + 1, << >>)
  ELSE SplitComma(s, i + 1, Append(cur, s[i]))

RECURSIVE HTrimL(_)
HTrimL(s) == IF s # << >> /\ IsOWS(Head(s)) THEN HTrimL(Tail(s)) ELSE s
RECURSIVE HTrimR(_)
HTrimR(s) == IF s # << >> /\ IsOWS(s[Len(s)]) THEN HTrimR(SubSeq(s, 1, Len(s) - 1)) ELSE s
HTrim(s) == HTrimR(HTrimL(s))

(* lines = the Sec-WebSocket-Protocol header lines; only the first is consulted (documented by the code's use of Get) *)
SubprotocolsOf(lines) ==
  IF lines = << >> \/ HTrim(lines[1]) = << >> THEN << >>
  ELSE LET parts == SplitComma(HTrim(lines[1]), 1, << >>) IN [i \in 1..Len(parts) |-> HTrim(parts[i])]

(* "yes" / "no" / "either" (the latter when a list is not a well-formed #token list) *)
IsWSUpgrade(conn, upg) ==
  LET a == TokenListContains(conn, TokUpgrade)
      bb == TokenListContains(upg, TokWebsocket)
  IN IF a = "no" \/ bb = "no" THEN "no" ELSE IF a = "yes" /\ bb = "yes" THEN "yes" ELSE "either"

Result(c) ==
  CASE c.fn = "FormatCloseMessage" -> [bytes |-> FormatClose(c.code, c.text)]
    [] c.fn = "IsCloseError" -> [bool |-> IsCloseErr(c.err, c.codes)]
    [] c.fn = "IsUnexpectedCloseError" -> [bool |-> IsUnexpectedClose(c.err, c.codes)]
    [] c.fn = "Subprotocols" -> [list |-> SubprotocolsOf(c.lines)]
    [] c.fn = "IsWebSocketUpgrade" -> [tri |-> IsWSUpgrade(c.conn, c.upg)]

(* does an observed result agree with the specification? *)
Agrees(c, r) ==
  CASE c.fn = "FormatCloseMessage" -> r.bytes = Result(c).bytes
    [] c.fn \in {"IsCloseError", "IsUnexpectedCloseError"} -> r.bool = Result(c).bool
    [] c.fn = "Subprotocols" -> r.list = Result(c).list
    [] c.fn = "IsWebSocketUpgrade" -> LET t == Result(c).tri IN t = "either" \/ r.bool = (t = "yes")
=============================================================================
