------------------------------- MODULE MC_C12 -------------------------------
(***************************************************************************)
(* Program spaces for C12 (server handshake).                              *)
(*  Space = "core": the decision product method x Connection x Upgrade x   *)
(*     Version x Key x (CheckOrigin, Origin) x application supplied        *)
(*     Sec-WebSocket-Extensions response header.  Full = TRUE: the whole   *)
(*     product; FALSE: every request with at most two deviations from the  *)
(*     baseline valid request (all single and double defects).             *)
(*  Space = "nego": negotiation on valid requests: subprotocol offers x    *)
(*     Upgrader.Subprotocols x responseHeader (control bytes, CR LF,       *)
(*     Sec-Websocket-Protocol values) x extension offers x                 *)
(*     EnableCompression.  Full = FALSE restricts offers / Subprotocols to *)
(*     five representatives each.                                          *)
(*  Space = "ext": extension offers assembled from the RFC 7230 grammar    *)
(*     on valid requests: a parameter whose value is a quoted-string       *)
(*     BODY = pre . mid . post with quoted-pairs (escaped quote, escaped   *)
(*     backslash), commas, semicolons, "=" and the text                    *)
(*     "permessage-deflate" INSIDE the quotes, in elements before / after  *)
(*     other elements, with and without a real permessage-deflate offer,   *)
(*     one or two header lines x EnableCompression.  Full = FALSE: fewer   *)
(*     element frames around the same bodies.                              *)
(*  Both "core" spaces also contain the structured port variants of the    *)
(*     origin clause: Host port {none, :80, :443, :8080} x Origin scheme   *)
(*     {http, https, ws, wss} x Origin port {none, 80, 443, 8080} with the *)
(*     same host name and no CheckOrigin ("host (with port)" is compared   *)
(*     as text), alone and combined with one other deviation.              *)
(* Header lines are code point sequences; the python concretiser varies    *)
(* case, OWS, extra tokens and line splitting, keys, buffer sizes, pool,   *)
(* HandshakeTimeout - the trace specification re-parses the actual bytes.  *)
(* (generated from tools/upgrade-gen/MC_C12.tla.in: literals expanded)           *)
(***************************************************************************)
EXTENDS WSUpgradeMC

CONSTANTS Space, Full

Methods == << "GET", "POST", "get", "HEAD" >>

ConnVars ==
  << << <<85,112,103,114,97,100,101>> >>,
     << <<117,112,103,114,97,100,101>> >>,
     << <<107,101,101,112,45,97,108,105,118,101,44,32,85,112,103,114,97,100,101>> >>,
     << <<117,80,103,82,97,68,101,44,107,101,101,112,45,97,108,105,118,101>> >>,
     << <<107,101,101,112,45,97,108,105,118,101,32,44,32,117,112,103,114,97,100,101,9,44,102,111,111>> >>,
     << <<107,101,101,112,45,97,108,105,118,101>>, <<85,80,71,82,65,68,69>> >>,
     << <<107,101,101,112,45,97,108,105,118,101>>, <<102,111,111,44,32,117,112,103,114,97,100,101>> >>,
     << >>,
     << <<107,101,101,112,45,97,108,105,118,101>> >>,
     << <<120,117,112,103,114,97,100,101>> >>,
     << <<107,101,101,112,45,97,108,105,118,101,44,32,117,112,103,114,97,100,101,115>> >>,
     << <<117,112,32,103,114,97,100,101>> >> >>

UpgVars ==
  << << <<119,101,98,115,111,99,107,101,116>> >>,
     << <<87,101,98,83,111,99,107,101,116>> >>,
     << <<104,50,99,44,32,119,101,98,115,111,99,107,101,116>> >>,
     << <<87,69,66,83,79,67,75,69,84,44,104,50,99>> >>,
     << <<104,50,99,32,44,9,119,101,98,115,111,99,107,101,116,32,44,32,102,111,111>> >>,
     << <<104,50,99>>, <<119,101,98,115,111,99,107,101,116>> >>,
     << <<104,50,99>>, <<102,111,111,44,32,119,69,98,83,111,67,107,69,116>> >>,
     << >>,
     << <<104,50,99>> >>,
     << <<120,119,101,98,115,111,99,107,101,116>> >>,
     << <<104,50,99,44,32,119,101,98,115,111,99,107,101,116,115>> >>,
     << <<119,101,98,32,115,111,99,107,101,116>> >> >>

VerVars == << << <<49,51>> >>, << <<56,44,32,49,51>> >>, << <<49,50>> >>, << <<49,51,48>> >>, << >> >>

Key(cls, pres, v) == [present |-> pres, cls |-> cls, v |-> v]
KeyVars ==
  << Key("valid", TRUE, <<100,71,104,108,73,72,78,104,98,88,66,115,90,83,66,117,98,50,53,106,90,81,61,61>>),
     Key("len15", TRUE, <<81,85,74,68,82,69,86,71,82,48,104,74,83,107,116,77,84,85,53,80>>),
     Key("len17", TRUE, <<81,85,74,68,82,69,86,71,82,48,104,74,83,107,116,77,84,85,53,80,85,70,69,61>>),
     Key("len18", TRUE, <<81,85,74,68,82,69,86,71,82,48,104,74,83,107,116,77,84,85,53,80,85,70,70,83>>),
     Key("len14", TRUE, <<81,85,74,68,82,69,86,71,82,48,104,74,83,107,116,77,84,85,52,61>>),
     Key("empty", TRUE, << >>),
     Key("badalpha", TRUE, <<100,71,104,108,73,72,78,104,98,88,66,115,90,83,66,117,98,50,53,106,42,81,61,61>>),
     Key("urlsafe", TRUE, <<45,95,45,95,45,95,45,95,45,95,45,95,45,95,45,95,45,95,45,95,45,119,61,61>>),
     Key("absent", FALSE, << >>),
     \* decodes to 16 octets, not the canonical encoding (22nd symbol with non-zero unused bits)
     Key("noncanon", TRUE, <<100,71,104,108,73,72,78,104,98,88,66,115,90,83,66,117,98,50,53,106,90,82,61,61>>) >>

(* all 15 non-canonical spellings of a 16-octet nonce: the 22nd symbol carries 2 data bits and 4 unused bits *)
B64Chars == <<65,66,67,68,69,70,71,72,73,74,75,76,77,78,79,80,81,82,83,84,85,86,87,88,89,90,97,98,99,100,101,102,103,104,105,106,107,108,109,110,111,112,113,114,115,116,117,118,119,120,121,122,48,49,50,51,52,53,54,55,56,57,43,47>>
NonCanon(k, j) == [k EXCEPT ![22] = B64Chars[(B64Val(k[22]) \div 16) * 16 + j + 1]]
NonCanonKeys == {Key("noncanon", TRUE, NonCanon(k, j)) : k \in {<<100,71,104,108,73,72,78,104,98,88,66,115,90,83,66,117,98,50,53,106,90,81,61,61>>, <<65,65,65,65,65,65,65,65,65,65,65,65,65,65,65,65,65,65,65,65,65,65,61,61>>, <<47,47,47,47,47,47,47,47,47,47,47,47,47,47,47,47,47,47,47,47,47,119,61,61>>}, j \in 1..15}

Host0 == <<101,120,97,109,112,108,101,46,116,101,115,116>>
Org(pres, y) == LET o == [present |-> pres, shape |-> "plain", scheme |-> <<104,116,116,112>>, y |-> y, port |-> << >>]
                IN o @@ [str |-> IF pres THEN OriginString(o) ELSE << >>]
OriginVars ==
  << << "nil", Org(FALSE, << >>) >>,
     << "nil", Org(TRUE, Host0) >>,
     << "nil", Org(TRUE, <<111,116,104,101,114,46,116,101,115,116>>) >>,
     << "true", Org(TRUE, <<111,116,104,101,114,46,116,101,115,116>>) >>,
     << "false", Org(TRUE, Host0) >>,
     << "false", Org(FALSE, << >>) >> >>

NoFaultRec == [op |-> 0, kind |-> "err", closeErr |-> FALSE, hijackErr |-> FALSE]
NoProto == [present |-> FALSE, v |-> << >>]
AppExtKey == <<83,101,99,45,87,101,98,115,111,99,107,101,116,45,69,120,116,101,110,115,105,111,110,115>>
RHX(nil, hasExt, key, v, proto, extras) == [nil |-> nil, hasExt |-> hasExt, extKey |-> key, extV |-> v, proto |-> proto, extras |-> extras]
RH(nil, hasExt, proto, extras) == RHX(nil, hasExt, AppExtKey, <<120,45,97,112,112,45,101,120,116,101,110,115,105,111,110>>, proto, extras)
NilRH == RH(TRUE, FALSE, NoProto, << >>)
Cfg(co, subsNil, subs, compress) ==
  [checkOrigin |-> co, subsNil |-> subsNil, subs |-> subs, compress |-> compress, hto |-> 0, errfn |-> FALSE,
   rbuf |-> 0, wbuf |-> 0, pool |-> FALSE, hsize |-> 4096, hwsize |-> 4096]

ReqH(m, c, u, v, k, h, o, proto, ext) ==
  [method |-> m, conn |-> c, upg |-> u, ver |-> v, key |-> k, host |-> h, origin |-> o, proto |-> proto, ext |-> ext]
Req(m, c, u, v, k, o, proto, ext) == ReqH(m, c, u, v, k, Host0, o, proto, ext)

(* structured port variants of the origin clause: [host, origin] *)
OrgP(scheme, y, port) == LET o == [present |-> TRUE, shape |-> "plain", scheme |-> scheme, y |-> y, port |-> port]
                         IN o @@ [str |-> OriginString(o)]
PHostPorts == {<< >>, <<58,56,48>>, <<58,52,52,51>>, <<58,56,48,56,48>>}
POrgPorts  == {<< >>, <<56,48>>, <<52,52,51>>, <<56,48,56,48>>}
PSchemes   == {<<104,116,116,112>>, <<104,116,116,112,115>>, <<119,115>>, <<119,115,115>>}
PNames     == {<<Host0, Host0>>, <<Host0, <<69,88,65,77,80,76,69,46,116,101,115,116>>>>, <<<<49,50,55,46,48,46,48,46,49>>, <<49,50,55,46,48,46,48,46,49>>>>, <<<<91,58,58,49,93>>, <<91,58,58,49,93>>>>}
PortVars == {[host |-> n[1] \o hp, origin |-> OrgP(sc, n[2], op)] : n \in PNames, hp \in PHostPorts, sc \in PSchemes, op \in POrgPorts}

-----------------------------------------------------------------------------
Dims == << Len(Methods), Len(ConnVars), Len(UpgVars), Len(VerVars), Len(KeyVars), Len(OriginVars), 2 >>
Base == << 1, 1, 1, 1, 1, 1, 1 >>
(* all index vectors with at most two deviations from the baseline request *)
QuickIVs == UNION {{[[Base EXCEPT ![d1] = a] EXCEPT ![d2] = b] : a \in 1..Dims[d1], b \in 1..Dims[d2]} :
                   d1 \in 1..7, d2 \in 1..7}
IVs == IF Full THEN (1..Dims[1]) \X (1..Dims[2]) \X (1..Dims[3]) \X (1..Dims[4]) \X (1..Dims[5]) \X (1..Dims[6]) \X (1..2)
       ELSE QuickIVs

CoreProg(iv) ==
  [req |-> Req(Methods[iv[1]], ConnVars[iv[2]], UpgVars[iv[3]], VerVars[iv[4]], KeyVars[iv[5]], OriginVars[iv[6]][2], << >>, << >>),
   cfg |-> Cfg(OriginVars[iv[6]][1], TRUE, << >>, FALSE),
   rh  |-> IF iv[7] = 2 THEN RH(FALSE, TRUE, NoProto, << >>) ELSE NilRH,
   fault |-> NoFaultRec]

(* a port variant on a request with at most one other deviation (dimensions 1..5 and 7; CheckOrigin stays nil) *)
PortProg(pv, iv) ==
  [req |-> ReqH(Methods[iv[1]], ConnVars[iv[2]], UpgVars[iv[3]], VerVars[iv[4]], KeyVars[iv[5]], pv.host, pv.origin, << >>, << >>),
   cfg |-> Cfg("nil", TRUE, << >>, FALSE),
   rh  |-> IF iv[7] = 2 THEN RH(FALSE, TRUE, NoProto, << >>) ELSE NilRH,
   fault |-> NoFaultRec]
PortIVs == {Base} \cup (IF Full THEN UNION {{[Base EXCEPT ![d] = a] : a \in 1..Dims[d]} : d \in {1, 2, 3, 4, 5, 7}}
                        ELSE {[Base EXCEPT ![1] = 2], [Base EXCEPT ![3] = 8], [Base EXCEPT ![5] = 2]})

IsCoreProgram(x) ==
  \/ \E iv \in IVs : x = CoreProg(iv)
  \/ \E pv \in PortVars : \E iv \in PortIVs : x = PortProg(pv, iv)
  \/ \E k \in NonCanonKeys : x = [CoreProg(Base) EXCEPT !.req.key = k]

-----------------------------------------------------------------------------
P1 == <<99,104,97,116>>
P2 == <<115,117,112,101,114,99,104,97,116>>
P3 == <<118,50,46,120>>
P4 == <<114,111,103,117,101>>

RECURSIVE Perms(_)
Perms(S) == IF S = {} THEN {<< >>} ELSE UNION {{<< x >> \o q : q \in Perms(S \ {x})} : x \in S}
Lists(S) == UNION {Perms(T) : T \in SUBSET S}        \* ordered subsets

CommaSp == <<44,32>>
RECURSIVE Join(_)
Join(q) == IF q = << >> THEN << >> ELSE IF Len(q) = 1 THEN q[1] ELSE q[1] \o CommaSp \o Join(Tail(q))
OfferLines(q) == IF q = << >> THEN << >> ELSE << Join(q) >>

OfferLists == IF Full THEN Lists({P1, P2, P3})
              ELSE {<< >>, << P1 >>, << P1, P2 >>, << P2, P1 >>, << P3 >>}
SubsVars == IF Full THEN {[nil |-> TRUE, list |-> << >>]} \cup {[nil |-> FALSE, list |-> q] : q \in Lists({P1, P2, P3})}
            ELSE {[nil |-> TRUE, list |-> << >>], [nil |-> FALSE, list |-> << >>], [nil |-> FALSE, list |-> << P1 >>],
                  [nil |-> FALSE, list |-> << P2, P1 >>], [nil |-> FALSE, list |-> << P3, P2 >>]}

X(name, v) == [name |-> name, v |-> v]
AllCtl == [i \in 1..33 |-> IF i = 33 THEN 127 ELSE i - 1]      \* every byte 0..31 and 127
RHVars ==
  { NilRH,
    RH(FALSE, FALSE, NoProto, << >>),
    RH(FALSE, FALSE, NoProto, << X(<<88,45,65,112,112>>, <<112,108,97,105,110,32,118,97,108,117,101>>), X(<<83,101,116,45,67,111,111,107,105,101>>, <<97,61,98,59,32,80,97,116,104,61,47>>), X(<<83,101,116,45,67,111,111,107,105,101>>, <<99,61,100>>) >>),
    RH(FALSE, FALSE, NoProto, << X(<<88,45,67,116,108>>, <<97>> \o AllCtl \o <<122>>) >>),
    RH(FALSE, FALSE, NoProto, << X(<<88,45,65,112,112>>, <<118,13,10,88,45,73,110,106,101,99,116,101,100,58,32,121,101,115>>) >>),
    RH(FALSE, FALSE, NoProto, << X(<<88,45,65,112,112>>, <<118,13,10,13,10,72,84,84,80,47,49,46,49,32,50,48,48,32,79,75,13,10>>), X(<<88,45,67,114>>, <<97,13,98>>), X(<<88,45,76,102>>, <<97,10,98>>) >>),
    RH(FALSE, FALSE, NoProto, << X(<<88,45,72,105>>, <<99,97,102,233,32,128,255>>) >>),
    RH(FALSE, FALSE, [present |-> TRUE, v |-> P1], << >>),
    RH(FALSE, FALSE, [present |-> TRUE, v |-> P4], << X(<<88,45,65,112,112>>, <<120>>) >>),
    RH(FALSE, FALSE, [present |-> TRUE, v |-> <<99,104,97,116,13,10,88,45,73,110,106,101,99,116,101,100,58,32,121,101,115>>], << >>),
    RH(FALSE, FALSE, [present |-> TRUE, v |-> <<99,104,97,116,13,88>>], << >>),
    RH(FALSE, FALSE, [present |-> TRUE, v |-> <<99,104,97,116,10,88,45,73,110,106,101,99,116,101,100,58,32,121,101,115>>], << >>) }

ExtVarsFull ==
  { << >>,
    << <<112,101,114,109,101,115,115,97,103,101,45,100,101,102,108,97,116,101>> >>,
    << <<112,101,114,109,101,115,115,97,103,101,45,100,101,102,108,97,116,101,59,32,99,108,105,101,110,116,95,109,97,120,95,119,105,110,100,111,119,95,98,105,116,115>> >>,
    << <<112,101,114,109,101,115,115,97,103,101,45,100,101,102,108,97,116,101,59,32,115,101,114,118,101,114,95,110,111,95,99,111,110,116,101,120,116,95,116,97,107,101,111,118,101,114,59,32,99,108,105,101,110,116,95,110,111,95,99,111,110,116,101,120,116,95,116,97,107,101,111,118,101,114>> >>,
    << <<112,101,114,109,101,115,115,97,103,101,45,100,101,102,108,97,116,101,59,99,108,105,101,110,116,95,109,97,120,95,119,105,110,100,111,119,95,98,105,116,115,61,34,49,53,34,32,59,9,115,101,114,118,101,114,95,109,97,120,95,119,105,110,100,111,119,95,98,105,116,115,32,61,32,49,48>> >>,
    << <<102,111,111,44,32,112,101,114,109,101,115,115,97,103,101,45,100,101,102,108,97,116,101>> >>,
    << <<102,111,111,59,32,120,61,49,59,32,121,61,34,97,92,34,98,34>>, <<112,101,114,109,101,115,115,97,103,101,45,100,101,102,108,97,116,101,59,32,99,108,105,101,110,116,95,109,97,120,95,119,105,110,100,111,119,95,98,105,116,115>> >>,
    << <<102,111,111>> >>,
    << <<120,45,112,101,114,109,101,115,115,97,103,101,45,100,101,102,108,97,116,101,44,32,112,101,114,109,101,115,115,97,103,101,45,100,101,102,108,97,116,101,50,59,32,99,108,105,101,110,116,95,109,97,120,95,119,105,110,100,111,119,95,98,105,116,115>> >>,
    << <<80,69,82,77,69,83,83,65,71,69,45,68,69,70,76,65,84,69>> >>,
    << <<112,101,114,109,101,115,115,97,103,101,45,100,101,102,108,97,116,101,59,32,61,120>> >>,
    << <<102,111,111,59,32,97,61,34,117,110,116,101,114,109,105,110,97,116,101,100,44,32,112,101,114,109,101,115,115,97,103,101,45,100,101,102,108,97,116,101>> >>,
    << <<112,101,114,109,101,115,115,97,103,101,45,100,101,102,108,97,116,101,59,32,97,61,34,110,111,116,32,97,32,116,111,107,101,110,34>> >> }

(* several header lines: an earlier line that is empty / ends with a comma / is malformed, a later proper offer *)
LPmce == <<112,101,114,109,101,115,115,97,103,101,45,100,101,102,108,97,116,101,59,32,99,108,105,101,110,116,95,109,97,120,95,119,105,110,100,111,119,95,98,105,116,115>>
ExtMulti ==
  { << <<>>, LPmce >>, << <<44>>, LPmce >>, << <<120,45,111,116,104,101,114,44>>, LPmce >>, << <<120,45,111,116,104,101,114,32,106,117,110,107>>, LPmce >>,
    << <<120,45,111,116,104,101,114,59,32,112,61,34,49>>, LPmce >>, << <<120,45,111,116,104,101,114,59,32,61,49>>, LPmce >>, << <<120,45,111,116,104,101,114,59,32,112,61,49>>, LPmce >>,
    << <<120,45,111,116,104,101,114>>, <<>>, LPmce >>, << LPmce, <<120,45,111,116,104,101,114,32,106,117,110,107>> >>, << <<120,45,111,116,104,101,114,32,106,117,110,107>>, <<102,111,111>> >> }

(* application supplied Sec-WebSocket-Extensions response header: key spelling x value *)
AppExtKeys == { AppExtKey, <<83,101,99,45,87,101,98,83,111,99,107,101,116,45,69,120,116,101,110,115,105,111,110,115>>, <<115,101,99,45,119,101,98,115,111,99,107,101,116,45,101,120,116,101,110,115,105,111,110,115>> }
AppExtVals == { <<112,101,114,109,101,115,115,97,103,101,45,100,101,102,108,97,116,101,59,32,115,101,114,118,101,114,95,110,111,95,99,111,110,116,101,120,116,95,116,97,107,101,111,118,101,114,59,32,99,108,105,101,110,116,95,110,111,95,99,111,110,116,101,120,116,95,116,97,107,101,111,118,101,114>>,
                <<112,101,114,109,101,115,115,97,103,101,45,100,101,102,108,97,116,101,59,32,115,101,114,118,101,114,95,110,111,95,99,111,110,116,101,120,116,95,116,97,107,101,111,118,101,114>>, <<112,101,114,109,101,115,115,97,103,101,45,100,101,102,108,97,116,101>>, <<120,45,111,116,104,101,114>> }
RHXVars == {RHX(FALSE, TRUE, k, v, NoProto, << >>) : k \in AppExtKeys, v \in AppExtVals}
           \cup {RHX(FALSE, TRUE, AppExtKey, v, [present |-> TRUE, v |-> P1], << X(<<88,45,65,112,112>>, <<120>>) >>) : v \in AppExtVals}

ExtVars == IF Full THEN ExtVarsFull
           ELSE {e \in ExtVarsFull : Len(e) = 0 \/ e[1] \in
                   { <<112,101,114,109,101,115,115,97,103,101,45,100,101,102,108,97,116,101>>, <<112,101,114,109,101,115,115,97,103,101,45,100,101,102,108,97,116,101,59,99,108,105,101,110,116,95,109,97,120,95,119,105,110,100,111,119,95,98,105,116,115,61,34,49,53,34,32,59,9,115,101,114,118,101,114,95,109,97,120,95,119,105,110,100,111,119,95,98,105,116,115,32,61,32,49,48>>,
                     <<102,111,111,59,32,120,61,49,59,32,121,61,34,97,92,34,98,34>>, <<102,111,111>>, <<80,69,82,77,69,83,83,65,71,69,45,68,69,70,76,65,84,69>>, <<102,111,111,59,32,97,61,34,117,110,116,101,114,109,105,110,97,116,101,100,44,32,112,101,114,109,101,115,115,97,103,101,45,100,101,102,108,97,116,101>> }}

IsNegoProgram(x) ==
  \E of \in OfferLists : \E sb \in SubsVars : \E rh \in RHVars : \E ex \in ExtVars : \E cp \in BOOLEAN :
     x = [req |-> Req("GET", ConnVars[1], UpgVars[1], VerVars[1], KeyVars[1], OriginVars[1][2], OfferLines(of), ex),
          cfg |-> Cfg("nil", sb.nil, sb.list, cp),
          rh  |-> rh,
          fault |-> NoFaultRec]

(* nego, second part: application extension header x client offers x EnableCompression; multi-line offers *)
ExtFew == { << >>, << <<112,101,114,109,101,115,115,97,103,101,45,100,101,102,108,97,116,101>> >>, << <<102,111,111>> >>, << <<112,101,114,109,101,115,115,97,103,101,45,100,101,102,108,97,116,101,59,32,115,101,114,118,101,114,95,110,111,95,99,111,110,116,101,120,116,95,116,97,107,101,111,118,101,114,59,32,99,108,105,101,110,116,95,110,111,95,99,111,110,116,101,120,116,95,116,97,107,101,111,118,101,114>> >> }
IsNego2Program(x) ==
  \/ \E rh \in RHXVars : \E ex \in ExtFew \cup (IF Full THEN ExtMulti ELSE {}) : \E cp \in BOOLEAN : \E sb \in {[nil |-> TRUE, list |-> << >>], [nil |-> FALSE, list |-> << P1 >>]} :
        x = [req |-> Req("GET", ConnVars[1], UpgVars[1], VerVars[1], KeyVars[1], OriginVars[1][2], OfferLines(<< P1 >>), ex),
             cfg |-> Cfg("nil", sb.nil, sb.list, cp), rh |-> rh, fault |-> NoFaultRec]
  \/ \E ex \in ExtMulti : \E cp \in BOOLEAN : \E rh \in {NilRH, RH(FALSE, FALSE, NoProto, << >>)} :
        x = [req |-> Req("GET", ConnVars[1], UpgVars[1], VerVars[1], KeyVars[1], OriginVars[1][2], << >>, ex),
             cfg |-> Cfg("nil", TRUE, << >>, cp), rh |-> rh, fault |-> NoFaultRec]

-----------------------------------------------------------------------------
(* Space "ext": quoted-string parameter values.  The pieces are written as *)
(* they appear on the wire (between the DQUOTEs); every concatenation      *)
(* pre . mid . post is a well-formed quoted-string body.                   *)
QPre  == { <<>>, <<97>>, <<97,92,34>>, <<92,92>>, <<92,34>>, <<97,92,92,92,34>> }       \* (empty)  a  a\"  \\  \"  a\\\"
QMid  == { <<44,32,112,101,114,109,101,115,115,97,103,101,45,100,101,102,108,97,116,101>>, <<59,32,112,101,114,109,101,115,115,97,103,101,45,100,101,102,108,97,116,101>>, <<44,112,101,114,109,101,115,115,97,103,101,45,100,101,102,108,97,116,101,59,32,99,108,105,101,110,116,95,109,97,120,95,119,105,110,100,111,119,95,98,105,116,115>>,
           <<112,101,114,109,101,115,115,97,103,101,45,100,101,102,108,97,116,101>>, <<61,112,101,114,109,101,115,115,97,103,101,45,100,101,102,108,97,116,101,44>> }
QPost == { <<>>, <<44,32,98>>, <<92,34,44,32,98>>, <<44,32,98,92,34>>, <<59,32,99,61,100>> }
QBodies == {a \o b \o c : a \in QPre, b \in QMid, c \in QPost}

Quoted(b) == <<34>> \o b \o <<34>>
(* element frames: what stands before and behind the quoted value *)
QHeads == IF Full THEN { <<102,111,111,59,32,120,61>>, <<102,111,111,59,32,120,61,49,59,32,121,32,61,32>>, <<98,97,114,44,32,102,111,111,59,120,61>>, <<112,101,114,109,101,115,115,97,103,101,45,100,101,102,108,97,116,101,50,59,32,112,61>>, <<112,101,114,109,101,115,115,97,103,101,45,100,101,102,108,97,116,101,59,32,99,108,105,101,110,116,95,109,97,120,95,119,105,110,100,111,119,95,98,105,116,115,61>> }
          ELSE { <<102,111,111,59,32,120,61>>, <<98,97,114,44,32,102,111,111,59,120,61>>, <<112,101,114,109,101,115,115,97,103,101,45,100,101,102,108,97,116,101,59,32,99,108,105,101,110,116,95,109,97,120,95,119,105,110,100,111,119,95,98,105,116,115,61>> }
QTails == IF Full THEN { <<>>, <<44,32,98,97,114>>, <<59,32,122,61,49>>, <<32,59,122,61,34,113,34,44,32,98,97,114,59,32,119>>, <<44,32,112,101,114,109,101,115,115,97,103,101,45,100,101,102,108,97,116,101>> }
          ELSE { <<>>, <<44,32,98,97,114>>, <<44,32,112,101,114,109,101,115,115,97,103,101,45,100,101,102,108,97,116,101>> }
QLines == {h \o Quoted(b) \o t : h \in QHeads, b \in QBodies, t \in QTails}
ExtOffers == {<< l >> : l \in QLines}
             \cup (IF Full THEN {<< <<98,97,114>>, l >> : l \in QLines} ELSE {<< <<98,97,114>>, <<102,111,111,59,32,120,61>> \o Quoted(b) >> : b \in QBodies})

IsExtProgram(x) ==
  \E ex \in ExtOffers : \E cp \in (IF Full THEN BOOLEAN ELSE {TRUE}) :
     x = [req |-> Req("GET", ConnVars[1], UpgVars[1], VerVars[1], KeyVars[1], OriginVars[1][2], << >>, ex),
          cfg |-> Cfg("nil", TRUE, << >>, cp),
          rh  |-> NilRH,
          fault |-> NoFaultRec]

MCIsProgram(x) == IF Space = "core" THEN IsCoreProgram(x) ELSE IF Space = "nego" THEN (IsNegoProgram(x) \/ IsNego2Program(x)) ELSE IsExtProgram(x)
=============================================================================
