SPECIFICATION Spec
CONSTANTS
  Cfgs <- MCCfgs
  Streams <- MCStreams
  Cuts <- MCCuts
  Progs <- MCProgs
  LimitSet = {10}
  Hist = 1
  Policy = "per_call"
CONSTRAINT Emit
INVARIANTS InvCompleteIsWhole InvOrder InvFailStop InvNothingPastViolation InvLimitHistoryFree InvOverLimit InvDecode
CHECK_DEADLOCK FALSE
