SPECIFICATION Spec
CONSTANTS
  Codes = {1000, 1001, 1005, 3000, 4999}
  MaxData = 2
CONSTRAINT Emit
INVARIANTS InvConsistent InvComplete
PROPERTIES Completes
CHECK_DEADLOCK FALSE
