SPECIFICATION Spec
CONSTANTS
  Cfgs <- MCCfgs
  Streams <- MCStreams
  Cuts <- MCCuts
  Progs <- MCProgs
  CtlLens = {0, 125}
  ReasonLens = {0, 123}
CONSTRAINT Emit
INVARIANTS InvCompleteIsWhole InvOrder InvFailStop InvNothingPastViolation InvDecode
CHECK_DEADLOCK FALSE
