------------------------------- MODULE MC_C05 -------------------------------
(* Program space for C05: valid streams x every cut class x fault kinds x  *)
(* read programs.  Concrete byte offsets inside a class are expanded by    *)
(* the concretiser.                                                        *)
EXTENDS WSReaderMC

CONSTANTS Roles, Compressed, HModes, Kinds

MCCfgs == {[role |-> r, pmce |-> p, limit |-> 0, hmode |-> h, herrAt |-> 0, policy |-> "per_message"]
             : r \in Roles, p \in Compressed, h \in HModes}

T(c, fin, n) == Fr(c, OpText, fin, n)
D(c, fin, n) == Fr(c, OpBin, fin, n)
C(c, fin, n) == Fr(c, OpCont, fin, n)
Z(f, v, plain) == [f EXCEPT !.r1 = TRUE, !.comp = v, !.plain = plain]

Plain(c) ==
  { << D(c, TRUE, 5) >>,
    << T(c, FALSE, 4), C(c, TRUE, 6) >>,
    << D(c, FALSE, 3), Fr(c, OpPing, TRUE, 2), C(c, FALSE, 0), C(c, TRUE, 200) >>,
    << D(c, TRUE, 3), T(c, TRUE, 130) >>,
    << D(c, FALSE, 400) >>,
    << D(c, TRUE, 2), CloseFr(c, 1000, 3) >>,
    << T(c, TRUE, 0), D(c, TRUE, 1) >> }

Comp(c) ==
  { << Z(T(c, TRUE, 0), "fixed", 50) >>,
    << Z(T(c, FALSE, 7), "std6", 300), C(c, FALSE, 5), C(c, TRUE, 0) >>,
    << Z(D(c, TRUE, 0), "stored", 20), D(c, TRUE, 4) >>,
    \* compressed payloads larger than the read buffer (the transport read that carries the fault can be a direct read)
    << Z(D(c, TRUE, 0), "stored", 700) >>,
    << Z(T(c, TRUE, 0), "fixed", 600) >>,
    \* a sender that flushes its compressor inside the message: what arrives before the flush marker is a complete deflate prefix
    << Z(T(c, TRUE, 0), "fixed2", 800) >>, << Z(D(c, TRUE, 0), "std2", 3000) >> }

MCStreams(c) == Plain(c) \cup (IF c.pmce THEN Comp(c) ELSE {})

PartsOf(f) == {"start", "hdr1"} \cup (IF HdrLen(f) > 2 THEN {"hdr"} ELSE {})
              \cup (IF f.len > 0 \/ f.comp # "" THEN {"pay0"} ELSE {})
              \cup (IF f.len >= 2 \/ f.comp # "" THEN {"pay"} ELSE {})

MCCuts(st) ==
  UNION {{[frame |-> i, part |-> p, kind |-> k, with |-> w, resume |-> r] :
             p \in PartsOf(st[i]), k \in Kinds, w \in BOOLEAN, r \in BOOLEAN} : i \in 1..Len(st)}
  \cup {[frame |-> i, part |-> "end", kind |-> k, with |-> TRUE, resume |-> r] :
      i \in 1..Len(st), k \in Kinds, r \in BOOLEAN}
  \cup {[frame |-> Len(st) + 1, part |-> "start", kind |-> k, with |-> FALSE, resume |-> FALSE] : k \in Kinds}

HasComp(st) == \E i \in 1..Len(st) : st[i].comp # ""
MCProgs(st) ==
  { << Op("RM"), Op("RM"), Op("RM") >>,
    << Op("NR"), Op("RA"), Op("NR"), Op("RA"), Op("NR") >>,
    << Op("NR"), Rc, Op("NR"), Rc, Op("NR"), Rc >>,       \* io.Copy out of the message reader
    << Op("NR"), Op("NR"), Op("NR") >>,
    << Op("NR"), Rd(1), Rd(4096), Rd(4096), Rd(4096), Op("RM"), Op("RM") >>,
    << Op("NR"), Rd(512), Rd(512), Rd(512), Op("NR"), Op("RA") >>,
    << Op("NR"), Rd(4096), Op("SRD"), Rd(4096), Op("SRD"), Op("RM"), Op("SRD"), Op("RM") >>,
    << Op("RM"), Op("SRD"), Op("RM"), Op("SRD"), Op("RM") >>,
    \* JoinMessages: the joined stream ends with an error, never silently
    << Ja(0), Op("NR") >>, << Ja(2), Op("NR") >>, << Op("RM"), Ja(1), Op("NR") >>,
    \* the application has sent its close and keeps reading (closing handshake): what arrives is still delivered
    << Op("WCL"), Op("RM"), Op("RM"), Op("RM") >> }
=============================================================================
