----------------------------- MODULE WSCloseTrace -----------------------------
(* Recorded closing handshakes between a real Dialer connection and a real  *)
(* Upgrader connection: one "Handshake" event per run carrying what each    *)
(* side sent (decoded from the pipe) and what its read loop reported.        *)
EXTENDS WSCloseRules, Json, IOUtils, TLC
Trace == ndJsonDeserialize(IOEnv.TRACE_FILE)
VARIABLE l
ASSUME TLCSet(1, 0)
Ev == Trace[l]
F(s) == [i \in DOMAIN s |-> [k |-> s[i].k, code |-> s[i].code]]
TStep == /\ l <= Len(Trace)
         /\ \/ Ev.e = "Reset"
            \/ /\ Ev.e = "Handshake"
               /\ LET pl == [e \in E |-> Ev.plan[e]]
                      o  == [e \in E |-> F(Ev.out[e])]
                      r  == [e \in E |-> Ev.rerr[e]]
                  IN Consistent(pl, o, r) /\ Complete(pl, o, r)
         /\ l' = l + 1 /\ TLCSet(1, l)
TSpec == l = 1 /\ [][TStep]_l
Accepted == IF TLCGet(1) = Len(Trace) THEN TRUE ELSE PrintT(<< "REJECTED-AT", TLCGet(1) + 1, Len(Trace) >>) /\ FALSE
=============================================================================
