------------------------------- MODULE MC_C06 -------------------------------
(* Program space for C06: read limit exact, history-independent.           *)
EXTENDS WSReaderMC

CONSTANTS LimitSet, Hist, Policy

(* "memory used to receive a frame never depends on the length its header claims": with a generous limit  *)
(* (2^30) a header may claim 2^24 or 2^28 bytes within the limit while only a few bytes follow.            *)
BigL == 1073741824
MCCfgs == {[role |-> r, pmce |-> FALSE, limit |-> L, hmode |-> "default", herrAt |-> 0, policy |-> Policy]
             : r \in {"server", "client"}, L \in LimitSet \cup {BigL}}
          \* the limit counts payload bytes ON THE WIRE: a compressed message of at most L wire bytes can be read in full
          \* however large it inflates (limit 1000; 3000 bytes of the harness text deflate to about 470)
          \cup {[role |-> r, pmce |-> TRUE, limit |-> 1000, hmode |-> "default", herrAt |-> 0, policy |-> Policy] : r \in {"server", "client"}}

D(c, fin, n) == Fr(c, OpBin, fin, n)
C(c, fin, n) == Fr(c, OpCont, fin, n)
Huge(f, k) == [f EXCEPT !.lk = k]
Ping(c) == Fr(c, OpPing, TRUE, 3)

Within(c) == LET L == c.limit IN
  {<< D(c, TRUE, L) >>, << D(c, TRUE, L - 1) >>,
   << D(c, FALSE, L - (L \div 2)), C(c, TRUE, L \div 2) >>,
   << D(c, FALSE, 0), Ping(c), C(c, TRUE, L) >>,
   << D(c, FALSE, 1), C(c, FALSE, L - 1), C(c, TRUE, 0) >>}

Over(c) == LET L == c.limit IN
  {<< D(c, TRUE, L + 1) >>,
   << D(c, FALSE, L), C(c, TRUE, 1) >>,
   << D(c, FALSE, 1), Ping(c), C(c, TRUE, L) >>,
   << D(c, FALSE, L - 1), C(c, FALSE, 1), C(c, TRUE, 1) >>,
   \* the running sum crosses L at a NON-final frame
   << D(c, FALSE, L + 1), C(c, TRUE, 0) >>,
   << D(c, FALSE, L - 1), C(c, FALSE, 2), C(c, TRUE, 1) >>,
   << D(c, FALSE, L), Ping(c), C(c, FALSE, 1), C(c, FALSE, 1), C(c, TRUE, 0) >>,
   << Huge(D(c, TRUE, 3), "max") >>,
   << Huge(D(c, TRUE, 3), "top") >>,
   << D(c, FALSE, 1), Huge(C(c, TRUE, 3), "max") >>,
   << D(c, FALSE, 0), Huge(C(c, TRUE, 3), "max") >>,
   << D(c, FALSE, 1), Huge(C(c, TRUE, 3), "top") >>,
   << [D(c, TRUE, 268435456) EXCEPT !.short = 4] >>,
   << D(c, FALSE, 1), [C(c, TRUE, 268435456) EXCEPT !.short = 3] >>}

Claims(c) ==
  {<< [D(c, TRUE, 268435456) EXCEPT !.short = 4] >>,
   << [D(c, TRUE, 16777216) EXCEPT !.short = 17] >>,
   << D(c, FALSE, 1), [C(c, TRUE, 268435456) EXCEPT !.short = 3] >>,
   << D(c, FALSE, 2), Ping(c), [C(c, FALSE, 16777216) EXCEPT !.short = 1] >>}

Z(f, v, plain) == [f EXCEPT !.r1 = TRUE, !.comp = v, !.plain = plain]
CompWithin(c) ==
  {<< Z(D(c, TRUE, 0), "std6", 3000) >>,
   << Z(D(c, TRUE, 0), "std9", 1500), D(c, TRUE, 7) >>,
   << Z(D(c, FALSE, -3), "std6", 3000), Ping(c), C(c, FALSE, 1), C(c, TRUE, 0) >>,
   << D(c, TRUE, 200), Z(D(c, TRUE, 0), "std1", 2000) >>}

MCStreams(c) ==
  IF c.pmce THEN CompWithin(c) ELSE
  IF c.limit = BigL THEN {h \o t : h \in {<< >>, << D(c, TRUE, 5) >>}, t \in Claims(c)} ELSE
                {h \o t \o a : h \in UpTo(Within(c), Hist), t \in Within(c) \cup Over(c),
                               a \in {<< >>, << D(c, TRUE, 1) >>}}

MCCuts(st) == {NoCut}

Treats == {<< Op("RM") >>, << Op("NR") >>, << Op("NR"), Rd(1) >>, << Op("NR"), Op("RF") >>, << Op("NR"), Op("RA") >>}
MCProgs(st) == {p \o << Op("RM") >> : p \in Concats(Treats, NumData(st))}
               \cup {<< x >> \o p \o << Op("RM") >> : x \in {Swd(-1), Op("WCP")}, p \in Concats({<< Op("RM") >>, << Op("NR"), Op("RA") >>}, NumData(st))}
=============================================================================
