------------------------------ MODULE WSCloseMC ------------------------------
EXTENDS WSClose, Json

CONSTANTS Codes, MaxData

Plans == {p \in [E -> [init : BOOLEAN, code : Codes, ndata : 0..MaxData]] : \E e \in E : p[e].init}

Init == /\ plan \in Plans
        /\ st = [e \in E |-> "open"] /\ ch = [e \in E |-> << >>] /\ out = [e \in E |-> << >>]
        /\ rerr = [e \in E |-> -1] /\ left = [e \in E |-> plan[e].ndata]
Spec == Init /\ [][Next]_vars /\ Fair

Emit == (\A e \in E : out[e] = << >> /\ st[e] = "open" /\ left[e] = plan[e].ndata) =>
          PrintT(<< "PROG", ToJson([a |-> plan["a"], b |-> plan["b"]]) >>)

InvConsistent == Consistent(plan, out, rerr)
Done == \A e \in E : st[e] = "done"
InvComplete == Done => Complete(plan, out, rerr)
(* liveness: under fair scheduling the closing handshake always completes on both sides *)
Completes == <>Done
=============================================================================
