SPECIFICATION Spec
CONSTANTS
  Cfgs <- MCCfgs
  Streams <- MCStreams
  Cuts <- MCCuts
  Progs <- MCProgs
  Roles = {"server", "client"}
  Lens = {0, 1, 2, 125, 126, 127}
  BigLens = {65535, 65536}
  Variants = {"stored", "fixed", "fixed2", "bfinal", "std-2", "std0", "std1", "std5", "std9", "std2"}
  HModes = {"chain", "default"}
CONSTRAINT Emit
INVARIANTS InvCompleteIsWhole InvOrder InvFailStop InvNothingPastViolation InvDecode
CHECK_DEADLOCK FALSE
