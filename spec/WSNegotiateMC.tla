---------------------------- MODULE WSNegotiateMC ----------------------------
(***************************************************************************)
(* Exhaustive exploration of the compression negotiation model.  Each      *)
(* initial state is one abstract program (printed as JSON for the Go       *)
(* driver).  The behaviour executes the program on the STRICT model        *)
(* (Dialer offers iff enabled; Upgrader enables iff enabled and offered    *)
(* and announces both parameters; the client enables iff the first         *)
(* announced permessage-deflate has both parameters, fails if it lacks     *)
(* one), producing canonical observations; the invariants state C15 on the *)
(* model and check that every canonical observation is admitted by the     *)
(* envelope that judges the implementation.                                *)
(***************************************************************************)
EXTENDS WSNegotiate, Json

CONSTANT IsProgram(_)

VARIABLES prog, pc, ns, m, ok
mvars == << prog, pc, ns, m, ok >>

(* m: strict state [c, s : "on" | "off" (compression installed), wc, failed] *)
M0 == [c |-> "off", s |-> "off", wc |-> [c |-> TRUE, s |-> TRUE], failed |-> FALSE]

Init == IsProgram(prog) /\ pc = 0 /\ ns = N0 /\ m = M0 /\ ok = TRUE

On(x) == IF x THEN "on" ELSE "off"

DoHandshake ==
  /\ pc = 0
  /\ LET cl == StrictClient(prog)
         ev == [ok |-> cl # "fail", reqExt |-> StrictReqExt(prog), respExt |-> StrictRespExt(prog)]
     IN /\ ok' = (ok /\ HandshakeAllowed(prog, ev))
        /\ ns' = AfterHandshake(ns, ev)
        /\ m' = [m EXCEPT !.c = IF prog.mode = "offer" THEN On(StrictServerOn(prog)) ELSE (IF cl = "on" THEN "on" ELSE "off"),
                          !.s = IF prog.mode = "reply" THEN (IF cl = "on" THEN "on" ELSE "off") ELSE On(StrictServerOn(prog)),
                          !.failed = (cl = "fail")]
  /\ pc' = 1 /\ UNCHANGED prog

Other(sd) == IF sd = "c" THEN "s" ELSE "c"

DoStep ==
  /\ pc >= 1 /\ pc <= Len(prog.steps) /\ ~m.failed
  /\ LET st == prog.steps[pc] IN
     CASE st.op = "send" ->
            LET ev == [side |-> st.side, n |-> 1, rsv1 |-> (m[st.side] = "on" /\ m.wc[st.side]), wireok |-> TRUE,
                       recv |-> IF prog.mode = "pair" THEN (IF m[st.side] = "on" /\ m.wc[st.side] /\ m[Other(st.side)] = "off" THEN "err" ELSE "ok") ELSE "na",
                       werr |-> FALSE]
            IN ok' = (ok /\ SendAllowed(prog, ns, ev)) /\ ns' = AfterSend(ns, ev) /\ m' = m
       [] st.op = "feed" ->
            LET ev == [side |-> st.side, comp |-> st.comp, res |-> IF st.comp /\ m[st.side] = "off" THEN "err" ELSE "ok"]
            IN ok' = (ok /\ FeedAllowed(prog, ns, ev)) /\ ns' = AfterFeed(ns, ev) /\ m' = m
       [] st.op = "ewc" ->
            /\ ok' = (ok /\ ToggleAllowed(prog, ns, st)) /\ ns' = AfterEWC(ns, st)
            /\ m' = [m EXCEPT !.wc[st.side] = st.on]
       [] st.op = "scl" ->
            ok' = (ok /\ ToggleAllowed(prog, ns, st)) /\ ns' = ns /\ m' = m
  /\ pc' = pc + 1 /\ UNCHANGED prog

Next == DoHandshake \/ DoStep
Spec == Init /\ [][Next]_mvars

Emit == pc = 0 => PrintT(<< "PROG", ToJson(prog) >>)

(* every canonical observation of the strict model is admitted *)
InvRefinesEnvelope == ok

(* C15 CompressionAgreement: both endpoints compress or neither does *)
InvAgreement == (pc >= 1 /\ ~m.failed) => m.c = m.s

(* C15 UsedOnlyIfAnnouncedWithBothParams *)
InvOnlyIfBoth == (pc >= 1 /\ ~m.failed /\ (m.c = "on" \/ m.s = "on")) => PmdBoth(Extensions(StrictRespExt(prog)))

(* a real pair enables compression exactly when both sides enabled it *)
InvPair == (pc >= 1 /\ prog.mode = "pair") => (~m.failed /\ (m.c = "on") = (prog.dEn /\ prog.uEn))
=============================================================================
