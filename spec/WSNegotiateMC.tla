---------------------------- MODULE WSNegotiateMC ----------------------------
(***************************************************************************)
(* Exhaustive exploration of the compression negotiation model.  Each      *)
(* initial state is one abstract program (printed as JSON for the Go       *)
(* driver).  The behaviour executes the program on the STRICT model        *)
(* (Dialer offers iff enabled; Upgrader enables iff enabled and offered    *)
(* and announces both parameters; the client enables iff the first         *)
(* announced permessage-deflate has both parameters, fails if it lacks     *)
(* one), producing canonical observations; the invariants state C15 on the *)
(* model and check that every canonical observation is admitted by the     *)
(* envelope that judges the implementation.                                *)
(***************************************************************************)
EXTENDS WSNegotiate, Json

CONSTANT IsProgram(_)

VARIABLES prog, pc, ns, m, ok
mvars == << prog, pc, ns, m, ok >>

(* m: strict state [c, s : "on" | "off" (compression installed), wc, failed, *)
(* ow: per side "none" (no writer open) | "on" | "off" (the compression     *)
(* decision latched when the open writer was obtained), wn: Write calls on  *)
(* the open writer]                                                         *)
M0 == [c |-> "off", s |-> "off", wc |-> [c |-> TRUE, s |-> TRUE], failed |-> FALSE,
       ow |-> [c |-> "none", s |-> "none"], wn |-> [c |-> 0, s |-> 0]]

Init == IsProgram(prog) /\ pc = 0 /\ ns = N0 /\ m = M0 /\ ok = TRUE

On(x) == IF x THEN "on" ELSE "off"

DoHandshake ==
  /\ pc = 0
  /\ LET cl == IF StrictRefused(prog) THEN "fail" ELSE StrictClient(prog)
         ev == [ok |-> cl # "fail", reqExt |-> StrictReqExt(prog), respExt |-> StrictRespExt(prog)]
     IN /\ ok' = (ok /\ HandshakeAllowed(prog, ev))
        /\ ns' = AfterHandshake(ns, ev)
        /\ m' = [m EXCEPT !.c = IF prog.mode = "offer" THEN On(StrictServerOn(prog)) ELSE (IF cl = "on" THEN "on" ELSE "off"),
                          !.s = IF prog.mode = "reply" THEN (IF cl = "on" THEN "on" ELSE "off") ELSE On(StrictServerOn(prog)),
                          !.failed = (cl = "fail")]
  /\ pc' = 1 /\ UNCHANGED prog

Other(sd) == IF sd = "c" THEN "s" ELSE "c"

(* canonical observation of a message written with the decision `cmp` *)
MsgEv(sd, n, cmp) ==
  [side |-> sd, n |-> n, rsv1 |-> cmp, wireok |-> TRUE,
   recv |-> IF prog.mode = "pair" THEN (IF cmp /\ m[Other(sd)] = "off" THEN "err" ELSE "ok") ELSE "na",
   werr |-> FALSE]

DoStep ==
  /\ pc >= 1 /\ pc <= Len(prog.steps) /\ ~m.failed
  /\ LET st == prog.steps[pc] IN
     CASE st.op = "send" ->
            \* a writer still open on this side is closed implicitly first (the decision latched at its NextWriter)
            LET cev == [MsgEv(st.side, m.wn[st.side], m.ow[st.side] = "on") EXCEPT !.n = m.wn[st.side]] @@ [implicit |-> TRUE]
                isop == m.ow[st.side] # "none"
                ns1 == IF isop THEN AfterCls(ns, cev) ELSE ns
                ev == MsgEv(st.side, 1, m[st.side] = "on" /\ m.wc[st.side])
            IN /\ ok' = (ok /\ (isop => ClsAllowed(prog, ns, cev)) /\ SendAllowed(prog, ns1, ev))
               /\ ns' = AfterSend(ns1, ev)
               /\ m' = [m EXCEPT !.ow[st.side] = "none", !.wn[st.side] = 0]
       [] st.op = "open" ->
            LET ev == [side |-> st.side, err |-> FALSE] IN
            /\ ok' = (ok /\ OpenAllowed(prog, ns, ev)) /\ ns' = AfterOpen(ns, ev)
            /\ m' = [m EXCEPT !.ow[st.side] = On(m[st.side] = "on" /\ m.wc[st.side]), !.wn[st.side] = 0]
       [] st.op = "wr" ->
            LET ev == [side |-> st.side, n |-> 1, err |-> FALSE] IN
            ok' = (ok /\ WrAllowed(prog, ns, ev)) /\ ns' = ns /\ m' = [m EXCEPT !.wn[st.side] = @ + 1]
       [] st.op = "cls" ->
            LET ev == MsgEv(st.side, m.wn[st.side], m.ow[st.side] = "on") @@ [implicit |-> FALSE] IN
            /\ ok' = (ok /\ m.ow[st.side] # "none" /\ ClsAllowed(prog, ns, ev)) /\ ns' = AfterCls(ns, ev)
            /\ m' = [m EXCEPT !.ow[st.side] = "none", !.wn[st.side] = 0]
       [] st.op = "feed" ->
            LET ev == [side |-> st.side, comp |-> st.comp, res |-> IF st.comp /\ m[st.side] = "off" THEN "err" ELSE "ok"]
            IN ok' = (ok /\ FeedAllowed(prog, ns, ev)) /\ ns' = AfterFeed(ns, ev) /\ m' = m
       [] st.op = "ewc" ->
            /\ ok' = (ok /\ ToggleAllowed(prog, ns, st)) /\ ns' = AfterEWC(ns, st)
            /\ m' = [m EXCEPT !.wc[st.side] = st.on]
       [] st.op = "scl" ->
            ok' = (ok /\ ToggleAllowed(prog, ns, st)) /\ ns' = ns /\ m' = m
  /\ pc' = pc + 1 /\ UNCHANGED prog

Next == DoHandshake \/ DoStep
Spec == Init /\ [][Next]_mvars

Emit == pc = 0 => PrintT(<< "PROG", ToJson(prog) >>)

(* every canonical observation of the strict model is admitted *)
InvRefinesEnvelope == ok

(* C15 CompressionAgreement: both endpoints compress or neither does *)
InvAgreement == (pc >= 1 /\ ~m.failed /\ ~OutOfDomain(prog)) => m.c = m.s

(* C15 UsedOnlyIfAnnouncedWithBothParams *)
InvOnlyIfBoth == (pc >= 1 /\ ~m.failed /\ ~OutOfDomain(prog) /\ (m.c = "on" \/ m.s = "on")) => PmdBoth(Extensions(StrictRespExt(prog)))

(* a real pair enables compression exactly when both sides enabled it *)
(* C15: a toggle inside an open message never changes how THAT message is  *)
(* written: the decision was latched when the writer was obtained (so its  *)
(* RSV1 bit and its payload encoding cannot disagree).                     *)
InvLatched == \A sd \in {"c", "s"} : m.ow[sd] = "on" => m[sd] = "on"

InvPair == (pc >= 1 /\ prog.mode = "pair" /\ ~prog.rhx.present) => (~m.failed /\ (m.c = "on") = (prog.dEn /\ prog.uEn))
=============================================================================
