---------------------------- MODULE WSWireTrace ----------------------------
(* Trace validation of the frames written by every connection during the   *)
(* repository's OWN test suite (wire tap, build tag verif): each           *)
(* connection's output must be a WSWire-well-formed frame sequence for its *)
(* role, and nothing may follow a close frame (C02, C09 wire clauses).     *)
(* This binds the wire grammar to executions that were not produced by the *)
(* verification drivers.                                                   *)
EXTENDS WSWire, Json, IOUtils, TLC

Trace == ndJsonDeserialize(IOEnv.TRACE_FILE)

VARIABLES role, pmce, wst, closed, l
tvars == << role, pmce, wst, closed, l >>

ASSUME TLCSet(1, 0)

Ev == Trace[l]
Is(e) == l <= Len(Trace) /\ Trace[l].e = e
Adv == l' = l + 1 /\ TLCSet(1, l)

TReset == /\ Is("Reset") /\ role' = Ev.role /\ pmce' = Ev.pmce /\ wst' = "idle" /\ closed' = FALSE /\ Adv

TFrame == /\ Is("F")
          /\ ~closed                                          \* C09: a close frame is the last thing written
          /\ WFStep(wst, Ev, role, pmce) # "bad"              \* C02: RFC 6455 / 7692 grammar
          /\ wst' = WFStep(wst, Ev, role, pmce)
          /\ closed' = (Ev.op = OpClose)
          /\ UNCHANGED << role, pmce >> /\ Adv

(* the tap records successful writes only: a trailing partial frame can appear when a later write of the same frame failed *)
TEnd == /\ Is("END") /\ UNCHANGED << role, pmce, wst, closed >> /\ Adv

TInit == l = 1 /\ role = "server" /\ pmce = FALSE /\ wst = "idle" /\ closed = FALSE
TNext == TReset \/ TFrame \/ TEnd
TSpec == TInit /\ [][TNext]_tvars

Accepted ==
  IF TLCGet(1) = Len(Trace) THEN TRUE
  ELSE PrintT(<< "REJECTED-AT", TLCGet(1) + 1, Len(Trace) >>) /\ FALSE
=============================================================================
