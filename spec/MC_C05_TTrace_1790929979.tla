---- MODULE MC_C05_TTrace_1790929979 ----
EXTENDS Sequences, TLCExt, Toolbox, Naturals, TLC, MC_C05

_expression ==
    LET MC_C05_TEExpression == INSTANCE MC_C05_TEExpression
    IN MC_C05_TEExpression!expression
----

_trace ==
    LET MC_C05_TETrace == INSTANCE MC_C05_TETrace
    IN MC_C05_TETrace!trace
----

_inv ==
    ~(
        TLCGet("level") = Len(_TETrace)
        /\
        hist = (<<[n |-> 0, op |-> "RM", res |-> "eom", start |-> 1], [n |-> 0, op |-> "NR", res |-> "starve", start |-> 0], [n |-> 0, op |-> "NR", res |-> "failed", start |-> 0]>>)
        /\
        cut = ([frame |-> 1, part |-> "pay0", kind |-> "eof", with |-> FALSE, resume |-> FALSE])
        /\
        s = ([failed |-> TRUE, start |-> 1, rd |-> "none", got |-> 0, frag |-> FALSE, cur |-> 0, pos |-> 2, used |-> 0, mlen |-> 0, mhuge |-> FALSE, nrid |-> 1, wild |-> FALSE, hn |-> 0])
        /\
        pc = (4)
        /\
        stream = (<<[fin |-> TRUE, plain |-> 50, r1 |-> TRUE, comp |-> "fixed", len |-> 0, op |-> 1, r2 |-> FALSE, r3 |-> FALSE, mk |-> TRUE, lk |-> "n", nonmin |-> FALSE, code |-> -1, rs |-> "ok", key |-> "", short |-> 0]>>)
        /\
        cfg = ([role |-> "server", pmce |-> TRUE, limit |-> 0, hmode |-> "default", herrAt |-> 0, policy |-> "per_message"])
        /\
        fr = (<<[fin |-> TRUE, plain |-> 50, r1 |-> TRUE, comp |-> TRUE, len |-> 0, op |-> 1, r2 |-> FALSE, r3 |-> FALSE, mk |-> TRUE, lk |-> "n", code |-> -1, min |-> TRUE, utf8 |-> TRUE, arr |-> "part", h2 |-> TRUE, hdrOK |-> TRUE, pgot |-> 0]>>)
        /\
        prog = (<<[k |-> 0, op |-> "RM"], [k |-> 0, op |-> "RM"], [k |-> 0, op |-> "RM"]>>)
    )
----

_init ==
    /\ prog = _TETrace[1].prog
    /\ cut = _TETrace[1].cut
    /\ s = _TETrace[1].s
    /\ pc = _TETrace[1].pc
    /\ hist = _TETrace[1].hist
    /\ fr = _TETrace[1].fr
    /\ stream = _TETrace[1].stream
    /\ cfg = _TETrace[1].cfg
----

_next ==
    /\ \E i,j \in DOMAIN _TETrace:
        /\ \/ /\ j = i + 1
              /\ i = TLCGet("level")
        /\ prog  = _TETrace[i].prog
        /\ prog' = _TETrace[j].prog
        /\ cut  = _TETrace[i].cut
        /\ cut' = _TETrace[j].cut
        /\ s  = _TETrace[i].s
        /\ s' = _TETrace[j].s
        /\ pc  = _TETrace[i].pc
        /\ pc' = _TETrace[j].pc
        /\ hist  = _TETrace[i].hist
        /\ hist' = _TETrace[j].hist
        /\ fr  = _TETrace[i].fr
        /\ fr' = _TETrace[j].fr
        /\ stream  = _TETrace[i].stream
        /\ stream' = _TETrace[j].stream
        /\ cfg  = _TETrace[i].cfg
        /\ cfg' = _TETrace[j].cfg

\* Uncomment the ASSUME below to write the states of the error trace
\* to the given file in Json format. Note that you can pass any tuple
\* to `JsonSerialize`. For example, a sub-sequence of _TETrace.
    \* ASSUME
    \*     LET J == INSTANCE Json
    \*         IN J!JsonSerialize("MC_C05_TTrace_1790929979.json", _TETrace)

=============================================================================

 Note that you can extract this module `MC_C05_TEExpression`
  to a dedicated file to reuse `expression` (the module in the 
  dedicated `MC_C05_TEExpression.tla` file takes precedence 
  over the module `MC_C05_TEExpression` below).

---- MODULE MC_C05_TEExpression ----
EXTENDS Sequences, TLCExt, Toolbox, Naturals, TLC, MC_C05

expression == 
    [
        \* To hide variables of the `MC_C05` spec from the error trace,
        \* remove the variables below.  The trace will be written in the order
        \* of the fields of this record.
        prog |-> prog
        ,cut |-> cut
        ,s |-> s
        ,pc |-> pc
        ,hist |-> hist
        ,fr |-> fr
        ,stream |-> stream
        ,cfg |-> cfg
        
        \* Put additional constant-, state-, and action-level expressions here:
        \* ,_stateNumber |-> _TEPosition
        \* ,_progUnchanged |-> prog = prog'
        
        \* Format the `prog` variable as Json value.
        \* ,_progJson |->
        \*     LET J == INSTANCE Json
        \*     IN J!ToJson(prog)
        
        \* Lastly, you may build expressions over arbitrary sets of states by
        \* leveraging the _TETrace operator.  For example, this is how to
        \* count the number of times a spec variable changed up to the current
        \* state in the trace.
        \* ,_progModCount |->
        \*     LET F[s \in DOMAIN _TETrace] ==
        \*         IF s = 1 THEN 0
        \*         ELSE IF _TETrace[s].prog # _TETrace[s-1].prog
        \*             THEN 1 + F[s-1] ELSE F[s-1]
        \*     IN F[_TEPosition - 1]
    ]

=============================================================================



Parsing and semantic processing can take forever if the trace below is long.
 In this case, it is advised to uncomment the module below to deserialize the
 trace from a generated binary file.

\*
\*---- MODULE MC_C05_TETrace ----
\*EXTENDS IOUtils, TLC, MC_C05
\*
\*trace == IODeserialize("MC_C05_TTrace_1790929979.bin", TRUE)
\*
\*=============================================================================
\*

---- MODULE MC_C05_TETrace ----
EXTENDS TLC, MC_C05

trace == 
    <<
    ([hist |-> <<>>,cut |-> [frame |-> 1, part |-> "pay0", kind |-> "eof", with |-> FALSE, resume |-> FALSE],s |-> [failed |-> FALSE, start |-> 0, rd |-> "none", got |-> 0, frag |-> FALSE, cur |-> 0, pos |-> 1, used |-> 0, mlen |-> 0, mhuge |-> FALSE, nrid |-> -1, wild |-> FALSE, hn |-> 0],pc |-> 1,stream |-> <<[fin |-> TRUE, plain |-> 50, r1 |-> TRUE, comp |-> "fixed", len |-> 0, op |-> 1, r2 |-> FALSE, r3 |-> FALSE, mk |-> TRUE, lk |-> "n", nonmin |-> FALSE, code |-> -1, rs |-> "ok", key |-> "", short |-> 0]>>,cfg |-> [role |-> "server", pmce |-> TRUE, limit |-> 0, hmode |-> "default", herrAt |-> 0, policy |-> "per_message"],fr |-> <<[fin |-> TRUE, plain |-> 50, r1 |-> TRUE, comp |-> TRUE, len |-> 0, op |-> 1, r2 |-> FALSE, r3 |-> FALSE, mk |-> TRUE, lk |-> "n", code |-> -1, min |-> TRUE, utf8 |-> TRUE, arr |-> "part", h2 |-> TRUE, hdrOK |-> TRUE, pgot |-> 0]>>,prog |-> <<[k |-> 0, op |-> "RM"], [k |-> 0, op |-> "RM"], [k |-> 0, op |-> "RM"]>>]),
    ([hist |-> <<[n |-> 0, op |-> "RM", res |-> "eom", start |-> 1]>>,cut |-> [frame |-> 1, part |-> "pay0", kind |-> "eof", with |-> FALSE, resume |-> FALSE],s |-> [failed |-> FALSE, start |-> 1, rd |-> "eof", got |-> 0, frag |-> FALSE, cur |-> 1, pos |-> 2, used |-> 0, mlen |-> 0, mhuge |-> FALSE, nrid |-> -1, wild |-> FALSE, hn |-> 0],pc |-> 2,stream |-> <<[fin |-> TRUE, plain |-> 50, r1 |-> TRUE, comp |-> "fixed", len |-> 0, op |-> 1, r2 |-> FALSE, r3 |-> FALSE, mk |-> TRUE, lk |-> "n", nonmin |-> FALSE, code |-> -1, rs |-> "ok", key |-> "", short |-> 0]>>,cfg |-> [role |-> "server", pmce |-> TRUE, limit |-> 0, hmode |-> "default", herrAt |-> 0, policy |-> "per_message"],fr |-> <<[fin |-> TRUE, plain |-> 50, r1 |-> TRUE, comp |-> TRUE, len |-> 0, op |-> 1, r2 |-> FALSE, r3 |-> FALSE, mk |-> TRUE, lk |-> "n", code |-> -1, min |-> TRUE, utf8 |-> TRUE, arr |-> "part", h2 |-> TRUE, hdrOK |-> TRUE, pgot |-> 0]>>,prog |-> <<[k |-> 0, op |-> "RM"], [k |-> 0, op |-> "RM"], [k |-> 0, op |-> "RM"]>>]),
    ([hist |-> <<[n |-> 0, op |-> "RM", res |-> "eom", start |-> 1], [n |-> 0, op |-> "NR", res |-> "starve", start |-> 0]>>,cut |-> [frame |-> 1, part |-> "pay0", kind |-> "eof", with |-> FALSE, resume |-> FALSE],s |-> [failed |-> TRUE, start |-> 1, rd |-> "none", got |-> 0, frag |-> FALSE, cur |-> 0, pos |-> 2, used |-> 0, mlen |-> 0, mhuge |-> FALSE, nrid |-> 1, wild |-> FALSE, hn |-> 0],pc |-> 3,stream |-> <<[fin |-> TRUE, plain |-> 50, r1 |-> TRUE, comp |-> "fixed", len |-> 0, op |-> 1, r2 |-> FALSE, r3 |-> FALSE, mk |-> TRUE, lk |-> "n", nonmin |-> FALSE, code |-> -1, rs |-> "ok", key |-> "", short |-> 0]>>,cfg |-> [role |-> "server", pmce |-> TRUE, limit |-> 0, hmode |-> "default", herrAt |-> 0, policy |-> "per_message"],fr |-> <<[fin |-> TRUE, plain |-> 50, r1 |-> TRUE, comp |-> TRUE, len |-> 0, op |-> 1, r2 |-> FALSE, r3 |-> FALSE, mk |-> TRUE, lk |-> "n", code |-> -1, min |-> TRUE, utf8 |-> TRUE, arr |-> "part", h2 |-> TRUE, hdrOK |-> TRUE, pgot |-> 0]>>,prog |-> <<[k |-> 0, op |-> "RM"], [k |-> 0, op |-> "RM"], [k |-> 0, op |-> "RM"]>>]),
    ([hist |-> <<[n |-> 0, op |-> "RM", res |-> "eom", start |-> 1], [n |-> 0, op |-> "NR", res |-> "starve", start |-> 0], [n |-> 0, op |-> "NR", res |-> "failed", start |-> 0]>>,cut |-> [frame |-> 1, part |-> "pay0", kind |-> "eof", with |-> FALSE, resume |-> FALSE],s |-> [failed |-> TRUE, start |-> 1, rd |-> "none", got |-> 0, frag |-> FALSE, cur |-> 0, pos |-> 2, used |-> 0, mlen |-> 0, mhuge |-> FALSE, nrid |-> 1, wild |-> FALSE, hn |-> 0],pc |-> 4,stream |-> <<[fin |-> TRUE, plain |-> 50, r1 |-> TRUE, comp |-> "fixed", len |-> 0, op |-> 1, r2 |-> FALSE, r3 |-> FALSE, mk |-> TRUE, lk |-> "n", nonmin |-> FALSE, code |-> -1, rs |-> "ok", key |-> "", short |-> 0]>>,cfg |-> [role |-> "server", pmce |-> TRUE, limit |-> 0, hmode |-> "default", herrAt |-> 0, policy |-> "per_message"],fr |-> <<[fin |-> TRUE, plain |-> 50, r1 |-> TRUE, comp |-> TRUE, len |-> 0, op |-> 1, r2 |-> FALSE, r3 |-> FALSE, mk |-> TRUE, lk |-> "n", code |-> -1, min |-> TRUE, utf8 |-> TRUE, arr |-> "part", h2 |-> TRUE, hdrOK |-> TRUE, pgot |-> 0]>>,prog |-> <<[k |-> 0, op |-> "RM"], [k |-> 0, op |-> "RM"], [k |-> 0, op |-> "RM"]>>])
    >>
----


=============================================================================

---- CONFIG MC_C05_TTrace_1790929979 ----
CONSTANTS
    Cfgs <- MCCfgs
    Streams <- MCStreams
    Cuts <- MCCuts
    Progs <- MCProgs
    Roles = { "server" , "client" }
    Compressed = { FALSE , TRUE }
    HModes = { "default" , "chain" }
    Kinds = { "eof" , "err" , "timeout" }

INVARIANT
    _inv

CHECK_DEADLOCK
    \* CHECK_DEADLOCK off because of PROPERTY or INVARIANT above.
    FALSE

INIT
    _init

NEXT
    _next

CONSTANT
    _TETrace <- _trace

ALIAS
    _expression
=============================================================================
\* Generated on Fri Oct 02 08:33:09 UTC 2026