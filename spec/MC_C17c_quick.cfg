SPECIFICATION Spec
CONSTANTS
  Cfgs <- MCCfgs
  Dials <- MCDials
  RBufs = {0, 1, 125, 126, 256, 4096, 4097, 8192, 65536}
  Full = FALSE
  Schemes17 = {"ws"}
CONSTRAINT Emit
INVARIANTS InvRefines InvBoundaryNoLoss InvConnOnlyIfProven InvFailureCloses InvSuccessOpenNoDeadline
CHECK_DEADLOCK FALSE
