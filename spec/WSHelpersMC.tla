---------------------------- MODULE WSHelpersMC ----------------------------
(* Enumerates calls of the helper API (each initial state is one call,     *)
(* printed for the driver) and checks algebraic laws of the specification. *)
EXTENDS WSHelpers, Json

VARIABLES call, pc
vars == << call, pc >>

S(x) == x   \* strings are given as code-point tuples below
Texts == { << >>, <<104, 105>>, <<195, 169, 33>> }
Codes == { 1000, 1001, 1005, 1006, 1011, 3000, 4999, 0, 65535 }
Errs  == { [kind |-> "nil", code |-> 0], [kind |-> "other", code |-> 0] } \cup { [kind |-> "close", code |-> c] : c \in {1000, 1001, 1005, 1006, 4000} }
CodeLists == { << >>, <<1000>>, <<1001, 1000>>, <<1005, 1006>>, <<4000, 1000, 1001>> }
ca == 97  cb == 98
ProtoLines == { << >>, << <<ca>> >>, << <<ca, COMMA, cb>> >>, << <<SP, ca, SP, COMMA, HTAB, cb, SP>> >>, << << >> >>, << <<SP, HTAB>> >>,
                << <<ca, COMMA, COMMA, cb>> >>, << <<ca>>, <<cb>> >>, << <<ca, COMMA>> >>, << <<ca, 47, 49, COMMA, SP, cb>> >> }
up == <<117,112,103,114,97,100,101>>   Up == <<85,112,103,114,97,100,101>>   ka == <<107,101,101,112,45,97,108,105,118,101>>
ws == TokWebsocket   Ws == <<87,101,98,83,111,99,107,101,116>>   wss == ws \o <<115>>
ConnLines == { << >>, << up >>, << Up >>, << ka \o <<COMMA, SP>> \o Up >>, << ka >>, << ka, up >>, << <<120>> \o up >>, << up \o <<COMMA>> >> }
UpgLines  == { << >>, << ws >>, << Ws >>, << wss >>, << <<102,111,111,COMMA,SP>> \o ws >>, << <<102,111,111>>, ws >> }

Calls ==
  { [fn |-> "FormatCloseMessage", code |-> c, text |-> t] : c \in Codes, t \in Texts }
  \cup { [fn |-> f, err |-> e, codes |-> cs] : f \in {"IsCloseError", "IsUnexpectedCloseError"}, e \in Errs, cs \in CodeLists }
  \cup { [fn |-> "Subprotocols", lines |-> l] : l \in ProtoLines }
  \cup { [fn |-> "IsWebSocketUpgrade", conn |-> c, upg |-> u] : c \in ConnLines, u \in UpgLines }

Init == call \in Calls /\ pc = 1
Next == pc = 1 /\ pc' = 2 /\ UNCHANGED call
Spec == Init /\ [][Next]_vars
Emit == pc = 1 => PrintT(<< "PROG", ToJson(call) >>)

(* laws *)
InvCloseRoundTrip ==
  call.fn = "FormatCloseMessage" =>
    LET b == FormatClose(call.code, call.text) IN
    IF call.code = NoStatus THEN b = << >>
    ELSE Len(b) = 2 + Len(call.text) /\ b[1] * 256 + b[2] = call.code /\ SubSeq(b, 3, Len(b)) = call.text
InvCloseErrPartition ==
  call.fn \in {"IsCloseError", "IsUnexpectedCloseError"} =>
    /\ ~(IsCloseErr(call.err, call.codes) /\ IsUnexpectedClose(call.err, call.codes))
    /\ (call.err.kind = "close") = (IsCloseErr(call.err, call.codes) \/ IsUnexpectedClose(call.err, call.codes))
InvSubprotocolsTrimmed ==
  call.fn = "Subprotocols" =>
    \A i \in DOMAIN SubprotocolsOf(call.lines) : LET p == SubprotocolsOf(call.lines)[i] IN p = HTrim(p) /\ \A j \in DOMAIN p : p[j] # COMMA
InvSelfAgree == call.fn = "IsWebSocketUpgrade" \/ Agrees(call, Result(call))
=============================================================================
