------------------------------- MODULE WSConc -------------------------------
(***************************************************************************)
(* The documented concurrency contract of the write side (C09, C11) as a   *)
(* monitor over the globally ordered observable events of one connection   *)
(* used by several goroutines:                                             *)
(*   Call(t, api, args)   thread t enters a write API                      *)
(*   Op(t, item)          a transport operation / completed frame observed *)
(*                        on the connection, attributed to thread t        *)
(*                        (item: SWD | F | WERR as in WSWriter)            *)
(*   Ret(t, err, late)    the call of thread t returns                     *)
(* Threads: "W" the one goroutine using the message write methods, "K1",   *)
(* "K2".. WriteControl callers, "R" the read goroutine whose handlers      *)
(* answer pings and closes (no Call/Ret: the calls are inside the          *)
(* library), "X" a Close() caller.                                         *)
(*                                                                         *)
(* The monitor does not know the lock.  It states what every interleaving  *)
(* must look like from outside:                                            *)
(*   FrameAtomic   between a thread's SWD and the completion of its frame  *)
(*                 no other thread touches the transport                   *)
(*   CloseIsLast   no transport operation after a completed close frame    *)
(*   AfterClose    a call that starts after the close fails and writes     *)
(*                 nothing; one that was in flight either had completed    *)
(*                 its frames or fails; an open message never completes    *)
(*   FailStop      the same after a transport failure                      *)
(*   WCTimeout     a WriteControl that reports a timeout wrote nothing,    *)
(*                 leaves the connection usable, and returns in time       *)
(*   Wire          the frame sequence is WSWire-well-formed, each frame    *)
(*                 under the deadline of the call that wrote it, payloads  *)
(*                 attributed to the calls                                 *)
(* WSConcMC checks that the lock protocol of conn.go implies all of this   *)
(* for every interleaving; WSConcTrace checks recorded executions.         *)
(***************************************************************************)
EXTENDS Integers, Sequences, FiniteSets, TLC, WSWire

IsCtlT(t)  == t \in {OpClose, OpPing, OpPong}
IsDataT(t) == t \in {OpText, OpBin}

NoCall == [active |-> FALSE]

M0(role, pmce) ==
  [role |-> role, pmce |-> pmce, bad |-> FALSE,
   err |-> "none", owner |-> "", armed |-> "none", wst |-> "idle", dl |-> "zero",
   \* the W thread's current message
   open |-> FALSE, mtype |-> 0, mid |-> -1, wrote |-> 0, sent |-> 0, started |-> FALSE,
   calls |-> [t \in {"W", "K1", "K2", "K3"} |-> NoCall],
   closer |-> "",            \* the thread whose close frame was observed on the transport
   held |-> FALSE,            \* C20 under concurrency: a pooled write buffer is held (only by the message-writing thread)
   closedSeen |-> FALSE]

Fail(m) == [m EXCEPT !.bad = TRUE]

(***************************************************************************)
(* Call                                                                    *)
(***************************************************************************)
Call(m, t, c) ==
  IF m.calls[t].active THEN Fail(m)          \* one call per thread at a time
  ELSE LET base == [active |-> TRUE, api |-> c.api, dead |-> m.err # "none", wrote |-> FALSE,
                    faulted |-> FALSE, done |-> FALSE, type |-> c.type, n |-> c.n, dl |-> c.dl, m |-> c.m]
       IN CASE c.api = "WM" ->
                 \* WriteMessage of a whole message (no writer open in these programs)
                 [m EXCEPT !.calls[t] = base,
                           !.open = IF m.err = "none" THEN TRUE ELSE m.open,
                           !.mtype = c.type, !.mid = c.m, !.wrote = c.n, !.sent = 0, !.started = FALSE]
            [] c.api = "NW" -> [m EXCEPT !.calls[t] = base]
            [] c.api = "WR" -> [m EXCEPT !.calls[t] = base, !.wrote = m.wrote + c.n]
            [] c.api = "CL" -> [m EXCEPT !.calls[t] = base]
            [] c.api = "WC" -> [m EXCEPT !.calls[t] = base]
            [] c.api = "SD" -> [m EXCEPT !.calls[t] = base, !.dl = c.dl]
            [] c.api = "XC" -> [m EXCEPT !.calls[t] = base]      \* Close(): allowed at any moment, writes nothing
            [] OTHER -> Fail(m)

(***************************************************************************)
(* Op: a transport-level observation attributed to thread t.               *)
(***************************************************************************)
FrameBase(m, f, dl) ==
  /\ m.err = "none"                                      \* CloseIsLast / FailStop
  /\ WFStep(m.wst, f, m.role, m.pmce) # "bad"
  /\ m.armed = dl

After(m, f) ==
  [m EXCEPT !.wst = WFStep(m.wst, f, m.role, m.pmce), !.owner = "",
            !.closer = IF f.op = OpClose THEN m.owner ELSE m.closer,
            !.err = IF f.op = OpClose THEN "closesent" ELSE m.err]

OpW(m, it) ==
  \* the message-writing thread: frames of its current message, in order
  LET c == m.calls["W"] IN
  IF ~c.active \/ c.api \notin {"WM", "WR", "CL", "NW"} THEN Fail(m)
  ELSE IF it.t = "SWD" THEN
       IF m.err # "none" THEN Fail(m)
       ELSE IF it.err THEN [m EXCEPT !.err = "fatal", !.owner = "", !.calls["W"] = [c EXCEPT !.faulted = TRUE, !.wrote = TRUE]]
       ELSE [m EXCEPT !.armed = it.d, !.owner = "W", !.calls["W"] = [c EXCEPT !.wrote = TRUE]]
  ELSE IF it.t = "WERR" THEN [m EXCEPT !.err = "fatal", !.owner = "", !.calls["W"] = [c EXCEPT !.faulted = TRUE]]
  ELSE \* frame
       IF ~m.open \/ ~FrameBase(m, it, m.dl) THEN Fail(m)
       ELSE IF IsCtlT(m.mtype) THEN
            IF it.op = m.mtype /\ it.fin /\ it.m = m.mid /\ it.len = m.wrote
            THEN [After(m, it) EXCEPT !.open = FALSE, !.calls["W"] = [c EXCEPT !.done = TRUE]]
            ELSE Fail(m)
       ELSE IF /\ it.op = (IF m.started THEN OpCont ELSE m.mtype)
               /\ ~it.r1
               /\ it.m = m.mid /\ it.off = m.sent /\ m.sent + it.len <= m.wrote
               /\ it.fin => m.sent + it.len = m.wrote
            THEN [After(m, it) EXCEPT !.started = TRUE, !.sent = m.sent + it.len, !.open = ~it.fin,
                                      !.calls["W"] = [c EXCEPT !.done = it.fin]]
            ELSE Fail(m)

OpK(m, t, it) ==
  \* a WriteControl caller: exactly one control frame under its own deadline
  LET c == m.calls[t] IN
  IF ~c.active \/ c.api # "WC" \/ c.done THEN Fail(m)
  ELSE IF it.t = "SWD" THEN
       IF m.err # "none" THEN Fail(m)
       ELSE IF it.err THEN [m EXCEPT !.err = "fatal", !.owner = "", !.calls[t] = [c EXCEPT !.faulted = TRUE, !.wrote = TRUE]]
       ELSE [m EXCEPT !.armed = it.d, !.owner = t, !.calls[t] = [c EXCEPT !.wrote = TRUE]]
  ELSE IF it.t = "WERR" THEN [m EXCEPT !.err = "fatal", !.owner = "", !.calls[t] = [c EXCEPT !.faulted = TRUE]]
  ELSE IF FrameBase(m, it, c.dl) /\ it.op = c.type /\ it.fin /\ it.m = c.m /\ it.len = c.n
       THEN [After(m, it) EXCEPT !.calls[t] = [c EXCEPT !.done = TRUE]]
       ELSE Fail(m)

OpR(m, it) ==
  \* the read goroutine's handlers: pongs answering fed pings, close echoes, 1002/1009 closes;
  \* written under a deadline about one second ahead ("auto")
  IF it.t = "SWD" THEN
       IF m.err # "none" THEN Fail(m)
       ELSE IF it.err THEN [m EXCEPT !.err = "fatal", !.owner = ""]
       ELSE [m EXCEPT !.armed = it.d, !.owner = "R"]
  ELSE IF it.t = "WERR" THEN [m EXCEPT !.err = "fatal", !.owner = ""]
  ELSE IF FrameBase(m, it, "auto") /\ it.fin /\ it.op \in {OpPong, OpClose} /\ (it.op = OpPong => it.m >= 0)
       THEN After(m, it) ELSE Fail(m)

(* Buffer pool operations (connections with a WriteBufferPool): only the message-writing thread takes and      *)
(* returns buffers, inside its own calls, alternately; Close() and WriteControl callers never touch the pool;   *)
(* a buffer found modified after its release (TOUCHED) is never explained.                                      *)
PoolOp(m, t, it) ==
  LET c == m.calls["W"] IN
  IF it.t = "TOUCHED" \/ t # "W" THEN Fail(m)
  ELSE IF ~c.active \/ c.api \notin {"WM", "NW", "WR", "CL"} THEN Fail(m)
  ELSE IF it.t = "GET" THEN (IF m.held THEN Fail(m) ELSE [m EXCEPT !.held = TRUE])
  ELSE (IF ~m.held THEN Fail(m) ELSE [m EXCEPT !.held = FALSE])

Op(m, t, it) ==
  IF m.bad THEN m
  ELSE IF it.t \in {"GET", "PUT", "TOUCHED"} THEN PoolOp(m, t, it)
  ELSE IF m.owner # "" /\ m.owner # t THEN Fail(m)          \* FrameAtomic
  ELSE IF it.t = "F" /\ m.owner # t THEN Fail(m)            \* a frame without its own deadline call
  ELSE IF t = "W" THEN OpW(m, it)
  ELSE IF t = "R" THEN OpR(m, it)
  ELSE OpK(m, t, it)

(***************************************************************************)
(* Ret                                                                     *)
(***************************************************************************)
IsNil(e) == e.cls = "nil"

Ret0(m, t, e, late) ==
  LET c == m.calls[t]
      m2 == [m EXCEPT !.calls[t] = NoCall]
  IN
  IF m.bad THEN m
  ELSE IF ~c.active \/ late THEN Fail(m)                   \* WCBoundedWait: `late` is measured by the harness
  ELSE IF c.api = "SD" THEN (IF IsNil(e) THEN m2 ELSE Fail(m))
  ELSE IF c.api = "XC" THEN (IF ~c.wrote THEN m2 ELSE Fail(m))
  ELSE IF c.dead /\ c.api = "NW" /\ IsNil(e) /\ m.err = "closesent" /\ m.closer \notin {"", t} /\ ~c.wrote THEN
       \* The close frame of ANOTHER thread was observed on the transport before this call started, but the closing call
       \* latches "close sent" only after its transport write has returned: in that window a writer may still be handed
       \* out.  It writes nothing, and it can never write (the rules for WR / CL on a dead connection apply to it).
       [m2 EXCEPT !.open = TRUE, !.mtype = c.type, !.mid = c.m, !.wrote = 0, !.sent = 0, !.started = FALSE]
  ELSE IF c.dead THEN
       \* AfterCloseAllFail / FailStop: started after the close or the failure
       \* (a WriteControl with a finite deadline may instead report that it could not get the
       \*  connection in time: C11; a WR on an open writer may still buffer)
       IF /\ (c.api = "WR" \/ ~IsNil(e)) /\ ~c.wrote
          /\ (m.err = "closesent" /\ c.api \in {"WM", "WC", "NW"}) =>
                 (e.cls = "closesent" \/ (c.api = "WC" /\ c.dl # "zero" /\ e.cls = "timeout"))
       THEN (IF c.api \in {"WM", "CL"} THEN [m2 EXCEPT !.open = FALSE] ELSE m2) ELSE Fail(m)
  ELSE IF c.faulted THEN (IF ~IsNil(e) THEN [m2 EXCEPT !.open = FALSE] ELSE Fail(m))
  ELSE CASE c.api = "WC" ->
              IF c.done THEN (IF IsNil(e) THEN m2 ELSE Fail(m))
              ELSE \* wrote nothing: a timeout (finite deadline) or overtaken by a close / failure
                   \* (a timeout is either the call's own - only with a finite deadline - or the latched error of a transport
                   \*  operation that timed out under another call)
                   IF ~IsNil(e) /\ ~c.wrote /\ (e.cls = "timeout" => (c.dl # "zero" \/ m.err = "fatal")) /\ (e.cls # "timeout" => m.err # "none")
                   THEN m2 ELSE Fail(m)
         [] c.api = "WM" ->
              IF c.done THEN (IF IsNil(e) THEN m2 ELSE Fail(m))
              ELSE (IF ~IsNil(e) /\ m.err # "none" THEN [m2 EXCEPT !.open = FALSE] ELSE Fail(m))
         [] c.api = "NW" ->
              IF IsNil(e) THEN (IF m.err = "none" \/ TRUE THEN [m2 EXCEPT !.open = TRUE, !.mtype = c.type, !.mid = c.m, !.wrote = 0, !.sent = 0, !.started = FALSE] ELSE Fail(m))
              ELSE (IF m.err # "none" THEN m2 ELSE Fail(m))
         [] c.api = "WR" ->
              IF IsNil(e) THEN m2
              ELSE (IF m.err # "none" THEN [m2 EXCEPT !.open = FALSE] ELSE Fail(m))
         [] c.api = "CL" ->
              \* OpenWriterFailsByClose: success only if the message was completed
              IF IsNil(e) THEN (IF c.done \/ ~m.open THEN [m2 EXCEPT !.open = FALSE] ELSE Fail(m))
              ELSE (IF m.err # "none" THEN [m2 EXCEPT !.open = FALSE] ELSE Fail(m))
         [] OTHER -> Fail(m)

Ret(m, t, e, late) ==
  LET r == Ret0(m, t, e, late) IN
  \* a message that has ended (WriteMessage returned, the writer was closed) holds no pooled buffer
  IF ~r.bad /\ t = "W" /\ m.calls[t].active /\ m.calls[t].api \in {"WM", "CL"} /\ r.held THEN Fail(m) ELSE r
=============================================================================
