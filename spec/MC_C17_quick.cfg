SPECIFICATION Spec
CONSTANTS
  Streams <- MCStreams
  Full = FALSE
  RBufs = {0, 64, 1024}
  HSizes = {16, 256, 257, 4096}
  ClientRBufs = {0, 1, 200, 1024}
  RespLen = 129
  ScrubProto = TRUE
CONSTRAINT Emit
INVARIANTS InvNoLossNoReorder InvNoOverRead
CHECK_DEADLOCK FALSE
