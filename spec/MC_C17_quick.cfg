SPECIFICATION Spec
CONSTANTS
  Streams <- MCStreams
  Full = FALSE
  RBufs = {0, 1, 64, 124, 1024, 8192}
  HSizes = {16, 256, 257, 4096}
  ClientRBufs = {0, 1, 200, 1024, 8192}
  RespLen = 129
  CtlStreams <- MCCtlStreams
  CtlRBufs = {1, 16, 64, 124, 125, 126}
  CtlHSizes = {16, 4096}
  CtlClientRBufs = {1, 16, 124}
  ScrubProto = TRUE
CONSTRAINT Emit
INVARIANTS InvNoLossNoReorder InvNoOverRead InvControlFits
CHECK_DEADLOCK FALSE
