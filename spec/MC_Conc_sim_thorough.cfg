SPECIFICATION Spec
CONSTANTS
  Role = "server"
  WProgs <- TWProgs
  KProgs <- TKProgs
  RProgs <- TRProgs
  FaultAts = {0, 0, 0, 2, 3, 5}
  MultiQ = FALSE
  KeepSched = TRUE
  WCCheckBeforeLock = FALSE
CONSTRAINT EmitSched
INVARIANTS MonitorOK
CHECK_DEADLOCK FALSE
