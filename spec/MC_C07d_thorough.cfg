SPECIFICATION Spec
CONSTANTS
  Cfgs <- MCCfgs
  Dials <- MCDials
  Targets = {"none", "http", "https"}
  SLForms = {"normal", "noreason", "noreason_sp", "nospace", "badversion", "http10", "empty", "long", "lf"}
  Codes = {"101", "200", "407", "000", "999", "12345", "-1", "1e2", ""}
  HBForms = {"none", "wellformed", "nocolon", "hugeline", "manylines", "cl_short", "cl_long", "cl_bad", "cl_huge", "nobody_cl", "chunked", "chunked_bad", "chunked_huge", "fold", "nul", "emptyname", "spacename", "noend"}
  Decls = {"0", "1", "1023", "1024", "1025", "1048576", "268435456", "2147483648", "9223372036854775807", "9223372036854775808", "18446744073709551616", "-1", "abc", "1e3", "0x400"}
  DeclCodes = {"200", "403", "101"}
  MaxDev = 3
CONSTRAINT Emit
INVARIANTS InvRefines InvConnOnlyIfProven InvFailureCloses InvSuccessOpenNoDeadline
CHECK_DEADLOCK FALSE
