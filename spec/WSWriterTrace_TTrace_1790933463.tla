---- MODULE WSWriterTrace_TTrace_1790933463 ----
EXTENDS Sequences, TLCExt, Toolbox, Naturals, TLC, WSWriterTrace

_expression ==
    LET WSWriterTrace_TEExpression == INSTANCE WSWriterTrace_TEExpression
    IN WSWriterTrace_TEExpression!expression
----

_trace ==
    LET WSWriterTrace_TETrace == INSTANCE WSWriterTrace_TETrace
    IN WSWriterTrace_TETrace!trace
----

_inv ==
    ~(
        TLCGet("level") = Len(_TETrace)
        /\
        cs = (<<[wild |-> FALSE, err |-> "none", dl |-> "zero", wcomp |-> TRUE, level |-> 1, role |-> "server", pmce |-> TRUE, pool |-> FALSE, wbuf |-> 1, armed |-> "none", open |-> TRUE, dead |-> FALSE, mtype |-> 1, mid |-> 1, wrote |-> 31, sent |-> 0, started |-> FALSE, mcomp |-> TRUE, wst |-> "idle", held |-> -1, nextkey |-> 0, done |-> <<>>]>>)
        /\
        pms = (<<[type |-> 1, n |-> 5], [type |-> 2, n |-> 8], [type |-> 9, n |-> 3], [type |-> 8, n |-> 2], [type |-> 1, n |-> 0]>>)
        /\
        l = (34)
    )
----

_init ==
    /\ pms = _TETrace[1].pms
    /\ l = _TETrace[1].l
    /\ cs = _TETrace[1].cs
----

_next ==
    /\ \E i,j \in DOMAIN _TETrace:
        /\ \/ /\ j = i + 1
              /\ i = TLCGet("level")
        /\ pms  = _TETrace[i].pms
        /\ pms' = _TETrace[j].pms
        /\ l  = _TETrace[i].l
        /\ l' = _TETrace[j].l
        /\ cs  = _TETrace[i].cs
        /\ cs' = _TETrace[j].cs

\* Uncomment the ASSUME below to write the states of the error trace
\* to the given file in Json format. Note that you can pass any tuple
\* to `JsonSerialize`. For example, a sub-sequence of _TETrace.
    \* ASSUME
    \*     LET J == INSTANCE Json
    \*         IN J!JsonSerialize("WSWriterTrace_TTrace_1790933463.json", _TETrace)

=============================================================================

 Note that you can extract this module `WSWriterTrace_TEExpression`
  to a dedicated file to reuse `expression` (the module in the 
  dedicated `WSWriterTrace_TEExpression.tla` file takes precedence 
  over the module `WSWriterTrace_TEExpression` below).

---- MODULE WSWriterTrace_TEExpression ----
EXTENDS Sequences, TLCExt, Toolbox, Naturals, TLC, WSWriterTrace

expression == 
    [
        \* To hide variables of the `WSWriterTrace` spec from the error trace,
        \* remove the variables below.  The trace will be written in the order
        \* of the fields of this record.
        pms |-> pms
        ,l |-> l
        ,cs |-> cs
        
        \* Put additional constant-, state-, and action-level expressions here:
        \* ,_stateNumber |-> _TEPosition
        \* ,_pmsUnchanged |-> pms = pms'
        
        \* Format the `pms` variable as Json value.
        \* ,_pmsJson |->
        \*     LET J == INSTANCE Json
        \*     IN J!ToJson(pms)
        
        \* Lastly, you may build expressions over arbitrary sets of states by
        \* leveraging the _TETrace operator.  For example, this is how to
        \* count the number of times a spec variable changed up to the current
        \* state in the trace.
        \* ,_pmsModCount |->
        \*     LET F[s \in DOMAIN _TETrace] ==
        \*         IF s = 1 THEN 0
        \*         ELSE IF _TETrace[s].pms # _TETrace[s-1].pms
        \*             THEN 1 + F[s-1] ELSE F[s-1]
        \*     IN F[_TEPosition - 1]
    ]

=============================================================================



Parsing and semantic processing can take forever if the trace below is long.
 In this case, it is advised to uncomment the module below to deserialize the
 trace from a generated binary file.

\*
\*---- MODULE WSWriterTrace_TETrace ----
\*EXTENDS IOUtils, TLC, WSWriterTrace
\*
\*trace == IODeserialize("WSWriterTrace_TTrace_1790933463.bin", TRUE)
\*
\*=============================================================================
\*

---- MODULE WSWriterTrace_TETrace ----
EXTENDS TLC, WSWriterTrace

trace == 
    <<
    ([cs |-> <<>>,pms |-> <<>>,l |-> 1]),
    ([cs |-> <<[wild |-> FALSE, err |-> "none", dl |-> "zero", wcomp |-> TRUE, level |-> 1, role |-> "server", pmce |-> FALSE, pool |-> FALSE, wbuf |-> 7, armed |-> "none", open |-> FALSE, dead |-> FALSE, mtype |-> 0, mid |-> -1, wrote |-> 0, sent |-> 0, started |-> FALSE, mcomp |-> FALSE, wst |-> "idle", held |-> -1, nextkey |-> 0, done |-> <<>>]>>,pms |-> <<[type |-> 1, n |-> 5], [type |-> 2, n |-> 26], [type |-> 9, n |-> 3], [type |-> 8, n |-> 2], [type |-> 1, n |-> 0]>>,l |-> 2]),
    ([cs |-> <<[wild |-> FALSE, err |-> "none", dl |-> "zero", wcomp |-> TRUE, level |-> 1, role |-> "server", pmce |-> FALSE, pool |-> FALSE, wbuf |-> 7, armed |-> "none", open |-> FALSE, dead |-> FALSE, mtype |-> 0, mid |-> -1, wrote |-> 0, sent |-> 0, started |-> FALSE, mcomp |-> FALSE, wst |-> "idle", held |-> -1, nextkey |-> 0, done |-> <<>>]>>,pms |-> <<[type |-> 1, n |-> 5], [type |-> 2, n |-> 26], [type |-> 9, n |-> 3], [type |-> 8, n |-> 2], [type |-> 1, n |-> 0]>>,l |-> 3]),
    ([cs |-> <<[wild |-> FALSE, err |-> "none", dl |-> "zero", wcomp |-> TRUE, level |-> 1, role |-> "server", pmce |-> FALSE, pool |-> FALSE, wbuf |-> 7, armed |-> "none", open |-> FALSE, dead |-> FALSE, mtype |-> 0, mid |-> -1, wrote |-> 0, sent |-> 0, started |-> FALSE, mcomp |-> FALSE, wst |-> "idle", held |-> -1, nextkey |-> 0, done |-> <<>>]>>,pms |-> <<[type |-> 1, n |-> 5], [type |-> 2, n |-> 26], [type |-> 9, n |-> 3], [type |-> 8, n |-> 2], [type |-> 1, n |-> 0]>>,l |-> 4]),
    ([cs |-> <<[wild |-> FALSE, err |-> "none", dl |-> "zero", wcomp |-> TRUE, level |-> 1, role |-> "server", pmce |-> FALSE, pool |-> FALSE, wbuf |-> 7, armed |-> "none", open |-> FALSE, dead |-> FALSE, mtype |-> 0, mid |-> -1, wrote |-> 0, sent |-> 0, started |-> FALSE, mcomp |-> FALSE, wst |-> "idle", held |-> -1, nextkey |-> 0, done |-> <<>>]>>,pms |-> <<[type |-> 1, n |-> 5], [type |-> 2, n |-> 26], [type |-> 9, n |-> 3], [type |-> 8, n |-> 2], [type |-> 1, n |-> 0]>>,l |-> 5]),
    ([cs |-> <<[wild |-> FALSE, err |-> "none", dl |-> "zero", wcomp |-> TRUE, level |-> 1, role |-> "server", pmce |-> FALSE, pool |-> FALSE, wbuf |-> 7, armed |-> "none", open |-> FALSE, dead |-> FALSE, mtype |-> 0, mid |-> -1, wrote |-> 0, sent |-> 0, started |-> FALSE, mcomp |-> FALSE, wst |-> "idle", held |-> -1, nextkey |-> 0, done |-> <<>>]>>,pms |-> <<[type |-> 1, n |-> 5], [type |-> 2, n |-> 26], [type |-> 9, n |-> 3], [type |-> 8, n |-> 2], [type |-> 1, n |-> 0]>>,l |-> 6]),
    ([cs |-> <<[wild |-> FALSE, err |-> "none", dl |-> "zero", wcomp |-> TRUE, level |-> 1, role |-> "server", pmce |-> FALSE, pool |-> FALSE, wbuf |-> 7, armed |-> "none", open |-> FALSE, dead |-> FALSE, mtype |-> 0, mid |-> -1, wrote |-> 0, sent |-> 0, started |-> FALSE, mcomp |-> FALSE, wst |-> "idle", held |-> -1, nextkey |-> 0, done |-> <<>>]>>,pms |-> <<[type |-> 1, n |-> 5], [type |-> 2, n |-> 26], [type |-> 9, n |-> 3], [type |-> 8, n |-> 2], [type |-> 1, n |-> 0]>>,l |-> 7]),
    ([cs |-> <<[wild |-> FALSE, err |-> "none", dl |-> "zero", wcomp |-> TRUE, level |-> 1, role |-> "server", pmce |-> FALSE, pool |-> FALSE, wbuf |-> 7, armed |-> "none", open |-> TRUE, dead |-> FALSE, mtype |-> 1, mid |-> 1, wrote |-> 0, sent |-> 0, started |-> FALSE, mcomp |-> FALSE, wst |-> "idle", held |-> -1, nextkey |-> 0, done |-> <<>>]>>,pms |-> <<[type |-> 1, n |-> 5], [type |-> 2, n |-> 26], [type |-> 9, n |-> 3], [type |-> 8, n |-> 2], [type |-> 1, n |-> 0]>>,l |-> 8]),
    ([cs |-> <<[wild |-> FALSE, err |-> "none", dl |-> "zero", wcomp |-> TRUE, level |-> 1, role |-> "server", pmce |-> FALSE, pool |-> FALSE, wbuf |-> 7, armed |-> "zero", open |-> TRUE, dead |-> FALSE, mtype |-> 1, mid |-> 1, wrote |-> 43, sent |-> 43, started |-> TRUE, mcomp |-> FALSE, wst |-> "msg", held |-> -1, nextkey |-> 0, done |-> <<>>]>>,pms |-> <<[type |-> 1, n |-> 5], [type |-> 2, n |-> 26], [type |-> 9, n |-> 3], [type |-> 8, n |-> 2], [type |-> 1, n |-> 0]>>,l |-> 9]),
    ([cs |-> <<[wild |-> FALSE, err |-> "none", dl |-> "zero", wcomp |-> TRUE, level |-> 1, role |-> "server", pmce |-> FALSE, pool |-> FALSE, wbuf |-> 7, armed |-> "zero", open |-> TRUE, dead |-> FALSE, mtype |-> 1, mid |-> 1, wrote |-> 51, sent |-> 50, started |-> TRUE, mcomp |-> FALSE, wst |-> "msg", held |-> -1, nextkey |-> 0, done |-> <<>>]>>,pms |-> <<[type |-> 1, n |-> 5], [type |-> 2, n |-> 26], [type |-> 9, n |-> 3], [type |-> 8, n |-> 2], [type |-> 1, n |-> 0]>>,l |-> 10]),
    ([cs |-> <<[wild |-> FALSE, err |-> "none", dl |-> "zero", wcomp |-> TRUE, level |-> 1, role |-> "server", pmce |-> FALSE, pool |-> FALSE, wbuf |-> 7, armed |-> "zero", open |-> FALSE, dead |-> FALSE, mtype |-> 1, mid |-> 1, wrote |-> 51, sent |-> 51, started |-> TRUE, mcomp |-> FALSE, wst |-> "idle", held |-> -1, nextkey |-> 0, done |-> <<[type |-> 1, n |-> 51, m |-> 1]>>]>>,pms |-> <<[type |-> 1, n |-> 5], [type |-> 2, n |-> 26], [type |-> 9, n |-> 3], [type |-> 8, n |-> 2], [type |-> 1, n |-> 0]>>,l |-> 11]),
    ([cs |-> <<[wild |-> FALSE, err |-> "none", dl |-> "zero", wcomp |-> TRUE, level |-> -2, role |-> "server", pmce |-> FALSE, pool |-> FALSE, wbuf |-> 7, armed |-> "zero", open |-> FALSE, dead |-> FALSE, mtype |-> 1, mid |-> 1, wrote |-> 51, sent |-> 51, started |-> TRUE, mcomp |-> FALSE, wst |-> "idle", held |-> -1, nextkey |-> 0, done |-> <<[type |-> 1, n |-> 51, m |-> 1]>>]>>,pms |-> <<[type |-> 1, n |-> 5], [type |-> 2, n |-> 26], [type |-> 9, n |-> 3], [type |-> 8, n |-> 2], [type |-> 1, n |-> 0]>>,l |-> 12]),
    ([cs |-> <<[wild |-> FALSE, err |-> "none", dl |-> "zero", wcomp |-> TRUE, level |-> -2, role |-> "server", pmce |-> FALSE, pool |-> FALSE, wbuf |-> 7, armed |-> "zero", open |-> FALSE, dead |-> FALSE, mtype |-> 2, mid |-> 2, wrote |-> 3, sent |-> 3, started |-> TRUE, mcomp |-> FALSE, wst |-> "idle", held |-> -1, nextkey |-> 0, done |-> <<[type |-> 1, n |-> 51, m |-> 1], [type |-> 2, n |-> 3, m |-> 2]>>]>>,pms |-> <<[type |-> 1, n |-> 5], [type |-> 2, n |-> 26], [type |-> 9, n |-> 3], [type |-> 8, n |-> 2], [type |-> 1, n |-> 0]>>,l |-> 13]),
    ([cs |-> <<[wild |-> FALSE, err |-> "none", dl |-> "zero", wcomp |-> TRUE, level |-> 1, role |-> "client", pmce |-> TRUE, pool |-> FALSE, wbuf |-> 4096, armed |-> "none", open |-> FALSE, dead |-> FALSE, mtype |-> 0, mid |-> -1, wrote |-> 0, sent |-> 0, started |-> FALSE, mcomp |-> FALSE, wst |-> "idle", held |-> -1, nextkey |-> 0, done |-> <<>>]>>,pms |-> <<[type |-> 1, n |-> 5], [type |-> 2, n |-> 12293], [type |-> 9, n |-> 3], [type |-> 8, n |-> 2], [type |-> 1, n |-> 0]>>,l |-> 14]),
    ([cs |-> <<[wild |-> FALSE, err |-> "none", dl |-> "zero", wcomp |-> TRUE, level |-> 1, role |-> "client", pmce |-> TRUE, pool |-> FALSE, wbuf |-> 4096, armed |-> "none", open |-> FALSE, dead |-> FALSE, mtype |-> 0, mid |-> -1, wrote |-> 0, sent |-> 0, started |-> FALSE, mcomp |-> FALSE, wst |-> "idle", held |-> -1, nextkey |-> 0, done |-> <<>>]>>,pms |-> <<[type |-> 1, n |-> 5], [type |-> 2, n |-> 12293], [type |-> 9, n |-> 3], [type |-> 8, n |-> 2], [type |-> 1, n |-> 0]>>,l |-> 15]),
    ([cs |-> <<[wild |-> FALSE, err |-> "none", dl |-> "zero", wcomp |-> TRUE, level |-> 1, role |-> "client", pmce |-> TRUE, pool |-> FALSE, wbuf |-> 4096, armed |-> "none", open |-> FALSE, dead |-> FALSE, mtype |-> 0, mid |-> -1, wrote |-> 0, sent |-> 0, started |-> FALSE, mcomp |-> FALSE, wst |-> "idle", held |-> -1, nextkey |-> 0, done |-> <<>>]>>,pms |-> <<[type |-> 1, n |-> 5], [type |-> 2, n |-> 12293], [type |-> 9, n |-> 3], [type |-> 8, n |-> 2], [type |-> 1, n |-> 0]>>,l |-> 16]),
    ([cs |-> <<[wild |-> FALSE, err |-> "none", dl |-> "zero", wcomp |-> TRUE, level |-> 1, role |-> "client", pmce |-> TRUE, pool |-> FALSE, wbuf |-> 4096, armed |-> "none", open |-> FALSE, dead |-> FALSE, mtype |-> 0, mid |-> -1, wrote |-> 0, sent |-> 0, started |-> FALSE, mcomp |-> FALSE, wst |-> "idle", held |-> -1, nextkey |-> 0, done |-> <<>>]>>,pms |-> <<[type |-> 1, n |-> 5], [type |-> 2, n |-> 12293], [type |-> 9, n |-> 3], [type |-> 8, n |-> 2], [type |-> 1, n |-> 0]>>,l |-> 17]),
    ([cs |-> <<[wild |-> FALSE, err |-> "none", dl |-> "zero", wcomp |-> TRUE, level |-> 1, role |-> "client", pmce |-> TRUE, pool |-> FALSE, wbuf |-> 4096, armed |-> "none", open |-> FALSE, dead |-> FALSE, mtype |-> 0, mid |-> -1, wrote |-> 0, sent |-> 0, started |-> FALSE, mcomp |-> FALSE, wst |-> "idle", held |-> -1, nextkey |-> 0, done |-> <<>>]>>,pms |-> <<[type |-> 1, n |-> 5], [type |-> 2, n |-> 12293], [type |-> 9, n |-> 3], [type |-> 8, n |-> 2], [type |-> 1, n |-> 0]>>,l |-> 18]),
    ([cs |-> <<[wild |-> FALSE, err |-> "none", dl |-> "zero", wcomp |-> TRUE, level |-> 1, role |-> "client", pmce |-> TRUE, pool |-> FALSE, wbuf |-> 4096, armed |-> "none", open |-> FALSE, dead |-> FALSE, mtype |-> 0, mid |-> -1, wrote |-> 0, sent |-> 0, started |-> FALSE, mcomp |-> FALSE, wst |-> "idle", held |-> -1, nextkey |-> 0, done |-> <<>>]>>,pms |-> <<[type |-> 1, n |-> 5], [type |-> 2, n |-> 12293], [type |-> 9, n |-> 3], [type |-> 8, n |-> 2], [type |-> 1, n |-> 0]>>,l |-> 19]),
    ([cs |-> <<[wild |-> FALSE, err |-> "closesent", dl |-> "zero", wcomp |-> TRUE, level |-> 1, role |-> "client", pmce |-> TRUE, pool |-> FALSE, wbuf |-> 4096, armed |-> "zero", open |-> FALSE, dead |-> FALSE, mtype |-> 0, mid |-> -1, wrote |-> 0, sent |-> 0, started |-> FALSE, mcomp |-> FALSE, wst |-> "idle", held |-> -1, nextkey |-> 0, done |-> <<[type |-> 8, n |-> 2, m |-> 1003]>>]>>,pms |-> <<[type |-> 1, n |-> 5], [type |-> 2, n |-> 12293], [type |-> 9, n |-> 3], [type |-> 8, n |-> 2], [type |-> 1, n |-> 0]>>,l |-> 20]),
    ([cs |-> <<[wild |-> FALSE, err |-> "closesent", dl |-> "zero", wcomp |-> TRUE, level |-> 0, role |-> "client", pmce |-> TRUE, pool |-> FALSE, wbuf |-> 4096, armed |-> "zero", open |-> FALSE, dead |-> FALSE, mtype |-> 0, mid |-> -1, wrote |-> 0, sent |-> 0, started |-> FALSE, mcomp |-> FALSE, wst |-> "idle", held |-> -1, nextkey |-> 0, done |-> <<[type |-> 8, n |-> 2, m |-> 1003]>>]>>,pms |-> <<[type |-> 1, n |-> 5], [type |-> 2, n |-> 12293], [type |-> 9, n |-> 3], [type |-> 8, n |-> 2], [type |-> 1, n |-> 0]>>,l |-> 21]),
    ([cs |-> <<[wild |-> FALSE, err |-> "closesent", dl |-> "zero", wcomp |-> TRUE, level |-> 0, role |-> "client", pmce |-> TRUE, pool |-> FALSE, wbuf |-> 4096, armed |-> "zero", open |-> FALSE, dead |-> FALSE, mtype |-> 0, mid |-> -1, wrote |-> 0, sent |-> 0, started |-> FALSE, mcomp |-> FALSE, wst |-> "idle", held |-> -1, nextkey |-> 0, done |-> <<[type |-> 8, n |-> 2, m |-> 1003]>>]>>,pms |-> <<[type |-> 1, n |-> 5], [type |-> 2, n |-> 12293], [type |-> 9, n |-> 3], [type |-> 8, n |-> 2], [type |-> 1, n |-> 0]>>,l |-> 22]),
    ([cs |-> <<[wild |-> FALSE, err |-> "closesent", dl |-> "zero", wcomp |-> FALSE, level |-> 0, role |-> "client", pmce |-> TRUE, pool |-> FALSE, wbuf |-> 4096, armed |-> "zero", open |-> FALSE, dead |-> FALSE, mtype |-> 0, mid |-> -1, wrote |-> 0, sent |-> 0, started |-> FALSE, mcomp |-> FALSE, wst |-> "idle", held |-> -1, nextkey |-> 0, done |-> <<[type |-> 8, n |-> 2, m |-> 1003]>>]>>,pms |-> <<[type |-> 1, n |-> 5], [type |-> 2, n |-> 12293], [type |-> 9, n |-> 3], [type |-> 8, n |-> 2], [type |-> 1, n |-> 0]>>,l |-> 23]),
    ([cs |-> <<[wild |-> FALSE, err |-> "closesent", dl |-> "zero", wcomp |-> FALSE, level |-> 0, role |-> "client", pmce |-> TRUE, pool |-> FALSE, wbuf |-> 4096, armed |-> "zero", open |-> FALSE, dead |-> FALSE, mtype |-> 0, mid |-> -1, wrote |-> 0, sent |-> 0, started |-> FALSE, mcomp |-> FALSE, wst |-> "idle", held |-> -1, nextkey |-> 0, done |-> <<[type |-> 8, n |-> 2, m |-> 1003]>>]>>,pms |-> <<[type |-> 1, n |-> 5], [type |-> 2, n |-> 12293], [type |-> 9, n |-> 3], [type |-> 8, n |-> 2], [type |-> 1, n |-> 0]>>,l |-> 24]),
    ([cs |-> <<[wild |-> FALSE, err |-> "closesent", dl |-> "zero", wcomp |-> FALSE, level |-> 0, role |-> "client", pmce |-> TRUE, pool |-> FALSE, wbuf |-> 4096, armed |-> "zero", open |-> FALSE, dead |-> FALSE, mtype |-> 0, mid |-> -1, wrote |-> 0, sent |-> 0, started |-> FALSE, mcomp |-> FALSE, wst |-> "idle", held |-> -1, nextkey |-> 0, done |-> <<[type |-> 8, n |-> 2, m |-> 1003]>>]>>,pms |-> <<[type |-> 1, n |-> 5], [type |-> 2, n |-> 12293], [type |-> 9, n |-> 3], [type |-> 8, n |-> 2], [type |-> 1, n |-> 0]>>,l |-> 25]),
    ([cs |-> <<[wild |-> FALSE, err |-> "none", dl |-> "zero", wcomp |-> TRUE, level |-> 1, role |-> "server", pmce |-> TRUE, pool |-> FALSE, wbuf |-> 1, armed |-> "none", open |-> FALSE, dead |-> FALSE, mtype |-> 0, mid |-> -1, wrote |-> 0, sent |-> 0, started |-> FALSE, mcomp |-> FALSE, wst |-> "idle", held |-> -1, nextkey |-> 0, done |-> <<>>]>>,pms |-> <<[type |-> 1, n |-> 5], [type |-> 2, n |-> 8], [type |-> 9, n |-> 3], [type |-> 8, n |-> 2], [type |-> 1, n |-> 0]>>,l |-> 26]),
    ([cs |-> <<[wild |-> FALSE, err |-> "none", dl |-> "zero", wcomp |-> TRUE, level |-> 1, role |-> "server", pmce |-> TRUE, pool |-> FALSE, wbuf |-> 1, armed |-> "none", open |-> FALSE, dead |-> FALSE, mtype |-> 0, mid |-> -1, wrote |-> 0, sent |-> 0, started |-> FALSE, mcomp |-> FALSE, wst |-> "idle", held |-> -1, nextkey |-> 0, done |-> <<>>]>>,pms |-> <<[type |-> 1, n |-> 5], [type |-> 2, n |-> 8], [type |-> 9, n |-> 3], [type |-> 8, n |-> 2], [type |-> 1, n |-> 0]>>,l |-> 27]),
    ([cs |-> <<[wild |-> FALSE, err |-> "none", dl |-> "zero", wcomp |-> TRUE, level |-> 1, role |-> "server", pmce |-> TRUE, pool |-> FALSE, wbuf |-> 1, armed |-> "none", open |-> FALSE, dead |-> FALSE, mtype |-> 0, mid |-> -1, wrote |-> 0, sent |-> 0, started |-> FALSE, mcomp |-> FALSE, wst |-> "idle", held |-> -1, nextkey |-> 0, done |-> <<>>]>>,pms |-> <<[type |-> 1, n |-> 5], [type |-> 2, n |-> 8], [type |-> 9, n |-> 3], [type |-> 8, n |-> 2], [type |-> 1, n |-> 0]>>,l |-> 28]),
    ([cs |-> <<[wild |-> FALSE, err |-> "none", dl |-> "zero", wcomp |-> TRUE, level |-> 1, role |-> "server", pmce |-> TRUE, pool |-> FALSE, wbuf |-> 1, armed |-> "none", open |-> FALSE, dead |-> FALSE, mtype |-> 0, mid |-> -1, wrote |-> 0, sent |-> 0, started |-> FALSE, mcomp |-> FALSE, wst |-> "idle", held |-> -1, nextkey |-> 0, done |-> <<>>]>>,pms |-> <<[type |-> 1, n |-> 5], [type |-> 2, n |-> 8], [type |-> 9, n |-> 3], [type |-> 8, n |-> 2], [type |-> 1, n |-> 0]>>,l |-> 29]),
    ([cs |-> <<[wild |-> FALSE, err |-> "none", dl |-> "zero", wcomp |-> TRUE, level |-> 1, role |-> "server", pmce |-> TRUE, pool |-> FALSE, wbuf |-> 1, armed |-> "none", open |-> FALSE, dead |-> FALSE, mtype |-> 0, mid |-> -1, wrote |-> 0, sent |-> 0, started |-> FALSE, mcomp |-> FALSE, wst |-> "idle", held |-> -1, nextkey |-> 0, done |-> <<>>]>>,pms |-> <<[type |-> 1, n |-> 5], [type |-> 2, n |-> 8], [type |-> 9, n |-> 3], [type |-> 8, n |-> 2], [type |-> 1, n |-> 0]>>,l |-> 30]),
    ([cs |-> <<[wild |-> FALSE, err |-> "none", dl |-> "zero", wcomp |-> TRUE, level |-> 1, role |-> "server", pmce |-> TRUE, pool |-> FALSE, wbuf |-> 1, armed |-> "none", open |-> FALSE, dead |-> FALSE, mtype |-> 0, mid |-> -1, wrote |-> 0, sent |-> 0, started |-> FALSE, mcomp |-> FALSE, wst |-> "idle", held |-> -1, nextkey |-> 0, done |-> <<>>]>>,pms |-> <<[type |-> 1, n |-> 5], [type |-> 2, n |-> 8], [type |-> 9, n |-> 3], [type |-> 8, n |-> 2], [type |-> 1, n |-> 0]>>,l |-> 31]),
    ([cs |-> <<[wild |-> FALSE, err |-> "none", dl |-> "zero", wcomp |-> TRUE, level |-> 1, role |-> "server", pmce |-> TRUE, pool |-> FALSE, wbuf |-> 1, armed |-> "none", open |-> TRUE, dead |-> FALSE, mtype |-> 1, mid |-> 1, wrote |-> 0, sent |-> 0, started |-> FALSE, mcomp |-> TRUE, wst |-> "idle", held |-> -1, nextkey |-> 0, done |-> <<>>]>>,pms |-> <<[type |-> 1, n |-> 5], [type |-> 2, n |-> 8], [type |-> 9, n |-> 3], [type |-> 8, n |-> 2], [type |-> 1, n |-> 0]>>,l |-> 32]),
    ([cs |-> <<[wild |-> FALSE, err |-> "none", dl |-> "zero", wcomp |-> TRUE, level |-> 1, role |-> "server", pmce |-> TRUE, pool |-> FALSE, wbuf |-> 1, armed |-> "none", open |-> TRUE, dead |-> FALSE, mtype |-> 1, mid |-> 1, wrote |-> 0, sent |-> 0, started |-> FALSE, mcomp |-> TRUE, wst |-> "idle", held |-> -1, nextkey |-> 0, done |-> <<>>]>>,pms |-> <<[type |-> 1, n |-> 5], [type |-> 2, n |-> 8], [type |-> 9, n |-> 3], [type |-> 8, n |-> 2], [type |-> 1, n |-> 0]>>,l |-> 33]),
    ([cs |-> <<[wild |-> FALSE, err |-> "none", dl |-> "zero", wcomp |-> TRUE, level |-> 1, role |-> "server", pmce |-> TRUE, pool |-> FALSE, wbuf |-> 1, armed |-> "none", open |-> TRUE, dead |-> FALSE, mtype |-> 1, mid |-> 1, wrote |-> 31, sent |-> 0, started |-> FALSE, mcomp |-> TRUE, wst |-> "idle", held |-> -1, nextkey |-> 0, done |-> <<>>]>>,pms |-> <<[type |-> 1, n |-> 5], [type |-> 2, n |-> 8], [type |-> 9, n |-> 3], [type |-> 8, n |-> 2], [type |-> 1, n |-> 0]>>,l |-> 34])
    >>
----


=============================================================================

---- CONFIG WSWriterTrace_TTrace_1790933463 ----

INVARIANT
    _inv

CHECK_DEADLOCK
    \* CHECK_DEADLOCK off because of PROPERTY or INVARIANT above.
    FALSE

INIT
    _init

NEXT
    _next

CONSTANT
    _TETrace <- _trace

ALIAS
    _expression
=============================================================================
\* Generated on Fri Oct 02 09:31:09 UTC 2026