SPECIFICATION Spec
CONSTANTS
  Cfgs <- MCCfgs
  Dials <- MCDials
  Proxies = {"none", "http", "https", "socks5"}
  HookSets = {"", "n", "c", "t", "nc", "nt", "ct", "nct"}
  Creds = {"none", "user", "userpass"}
  CReplyKinds = {"ok", "407", "202", "none"}
  HostForms = {"name", "v4port", "v6", "v6port"}
  WithHist = TRUE
  HostOvs = {"none", "same", "other"}
CONSTRAINT Emit
INVARIANTS InvRefines InvConnOnlyIfProven InvFailureCloses InvSuccessOpenNoDeadline InvProxyOnlyPath InvConnectOnce InvNon200Aborts InvWssInsideVerifiedTLS InvFirstHopHook
CHECK_DEADLOCK FALSE
