SPECIFICATION Spec
CONSTANTS
  Role = "server"
  WProgs <- LWProgs
  KProgs <- MCKProgs
  RProgs <- LRProgs
  FaultAts = {0, 2, 3}
  MultiQ = TRUE
  KeepSched = FALSE
  WCCheckBeforeLock = FALSE
INVARIANTS MonitorOK
PROPERTIES RefinesCore
CHECK_DEADLOCK FALSE
