------------------------------- MODULE MC_C17c -------------------------------
(* Program space for the CLIENT side of C17 (handshake boundary): the      *)
(* server glues frames to its 101 response.  Abstract programs =           *)
(* Dialer.ReadBufferSize x httptrace hooks installed or not x frame stream *)
(* (x ws / wss); the Go driver expands                                     *)
(* each of them to EVERY split offset of "response + frames" (two          *)
(* segments; the thorough tier adds three-segment variants around and      *)
(* behind the end of the header block), as it does for fault positions.    *)
(* The model (WSDial!RxOK) demands the same deliveries for every split and *)
(* every buffer size: the data messages of the glued frames, complete and  *)
(* in order, then the end of the stream.                                   *)
EXTENDS WSDialMC

CONSTANTS RBufs, Full, Schemes17

QuickStreams ==
  { << Fr(1, TRUE, 11) >>,
    << Fr(2, FALSE, 3), Fr(0, TRUE, 130) >>,
    << Fr(1, TRUE, 2), Fr(9, TRUE, 1), Fr(2, TRUE, 3) >> }
MoreStreams ==
  { << Fr(1, TRUE, 5), Fr(9, TRUE, 2), Fr(2, TRUE, 0), Fr(1, TRUE, 126) >>,
    << Fr(2, TRUE, 300), Fr(1, FALSE, 125), Fr(0, FALSE, 0), Fr(9, TRUE, 125), Fr(0, TRUE, 1), Fr(2, TRUE, 90) >>,
    << Fr(2, TRUE, 0) >>,
    << Fr(10, TRUE, 0), Fr(1, TRUE, 1) >>,
    << Fr(2, TRUE, 5000) >> }
Streams == IF Full THEN QuickStreams \cup MoreStreams ELSE QuickStreams

(* trace: the dial context carries an httptrace.ClientTrace with every hook set (GotFirstResponseByte, GetConn,  *)
(* GotConn, TLSHandshakeStart / Done, ...): observing the handshake must not cost a byte either.                *)
MCCfgs == { [BaseCfg EXCEPT !.rbuf = b, !.trace = t] : b \in RBufs, t \in BOOLEAN }
MCDials(c) ==
  { << Dial([PlainURL EXCEPT !.scheme = s], << >>, [GoodReply EXCEPT !.tail = t], OkCReply, "valid", NoFault, FALSE) >> :
      s \in Schemes17, t \in Streams }
=============================================================================
