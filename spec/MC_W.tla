-------------------------------- MODULE MC_W --------------------------------
(* Program spaces for the sequential writer properties (C01 C02 C09 C10    *)
(* C19 C20).  Family selects the shape of programs.                        *)
EXTENDS WSWriterMC

CONSTANTS Family, Roles, PmceSet, PoolSet, Quick

MCConnCfgs == {[role |-> r, pmce |-> p, pool |-> q] : r \in Roles, p \in PmceSet, q \in PoolSet}

MCPMSet == << [type |-> 1, size |-> S(0, 5)], [type |-> 2, size |-> S(3, 5)], [type |-> 9, size |-> S(0, 3)],
              [type |-> 8, size |-> S(0, 2)], [type |-> 1, size |-> S(0, 0)] >>

V   == {"w", "s", "rf"}
SS  == IF Quick THEN {S(0, 0), S(1, 0), S(1, 1), S(2, 28), S(2, 29), S(0, 126)}
       ELSE {S(0, 0), S(0, 1), S(1, -1), S(1, 0), S(1, 1), S(2, 0), S(2, 28), S(2, 29), S(3, 5), S(0, 125), S(0, 126)}
SS1 == IF Quick THEN {S(0, 0), S(1, 1), S(2, 29)} ELSE {S(0, 0), S(0, 1), S(1, 0), S(1, 1), S(2, 29)}

UWM   == {<< WM(t, s) >> : t \in {1, 2}, s \in SS}
UNW2  == {<< NW(1), WR(s1, v1), WR(s2, v2), CL >> : s1 \in SS1, s2 \in SS1, v1 \in V, v2 \in V}
UNW1  == {<< NW(2), WR(s, v), CL >> : s \in SS, v \in V}
UIMP  == {<< NW(1), WR(s, v) >> : s \in SS1, v \in V}
UWJ   == {<< WJ(s) >> : s \in {S(0, 0), S(1, 0), S(2, 29)}}
UCTL  == {<< NW(9), WR(S(0, 5), "w"), CL >>, << WM(9, S(0, 125)) >>, << WM(10, S(0, 0)) >>}
UWP   == {<< WP(p) >> : p \in {0, 1, 2, 4}}
Units == UWM \cup UNW2 \cup UNW1 \cup UIMP \cup UWJ \cup UCTL \cup UWP
Probe == IF Quick THEN {<< WM(2, S(0, 3)) >>, << NW(1), WR(S(1, 1), "w"), CL >>, << WC(9, S(0, 1), "zero") >>, << WP(0), WP(1) >>}
         ELSE {<< WM(2, S(0, 3)) >>, << NW(1), WR(S(1, 1), "w"), CL >>, << WP(0) >>, << WC(9, S(0, 1), "zero") >>, << WJ(S(0, 2)) >>}

Extras == {<< >>, << WRO >>, << WC(9, S(0, 5), "zero") >>, << WC(10, S(0, 125), "d1") >>, << SD("d1") >>, << SD("d2"), WC(9, S(0, 0), "zero") >>,
           << XC >>, << EC(FALSE) >>, << EC(FALSE), EC(TRUE) >>, << SL(9) >>, << SL(-2) >>, << SL(0) >>, << SL(10) >>}
Invalid == {<< WM(0, S(0, 1)) >>, << WM(3, S(0, 1)) >>, << WM(7, S(0, 1)) >>, << WM(11, S(0, 1)) >>, << WM(-1, S(0, 1)) >>,
            << WC(1, S(0, 1), "zero") >>, << WC(9, S(0, 126), "zero") >>, << WM(9, S(0, 126)) >>, << WM(8, S(0, 126)) >>,
            << NW(9), WR(S(0, 126), "w"), CL >>, << NW(10), WR(S(0, 100), "w"), WR(S(0, 26), "w"), CL >>,
            << NW(5) >>, << NW(0) >>, << WJB >>, << WC(9, S(0, 1), "past") >>, << WC(8, S(0, 2), "past") >>}
Closes == {<< NW(1), WC(8, S(0, 2), "zero"), CL >>,     \* also executed as ONE WriteJSON call whose value sends the close while being encoded
           << WC(8, S(0, 2), "zero") >>, << WC(8, S(0, 0), "d1") >>, << WM(8, S(0, 2)) >>, << NW(8), WR(S(0, 2), "w"), CL >>, << WP(3) >>}

Toggles == {<< >>, << WRO >>, << EC(FALSE) >>, << EC(TRUE) >>, << SL(9) >>, << SL(0) >>, << SL(-2) >>, << EC(FALSE), SL(5) >>}

Mid(X) == {<< NW(1), WR(s1, v) >> \o x \o << WR(s2, v), CL >> : s1 \in {S(0, 1), S(1, 1)}, s2 \in {S(0, 0), S(1, 0)}, v \in V, x \in X}

MCProgs(c) ==
  CASE Family = "conform" -> {u \o x \o p : u \in Units, x \in Extras, p \in Probe} \cup {m \o p : m \in Mid(Extras), p \in Probe}
    [] Family = "invalid" -> {u \o x \o p : u \in Units \cup {<< >>}, x \in Invalid, p \in Probe} \cup {m \o p : m \in Mid(Invalid), p \in Probe}
    [] Family = "close"   -> {u \o x \o p : u \in Units \cup {<< >>}, x \in Closes, p \in Probe \cup Closes} \cup {m \o p : m \in Mid(Closes), p \in Probe}
    [] Family = "fault"   -> {u \o p : u \in Units, p \in Probe} \cup {m \o p : m \in Mid(Extras), p \in Probe}
                             \* after a failure a close is refused like everything else, and stays refused
                             \cup {u \o << WC(8, S(0, 2), "zero"), WC(8, S(0, 0), "d1") >> \o p : u \in UWM \cup UNW1 \cup UWP, p \in {<< >>, << WM(1, S(0, 1)) >>}}
    [] Family = "prepared" -> {<< WP(a) >> \o t1 \o << WP(b) >> \o t2 \o << WP(d) >> \o q :
                                  a \in 0..4, b \in {0, 1, 3}, d \in {1, 2, 4}, t1 \in Toggles, t2 \in Toggles,
                                  q \in {<< >>, << WM(1, S(0, 4)) >>}}
    [] Family = "smoke"   -> {u \o p : u \in UWM \cup UIMP, p \in Probe}
=============================================================================
