--------------------------- MODULE WSUpgradeTrace ---------------------------
(***************************************************************************)
(* Trace validation for the server handshake: a batch of recorded          *)
(* executions of Upgrader.Upgrade on the real library.  Per execution:     *)
(*   Reset    the program p as it was actually executed (the request's     *)
(*            header lines as sent, byte for byte; Upgrader settings;      *)
(*            responseHeader; fault script)                                *)
(*   Upgrade  the observation o (return values, ResponseWriter, transport  *)
(*            operations on the hijacked connection, raw bytes written)    *)
(* The observation must be admitted by the envelope WSUpgrade!OutcomeAllowed*)
(* (C12, C13, C16 server part).  PANIC / HANG events have no action.       *)
(***************************************************************************)
EXTENDS WSUpgrade, Json, IOUtils

Trace == ndJsonDeserialize(IOEnv.TRACE_FILE)

VARIABLES p, phase, l
tvars == << p, phase, l >>

ASSUME TLCSet(1, 0)

Ev == Trace[l]
Is(e) == l <= Len(Trace) /\ Trace[l].e = e
Adv == l' = l + 1 /\ TLCSet(1, l)

TReset ==
  /\ Is("Reset")
  /\ p' = Ev.p /\ phase' = "ready"
  /\ Adv

TUpgrade ==
  /\ Is("Upgrade")
  /\ phase = "ready"
  /\ OutcomeAllowed(p, Ev.o)
  /\ phase' = "done" /\ UNCHANGED p
  /\ Adv

TInit == l = 1 /\ p = [none |-> TRUE] /\ phase = "idle"
TNext == TReset \/ TUpgrade
TSpec == TInit /\ [][TNext]_tvars

Accepted ==
  IF TLCGet(1) = Len(Trace) THEN TRUE
  ELSE PrintT(<< "REJECTED-AT", TLCGet(1) + 1, Len(Trace) >>) /\ FALSE
=============================================================================
