-------------------------- MODULE WSNegotiateTrace --------------------------
(***************************************************************************)
(* Trace validation for C15: recorded executions of a real Dialer / real   *)
(* Upgrader (pair, hand-made offer, scripted reply) must be behaviours of  *)
(* the envelope of WSNegotiate.  The extension header lines are the bytes  *)
(* seen on the wire; TLC parses them (WSTokens!Extensions).                *)
(***************************************************************************)
EXTENDS WSNegotiate, Json, IOUtils

Trace == ndJsonDeserialize(IOEnv.TRACE_FILE)

VARIABLES pr, ns, l
tvars == << pr, ns, l >>

ASSUME TLCSet(1, 0)

Ev == Trace[l]
Is(e) == l <= Len(Trace) /\ Trace[l].e = e
Adv == l' = l + 1 /\ TLCSet(1, l)

TReset == Is("Reset") /\ pr' = Ev.prog /\ ns' = N0 /\ Adv

THandshake ==
  /\ Is("Handshake") /\ ns.hs = "none"
  /\ HandshakeAllowed(pr, Ev)
  /\ ns' = AfterHandshake(ns, Ev) /\ UNCHANGED pr /\ Adv

TSend == Is("Send") /\ SendAllowed(pr, ns, Ev) /\ ns' = AfterSend(ns, Ev) /\ UNCHANGED pr /\ Adv
TFeed == Is("Feed") /\ FeedAllowed(pr, ns, Ev) /\ ns' = AfterFeed(ns, Ev) /\ UNCHANGED pr /\ Adv
TEWC  == Is("EWC") /\ ToggleAllowed(pr, ns, Ev) /\ ns' = AfterEWC(ns, Ev) /\ UNCHANGED pr /\ Adv
TOpen == Is("Open") /\ OpenAllowed(pr, ns, Ev) /\ ns' = AfterOpen(ns, Ev) /\ UNCHANGED pr /\ Adv
TWr   == Is("Wr") /\ WrAllowed(pr, ns, Ev) /\ UNCHANGED << pr, ns >> /\ Adv
TCls  == Is("Cls") /\ ClsAllowed(pr, ns, Ev) /\ ns' = AfterCls(ns, Ev) /\ UNCHANGED pr /\ Adv
TSCL  == Is("SCL") /\ ToggleAllowed(pr, ns, Ev) /\ UNCHANGED << pr, ns >> /\ Adv
(* after a failed handshake nothing else happens *)
TEnd  == Is("End") /\ ns.hs \in {"ok", "failed"} /\ UNCHANGED << pr, ns >> /\ Adv

TInit == l = 1 /\ pr = [mode |-> "none"] /\ ns = N0
TNext == TReset \/ THandshake \/ TSend \/ TFeed \/ TEWC \/ TSCL \/ TOpen \/ TWr \/ TCls \/ TEnd
TSpec == TInit /\ [][TNext]_tvars

Accepted ==
  IF TLCGet(1) = Len(Trace) THEN TRUE
  ELSE PrintT(<< "REJECTED-AT", TLCGet(1) + 1, Len(Trace) >>) /\ FALSE
=============================================================================
