--------------------------- MODULE WSBoundaryTrace ---------------------------
(***************************************************************************)
(* Trace validation for C17 (family "boundary"): after a handshake with    *)
(* bytes glued to it (pre-loaded hijacked reader / frames behind the 101   *)
(* response, split at every offset) the messages delivered by the returned *)
(* connection must be exactly the messages of the glued frame stream,      *)
(* complete and in order.  The judge is the reader model WSReader: Reset   *)
(* carries the frame stream (all frames arrived, then EOF), each RM event  *)
(* is one ReadMessage call and must be admitted by NRWalk / RALoop.        *)
(* A handshake that fails (SETUPFAIL), PANIC and HANG have no action.      *)
(***************************************************************************)
EXTENDS WSReader, Json, IOUtils

Trace == ndJsonDeserialize(IOEnv.TRACE_FILE)

VARIABLE l
tvars == << cfg, fr, s, l >>

ASSUME TLCSet(1, 0)

Ev == Trace[l]
Is(e) == l <= Len(Trace) /\ Trace[l].e = e
Adv == l' = l + 1 /\ TLCSet(1, l)

ContentOK(st, ev) == ev.any \/ st.start \in Rng(ev.cand)

TReset ==
  /\ Is("Reset")
  /\ cfg' = Ev.cfg /\ fr' = Ev.fr /\ s' = S0
  /\ Adv

(* ReadMessage = NextReader, then io.ReadAll on success. *)
TRM ==
  /\ Is("RM")
  /\ LET w1 == NRWalk(s, FALSE) IN
     IF s.failed \/ w1.res # "data" THEN
          /\ w1.res # "wild"
          /\ NRAllowed(s, w1, Ev.ok, Ev.type, Ev.err, Ev.obs) /\ Ev.n = 0
          /\ s' = NRNext(s, w1, Ev.err)
     ELSE LET s1 == w1.s
              w2 == RALoop(s1, << >>)
              wc == [w2 EXCEPT !.obs = w1.obs \o w2.obs]
          IN /\ w2.res # "wild"
             /\ Ev.ok /\ Ev.type = fr[s1.start].op
             /\ RAAllowed(s1, wc, Ev.n, Ev.err, Ev.obs)
             /\ ContentOK(s1, Ev)
             /\ s' = RANext(s1, wc, Ev.err)
  /\ UNCHANGED << cfg, fr >> /\ Adv

TInit == l = 1 /\ cfg = [role |-> "server"] /\ fr = << >> /\ s = S0
TNext == TReset \/ TRM
TSpec == TInit /\ [][TNext]_tvars

Accepted ==
  IF TLCGet(1) = Len(Trace) THEN TRUE
  ELSE PrintT(<< "REJECTED-AT", TLCGet(1) + 1, Len(Trace) >>) /\ FALSE
=============================================================================
