SPECIFICATION Spec
CONSTANTS
  Role = "client"
  WProgs <- TWProgs
  KProgs <- TKProgs
  RProgs <- TRProgs
  FaultAts = {0, 1, 2, 3, 4, 6}
  MultiQ = FALSE
  KeepSched = TRUE
  WCCheckBeforeLock = FALSE
VIEW View
INVARIANTS MonitorOK CloseLatched WCBounded
CHECK_DEADLOCK FALSE
