SPECIFICATION TSpec
CONSTANT SocksStrict = FALSE
POSTCONDITION Accepted
CHECK_DEADLOCK FALSE
