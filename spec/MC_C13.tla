------------------------------- MODULE MC_C13 -------------------------------
(***************************************************************************)
(* Program space for C13 (default origin policy): (Host, Origin) pairs     *)
(* over the adversarial alphabet                                           *)
(*     a A k K U+212A(KELVIN SIGN) s S U+017F(LONG S) z Z . - 1 :          *)
(* An abstract program is [host, origin]; python embeds it into an         *)
(* otherwise valid opening handshake for an Upgrader without CheckOrigin.  *)
(*                                                                         *)
(*  Hosts     valid Host values (WSOrigin!ValidHost) of length 1..MaxLen   *)
(*  near      for every host h: every origin host y at edit distance <= 1  *)
(*            (substitution, insertion, deletion of one symbol) and every  *)
(*            y equal to h under UNICODE simple case folding (k ~ K ~      *)
(*            U+212A, s ~ S ~ U+017F, a ~ A)           x shape "plain"     *)
(*  all       (AllPairs = TRUE) every pair (h, y), |h|, |y| <= PairLen     *)
(*  shapes    for the fold-variant pairs: 8 origin shapes x host port      *)
(*            {none, :81} x origin port {none, :81, :82} x embedding       *)
(*            {bare, left-most label of .example.test, look-alike          *)
(*            suffix / prefix / parent domain}; for hosts longer than      *)
(*            ShapeLen only shapes with default ports and bare embedding   *)
(*  literals  IPv4 / bracketed IPv6 hosts with and without ports           *)
(*  ports     structured port variants on BOTH sides: Host port {none, :80, *)
(*            :443, :81} x Origin port {none, 80, 443, 81, 82} x Origin    *)
(*            scheme {http, https, ws, wss} (so that a port is absent,     *)
(*            the default of the origin's scheme, the default of the other *)
(*            scheme, or unrelated - on either side) x shapes with an      *)
(*            authority, for short fold-variant pairs and the literals.    *)
(*            "host (with port)" is compared as text: an explicit default  *)
(*            port on one side only is a different origin.                 *)
(* The model executes the policy (res = Expected) and the invariants       *)
(* restate C13 independently of AFoldEq.                                   *)
(* (generated from tools/upgrade-gen/MC_C13.tla.in: literals expanded)           *)
(***************************************************************************)
EXTENDS WSOrigin, FiniteSets, Json, TLC

CONSTANTS MaxLen, PairLen, ShapeLen, AllPairs, PortLen

VARIABLES prog, pc, res
mvars == << prog, pc, res >>

Alpha == {97, 65, 107, 75, Kelvin, 115, 83, LongS, 122, 90, 46, 45, 49, 58}   \* ... plus z Z (the end of the A-Z range)

RECURSIVE StrN(_)
StrN(n) == IF n = 0 THEN {<< >>} ELSE {<< c >> \o s : c \in Alpha, s \in StrN(n - 1)}
Strs(n) == UNION {StrN(k) : k \in 1..n}

Hosts(n) == {h \in Strs(n) : ValidHost(h)}

(* Unicode simple case folding restricted to the alphabet *)
UClass(c) == CASE c \in {107, 75, Kelvin} -> {107, 75, Kelvin}
               [] c \in {115, 83, LongS}  -> {115, 83, LongS}
               [] c \in {97, 65}          -> {97, 65}
               [] c \in {122, 90}         -> {122, 90}
               [] OTHER -> {c}
RECURSIVE UVariants(_)
UVariants(h) == IF h = << >> THEN {<< >>} ELSE {<< c >> \o t : c \in UClass(Head(h)), t \in UVariants(Tail(h))}

Subst(h) == {[h EXCEPT ![i] = c] : i \in 1..Len(h), c \in Alpha}
Ins(h)   == {SubSeq(h, 1, i) \o << c >> \o SubSeq(h, i + 1, Len(h)) : i \in 0..Len(h), c \in Alpha}
Del(h)   == {SubSeq(h, 1, i - 1) \o SubSeq(h, i + 1, Len(h)) : i \in 1..Len(h)} \ {<< >>}
Near(h)  == Subst(h) \cup Ins(h) \cup Del(h) \cup UVariants(h)

Http  == <<104,116,116,112>>
Https == <<104,116,116,112,115>>
Dom   == <<101,120,97,109,112,108,101,46,116,101,115,116>>
DotDom == <<46,101,120,97,109,112,108,101,46,116,101,115,116>>
P81 == <<56,49>>
P82 == <<56,50>>
C81 == <<58,56,49>>
Ws    == <<119,115>>
Wss   == <<119,115,115>>
Schemes == {Http, Https, Ws, Wss}
HostPorts == {<< >>, <<58,56,48>>, <<58,52,52,51>>, C81}
OrgPorts  == {<< >>, <<56,48>>, <<52,52,51>>, P81, P82}

O(shape, scheme, y, port) ==
  LET o == [present |-> TRUE, shape |-> shape, scheme |-> scheme, y |-> y, port |-> port]
  IN o @@ [str |-> OriginString(o)]
NoOrigin == [present |-> FALSE, shape |-> "plain", scheme |-> Http, y |-> << >>, port |-> << >>, str |-> << >>]

Sch(h) == IF Len(h) % 2 = 0 THEN Http ELSE Https
Pr(host, o) == [host |-> host, origin |-> o]

HasColon(h) == \E i \in 1..Len(h) : h[i] = 58

(* embeddings of a pair (h, y): resulting <<host, origin host text>> *)
Embed(e, h, y) ==
  CASE e = "bare"   -> <<h, y>>
    [] e = "label"  -> <<h \o DotDom, y \o DotDom>>
    [] e = "suffix" -> <<Dom, y \o Dom>>               \* <y>example.test   vs example.test
    [] e = "prefix" -> <<Dom, Dom \o <<46>> \o y>>     \* example.test.<y>  vs example.test
    [] e = "parent" -> <<h \o DotDom, Dom>>            \* example.test      vs <h>.example.test
Embeddings == {"bare", "label", "suffix", "prefix", "parent"}

Lits == { <<<<49,50,55,46,48,46,48,46,49>>, <<49,50,55,46,48,46,48,46,49>>>>, <<<<49,50,55,46,48,46,48,46,49>>, <<49,50,55,46,48,46,48,46,49,48>>>>, <<<<49,50,55,46,48,46,48,46,49>>, <<49,50,55,46,48,46,48>>>>,
          <<<<91,58,58,49,93>>, <<91,58,58,49,93>>>>, <<<<91,58,58,49,93>>, <<58,58,49>>>>, <<<<91,58,58,49,93>>, <<91,58,58,49,48,93>>>>, <<<<91,50,48,48,49,58,68,66,56,58,58,97,93>>, <<91,50,48,48,49,58,100,98,56,58,58,65,93>>>>,
          <<<<91,58,58,49,93>>, <<91,58,58,49>>>>, <<<<108,111,99,97,108,104,111,115,116>>, <<76,79,67,65,76,72,79,83,84>>>>, <<<<108,111,99,97,108,104,111,115,116>>, <<108,111,99,97,108,104,111,115,116,46>>>> }

HostsMax   == Hosts(MaxLen)
HostsPair  == Hosts(PairLen)
StrsPair   == Strs(PairLen)
HostsShape == {h \in Hosts(ShapeLen) : ~HasColon(h)}
HostsPort  == {h \in Hosts(PortLen) : ~HasColon(h)}     \* host names of the structured port product
AuthShapes == {"plain", "userinfo", "path"}

InitProg ==
  \* near: edit distance <= 1 and Unicode-fold variants, shape "plain"
  \/ \E h \in HostsMax : \E y \in Near(h) : prog = Pr(h, O("plain", Sch(y), y, << >>))
  \* all pairs up to PairLen
  \/ AllPairs /\ \E h \in HostsPair : \E y \in StrsPair : prog = Pr(h, O("plain", Http, y, << >>))
  \* fold-variant pairs x every shape (default ports, bare)
  \/ \E h \in HostsMax : \E y \in UVariants(h) : \E sh \in Shapes : prog = Pr(h, O(sh, Sch(y), y, << >>))
  \* short fold-variant pairs x every shape x embedding
  \/ \E h \in HostsShape : \E y \in UVariants(h) : \E sh \in Shapes : \E e \in Embeddings :
        prog = Pr(Embed(e, h, y)[1], O(sh, Sch(y), Embed(e, h, y)[2], << >>))
  \* short fold-variant pairs x shapes with an authority x port variants x embedding {bare, label}
  \/ \E h \in HostsShape : \E y \in UVariants(h) : \E sh \in AuthShapes : \E hp \in {<< >>, C81} : \E op \in {<< >>, P81, P82} :
        \E e \in {"bare", "label"} : prog = Pr(Embed(e, h, y)[1] \o hp, O(sh, Sch(y), Embed(e, h, y)[2], op))
  \* IP literals and names, with and without ports
  \/ \E hy \in Lits : \E sh \in {"plain", "userinfo", "path", "evil"} : \E hp \in {<< >>, C81} : \E op \in {<< >>, P81, P82} :
        prog = Pr(hy[1] \o hp, O(sh, Http, hy[2], op))
  \* structured port variants on both sides x origin scheme (default port of the scheme or not)
  \/ \E h \in HostsPort : \E y \in UVariants(h) : \E sh \in (IF Len(h) = 1 THEN AuthShapes ELSE {"plain"}) : \E sc \in Schemes :
        \E hp \in HostPorts : \E op \in OrgPorts :
        prog = Pr(h \o hp, O(sh, sc, y, op))
  \/ \E hy \in Lits \cup {<<Dom, Dom>>} : \E sh \in {"plain", "path"} : \E sc \in Schemes : \E hp \in HostPorts : \E op \in OrgPorts :
        prog = Pr(hy[1] \o hp, O(sh, sc, hy[2], op))
  \/ prog = Pr(Dom, NoOrigin) \/ prog = Pr(<<97>>, NoOrigin)

Init == InitProg /\ pc = 1 /\ res = "none"
Next == pc = 1 /\ pc' = 2 /\ res' = (IF Expected(prog.host, prog.origin) THEN "101" ELSE "403") /\ UNCHANGED prog
Spec == Init /\ [][Next]_mvars

Emit == pc = 1 => PrintT(<< "PROG", ToJson(prog) >>)

-----------------------------------------------------------------------------
(* C13 restated without AFoldEq: an admitted request has no Origin, or its *)
(* origin has an authority of the same length as Host in which every       *)
(* position carries the same code point or the two cases of one ASCII      *)
(* letter - never a non-ASCII look-alike, a missing/extra port or label.   *)
AsciiLetter(c) == c \in (65..90) \cup (97..122)
SameUpToAsciiCase(a, b) == a = b \/ (AsciiLetter(a) /\ AsciiLetter(b) /\ (a - b = 32 \/ b - a = 32))

InvOnlySameOrigin ==
  res = "101" =>
     \/ ~prog.origin.present
     \/ /\ HasAuthority(prog.origin.shape)
        /\ LET au == Authority(prog.origin) IN
           /\ Len(au) = Len(prog.host)
           /\ \A i \in 1..Len(au) : SameUpToAsciiCase(au[i], prog.host[i])

InvSameOriginAdmitted ==
  (res = "403" /\ prog.origin.present /\ HasAuthority(prog.origin.shape)) => Authority(prog.origin) # prog.host

InvNoUnicodeFold ==
  res = "101" /\ prog.origin.present =>
     \A i \in 1..Len(prog.host) : (prog.host[i] > 127 \/ Authority(prog.origin)[i] > 127) => prog.host[i] = Authority(prog.origin)[i]
=============================================================================
