SPECIFICATION Spec
CONSTANTS
  Cfgs <- MCCfgs
  Streams <- MCStreams
  Cuts <- MCCuts
  Progs <- MCProgs
  Roles = {"server", "client"}
  Lens = {0, 1, 125, 126}
  BigLens = {65536}
  Variants = {"stored", "fixed", "fixed2", "bfinal", "std-2", "std1", "std2"}
  HModes = {"chain"}
CONSTRAINT Emit
INVARIANTS InvCompleteIsWhole InvOrder InvFailStop InvNothingPastViolation InvDecode
CHECK_DEADLOCK FALSE
