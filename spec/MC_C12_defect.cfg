\* expected-violation regression artefact: the pinned tree before the repair of defect 6.4
\* (responseHeader["Sec-Websocket-Protocol"] copied raw) violates InvRefinesEnvelope
SPECIFICATION Spec
CONSTANTS
  IsProgram <- MCIsProgram
  Space = "nego"
  Full = FALSE
  ScrubProto = FALSE
INVARIANTS InvRefinesEnvelope
CHECK_DEADLOCK FALSE
