------------------------------- MODULE MC_C07h -------------------------------
(* Program space for the header-value part of C07: side x header x context *)
(* x stem (all class strings of length < StemLen with ext = 0, all of      *)
(* length = StemLen with ext = Ext): together all class strings of length  *)
(* <= StemLen + Ext, each exactly once; plus the long structured values:   *)
(* side x header x context x shape, each over the sequence of lengths      *)
(* KeyLens (base64 text) or ListLens (everything else).                    *)
EXTENDS WSHsFuzz, Json

CONSTANTS Sides, StemLen, ExtServer, ExtClient, KeyLens, ListLens

VARIABLES prog, pc
RECURSIVE Strs(_)
Strs(n) == IF n = 0 THEN { << >> } ELSE { Append(s, c) : s \in Strs(n - 1), c \in 1..NClasses }

ExtOf(side) == IF side = "server" THEN ExtServer ELSE ExtClient

(* length sequences (a cfg file cannot hold tuples) *)
KeyLensQuick == << 0, 1, 4, 20, 22, 23, 24, 25, 28, 32, 36, 40, 44, 48, 64, 88, 1024 >>
ListLensQuick == << 36, 1024, 4096 >>
KeyLensThorough == << 0, 1, 2, 3, 4, 8, 16, 20, 21, 22, 23, 24, 25, 26, 27, 28, 32, 33, 34, 35, 36, 37, 40, 44, 48, 64, 88, 1024, 4096, 65536 >>
ListLensThorough == << 36, 125, 1024, 4096, 65536, 1048576 >>

LongProgs ==
  UNION { UNION { { [kind |-> "long", side |-> sd, header |-> h, ctx |-> cx, stem |-> << >>, ext |-> 0, shape |-> sh,
                     lens |-> IF sh = "b64" THEN KeyLens ELSE ListLens] :
                      cx \in CtxsOf(h), sh \in ShapesOf(h) } :
                  h \in (IF sd = "server" THEN ServerHeaders ELSE ClientHeaders) } : sd \in Sides }

EnumProgs ==
  UNION { UNION { { [kind |-> "enum", side |-> sd, header |-> h, ctx |-> cx, stem |-> s, ext |-> IF Len(s) = StemLen THEN ExtOf(sd) ELSE 0,
                     shape |-> "", lens |-> << >>] :
                      cx \in CtxsOf(h), s \in UNION { Strs(k) : k \in 0..StemLen } } :
                  h \in (IF sd = "server" THEN ServerHeaders ELSE ClientHeaders) } : sd \in Sides }

Progs == EnumProgs \cup LongProgs

Init == prog \in Progs /\ pc = 1
(* the model's behaviour: one batch whose every presentation ends normally or with an error *)
Next == pc = 1 /\ pc' = 2 /\ UNCHANGED prog
Spec == Init /\ [][Next]_<< prog, pc >>

Emit == pc = 1 => PrintT(<< "PROG", ToJson(prog) >>)

CanonBatch(p) ==
  IF p.kind = "long" THEN [n |-> LongCount(p), normal |-> 0, errors |-> LongCount(p)]
  ELSE [n |-> 3 * UpToCount(p.ext), normal |-> 0, errors |-> 3 * UpToCount(p.ext)]
InvBatch == pc = 2 => BatchAllowed(prog, CanonBatch(prog))
(* the stems partition the strings up to StemLen + ext: no string is enumerated twice *)
InvPartition == (Len(prog.stem) < StemLen) => prog.ext = 0
(* every header the property names gets long values in every context, the key in every padding *)
InvLongCovers ==
  \A sd \in Sides : \A h \in (IF sd = "server" THEN ServerHeaders ELSE ClientHeaders) : \A cx \in CtxsOf(h) :
     \E q \in LongProgs : q.side = sd /\ q.header = h /\ q.ctx = cx /\ Len(q.lens) > 0
=============================================================================
