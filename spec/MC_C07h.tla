------------------------------- MODULE MC_C07h -------------------------------
(* Program space for the header-value part of C07: side x header x context *)
(* x stem (all class strings of length < StemLen with ext = 0, all of      *)
(* length = StemLen with ext = Ext): together all class strings of length  *)
(* <= StemLen + Ext, each exactly once.                                    *)
EXTENDS WSHsFuzz, Json

CONSTANTS Sides, StemLen, ExtServer, ExtClient

VARIABLES prog, pc
RECURSIVE Strs(_)
Strs(n) == IF n = 0 THEN { << >> } ELSE { Append(s, c) : s \in Strs(n - 1), c \in 1..NClasses }

ExtOf(side) == IF side = "server" THEN ExtServer ELSE ExtClient

Progs ==
  UNION { UNION { { [side |-> sd, header |-> h, ctx |-> cx, stem |-> s, ext |-> IF Len(s) = StemLen THEN ExtOf(sd) ELSE 0] :
                      cx \in CtxsOf(h), s \in UNION { Strs(k) : k \in 0..StemLen } } :
                  h \in (IF sd = "server" THEN ServerHeaders ELSE ClientHeaders) } : sd \in Sides }

Init == prog \in Progs /\ pc = 1
(* the model's behaviour: one batch whose every presentation ends normally or with an error *)
Next == pc = 1 /\ pc' = 2 /\ UNCHANGED prog
Spec == Init /\ [][Next]_<< prog, pc >>

Emit == pc = 1 => PrintT(<< "PROG", ToJson(prog) >>)

CanonBatch(p) == [n |-> 3 * UpToCount(p.ext), normal |-> 0, errors |-> 3 * UpToCount(p.ext)]
InvBatch == pc = 2 => BatchAllowed(prog, CanonBatch(prog))
(* the stems partition the strings up to StemLen + ext: no string is enumerated twice *)
InvPartition == (Len(prog.stem) < StemLen) => prog.ext = 0
=============================================================================
