SPECIFICATION TSpec
POSTCONDITION Accepted
CHECK_DEADLOCK FALSE
