SPECIFICATION Spec
CONSTANTS
  IsProgram <- MCIsProgram
  Levels <- LevelsThorough
  MaxToggles = 3
CONSTRAINT Emit
INVARIANTS InvRefinesEnvelope InvAgreement InvOnlyIfBoth InvPair InvLatched
CHECK_DEADLOCK FALSE
