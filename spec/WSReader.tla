------------------------------ MODULE WSReader ------------------------------
(***************************************************************************)
(* The read half of one WebSocket connection as a reference model of the   *)
(* read API (NextReader / Read / io.ReadAll / ReadMessage) over an inbound *)
(* frame stream `fr` with an arrival annotation per frame (transport       *)
(* faults).  Written from RFC 6455 section 5 and from properties           *)
(* C03 C04 C05 C06 C08, at the level of the properties (the "envelope"):   *)
(* where a property leaves a choice open (how many bytes a Read returns,   *)
(* which error class reports a truncated stream, whether a close frame is  *)
(* sent for a top-bit length) the model admits every choice.               *)
(*                                                                         *)
(* A step of the model is one application call.  Each call is described by *)
(* a deterministic *walk* over the frames (NRWalk, RDWalk, RAWalk) that    *)
(* yields the successor state, the externally observable side effects      *)
(* `obs` (handler invocations, frames written back) in order, and an       *)
(* outcome; `*Allowed` predicates then relate an outcome to a result       *)
(* reported by an implementation.  The model checker uses the canonical    *)
(* outcome (WSReaderMC), trace validation uses the logged one              *)
(* (WSReaderTrace).                                                        *)
(*                                                                         *)
(* Frame record (extends WSWire's):                                        *)
(*   op fin r1 r2 r3 mk len lk min       header                           *)
(*   code utf8                            close body (code = -1: none)     *)
(*   arr  : "full" | "with" | "part" | "none"  how much of it arrived:     *)
(*          completely by successful transport reads / its last byte came  *)
(*          together with the transport error / partially / not at all     *)
(*   h2, hdrOK : first two header bytes / whole header arrived             *)
(*   pgot : payload bytes that arrived                                     *)
(***************************************************************************)
EXTENDS Integers, Sequences, FiniteSets, TLC, WSWire

VARIABLES cfg,   \* [role, pmce, limit, hmode, herrAt, policy]
          fr,    \* the inbound frame stream
          s      \* reader state, see S0

S0 == [pos |-> 1, frag |-> FALSE, rd |-> "none", start |-> 0, cur |-> 0,
       used |-> 0, got |-> 0, mlen |-> 0, mhuge |-> FALSE,
       failed |-> FALSE, nrid |-> -1, wild |-> FALSE, hn |-> 0,
       zgot |-> 0, zobs |-> 0, lazy |-> FALSE,
       sentClose |-> FALSE,      \* the application has sent a close frame on this connection (op WCL)
       nerr |-> 0]               \* NextReader calls that returned an error (the documented panic comes with the 1000th)   \* compressed message: plaintext bytes delivered / side effects already reported

Min(a, b) == IF a < b THEN a ELSE b
Rng(q) == {q[i] : i \in DOMAIN q}

Arrived(f) == f.arr \in {"full", "with"}
Lim == cfg.limit

(***************************************************************************)
(* What the reader meets when it has to parse the frame at s.pos.          *)
(***************************************************************************)
Kind(st) ==
  IF st.pos > Len(fr) THEN "starve"
  ELSE LET f == fr[st.pos] IN
    IF f.arr = "none" THEN "starve"
    ELSE IF ~f.hdrOK THEN
         IF f.h2 /\ HeaderViolation(f, st.frag, cfg.role, cfg.pmce)
         THEN "starveV" ELSE "starve"
    ELSE IF Unspecified(f, st.frag, cfg.role, cfg.pmce) THEN "wild"
    ELSE IF HeaderViolation(f, st.frag, cfg.role, cfg.pmce) THEN "viol"
    ELSE IF f.lk = "top" THEN "top"
    \* RSV1 data frame whose payload was not produced by a deflater (header alphabet runs): what the
    \* inflater makes of arbitrary bytes is not specified
    ELSE IF IsDataOp(f.op) /\ f.r1 /\ ~f.comp THEN "wild"
    ELSE IF IsCtlOp(f.op) THEN
         IF ~Arrived(f) THEN "starve"
         ELSE IF CloseBodyViolation(f) THEN "viol" ELSE "ctl"
    ELSE \* legal data / continuation frame: read-limit accounting
      LET first == IsDataOp(f.op)
          \* C06: the running length is a property of the wire message
          \* ("per_message").  "per_call" is the as-coded deviation of the
          \* pinned tree (defect 6.2): reset by NextReader, not by the frame.
          base  == IF first /\ cfg.policy = "per_message" THEN 0 ELSE st.mlen
          bhuge == IF first /\ cfg.policy = "per_message" THEN FALSE ELSE st.mhuge
          go    == IF first THEN "data" ELSE "cont"
      IN IF f.lk = "max" THEN
            IF bhuge \/ base > 0 THEN "ovf"
            ELSE IF Lim > 0 THEN "limit" ELSE go
         ELSE IF bhuge THEN (IF f.len > 0 THEN "ovf" ELSE go)
         ELSE IF Lim > 0 /\ base + f.len > Lim THEN "limit" ELSE go

(* State after accepting the header of the data/continuation frame at pos. *)
Enter(st) ==
  LET f == fr[st.pos]
      first == IsDataOp(f.op)
      base  == IF first /\ cfg.policy = "per_message" THEN 0 ELSE st.mlen
      bhuge == IF first /\ cfg.policy = "per_message" THEN FALSE ELSE st.mhuge
  IN [st EXCEPT !.pos = st.pos + 1, !.frag = ~f.fin, !.cur = st.pos, !.used = 0,
                !.mlen = IF f.lk = "n" THEN base + f.len ELSE base,
                !.mhuge = bhuge \/ f.lk = "max"]

(***************************************************************************)
(* Observable side effects of processing the control frame at index i.     *)
(***************************************************************************)
CtlName(op) == IF op = OpPing THEN "ping" ELSE IF op = OpPong THEN "pong" ELSE "close"
Custom == cfg.hmode # "default"
Replies == cfg.hmode \in {"default", "chain"}
HandlerFails(st) == cfg.hmode = "err" /\ st.hn + 1 = cfg.herrAt

EchoCode(f) == IF f.len < 2 THEN -1 ELSE f.code   \* -1: empty close body (1005)

CtlObs(st, i) ==
  LET f == fr[i]
      h == IF Custom THEN << [t |-> "H", kind |-> CtlName(f.op), f |-> i] >> ELSE << >>
      \* C09 takes precedence over C08: once a close frame has been sent nothing more is written, so the
      \* default handlers reply nothing; the frames are still processed and the data still delivered (C03)
      r == IF st.sentClose THEN << >>
           ELSE IF Replies /\ ~HandlerFails(st) /\ f.op = OpPing
              THEN << [t |-> "TX", op |-> OpPong, f |-> i, code |-> -1] >>
           ELSE IF Replies /\ ~HandlerFails(st) /\ f.op = OpClose
              THEN << [t |-> "TX", op |-> OpClose, f |-> i, code |-> EchoCode(f)] >>
           ELSE << >>
  IN h \o r

TxClose(c) == [t |-> "TX", op |-> OpClose, f |-> 0, code |-> c]

Out(st, obs, res, opt) == [s |-> st, obs |-> obs, res |-> res, opt |-> opt]

(***************************************************************************)
(* Common part of the walks: handle whatever is at s.pos when it is not an *)
(* acceptable data/continuation frame.  Returns an outcome or, for a       *)
(* control frame that was handled normally, res = "next".                  *)
(***************************************************************************)
Meet(st, obs, k) ==
  CASE k = "starve"  -> Out(st, obs, "starve", FALSE)
    [] k = "starveV" -> Out(st, obs, "starve", TRUE)
    [] k = "wild"    -> Out([st EXCEPT !.wild = TRUE], obs, "wild", FALSE)
    [] k = "viol"    -> Out(st, obs \o (IF st.sentClose THEN << >> ELSE << TxClose(1002) >>), "viol", FALSE)
    [] k = "top"     -> Out(st, obs, "top", TRUE)
    [] k = "ovf"     -> Out(st, obs, "ovf", TRUE)
    [] k = "limit"   -> Out(st, obs \o (IF st.sentClose THEN << >> ELSE << TxClose(1009) >>), "limit", FALSE)
    [] k = "ctl"     ->
         LET i  == st.pos
             f  == fr[i]
             o2 == obs \o CtlObs(st, i)
             s2 == [st EXCEPT !.pos = i + 1, !.hn = IF Custom THEN st.hn + 1 ELSE st.hn]
         IN IF HandlerFails(st) THEN Out(s2, o2, "herr", FALSE)
            ELSE IF f.op = OpClose THEN Out(s2, o2, "close", FALSE)
            ELSE Out(s2, o2, "next", FALSE)

(***************************************************************************)
(* NextReader: abandon the open reader, skip the rest of the abandoned     *)
(* message, process control frames, stop at the next data frame.           *)
(***************************************************************************)
(* `len` (lenient): C06 forbids reading an over-limit message in full; it does *)
(* not say that the unread rest of an ABANDONED message must trip the      *)
(* limit.  Both behaviours are admitted: with len = TRUE the continuation  *)
(* frames of an abandoned message are skipped without limit enforcement.   *)
RECURSIVE NRLoop(_, _, _)
NRLoop(st, obs, len) ==
  LET k0 == Kind(st)
      k  == IF len /\ k0 \in {"limit", "ovf"} /\ fr[st.pos].op = OpCont THEN "cont" ELSE k0
  IN
  IF k = "data" THEN
      LET s2 == Enter(st) IN
      Out([s2 EXCEPT !.rd = "open", !.start = st.pos, !.got = 0, !.zgot = 0, !.zobs = 0, !.lazy = FALSE], obs, "data", FALSE)
  ELSE IF k = "cont" THEN
      \* continuation of an abandoned message: its payload must be skipped
      IF Arrived(fr[st.pos])
      THEN NRLoop([Enter(st) EXCEPT !.cur = 0], obs, len)
      ELSE Out(st, obs, "starve", FALSE)
  ELSE LET m == Meet(st, obs, k) IN
       IF m.res = "next" THEN NRLoop(m.s, m.obs, len) ELSE m

NRWalk(st, len) ==
  LET s1 == [st EXCEPT !.rd = "none",
                       !.mlen = IF cfg.policy = "per_call" THEN 0 ELSE st.mlen,
                       !.mhuge = IF cfg.policy = "per_call" THEN FALSE ELSE st.mhuge]
  IN IF st.cur > 0 /\ (fr[st.cur].lk # "n" \/ st.used < fr[st.cur].len)
     THEN \* rest of the current frame has to be discarded first
          IF Arrived(fr[st.cur]) THEN NRLoop([s1 EXCEPT !.cur = 0], << >>, len)
          ELSE Out(s1, << >>, "starve", FALSE)
     ELSE NRLoop([s1 EXCEPT !.cur = 0], << >>, len)

(***************************************************************************)
(* Read(k) on the open reader, n = number of bytes the call delivered.     *)
(* The walk first moves to a frame that still has undelivered payload      *)
(* (processing control frames between fragments), then delivers n bytes.   *)
(* res: "bytes" (n >= 1 delivered; see RDAllowed for the error component), *)
(*      "eom" (end of message), or an error outcome.                       *)
(***************************************************************************)
CurLen(st) == fr[st.cur].len
CurAvail(st) == IF fr[st.cur].lk = "n" THEN fr[st.cur].pgot - st.used
                ELSE fr[st.cur].pgot - st.used

RECURSIVE RDSeek(_, _)
RDSeek(st, obs) ==
  IF fr[st.cur].lk # "n" \/ st.used < CurLen(st) THEN
       IF CurAvail(st) > 0 THEN Out(st, obs, "bytes", FALSE)
       ELSE Out(st, obs, "starve", FALSE)
  ELSE IF fr[st.cur].fin THEN Out(st, obs, "eom", FALSE)
  ELSE LET k == Kind(st) IN
       IF k = "cont" THEN RDSeek(Enter(st), obs)
       ELSE IF k = "data" THEN Out(st, obs, "viol", FALSE)   \* unreachable: frag
       ELSE LET m == Meet(st, obs, k) IN
            IF m.res = "next" THEN RDSeek(m.s, m.obs) ELSE m

(* Deliver n bytes of the current frame. *)
Deliver(st, n) == [st EXCEPT !.used = st.used + n, !.got = st.got + n]

(* After a delivery: is the message complete, and did the transport fault  *)
(* arrive together with the delivered bytes?                               *)
FrameDone(st) == fr[st.cur].lk = "n" /\ st.used = CurLen(st)
MsgDone(st)   == FrameDone(st) /\ fr[st.cur].fin
AtFault(st)   == /\ fr[st.cur].arr \in {"with", "part"}
                 /\ st.used = fr[st.cur].pgot

(***************************************************************************)
(* io.ReadAll on the open reader: deliver everything up to the end of the  *)
(* message or the first obstacle.                                          *)
(***************************************************************************)
RECURSIVE RALoop(_, _)
RALoop(st, obs) ==
  LET m == RDSeek(st, obs) IN
  IF m.res = "bytes" THEN RALoop(Deliver(m.s, CurAvail(m.s)), m.obs) ELSE m

(***************************************************************************)
(* Relating outcomes to reported results.  An error report is a record     *)
(* [cls, id, code, cand]; cls = "nil" means no error; "eof" is io.EOF.     *)
(***************************************************************************)
IsErr(e)    == e.cls # "nil"
IsRealErr(e) == e.cls \notin {"nil", "eof"}

ObsMatch(x, l) ==
  /\ x.t = l.t
  /\ x.t = "H" => (l.kind = x.kind /\ x.f \in Rng(l.cand))
  /\ x.t = "TX" =>
       /\ l.op = x.op /\ l.fin /\ ~l.r1 /\ ~l.r2 /\ ~l.r3 /\ l.min /\ l.len <= 125
       /\ l.mk = (cfg.role = "client")
       /\ x.op = OpPong  => x.f \in Rng(l.cand)
       /\ x.op = OpClose => l.code = x.code

ObsSeqMatch(xs, ls) ==
  /\ Len(xs) = Len(ls)
  /\ \A i \in 1..Len(xs) : ObsMatch(xs[i], ls[i])

(* opt: the walk allows one optional close frame (1002 or 1009) at the end *)
IsOptClose(l) == /\ l.t = "TX" /\ l.op = OpClose /\ l.fin /\ ~l.r1 /\ ~l.r2 /\ ~l.r3
                 /\ l.min /\ l.len <= 125 /\ l.mk = (cfg.role = "client")
                 /\ l.code \in {1002, 1009}
ObsOK(w, ls) ==
  \/ ObsSeqMatch(w.obs, ls)
  \/ /\ w.opt /\ Len(ls) = Len(w.obs) + 1
     /\ ObsSeqMatch(w.obs, SubSeq(ls, 1, Len(w.obs)))
     /\ IsOptClose(ls[Len(ls)])

(* Error class demanded by an error outcome.                               *)
ErrFits(w, e) ==
  CASE w.res \in {"starve", "viol", "top"} -> IsErr(e)
    [] w.res = "limit" -> e.cls = "limit"
    [] w.res = "ovf"   -> IF Lim > 0 THEN e.cls = "limit" ELSE IsErr(e)
    [] w.res = "herr"  -> e.cls = "herr"
    [] w.res = "close" ->
         LET f == fr[w.s.pos - 1] IN
         /\ e.cls = "close"
         /\ e.code = (IF f.len < 2 THEN 1005 ELSE f.code)
         /\ (w.s.pos - 1) \in Rng(e.cand)
    [] OTHER -> FALSE

ErrOutcome(r) == r \in {"starve", "viol", "top", "limit", "ovf", "herr", "close"}

(* NextReader reported (ok, type, err, obs). *)
NRAllowed(st, w, ok, type, e, obs) ==
  IF st.failed THEN
       \* C04/C05/C08: errors are permanent and identical, nothing more happens
       /\ ~ok /\ IsErr(e) /\ obs = << >>
       /\ st.nrid >= 0 => e.id = st.nrid
  ELSE IF w.res = "wild" THEN TRUE
  ELSE /\ ObsOK(w, obs)
       /\ IF w.res = "data" THEN ok /\ type = fr[w.s.start].op
          ELSE ~ok /\ ErrFits(w, e)

NRNext(st, w, e) ==
  IF st.failed THEN [st EXCEPT !.nrid = IF st.nrid < 0 THEN e.id ELSE st.nrid, !.rd = "none", !.nerr = st.nerr + 1]
  ELSE IF w.res \in {"data", "wild"} THEN w.s
  ELSE [w.s EXCEPT !.failed = TRUE, !.nrid = e.id, !.rd = "none", !.nerr = st.nerr + 1]

(***************************************************************************)
(* io.ReadAll(JoinMessages(c, term)): NextReader + read-to-end, repeated   *)
(* until NextReader fails.  The walk returns the starts of the messages    *)
(* delivered completely, the number of bytes they contribute (each plus    *)
(* the terminator), and the terminal outcome (always an error outcome:     *)
(* the join reader ends only when the connection does).                    *)
(***************************************************************************)
(* A message whose bytes reach the application through an opaque consumer  *)
(* (the inflater of a compressed message, the JSON decoder of ReadJSON):   *)
(* the model keeps the wire position at the start of the message and       *)
(* counts the side effects of the whole-message walk already reported.     *)
Lazy(st) == st.rd = "open" /\ (fr[st.start].comp \/ st.lazy)
DropObs(w, k) == [w EXCEPT !.obs = SubSeq(w.obs, k + 1, Len(w.obs))]

(* cont: a message whose last bytes arrived together with the transport fault may be followed by further      *)
(* messages that arrived in that same transport read; an implementation that reports the fault only when it    *)
(* needs more bytes delivers them too (cont = TRUE), one that reports it at once stops there (cont = FALSE).   *)
RECURSIVE JALoop(_, _, _, _, _, _, _)
JALoop(st, obs, starts, lens, total, tl, cont) ==
  LET w1 == IF ~st.wild /\ Lazy(st) THEN DropObs(NRWalk(st, FALSE), st.zobs) ELSE NRWalk(st, FALSE) IN
  IF st.failed THEN [s |-> st, obs |-> obs, starts |-> starts, lens |-> lens, total |-> total, partial |-> 0, w |-> Out(st, << >>, "failed", FALSE)]
  ELSE IF w1.res # "data" THEN
       [s |-> w1.s, obs |-> obs \o w1.obs, starts |-> starts, lens |-> lens, total |-> total, partial |-> 0, w |-> [w1 EXCEPT !.obs = obs \o w1.obs]]
  ELSE LET s1 == w1.s
           w2 == RALoop(s1, << >>)
           len == IF fr[s1.start].comp THEN fr[s1.start].plain ELSE w2.s.got
       IN IF w2.res = "eom" /\ (fr[w2.s.cur].arr = "full" \/ (cont /\ fr[w2.s.cur].arr = "with")) THEN
               JALoop([w2.s EXCEPT !.rd = "eof"], obs \o w1.obs \o w2.obs, Append(starts, s1.start), Append(lens, len), total + len + tl, tl, cont)
          ELSE [s |-> w2.s, obs |-> obs \o w1.obs \o w2.obs, starts |-> starts, lens |-> lens, total |-> total, partial |-> len,
                w |-> [w2 EXCEPT !.obs = obs \o w1.obs \o w2.obs]]

(* reported: n bytes, error e, side effects obs, segs = starts of the messages found in the output, in order, *)
(* rest = trailing bytes that are a prefix of the next message (restOK)                                       *)
(* segs[i] = the messages whose content equals the i-th piece of the output (several if contents coincide) *)
SegsOK(starts, segs) == Len(segs) = Len(starts) /\ \A i \in 1..Len(starts) : starts[i] \in Rng(segs[i])
(* an empty message joined with an empty terminator leaves no trace in the output *)
RECURSIVE Visible(_, _, _)
Visible(starts, lens, tl) ==
  IF starts = << >> THEN << >>
  ELSE IF Head(lens) + tl = 0 THEN Visible(Tail(starts), Tail(lens), tl)
  ELSE << Head(starts) >> \o Visible(Tail(starts), Tail(lens), tl)

(* The joined reader is an io.Reader: when the transport ended with io.EOF exactly at a frame boundary, outside *)
(* any message, after every message was delivered completely, reporting the plain end of the stream (io.EOF,   *)
(* which io.ReadAll turns into "no error") truncates nothing.  Anywhere else the end must be an error (C05).   *)
JACleanEnd(j) ==
  /\ cfg.fault = "eof" /\ j.w.res = "starve" /\ j.partial = 0 /\ ~j.w.s.frag
  /\ (IF j.w.s.pos > Len(fr) THEN TRUE ELSE fr[j.w.s.pos].arr = "none")    \* (IF: TLC evaluates both sides of a disjunction inside an action)

JAAllowed(j, tl, n, e, obs, segs, rest, restOK) ==
  IF j.w.res = "wild" THEN TRUE
  ELSE /\ (IsErr(e) \/ (e.cls = "nil" /\ JACleanEnd(j))) /\ ObsOK(j.w, obs) /\ restOK
       /\ IF j.w.res = "eom" THEN
             \* the last message ended together with the transport fault: it may or may not be included
             \/ SegsOK(Visible(j.starts, j.lens, tl), segs) /\ n = j.total + rest /\ rest <= j.partial
             \/ SegsOK(Visible(Append(j.starts, j.s.start), Append(j.lens, j.partial), tl), segs) /\ rest = 0
          ELSE /\ \/ SegsOK(Visible(j.starts, j.lens, tl), segs) /\ n = j.total + rest /\ rest <= j.partial
                  \* without a terminator the delivered part of an unfinished message cannot be told from a
                  \* complete message with the same bytes: the observer may attribute it either way
                  \/ /\ tl = 0 /\ j.partial > 0 /\ rest = 0 /\ n = j.total + j.partial
                     /\ SegsOK(Visible(Append(j.starts, j.s.start), Append(j.lens, j.partial), tl), segs)
               /\ (j.w.res = "failed" \/ ErrFits(j.w, e) \/ (e.cls = "nil" /\ JACleanEnd(j)))

JANext(j, e) == [j.s EXCEPT !.failed = TRUE, !.nrid = e.id, !.rd = "none", !.nerr = j.s.nerr + 1]

(* C05/C07: the only panic the library may raise on untrusted input: the 1000th NextReader call *)
(* on a connection that has already failed.                                                    *)
PanicAllowed(st) == st.failed /\ st.nerr >= 999

(* Read reported (n, err, obs) for a request of k bytes. *)
RDAllowed(st, w, k, n, e, obs) ==
  \* after the end of the message nothing more is delivered (what error a further Read reports is not specified)
  IF st.rd = "eof" THEN n = 0 /\ obs = << >>
  ELSE IF st.rd = "err" THEN n = 0 /\ IsRealErr(e) /\ obs = << >>
  ELSE IF w.res = "wild" THEN TRUE
  ELSE /\ ObsOK(w, obs)
       /\ IF w.res = "bytes" THEN
             /\ n >= 1 /\ n <= k /\ n <= CurAvail(w.s)
             /\ LET d == Deliver(w.s, n) IN
                IF MsgDone(d) THEN
                     \* whole message delivered: nil or EOF; the transport
                     \* error only if it arrived with these very bytes
                     \/ e.cls \in {"nil", "eof"}
                     \/ IsRealErr(e) /\ AtFault(d)
                ELSE \* C05: never io.EOF before the end of the message
                     \/ e.cls = "nil"
                     \/ IsRealErr(e) /\ AtFault(d)
          ELSE IF w.res = "eom" THEN n = 0 /\ e.cls = "eof"
          ELSE n = 0 /\ ErrFits(w, e) /\ IsRealErr(e)

RDNext(st, w, n, e) ==
  IF st.rd \in {"eof", "err"} \/ w.res = "wild" THEN
       (IF w.res = "wild" /\ st.rd = "open" THEN w.s ELSE st)
  ELSE IF w.res = "bytes" THEN
       LET d == Deliver(w.s, n) IN
       IF e.cls = "eof" THEN [d EXCEPT !.rd = "eof"]
       ELSE IF IsRealErr(e) THEN [d EXCEPT !.rd = "err", !.failed = TRUE]
       ELSE d
  ELSE IF w.res = "eom" THEN [w.s EXCEPT !.rd = "eof"]
  ELSE [w.s EXCEPT !.rd = "err", !.failed = TRUE]

(***************************************************************************)
(* Read(k) on a COMPRESSED message.  The inflater decouples the bytes      *)
(* delivered from the position on the wire (it reads ahead), so the model  *)
(* keeps the wire position at the start of the message and only counts:    *)
(* zgot plaintext bytes delivered so far, zobs side effects (handlers,     *)
(* replies) of the whole-message walk already reported by earlier calls.   *)
(* w is RALoop from the message start.                                     *)
(***************************************************************************)
ZWhole(st) == fr[st.start].plain

RDZAllowed(st, w, k, n, e, obs) ==
  LET rest == DropObs(w, st.zobs)
      allObs == Len(obs) >= Len(rest.obs)
  IN /\ n >= 0 /\ n <= k
     /\ \/ ~allObs /\ Len(obs) <= Len(rest.obs) /\ ObsSeqMatch(SubSeq(rest.obs, 1, Len(obs)), obs)
        \/ allObs /\ ObsOK(rest, obs)
     /\ IF e.cls = "nil" THEN n >= 1 /\ (w.res = "eom" => st.zgot + n <= ZWhole(st))
        ELSE IF e.cls = "eof" THEN w.res = "eom" /\ allObs /\ st.zgot + n = ZWhole(st)
        ELSE \* a real error: only where the walk meets one (or a fault arriving with the last bytes)
             /\ allObs
             /\ \/ ErrOutcome(w.res) /\ ErrFits(w, e)
                \/ w.res = "eom" /\ fr[w.s.cur].arr = "with"

RDZNext(st, w, n, e, obs) ==
  IF e.cls = "nil" THEN [st EXCEPT !.zgot = st.zgot + n, !.zobs = st.zobs + Len(obs)]
  ELSE IF e.cls = "eof" THEN [w.s EXCEPT !.rd = "eof"]
  ELSE [w.s EXCEPT !.rd = "err", !.failed = TRUE]

(* io.ReadAll reported (n, err, obs): err = nil means "message complete".  *)
RAAllowed(st, w, n, e, obs) ==
  IF st.rd = "eof" THEN n = 0 /\ obs = << >>
  ELSE IF st.rd = "err" THEN n = 0 /\ IsErr(e) /\ obs = << >>
  ELSE IF w.res = "wild" THEN TRUE
  ELSE /\ ObsOK(w, obs)
       /\ LET \* compressed message: the delivered length is the plaintext length
               whole == IF fr[st.start].comp THEN fr[st.start].plain - st.zgot ELSE w.s.got - st.got
           IN
          IF w.res = "eom" THEN
             \* everything arrived: complete unless the fault came with the
             \* last bytes, in which case either report is allowed
             \/ n = whole /\ e.cls = "nil"
             \/ /\ fr[w.s.cur].arr = "with" /\ IsErr(e) /\ n <= whole
          ELSE \* C05: an incomplete message is never reported complete
             /\ IsErr(e) /\ ErrFits(w, e) /\ n <= whole

RANext(st, w, e) ==
  IF st.rd \in {"eof", "err"} THEN st
  ELSE IF w.res = "wild" THEN w.s
  ELSE IF e.cls = "nil" THEN [w.s EXCEPT !.rd = "eof"]
  ELSE [w.s EXCEPT !.rd = "err", !.failed = TRUE]

(***************************************************************************)
(* ReadJSON = NextReader, then a JSON decoder that consumes an unknown     *)
(* prefix of the message (at least the first JSON value, at most the whole *)
(* message) and never hands the reader to the application.  The frame that *)
(* starts a message carries `jneed`: -1 if the content does not begin with *)
(* a JSON value, otherwise the number of content bytes the decoder has to  *)
(* see to know that the first value is complete (content length + 1 when   *)
(* only the end of the message terminates it, as for a bare number).       *)
(* w1 = NextReader walk (a "data" outcome), w2 = whole-message walk from   *)
(* w1.s.  Three explanations of a report (ok, e, obs, cand):               *)
(*   "value"  the value was delivered: it is the one encoded by THIS       *)
(*            message and all the bytes it needs arrived before any        *)
(*            obstacle; side effects are a prefix of the message's         *)
(*   "syntax" the content is not JSON: an error that is neither a          *)
(*            transport/protocol error nor io.EOF; the connection lives on *)
(*   "fault"  the walk's obstacle (truncation, violation, limit, handler   *)
(*            error, close) was reported: permanent                        *)
(***************************************************************************)
RJPrefixObs(w1, w2, obs) ==
  LET all == w1.obs \o w2.obs IN
  /\ Len(obs) >= Len(w1.obs) /\ Len(obs) <= Len(all)
  /\ ObsSeqMatch(SubSeq(all, 1, Len(obs)), obs)

RJValueAllowed(w1, w2, ok, e, obs, cand) ==
  LET f == fr[w1.s.start] IN
  /\ ok /\ e.cls = "nil" /\ f.jneed >= 0 /\ w1.s.start \in Rng(cand)
  /\ RJPrefixObs(w1, w2, obs)
  /\ \/ w2.res = "eom"
     \/ w2.res # "eom" /\ (IF f.comp THEN f.jneed <= f.plain ELSE f.jneed <= w2.s.got)

RJSyntaxAllowed(w1, w2, ok, e, obs) ==
  /\ ~ok /\ e.cls = "other" /\ fr[w1.s.start].jneed < 0
  /\ RJPrefixObs(w1, w2, obs)

RJFaultAllowed(w1, w2, ok, e, obs) ==
  LET wc == [w2 EXCEPT !.obs = w1.obs \o w2.obs] IN
  /\ ~ok /\ IsRealErr(e) /\ ObsOK(wc, obs)
  /\ \/ ErrOutcome(w2.res) /\ ErrFits(w2, e)
     \/ w2.res = "eom" /\ fr[w2.s.cur].arr = "with"

(***************************************************************************)
(* The application sends a close frame (WriteControl) on the connection it *)
(* is reading from, and keeps reading, as the documentation recommends.    *)
(* On a healthy connection the frame goes out (code 1000); a second close  *)
(* fails with ErrCloseSent and writes nothing (C09).  After a read failure *)
(* the library may already have sent a close itself: either report.        *)
(***************************************************************************)
WCLAllowed(st, e, obs) ==
  LET sent == e.cls = "nil" /\ ObsSeqMatch(<< TxClose(1000) >>, obs)
      refused == e.cls = "closesent" /\ obs = << >>
  IN IF st.sentClose THEN refused
     ELSE IF st.failed THEN sent \/ refused
     ELSE sent
WCLNext(st) == [st EXCEPT !.sentClose = TRUE]

(* WriteControl(ping) with a deadline in the past: C11 promises a timeout error, nothing written, connection  *)
(* not poisoned; the read side is not affected at all.  After a close was sent ErrCloseSent is as good (C09).  *)
WCPAllowed(st, e, obs) == obs = << >> /\ (e.cls = "timeout" \/ ((st.sentClose \/ st.failed) /\ e.cls = "closesent"))

RJLazyNext(w1, obs) == [w1.s EXCEPT !.lazy = TRUE, !.zobs = Len(obs) - Len(w1.obs)]
RJFaultNext(w2) == [w2.s EXCEPT !.rd = "err", !.failed = TRUE]

=============================================================================
