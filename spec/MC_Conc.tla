------------------------------ MODULE MC_Conc ------------------------------
EXTENDS WSConcMC

O(api, type, n, dl) == [api |-> api, type |-> type, n |-> n, dl |-> dl]
WC(type, n, dl) == O("WC", type, n, dl)

MCWProgs ==
  { << O("NW", 1, 0, "zero"), O("WR", 0, 2, "zero"), O("CL", 0, 0, "zero"), O("WM", 2, 3, "zero") >>,
    << O("WM", 1, 2, "zero"), O("SD", 0, 0, "d1"), O("WM", 2, 1, "zero") >>,
    << O("NW", 2, 0, "zero"), O("WR", 0, 1, "zero"), O("WR", 0, 0, "zero"), O("CL", 0, 0, "zero") >>,
    << O("WM", 8, 2, "zero"), O("WM", 1, 1, "zero") >> }

MCKProgs ==
  { << << WC(8, 2, "zero") >>, << WC(9, 1, "d1") >> >>,
    << << WC(9, 0, "d1"), WC(8, 2, "d1") >>, << >> >>,
    << << WC(8, 2, "d1") >>, << WC(8, 0, "zero") >> >>,
    << << WC(10, 3, "past"), WC(9, 3, "zero") >>, << WC(9, 2, "d1") >> >>,
    << << O("XC", 0, 0, "zero") >>, << WC(9, 1, "d1") >> >>,
    << << WC(8, 2, "zero"), O("XC", 0, 0, "zero") >>, << >> >>,
    << << >>, << >> >> }

(* larger space for the thorough tier *)
TWProgs == MCWProgs \cup
  { << O("NW", 1, 0, "zero"), O("WR", 0, 2, "zero"), O("WR", 0, 1, "zero"), O("CL", 0, 0, "zero") >>,
    << O("WM", 2, 1, "zero"), O("WM", 1, 2, "zero"), O("WM", 8, 2, "zero"), O("WM", 2, 1, "zero") >>,
    << O("NW", 9, 0, "zero"), O("WR", 0, 0, "zero"), O("CL", 0, 0, "zero"), O("WM", 1, 1, "zero") >> }
TKProgs == MCKProgs \cup
  { << << WC(9, 1, "d1"), WC(8, 2, "zero"), WC(9, 1, "zero") >>, << WC(10, 0, "d1"), WC(8, 0, "d1") >> >>,
    << << WC(8, 2, "past"), WC(8, 2, "d1") >>, << O("XC", 0, 0, "zero"), WC(9, 1, "zero") >> >> }

(* small space for the liveness check (WCBoundedWait under fairness of the control callers only) *)
LWProgs == { << O("NW", 1, 0, "zero"), O("WR", 0, 1, "zero"), O("CL", 0, 0, "zero") >>, << O("WM", 8, 2, "zero") >> }
LKProgs == { << << WC(9, 1, "d1") >>, << WC(8, 2, "zero") >> >>, << << WC(9, 0, "d1"), WC(10, 0, "d1") >>, << WC(9, 1, "d1") >> >> }
LRProgs == { << >>, << WC(10, 2, "auto") >> }

MCRProgs == { << >>, << WC(10, 2, "auto") >>, << WC(10, 1, "auto"), WC(8, 2, "auto") >> }
TRProgs == MCRProgs \cup { << WC(8, 2, "auto") >>, << WC(10, 1, "auto"), WC(10, 2, "auto"), WC(8, 2, "auto") >> }
=============================================================================
