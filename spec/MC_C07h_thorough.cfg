SPECIFICATION Spec
CONSTANTS
  Sides = {"server", "client"}
  StemLen = 2
  ExtServer = 4
  ExtClient = 3
CONSTRAINT Emit
INVARIANTS InvBatch InvPartition
CHECK_DEADLOCK FALSE
