SPECIFICATION Spec
CONSTANTS
  Sides = {"server", "client"}
  StemLen = 2
  ExtServer = 4
  ExtClient = 3
  KeyLens <- KeyLensThorough
  ListLens <- ListLensThorough
CONSTRAINT Emit
INVARIANTS InvBatch InvPartition InvLongCovers
CHECK_DEADLOCK FALSE
