SPECIFICATION Spec
CONSTANTS
  Cfgs <- MCCfgs
  Streams <- MCStreams
  Cuts <- MCCuts
  Progs <- MCProgs
  Full = FALSE
  HModes = {"chain"}
CONSTRAINT Emit
INVARIANTS InvCompleteIsWhole InvOrder InvFailStop InvNothingPastViolation InvDecode
CHECK_DEADLOCK FALSE
