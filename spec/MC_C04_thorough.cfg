SPECIFICATION Spec
CONSTANTS
  Cfgs <- MCCfgs
  Streams <- MCStreams
  Cuts <- MCCuts
  Progs <- MCProgs
  Full = TRUE
  HModes = {"chain", "default"}
CONSTRAINT Emit
INVARIANTS InvCompleteIsWhole InvOrder InvFailStop InvNothingPastViolation InvDecode
CHECK_DEADLOCK FALSE
