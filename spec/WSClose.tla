------------------------------- MODULE WSClose -------------------------------
(***************************************************************************)
(* The closing handshake between two endpoints that use the default close  *)
(* handler (growth of the specification, DESIGN section 10 item 6; it      *)
(* composes C08 "a close is answered by a close with the same status code; *)
(* reads then fail with a CloseError carrying the received code" with C09  *)
(* "a close frame is the last thing a connection writes").                 *)
(*                                                                         *)
(* Endpoints "a" and "b".  Each sends some data messages; an initiator     *)
(* then sends a close frame with its code and keeps reading; an endpoint   *)
(* that receives a close frame while still open echoes the code, and its   *)
(* read loop ends with that code; an endpoint that has already sent its    *)
(* own close does not write again.  Code 1005 stands for an empty body.    *)
(***************************************************************************)
EXTENDS WSCloseRules, TLC

VARIABLES plan,   \* [e -> [init, code, ndata]]
          st,     \* [e -> "open" | "sent" | "done"]
          ch,     \* [e -> frames in flight from e to its peer]
          out,    \* [e -> every frame e has sent]
          rerr,   \* [e -> close code reported by e's read loop, -1 = none yet]
          left    \* [e -> data messages still to send]
vars == << plan, st, ch, out, rerr, left >>

Data == [k |-> "data", code |-> 0]
Close(c) == [k |-> "close", code |-> c]

Send(e, f) == /\ ch' = [ch EXCEPT ![e] = Append(ch[e], f)]
              /\ out' = [out EXCEPT ![e] = Append(out[e], f)]

SendData(e) == /\ st[e] = "open" /\ left[e] > 0
               /\ Send(e, Data) /\ left' = [left EXCEPT ![e] = left[e] - 1]
               /\ UNCHANGED << plan, st, rerr >>

Initiate(e) == /\ st[e] = "open" /\ plan[e].init /\ left[e] = 0
               /\ Send(e, Close(plan[e].code)) /\ st' = [st EXCEPT ![e] = "sent"]
               /\ UNCHANGED << plan, rerr, left >>

Recv(e) ==
  LET p == Peer(e) IN
  /\ st[e] # "done" /\ ch[p] # << >>
  /\ LET f == Head(ch[p]) IN
     IF f.k = "data" THEN
          /\ ch' = [ch EXCEPT ![p] = Tail(ch[p])] /\ UNCHANGED << plan, st, out, rerr, left >>
     ELSE /\ rerr' = [rerr EXCEPT ![e] = f.code]
          /\ st' = [st EXCEPT ![e] = "done"]
          /\ IF st[e] = "open"
             THEN /\ ch' = [ch EXCEPT ![p] = Tail(ch[p]), ![e] = Append(ch[e], Close(f.code))]     \* echo
                  /\ out' = [out EXCEPT ![e] = Append(out[e], Close(f.code))]
             ELSE /\ ch' = [ch EXCEPT ![p] = Tail(ch[p])] /\ UNCHANGED out                           \* ErrCloseSent: no second close
          /\ UNCHANGED << plan, left >>

Next == \E e \in E : SendData(e) \/ Initiate(e) \/ Recv(e)
Fair == \A e \in E : WF_vars(Recv(e)) /\ WF_vars(Initiate(e)) /\ WF_vars(SendData(e))

=============================================================================
