SPECIFICATION Spec
CONSTANTS
  Role = "server"
  WProgs <- MCWProgs
  KProgs <- MCKProgs
  RProgs <- MCRProgs
  FaultAts = {1, 2, 3, 4, 5, 6}
  MultiQ = FALSE
  KeepSched = TRUE
  WCCheckBeforeLock = FALSE
CONSTRAINT EmitSched
INVARIANTS MonitorOK
CHECK_DEADLOCK FALSE
