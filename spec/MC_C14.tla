------------------------------- MODULE MC_C14 -------------------------------
(* Program space for C14: server replies x URLs x caller headers x Dialer  *)
(* settings x short histories (stale Accept, key freshness).  The scripted *)
(* dial hooks (NetDialContext for ws, NetDialTLSContext for wss) return    *)
(* the in-memory connection directly, so the reply space is independent of *)
(* TLS.                                                                    *)
EXTENDS WSDialMC

CONSTANTS Parts,   \* subset of {"reply", "url", "hdr", "hist"}
          MaxDev   \* maximal number of deviations from the good reply / plain URL (99 = full product)

Statuses == {101, 100, 200, 301, 400, 403, 410, 500}
UpgVals  == { << << "websocket" >> >>, << << "WebSocket" >> >>, << << "foo", "websocket" >> >>,
              << << "websockets" >> >>, << >>, << << "foo" >>, << "WEBSOCKET" >> >> }
ConVals  == { << << "Upgrade" >> >>, << << "upgrade" >> >>, << << "keep-alive", "Upgrade" >> >>,
              << << "close" >> >>, << >>, << << "keep-alive" >>, << "upGrade" >> >> }
AccVals  == {"ok", "ows", "stale", "other", "key", "absent", "swap", "lower", "trunc", "empty", "twice"}
Bodies   == { << 0, FALSE >>, << 0, TRUE >>, << 10, TRUE >>, << 1024, TRUE >>, << 1025, TRUE >>, << 5000, TRUE >>, << 5000, FALSE >> }
Exts     == {"none", "pmd2", "pmd_s", "pmd_c", "pmd0", "other", "other_pmd2"}

B2I(b) == IF b THEN 1 ELSE 0
ReplyDev(s, u, cn, a, b, e) ==
  B2I(s # 101) + B2I(u # << << "websocket" >> >>) + B2I(cn # << << "Upgrade" >> >>) + B2I(a # "ok")
  + B2I(b # << 0, FALSE >>) + B2I(e # "none")

Replies ==
  { StdReply(t[1], t[2], t[3], t[4], t[5][1], t[5][2], t[6]) :
      t \in { x \in Statuses \X UpgVals \X ConVals \X AccVals \X Bodies \X Exts :
                ReplyDev(x[1], x[2], x[3], x[4], x[5], x[6]) <= MaxDev } }

Schemes == {"ws", "wss", "WS", "http", "https", "", "ftp"}
Users   == {"none", "user", "userpass"}
Hosts   == { << "name", "example.test", "example.test", "" >>, << "nameport", "example.test", "example.test", "8080" >>,
             << "v4", "192.0.2.7", "192.0.2.7", "" >>, << "v4port", "192.0.2.7", "192.0.2.7", "8443" >>,
             << "v6", "[2001:db8::1]", "2001:db8::1", "" >>, << "v6port", "[2001:db8::1]", "2001:db8::1", "9443" >> }
PathQs  == { << "", FALSE, "" >>, << "/", FALSE, "" >>, << "/a/b", FALSE, "" >>, << "/a%20b", FALSE, "" >>,
             << "/a%2Fb/c", FALSE, "" >>, << "/%41", FALSE, "" >>, << "//x", FALSE, "" >>, << "", TRUE, "q" >>,
             << "/p", TRUE, "x=1&y=2" >>, << "/p", TRUE, "" >>, << "/p;v=1", TRUE, "a%2Fb=%20" >> }

URLDev(s, u, h, p, f) ==
  B2I(s # "ws") + B2I(u # "none") + B2I(h[1] # "name") + B2I(p # << "/ws", FALSE, "" >>) + B2I(f)

URLs ==
  { URL(t[1], t[2], t[3][1], t[3][2], t[3][3], t[3][4], t[4][1], t[4][2], t[4][3], t[5]) :
      t \in { x \in Schemes \X Users \X Hosts \X (PathQs \cup { << "/ws", FALSE, "" >> }) \X BOOLEAN :
                URLDev(x[1], x[2], x[3], x[4], x[5]) <= MaxDev } }

HdrSets ==
  { << >>,
    << Hdr("Origin", "http://origin.example.test") >>,
    << Hdr("Cookie", "a=b; c=d") >>,
    << Hdr("Host", "override.example.test") >>,
    << Hdr("Upgrade", "foo") >>,
    << Hdr("Connection", "close") >>,
    << Hdr("Sec-Websocket-Key", "AAAAAAAAAAAAAAAAAAAAAA==") >>,
    << Hdr("Sec-Websocket-Version", "8") >>,
    << Hdr("Sec-Websocket-Extensions", "x-foo") >>,
    << Hdr("Sec-Websocket-Protocol", "v2.caller, v1.caller") >>,
    << Hdr("X-Custom", "some value") >>,
    << Hdr("Origin", "https://o.example.test:8443"), Hdr("Cookie", "k=v"), Hdr("X-Custom", "1"), Hdr("Host", "h.example.test:81") >>,
    << Hdr("Authorization", "Bearer abc"), Hdr("User-Agent", "verif/1.0") >> }

SetCfgs == { [BaseCfg EXCEPT !.subs = s, !.comp = cm, !.jar = j, !.tmo = t] :
               s \in { << >>, << "chat", "superchat" >> }, cm \in BOOLEAN, j \in BOOLEAN, t \in {"none", "ht"} }

CoreCfgs == { BaseCfg, [BaseCfg EXCEPT !.subs = << "chat", "superchat" >>, !.comp = TRUE, !.tmo = "ht"] }
MCCfgs == IF "hdr" \in Parts THEN SetCfgs ELSE CoreCfgs

D1(u, h, r) == Dial(u, h, r, OkCReply, "valid", NoFault, FALSE)
WssURL == [PlainURL EXCEPT !.scheme = "wss"]

HistReplies == { GoodReply, [GoodReply EXCEPT !.acc = "stale"], [GoodReply EXCEPT !.acc = "swap"],
                 StdReply(403, << >>, << >>, "absent", 10, TRUE, "none") }

MCDials(c) ==
  (IF "reply" \in Parts /\ c \in CoreCfgs THEN { << D1(u, << >>, r) >> : u \in {PlainURL, WssURL}, r \in Replies } ELSE {})
  \cup (IF "url" \in Parts /\ c \in CoreCfgs THEN { << D1(u, h, GoodReply) >> : u \in URLs, h \in { << >>, << Hdr("Host", "override.example.test") >> } } ELSE {})
  \cup (IF "hdr" \in Parts THEN { << D1(u, h, GoodReply) >> : u \in {PlainURL, WssURL}, h \in HdrSets } ELSE {})
  \cup (IF "hist" \in Parts /\ c \in CoreCfgs THEN
          { << D1(PlainURL, << >>, r1), D1(u2, << >>, r2) >> : r1 \in HistReplies, r2 \in HistReplies, u2 \in {PlainURL, WssURL} }
          \cup { << D1(PlainURL, << >>, r1), D1([PlainURL EXCEPT !.scheme = "http"], << >>, GoodReply), D1(WssURL, << >>, r3) >> :
                   r1 \in HistReplies, r3 \in HistReplies }
        ELSE {})
=============================================================================
