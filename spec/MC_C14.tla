------------------------------- MODULE MC_C14 -------------------------------
(* Program space for C14: server replies x URLs x caller headers x Dialer  *)
(* settings x short histories (stale Accept, key freshness).  The scripted *)
(* dial hooks (NetDialContext for ws, NetDialTLSContext for wss) return    *)
(* the in-memory connection directly, so the reply space is independent of *)
(* TLS.                                                                    *)
EXTENDS WSDialMC

CONSTANTS Parts,   \* subset of {"reply", "url", "hdr", "hist", "body", "urlp"}
          MaxDev,  \* maximal number of deviations from the good reply / plain URL (99 = full product)
          BodyLens, BodyRBufs, BodySegs, BodyKinds, BodyURLs, BodyClx   \* part "body" (see below)

Statuses == {101, 100, 200, 301, 400, 403, 410, 500}
UpgVals  == { << << "websocket" >> >>, << << "WebSocket" >> >>, << << "foo", "websocket" >> >>,
              << << "websockets" >> >>, << >>, << << "foo" >>, << "WEBSOCKET" >> >> }
ConVals  == { << << "Upgrade" >> >>, << << "upgrade" >> >>, << << "keep-alive", "Upgrade" >> >>,
              << << "close" >> >>, << >>, << << "keep-alive" >>, << "upGrade" >> >> }
AccVals  == {"ok", "ows", "stale", "other", "key", "absent", "swap", "lower", "trunc", "empty", "twice"}
(* (body lengths, segmentation and buffer sizes are enumerated systematically by part "body" below) *)
Bodies   == { << 0, FALSE >>, << 0, TRUE >>, << 10, TRUE >>, << 1023, TRUE >>, << 1024, TRUE >>, << 1025, TRUE >>, << 5000, TRUE >>,
              << 5000, FALSE >> }
Exts     == {"none", "pmd2", "pmd_s", "pmd_c", "pmd0", "other", "other_pmd2"}

B2I(b) == IF b THEN 1 ELSE 0
ReplyDev(s, u, cn, a, b, e) ==
  B2I(s # 101) + B2I(u # << << "websocket" >> >>) + B2I(cn # << << "Upgrade" >> >>) + B2I(a # "ok")
  + B2I(b # << 0, FALSE >>) + B2I(e # "none")

Replies ==
  { StdReply(t[1], t[2], t[3], t[4], t[5][1], t[5][2], t[6]) :
      t \in { x \in Statuses \X UpgVals \X ConVals \X AccVals \X Bodies \X Exts :
                ReplyDev(x[1], x[2], x[3], x[4], x[5], x[6]) <= MaxDev } }

Schemes == {"ws", "wss", "WS", "http", "https", "", "ftp"}
(* userinfo forms: user@, user:password@, :password@ (empty user name), :@ and the bare @ *)
Users   == {"none", "user", "userpass", "pass", "colon", "empty"}
Hosts   == { << "name", "example.test", "example.test", "" >>, << "nameport", "example.test", "example.test", "8080" >>,
             << "v4", "192.0.2.7", "192.0.2.7", "" >>, << "v4port", "192.0.2.7", "192.0.2.7", "8443" >>,
             << "v6", "[2001:db8::1]", "2001:db8::1", "" >>, << "v6port", "[2001:db8::1]", "2001:db8::1", "9443" >> }
PathQs  == { << "", FALSE, "" >>, << "/", FALSE, "" >>, << "/a/b", FALSE, "" >>, << "/a%20b", FALSE, "" >>,
             << "/a%2Fb/c", FALSE, "" >>, << "/%41", FALSE, "" >>, << "//x", FALSE, "" >>, << "", TRUE, "q" >>,
             << "/p", TRUE, "x=1&y=2" >>, << "/p", TRUE, "" >>, << "/p;v=1", TRUE, "a%2Fb=%20" >> }

URLDev(s, u, h, p, f) ==
  B2I(s # "ws") + B2I(u # "none") + B2I(h[1] # "name") + B2I(p # << "/ws", FALSE, "" >>) + B2I(f)

URLs ==
  { URL(t[1], t[2], t[3][1], t[3][2], t[3][3], t[3][4], t[4][1], t[4][2], t[4][3], t[5]) :
      t \in { x \in Schemes \X Users \X Hosts \X (PathQs \cup { << "/ws", FALSE, "" >> }) \X BOOLEAN :
                URLDev(x[1], x[2], x[3], x[4], x[5]) <= MaxDev } }

HdrSets ==
  { << >>,
    << Hdr("Origin", "http://origin.example.test") >>,
    << Hdr("Cookie", "a=b; c=d") >>,
    << Hdr("Host", "override.example.test") >>,
    << Hdr("Upgrade", "foo") >>,
    << Hdr("Connection", "close") >>,
    << Hdr("Sec-Websocket-Key", "AAAAAAAAAAAAAAAAAAAAAA==") >>,
    << Hdr("Sec-Websocket-Version", "8") >>,
    << Hdr("Sec-Websocket-Extensions", "x-foo") >>,
    << Hdr("Sec-Websocket-Protocol", "v2.caller, v1.caller") >>,
    << Hdr("X-Custom", "some value") >>,
    << Hdr("Origin", "https://o.example.test:8443"), Hdr("Cookie", "k=v"), Hdr("X-Custom", "1"), Hdr("Host", "h.example.test:81") >>,
    << Hdr("Authorization", "Bearer abc"), Hdr("User-Agent", "verif/1.0") >>,
    \* fields with SEVERAL values (the driver appends the values of one key in this order): every value must reach
    \* the wire, in the caller's order; also next to other fields, and under a non-canonical spelling of the key
    << Hdr("Cookie", "a=1"), Hdr("Cookie", "b=2") >>,
    << Hdr("X-Forwarded-For", "192.0.2.1"), Hdr("X-Forwarded-For", "192.0.2.2"), Hdr("X-Forwarded-For", "192.0.2.3") >>,
    << Hdr("X-A", "1"), Hdr("Cookie", "k=v"), Hdr("X-A", "2"), Hdr("Origin", "http://origin.example.test"), Hdr("X-A", "3") >>,
    << Hdr("x-lower-case", "one"), Hdr("x-lower-case", "two") >>,
    << Hdr("X-MiXed-caSe", "first"), Hdr("X-MiXed-caSe", "second"), Hdr("X-MiXed-caSe", "third") >>,
    << Hdr("Accept-Language", "de"), Hdr("Accept-Language", "en;q=0.5") >>,
    << Hdr("Host", "first.example.test"), Hdr("Host", "second.example.test") >>,
    << Hdr("Sec-Websocket-Protocol", "v2.caller"), Hdr("Sec-Websocket-Protocol", "v1.caller") >> }

(* trace: the dial context carries an httptrace.ClientTrace with every hook set (must not change any outcome) *)
SetCfgs == { [BaseCfg EXCEPT !.subs = s, !.comp = cm, !.jar = j, !.tmo = t, !.trace = (cm = j)] :
               \* Dialer.Subprotocols: nil, exactly one entry, two entries (x caller header Sec-Websocket-Protocol absent /
               \* present, from HdrSets: with a non-empty Subprotocols the caller's header is protocol-owned)
               s \in { << >>, << "chat" >>, << "chat", "superchat" >> }, cm \in BOOLEAN, j \in BOOLEAN, t \in {"none", "ht"} }

CoreCfgs == { BaseCfg, [BaseCfg EXCEPT !.subs = << "chat", "superchat" >>, !.comp = TRUE, !.tmo = "ht", !.trace = TRUE] }

D1(u, h, r) == Dial(u, h, r, OkCReply, "valid", NoFault, FALSE)

(* Part "body": "any other reply yields ErrBadHandshake together with the response (status, headers, up to 1024    *)
(* body bytes)" for bodies of lengths around 0 / 1 / 1023 / 1024 / 1025 / 3000 / 5000, with and without          *)
(* Content-Length, handed to the transport in 1..3 segments (offsets relative to the end of the header block:     *)
(* inside the final CRLFCRLF, exactly behind it, inside the body, at and behind byte 1024), for small and large    *)
(* Dialer.ReadBufferSize.                                                                                          *)
SegOf(k) ==
  CASE k = "one" -> << >>          [] k = "hdr|body" -> << 0 >>       [] k = "hdr+1" -> << 1 >>
    [] k = "crlf" -> << -1 >>      [] k = "mid" -> << 300 >>           [] k = "hdr|512" -> << 0, 512 >>
    [] k = "100|1023" -> << 100, 1023 >>  [] k = "1024" -> << 1024 >>  [] k = "crlf|1" -> << -3, 1 >>
    [] k = "1|2" -> << 1, 2 >>     [] k = "1000|1024" -> << 1000, 1024 >>  [] k = "2000" -> << 2000 >>
    [] k = "hdr-40" -> << -40 >>   [] k = "1023|1025" -> << 1023, 1025 >>
    [] OTHER -> << >>
NegOf(k, b, cl, sg) ==
  LET base == CASE k = "403" -> StdReply(403, << >>, << >>, "absent", b, cl, "none")
                [] k = "200ok" -> StdReply(200, << << "websocket" >> >>, << << "Upgrade" >> >>, "ok", b, cl, "none")
                [] k = "500close" -> StdReply(500, << >>, << << "close" >> >>, "absent", b, cl, "none")
                [] OTHER -> StdReply(101, << << "websocket" >> >>, << << "Upgrade" >> >>, "other", b, cl, "none")
  IN [base EXCEPT !.seg = SegOf(sg)]
BodyCfgs == { [BaseCfg EXCEPT !.rbuf = b, !.trace = (b = 256 \/ b = 8192)] : b \in BodyRBufs }
(* ... and bodies cut short by the server: Content-Length declares more (a few bytes, 2^28, 2^63-1) than the blen   *)
(* bytes that arrive before the connection ends; the caller still gets the first min(1024, blen) bytes.           *)
BodyDials ==
  { << D1([PlainURL EXCEPT !.scheme = s], << >>, NegOf(k, b, cl, sg)) >> :
      s \in BodyURLs, k \in BodyKinds, b \in BodyLens, cl \in BOOLEAN, sg \in BodySegs }
  \cup { << D1([PlainURL EXCEPT !.scheme = s], << >>, [NegOf(k, b, TRUE, sg) EXCEPT !.clx = x]) >> :
            s \in BodyURLs, k \in BodyKinds, b \in BodyLens, sg \in {"one", "hdr|body", "mid"}, x \in BodyClx }

(* Part "urlp": userinfo and foreign schemes with a proxy configured: refused without consulting the proxy. *)
ProxyCfgs == { [BaseCfg EXCEPT !.proxy = p, !.pport = IF p = "socks5" THEN "1080" ELSE "3128"] : p \in {"http", "socks5"} }
UrlPDials ==
  { << D1([PlainURL EXCEPT !.scheme = s, !.user = u], << >>, GoodReply) >> :
      s \in {"ws", "wss", "http"}, u \in Users }
WssURL == [PlainURL EXCEPT !.scheme = "wss"]

HistReplies == { GoodReply, [GoodReply EXCEPT !.acc = "stale"], [GoodReply EXCEPT !.acc = "swap"],
                 StdReply(403, << >>, << >>, "absent", 10, TRUE, "none") }

MCCfgs == CoreCfgs \cup (IF "hdr" \in Parts THEN SetCfgs ELSE {})
          \cup (IF "body" \in Parts THEN BodyCfgs ELSE {})
          \cup (IF "urlp" \in Parts THEN ProxyCfgs ELSE {})

MCDials(c) ==
  (IF "body" \in Parts /\ c \in BodyCfgs THEN BodyDials ELSE {})
  \cup (IF "urlp" \in Parts /\ c \in ProxyCfgs THEN UrlPDials ELSE {})
  \cup
  (IF "reply" \in Parts /\ c \in CoreCfgs THEN { << D1(u, << >>, r) >> : u \in {PlainURL, WssURL}, r \in Replies } ELSE {})
  \cup (IF "url" \in Parts /\ c \in CoreCfgs THEN { << D1(u, h, GoodReply) >> : u \in URLs, h \in { << >>, << Hdr("Host", "override.example.test") >> } } ELSE {})
  \cup (IF "hdr" \in Parts /\ c \in SetCfgs THEN { << D1(u, h, GoodReply) >> : u \in {PlainURL, WssURL}, h \in HdrSets } ELSE {})
  \cup (IF "hist" \in Parts /\ c \in CoreCfgs THEN
          { << D1(PlainURL, << >>, r1), D1(u2, << >>, r2) >> : r1 \in HistReplies, r2 \in HistReplies, u2 \in {PlainURL, WssURL} }
          \cup { << D1(PlainURL, << >>, r1), D1([PlainURL EXCEPT !.scheme = "http"], << >>, GoodReply), D1(WssURL, << >>, r3) >> :
                   r1 \in HistReplies, r3 \in HistReplies }
        ELSE {})
=============================================================================
