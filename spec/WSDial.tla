------------------------------- MODULE WSDial -------------------------------
(***************************************************************************)
(* The client opening handshake (Dialer.DialContext) as a reference model, *)
(* written from RFC 6455 section 4.1/4.2.2 and from the texts of           *)
(* properties C14 (connect iff the reply proves acceptance of THIS         *)
(* request; request well-formed; refusal before network), C16 client part  *)
(* (cleanup on every failure path, no deadline left on success, every      *)
(* operation under the configured deadline) and C18 (proxy tunnelling and  *)
(* TLS on every dial path), plus the C07 envelope (any reply whatsoever    *)
(* yields a normal result or an error return).                             *)
(*                                                                         *)
(* The model is at the level of the properties (the "envelope").  A dial   *)
(* is described by                                                         *)
(*   c : the Dialer configuration                                          *)
(*       [proxy, phost, pport, puser, ppass, nd, ndc, ndtc, subs, comp,    *)
(*        tmo, jar, rbuf]                                                  *)
(*       tmo: which deadlines are configured (none / ht = HandshakeTimeout *)
(*       / ctx = context deadline / bothe = both, the context deadline is  *)
(*       the earlier instant / bothl = both, the HandshakeTimeout is);     *)
(*       rbuf = Dialer.ReadBufferSize; trace = the context of every call   *)
(*       carries an httptrace.ClientTrace with all hooks set.  No clause   *)
(*       of the model depends on rbuf, on trace or on how the transport    *)
(*       segments the reply (d.reply.seg): every outcome below is demanded *)
(*       for all of them alike.                                            *)
(*   d : the inputs of one DialContext call                                *)
(*       [scheme, user, host, bare, hform, port, path, hasq, query, frag,  *)
(*        hdrs, reply, creply, cert]                                       *)
(*   o : what was observed                                                 *)
(*       hooks  dial hooks invoked  [hook, net, addr, ret]                 *)
(*       ops    transport operations on the obtained connection(s), in     *)
(*              order [c, kind, zero, flt, how, within]                    *)
(*       closed number of Close calls per obtained connection              *)
(*       peer   what the remote side saw, layer by layer                   *)
(*              (tls / connect / socks / get / junk records)               *)
(*       res    result class of DialContext                                *)
(*       rx     the messages read from the returned connection when the    *)
(*              server glued frames to its reply (d.reply.tail)            *)
(*       plook  how often the Dialer consulted its Proxy function          *)
(*       short  the run used a deliberately short timeout                   *)
(*   st: history state [keys] (challenge keys seen in earlier dials)       *)
(*                                                                         *)
(* Digest equality is a harness-evaluated fact: the scripted server        *)
(* computes the Sec-WebSocket-Accept value itself according to d.reply.acc *)
(* (ok / ows / stale / other / key / swap / lower / trunc / empty / absent *)
(* / twice).                                                               *)
(***************************************************************************)
EXTENDS Integers, Sequences, FiniteSets, TLC

DMin(a, b) == IF a < b THEN a ELSE b
DRng(q) == {q[i] : i \in DOMAIN q}

(***************************************************************************)
(* URL classification.                                                     *)
(***************************************************************************)
SchemeClass(s) ==
  IF s \in {"ws", "WS", "Ws"} THEN "ws"
  ELSE IF s \in {"wss", "WSS", "wSs"} THEN "wss"
  ELSE "bad"                        \* http, https, ftp, empty, ...

Secure(d)   == SchemeClass(d.scheme) = "wss"
DefPort(d)  == IF Secure(d) THEN "443" ELSE "80"
PortOf(d)   == IF d.port = "" THEN DefPort(d) ELSE d.port
HostHdr(d)  == d.host \o (IF d.port = "" THEN "" ELSE ":" \o d.port)   \* as written in the URL
HostPort(d) == d.host \o ":" \o PortOf(d)                               \* IPv6 keeps its brackets
Target(d)   == (IF d.path = "" THEN "/" ELSE d.path) \o (IF d.hasq THEN "?" \o d.query ELSE "")

ProxyPort(c) == IF c.pport # "" THEN c.pport
                ELSE IF c.proxy = "https" THEN "443"
                ELSE IF c.proxy = "socks5" THEN "1080" ELSE "80"
ProxyHostPort(c) == c.phost \o ":" \o ProxyPort(c)

(***************************************************************************)
(* Caller headers.                                                         *)
(***************************************************************************)
AlwaysOwned == {"Upgrade", "Connection", "Sec-Websocket-Key", "Sec-Websocket-Version", "Sec-Websocket-Extensions"}
IsOwned(c, k) == k \in AlwaysOwned \/ (k = "Sec-Websocket-Protocol" /\ Len(c.subs) > 0)
HasHdr(d, k) == \E i \in DOMAIN d.hdrs : d.hdrs[i].k = k
HdrVal(d, k) == d.hdrs[CHOOSE i \in DOMAIN d.hdrs : d.hdrs[i].k = k /\ \A j \in 1..(i - 1) : d.hdrs[j].k # k].v
OwnedGiven(c, d) == \E i \in DOMAIN d.hdrs : IsOwned(c, d.hdrs[i].k)

(* C14: refused before any network activity. *)
MustRefuse(c, d) == SchemeClass(d.scheme) = "bad" \/ d.user # "none"
(* "protocol-owned headers not overridable": either refusal before network *)
(* or a request that carries the protocol's own values exactly once.       *)
MayRefuse(c, d) == MustRefuse(c, d) \/ OwnedGiven(c, d)

(***************************************************************************)
(* Dial path: first hop, expected layers.                                  *)
(***************************************************************************)
Proxied(c)     == c.proxy # "none"
FirstTLS(c, d) == IF Proxied(c) THEN c.proxy = "https" ELSE Secure(d)
ExpHook(c, d)  == IF FirstTLS(c, d) /\ c.ndtc THEN "ndtc"
                  ELSE IF c.ndc THEN "ndc"
                  ELSE IF c.nd THEN "nd"
                  ELSE "listener"          \* no applicable hook: the default dialer (loopback listener)
ExpAddr(c, d)  == IF Proxied(c) THEN ProxyHostPort(c) ELSE HostPort(d)
LibFirstTLS(c, d) == FirstTLS(c, d) /\ ExpHook(c, d) # "ndtc"   \* a custom NetDialTLSContext is trusted
Loop(c, d) == ExpHook(c, d) = "listener"

(* the library itself performs the TLS handshake with the backend *)
LibBackendTLS(c, d) == (Proxied(c) /\ Secure(d)) \/ (~Proxied(c) /\ LibFirstTLS(c, d))

(* Layers the remote side must see, in order; each is [t, role]. *)
ExpLayers(c, d) ==
  (IF LibFirstTLS(c, d) THEN << [t |-> "tls", role |-> IF Proxied(c) THEN "proxy" ELSE "backend"] >> ELSE << >>)
  \o (IF c.proxy \in {"http", "https"} THEN << [t |-> "connect", role |-> "proxy"] >>
      ELSE IF c.proxy = "socks5" THEN << [t |-> "socks", role |-> "proxy"] >> ELSE << >>)
  \o (IF Proxied(c) /\ Secure(d) THEN << [t |-> "tls", role |-> "backend"] >> ELSE << >>)
  \o << [t |-> "get", role |-> "backend"] >>

(* Index of the layer at which the dial MUST stop with an error: the proxy *)
(* refuses, or the backend certificate is not valid for the URL host.      *)
(* 0: no such layer.  -1: not determined by the abstract inputs (raw       *)
(* proxy reply).                                                           *)
CReplyOK(d)  == d.creply.mode = "ok"
CReplyRaw(d) == d.creply.mode = "raw"
StopAt(c, d) ==
  LET E == ExpLayers(c, d)
      S == {j \in DOMAIN E : \/ E[j].t \in {"connect", "socks"} /\ ~CReplyOK(d)
                             \/ E[j].t = "tls" /\ E[j].role = "backend" /\ d.cert # "valid"}
  IN IF S = {} THEN 0
     ELSE LET j == CHOOSE x \in S : \A y \in S : x <= y
          IN IF E[j].t \in {"connect", "socks"} /\ CReplyRaw(d) THEN -1 ELSE j

(***************************************************************************)
(* Reply validation (C14).                                                 *)
(***************************************************************************)
Fold(t) ==
  CASE t \in {"websocket", "WebSocket", "WEBSOCKET", "webSocket"} -> "websocket"
    [] t \in {"upgrade", "Upgrade", "UPGRADE", "upGrade"} -> "upgrade"
    [] OTHER -> t
LineHas(lines, w) == \E i \in DOMAIN lines : \E j \in DOMAIN lines[i] : Fold(lines[i][j]) = w
AccOK(a)    == a \in {"ok", "ows"}
AccAmbig(a) == a = "twice"    \* two Accept header lines, one of them right: not decided by the property
Proven(r) == /\ r.status = 101 /\ LineHas(r.upg, "websocket") /\ LineHas(r.con, "upgrade") /\ AccOK(r.acc)
(* permessage-deflate announced without both parameters: the reply proves  *)
(* acceptance, but Dial fails with another error ("only if" is kept).      *)
ExtBad(r) == r.ext \in {"pmd_s", "pmd_c", "pmd0"}
NoBody(status) == status \in 100..199 \/ status \in {204, 304}

(***************************************************************************)
(* Handshake boundary, client side (C17).  The server may glue frames to   *)
(* its 101 response (d.reply.tail, a sequence of [op, fin, len] forming    *)
(* complete messages).  However the transport cuts "response + frames"     *)
(* into reads and whatever the read buffer size, the connection returned   *)
(* by Dial delivers exactly the data messages of those frames, complete    *)
(* and in order, and then the end of the stream.                           *)
(***************************************************************************)
TailOf(d) == IF d.reply.mode = "std" THEN d.reply.tail ELSE << >>
RECURSIVE MsgFold(_, _, _, _)
MsgFold(fs, i, cur, acc) ==
  IF i > Len(fs) THEN acc
  ELSE LET f == fs[i] IN
       IF f.op >= 8 THEN MsgFold(fs, i + 1, cur, acc)                     \* control frames are not delivered
       ELSE LET c2 == IF f.op # 0 THEN [type |-> f.op, len |-> f.len]
                      ELSE [type |-> cur.type, len |-> cur.len + f.len]
            IN IF f.fin THEN MsgFold(fs, i + 1, [type |-> 0, len |-> 0], Append(acc, c2))
               ELSE MsgFold(fs, i + 1, c2, acc)
Messages(fs) == MsgFold(fs, 1, [type |-> 0, len |-> 0], << >>)

(* o.rx[j] = [ok, type, n, eq]: result of the j-th ReadMessage; eq = the    *)
(* indices of the sent messages whose type and bytes equal the delivered    *)
(* ones (a harness fact).                                                   *)
RxOK(d, o) ==
  LET M == Messages(TailOf(d)) IN
  IF ~o.res.conn \/ TailOf(d) = << >> THEN o.rx = << >>
  ELSE /\ Len(o.rx) = Len(M) + 1
       /\ \A j \in 1..Len(M) :
            /\ o.rx[j].ok /\ o.rx[j].type = M[j].type /\ o.rx[j].n = M[j].len
            /\ j \in DRng(o.rx[j].eq)                                      \* TrailingBytesDelivered, in order
       /\ ~o.rx[Len(M) + 1].ok                                             \* nothing invented after them

(***************************************************************************)
(* Folding the transport log.                                              *)
(***************************************************************************)
IsRW(op) == op.kind \in {"R", "W"}
IsDL(op) == op.kind \in {"SD", "SRD", "SWD"}
Faults(o)    == {i \in DOMAIN o.ops : o.ops[i].flt # ""}
RWFaulted(o) == \E i \in Faults(o) : IsRW(o.ops[i])
HookFailed(o) == \E i \in DOMAIN o.hooks : o.hooks[i].ret = "err"
(* o.short: the run used a deliberately short timeout (a stall was planned): *)
(* with a real clock the configured deadline may strike at any earlier     *)
(* operation; such a run may fail anywhere (cleanup obligations remain).   *)
Disturbed(o) == Faults(o) # {} \/ HookFailed(o) \/ (o.short /\ ~o.res.conn)
NConns(o) == Len(o.closed)
(* the last deadline operation on connection ci cleared the deadline and did not fail *)
SDs(o, ci) == {i \in DOMAIN o.ops : o.ops[i].c = ci /\ o.ops[i].kind = "SD"}
(* the read and the write deadline, folded over the deadline operations that succeeded: SetDeadline sets both, *)
(* SetReadDeadline / SetWriteDeadline one of them (how an implementation clears them is not prescribed)       *)
RECURSIVE ArmFold(_, _, _, _)
ArmFold(o, ci, i, st) ==
  IF i > Len(o.ops) THEN st
  ELSE LET op == o.ops[i] IN
       IF op.c # ci \/ ~IsDL(op) \/ op.flt # "" THEN ArmFold(o, ci, i + 1, st)
       ELSE ArmFold(o, ci, i + 1, [r |-> IF op.kind \in {"SD", "SRD"} THEN ~op.zero ELSE st.r,
                                   w |-> IF op.kind \in {"SD", "SWD"} THEN ~op.zero ELSE st.w])
NoDeadlineLeft(o, ci) ==
  LET st == ArmFold(o, ci, 1, [r |-> FALSE, w |-> FALSE]) IN ~st.r /\ ~st.w
EverArmed(o, ci) == \E i \in SDs(o, ci) : ~o.ops[i].zero

(***************************************************************************)
(* C16: result sanity, cleanup, deadlines.                                 *)
(***************************************************************************)
ResultSane(o) ==
  /\ o.res.conn <=> o.res.err = "nil"
  /\ o.res.conn => /\ \A ci \in 1..NConns(o) : o.closed[ci] = 0 /\ NoDeadlineLeft(o, ci - 1)
                   /\ o.res.resp
  /\ ~o.res.conn => \A ci \in 1..NConns(o) : o.closed[ci] >= 1           \* FailureClosesObtainedConn
FaultFails(o) == (RWFaulted(o) \/ HookFailed(o)) => ~o.res.conn

(* Every operation under the deadline: a stalled operation ends by the     *)
(* armed deadline (no later than the configured one) or by Close.          *)
SocksTail(c, o, i) ==   \* operation i comes after the SOCKS5 negotiation cleared the deadline
  c.proxy = "socks5" /\ \E j \in 1..(i - 1) : o.ops[j].kind = "SD" /\ o.ops[j].zero
(* Oracle decision: the close sequence of the TLS layer of a dial that has  *)
(* already failed (SetWriteDeadline, close_notify) is not a handshake      *)
(* operation; crypto/tls bounds it by its own deadline.                    *)
ClosePhase(o, i) == \E j \in 1..(i - 1) : o.ops[j].kind = "SWD"
DeadlineOK(c, o, socksStrict) ==
  c.tmo # "none" =>
    \A i \in DOMAIN o.ops :
      (o.ops[i].flt = "timeout" /\ IsRW(o.ops[i]) /\ o.ops[i].how # "imm") =>
         \/ o.ops[i].how \in {"deadline", "closed"} /\ o.ops[i].within
         \/ ClosePhase(o, i)
         \/ ~socksStrict /\ SocksTail(c, o, i)

(***************************************************************************)
(* C18: hooks and layers.                                                  *)
(***************************************************************************)
HooksOK(c, d, o) ==
  IF MustRefuse(c, d) THEN o.hooks = << >> /\ o.plook = 0     \* no dial hook, no proxy lookup
  ELSE \/ o.hooks = << >> /\ (MayRefuse(c, d) \/ (Loop(c, d) /\ ~o.res.conn))
       \/ /\ Len(o.hooks) = 1
          /\ o.hooks[1].hook = ExpHook(c, d)            \* FirstHopUsesApplicableHook
          /\ o.hooks[1].net = "tcp"
          /\ o.hooks[1].addr = ExpAddr(c, d)            \* ProxyOnlyPath: only the proxy is dialled

SniOK(L, name, hform) == L.sni = "" \/ L.sni = name

LayerOK(c, d, st, E, L) ==
  /\ L.t = E.t
  /\ CASE L.t = "tls" ->
            /\ L.role = E.role
            /\ IF E.role = "proxy" THEN SniOK(L, c.phost, "name") ELSE SniOK(L, d.bare, d.hform)
            /\ (E.role = "backend" /\ d.cert # "valid") => ~L.done       \* WssInsideVerifiedTLS
       [] L.t = "connect" ->
            /\ L.method = "CONNECT"
            /\ L.target = HostPort(d)                                    \* ConnectExactlyOnceWithTarget
            /\ IF c.ppass THEN L.auth = "basic" /\ L.authok ELSE L.auth = "none"   \* AuthIffPassword
       [] L.t = "socks" ->
            /\ L.cmd = 1 /\ L.addr = d.bare /\ L.port = PortOf(d)
            /\ c.ppass => L.userpass /\ L.credok       \* "driven equivalently": the proxy URL's user:password is presented
       [] L.t = "get" ->
            /\ L.method = "GET" /\ L.proto = "HTTP/1.1" /\ L.wf /\ L.std
            /\ L.tgt = Target(d)                                         \* path and query preserved
            /\ L.cnt.host = 1
            /\ L.hosth = (IF HasHdr(d, "Host") THEN HdrVal(d, "Host") ELSE HostHdr(d))
            /\ L.cnt.upgrade = 1 /\ "websocket" \in DRng(L.upg)
            /\ L.cnt.connection = 1 /\ "upgrade" \in DRng(L.con)
            /\ L.cnt.version = 1 /\ L.ver = << "13" >>
            /\ L.cnt.key = 1 /\ L.keylen = 16
            /\ L.keyid \notin st.keys                                    \* KeyFreshPerDial
            /\ IF Len(c.subs) > 0 THEN L.cnt.protocol = 1 /\ L.protos = c.subs
               ELSE IF HasHdr(d, "Sec-Websocket-Protocol") THEN L.cnt.protocol >= 1
               ELSE L.cnt.protocol = 0
            /\ IF c.comp THEN L.cnt.extensions = 1 /\ "permessage-deflate" \in DRng(L.exts)
               ELSE L.cnt.extensions = 0
            /\ \A i \in DOMAIN d.hdrs :
                 (~IsOwned(c, d.hdrs[i].k) /\ d.hdrs[i].k # "Host") => L.seen[i]   \* caller headers included:
            \* every value of a field the caller gave several values, and in the caller's order
            /\ \A i, j \in DOMAIN d.hdrs :
                 (i < j /\ d.hdrs[i].k = d.hdrs[j].k /\ ~IsOwned(c, d.hdrs[i].k) /\ d.hdrs[i].k # "Host") => L.pos[i] < L.pos[j]
       [] OTHER -> FALSE

(* A trailing "junk" layer (a request cut short) is admissible only when a *)
(* transport fault was injected.                                           *)
Layers(o) ==
  IF Len(o.peer) > 0 /\ o.peer[Len(o.peer)].t = "junk" /\ Disturbed(o)
  THEN SubSeq(o.peer, 1, Len(o.peer) - 1) ELSE o.peer

LayersOK(c, d, st, o) ==
  LET E == ExpLayers(c, d)
      P == Layers(o)
  IN /\ Len(P) <= Len(E)
     /\ \A j \in DOMAIN P : LayerOK(c, d, st, E[j], P[j])
     /\ \A j \in DOMAIN P : (P[j].t = "tls" /\ ~P[j].done) => j = Len(P)
     /\ o.res.conn => Len(P) = Len(E)

GetSeen(o) == \E j \in DOMAIN o.peer : o.peer[j].t = "get"

(***************************************************************************)
(* The outcome demanded by the inputs when nothing was disturbed.          *)
(***************************************************************************)
Failure(o) == ~o.res.conn /\ o.res.err # "nil"

ReplyOutcomeOK(d, o) ==
  LET r == d.reply IN
  CASE r.mode = "raw"  -> TRUE                       \* C07: any normal result or error return
    [] r.mode = "none" -> Failure(o)
    [] OTHER ->
       IF AccAmbig(r.acc) THEN TRUE
       ELSE IF Proven(r) /\ ~ExtBad(r) THEN o.res.conn /\ o.res.status = 101 /\ RxOK(d, o)   \* connect IF proven
       ELSE IF Proven(r) THEN Failure(o)
       ELSE \* BadReplyIsErrBadHandshakeWithResponse
            /\ ~o.res.conn /\ o.res.err = "badhs" /\ o.res.resp
            /\ o.res.status = r.status /\ o.res.marker
            \* the body handed over is a prefix of the body sent, at most 1024 bytes of it, and - the transport
            \* having delivered the whole reply (nothing was disturbed) - exactly its first min(1024, length)
            \* bytes, however the reply was segmented and whatever the read buffer size
            /\ o.res.bodyok /\ o.res.bodyn <= DMin(r.blen, 1024)
            /\ ~NoBody(r.status) => o.res.bodyn = DMin(r.blen, 1024)

(* ConnOnlyIfProven, independent of everything else. *)
ConnOnlyIfProven(c, d, o) ==
  o.res.conn =>
    /\ ~MustRefuse(c, d)
    /\ d.reply.mode = "raw" \/ (d.reply.mode = "std" /\ (Proven(d.reply) \/ AccAmbig(d.reply.acc)) /\ ~ExtBad(d.reply))
    /\ d.cert = "valid" \/ ~LibBackendTLS(c, d)
    /\ CReplyOK(d) \/ CReplyRaw(d) \/ ~Proxied(c)                                    \* Non200Aborts

DialAllowed(c, st, d, o, socksStrict) ==
  /\ ResultSane(o)
  /\ FaultFails(o)
  /\ DeadlineOK(c, o, socksStrict)
  /\ HooksOK(c, d, o)
  /\ LayersOK(c, d, st, o)
  /\ ConnOnlyIfProven(c, d, o)
  /\ IF MustRefuse(c, d) THEN Failure(o) /\ o.peer = << >> /\ NConns(o) = 0     \* RefusedBeforeNetwork
     ELSE IF o.hooks = << >> /\ OwnedGiven(c, d) THEN Failure(o) /\ o.peer = << >>  \* owned header refused
     ELSE IF Disturbed(o) THEN TRUE
     ELSE LET E == ExpLayers(c, d)
              sa == StopAt(c, d)
          IN IF sa > 0 THEN Failure(o) /\ Len(Layers(o)) = sa
             ELSE IF sa < 0 THEN TRUE
             ELSE GetSeen(o) /\ ReplyOutcomeOK(d, o)

(* History state. *)
DS0 == [keys |-> {}]
DialNext(st, o) ==
  [st EXCEPT !.keys = st.keys \cup {o.peer[j].keyid : j \in {x \in DOMAIN o.peer : o.peer[x].t = "get"}}]
=============================================================================
