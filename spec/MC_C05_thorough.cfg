SPECIFICATION Spec
CONSTANTS
  Cfgs <- MCCfgs
  Streams <- MCStreams
  Cuts <- MCCuts
  Progs <- MCProgs
  Roles = {"server", "client"}
  Compressed = {FALSE, TRUE}
  HModes = {"default", "chain"}
  Kinds = {"eof", "err", "timeout", "ueof", "cpipe", "osdl"}
CONSTRAINT Emit
INVARIANTS InvCompleteIsWhole InvOrder InvFailStop InvNothingPastViolation InvDecode
CHECK_DEADLOCK FALSE
