SPECIFICATION Spec
CONSTANTS
  B = 16
  ConnCfgs <- MCConnCfgs
  Progs <- MCProgs
  PMSet <- MCPMSet
  FaultKinds = {"swd", "w"}
  Family = "fault"
  Roles = {"server", "client"}
  PmceSet = {FALSE, TRUE}
  PoolSet = {FALSE, TRUE}
  Quick = FALSE
CONSTRAINT Emit
INVARIANTS InvRefines InvWire InvCloseLast InvFailStop InvPool InvDone
CHECK_DEADLOCK FALSE
