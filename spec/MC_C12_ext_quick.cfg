SPECIFICATION Spec
CONSTANTS
  IsProgram <- MCIsProgram
  Space = "ext"
  Full = FALSE
  ScrubProto = TRUE
CONSTRAINT Emit
INVARIANTS InvRefinesEnvelope InvIff InvFailNeverHijacks InvErrorAfterHijackCloses InvSuccessNoDeadline InvModelResponse
CHECK_DEADLOCK FALSE
