SPECIFICATION TSpec
CONSTANTS
  ScrubProto = TRUE
POSTCONDITION Accepted
CHECK_DEADLOCK FALSE
