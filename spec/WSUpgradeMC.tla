----------------------------- MODULE WSUpgradeMC -----------------------------
(***************************************************************************)
(* Exhaustive exploration of the server handshake model over a finite      *)
(* program space.  Each initial state IS one abstract program p (request x *)
(* Upgrader settings x responseHeader x fault); it is printed as JSON so   *)
(* that the Go driver can execute it on the real library (the recorded     *)
(* execution is then validated by WSUpgradeTrace).                         *)
(*                                                                         *)
(* The behaviour from an initial state executes the program on the STRICT  *)
(* model: decide (checks in source order) -> refuse | hijack -> transport  *)
(* operations one by one, the fault injected at operation fault.op ->      *)
(* close on failure.  The invariants state C12/C16 on the model and check  *)
(* that the strict model refines the envelope, i.e. that the envelope used *)
(* to judge the implementation admits the documented behaviour.            *)
(***************************************************************************)
EXTENDS WSUpgrade, Json

CONSTANT IsProgram(_)   \* IsProgram(x): x = one of the abstract programs (existential form: TLC
                        \* enumerates the initial states without materialising the set)

VARIABLES p, pc, st
mvars == << p, pc, st >>

Accept0 == << 65, 66, 67, 61 >>     \* symbolic digest "ABC="

St0 == [phase |-> "start", hijacked |-> FALSE, status |-> 0, upgHdr |-> FALSE,
        ops |-> << >>, raw |-> << >>, result |-> "none"]

Init == IsProgram(p) /\ pc = 1 /\ st = St0

Decide ==
  /\ st.phase = "start"
  /\ LET s == StrictStatus(p) IN
     st' = IF s # 0
           THEN [st EXCEPT !.phase = "done", !.status = s, !.upgHdr = (s = 426), !.result = "refused"]
           ELSE [st EXCEPT !.phase = "ops", !.hijacked = TRUE]

Half(s) == SubSeq(s, 1, Len(s) \div 2)

DoOp ==
  /\ st.phase = "ops"
  /\ LET i == Len(st.ops) + 1 IN
     IF i > Len(StrictOps(p)) THEN st' = [st EXCEPT !.phase = "done", !.result = "ok"]
     ELSE LET op == StrictOps(p)[i]
              ok == p.fault.op # i
              resp == StrictResponse(p, Accept0)
          IN st' = [st EXCEPT !.ops = Append(@, [k |-> op.k, zero |-> op.zero, ok |-> ok]),
                              !.raw = IF op.k # "W" THEN @
                                      ELSE IF ok THEN resp
                                      ELSE IF p.fault.kind = "short" THEN Half(resp) ELSE @,
                              !.phase = IF ok THEN "ops" ELSE "closing"]

DoClose ==
  /\ st.phase = "closing"
  /\ st' = [st EXCEPT !.ops = Append(@, [k |-> "C", zero |-> FALSE, ok |-> ~p.fault.closeErr]),
                      !.phase = "done", !.result = "failed"]

Next == (Decide \/ DoOp \/ DoClose) /\ pc' = pc + 1 /\ UNCHANGED p
Spec == Init /\ [][Next]_mvars

Emit == pc = 1 => PrintT(<< "PROG", ToJson(p) >>)

Obs == [conn |-> st.result = "ok",
        err |-> CASE st.result = "ok" -> "nil" [] st.result = "refused" -> "handshake" [] OTHER -> "other",
        status |-> st.status, upgHdr |-> st.upgHdr, hijacked |-> st.hijacked,
        ops |-> st.ops, raw |-> st.raw, accept |-> Accept0]

Done == st.phase = "done"

(* The strict model is a refinement of the envelope: whatever the          *)
(* documented implementation does is admitted by the judge.  With          *)
(* ScrubProto = FALSE this invariant is VIOLATED (defect 6.4: header       *)
(* injection through responseHeader["Sec-Websocket-Protocol"]).            *)
InvRefinesEnvelope == Done => OutcomeAllowed(p, Obs)

(* C12: upgrade iff the request is a valid opening handshake.              *)
NoFault == p.fault.op = 0 /\ ~p.fault.hijackErr
InvIff == (Done /\ NoFault /\ Verdict(p) # "either") => ((st.result = "ok") <=> (Verdict(p) = "yes"))

(* C12/C16: a refusal never hijacks and never touches the connection.      *)
InvFailNeverHijacks == (Done /\ st.result = "refused") => (~st.hijacked /\ st.ops = << >> /\ st.raw = << >>)

(* C16: an error after the hijack closes the connection.                   *)
InvErrorAfterHijackCloses ==
  (Done /\ st.hijacked /\ st.result # "ok") => (st.ops # << >> /\ st.ops[Len(st.ops)].k = "C")

(* C16: success leaves the connection open with no deadline armed.         *)
InvSuccessNoDeadline ==
  (Done /\ st.result = "ok") =>
     /\ \A i \in 1..Len(st.ops) : st.ops[i].k # "C" /\ st.ops[i].ok
     /\ LET a == ArmedAfter(st.ops) IN ~a.r /\ ~a.w

(* C12: the response of the model never carries a line the application     *)
(* could inject, and announces a subprotocol only if offered and supported *)
(* (independent restatement on the model's own response).                  *)
InvModelResponse ==
  (Done /\ st.result = "ok") =>
     LET r == Response(st.raw) IN
     /\ r.framed
     /\ Len(Named(r, NProtocol)) = 1 /\ ~p.cfg.subsNil =>
           Named(r, NProtocol)[1].v \in OfferedProtos(p) \cap Rng(p.cfg.subs)
     /\ (Len(Named(r, NExtensions)) = 1 /\ (p.rh.hasExt => ExtKeyInDomain(p))) => p.cfg.compress
=============================================================================
