SPECIFICATION Spec
CONSTANTS
  Cfgs <- MCCfgs
  Dials <- MCDials
  Proxies = {"none", "http", "https", "socks5"}
  HookSets = {"c", "ct", "n", "nt"}
  Tmos = {"none", "ht", "ctx", "bothe", "bothl"}
  ReplyKinds = {"good", "neg", "malformed", "none"}
  CReplyKinds = {"ok", "refuse", "malformed", "none"}
  Certs = {"valid", "other", "untrusted"}
  MaxAt = 15
  Kinds = {"error", "timeout", "eof"}
CONSTRAINT Emit
INVARIANTS InvRefines InvConnOnlyIfProven InvBadReplyIsBadHandshake InvFailureCloses InvSuccessOpenNoDeadline InvEveryOpUnderDeadline InvProxyOnlyPath InvConnectOnce InvNon200Aborts InvWssInsideVerifiedTLS InvFirstHopHook
CHECK_DEADLOCK FALSE
