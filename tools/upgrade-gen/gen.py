# one-off helper: expands @"text"@ into a TLA+ tuple of code points (supports \r \n \t \\ \" \xNN \uNNNN escapes)
import re, sys, codecs
def expand(m):
    s = codecs.decode(m.group(1), 'unicode_escape')
    return "<<" + ",".join(str(ord(c)) for c in s) + ">>"
src = open(sys.argv[1]).read()
out = re.sub(r'@"((?:[^"\\]|\\.)*)"@', expand, src)
open(sys.argv[2], "w").write(out)
