#!/bin/bash
# usage: tools/confirm_seed.sh <prop> <A|B> [patchfile]
# Confirms a seeded mutant in its scratch worktree against /repo's current HEAD:
#   suite passes with the patch; demo fails with it and passes without. Stores it under /verif/seeded/<prop>-<X>/.
export GOFLAGS=-mod=mod GOPROXY=off GOSUMDB=off GOTOOLCHAIN=local
P=$1; X=$2; BASE=${SEEDSRC:-/tmp/seedout}; SRC=$BASE/$P/$X; PATCH=${3:-$SRC/patch.diff}; NAME=${4:-$X}
WT=/tmp/wt/$P; OUT=/verif/seeded/$P-$NAME
HEAD=$(git -C /repo rev-parse HEAD)
[ -d $WT ] || git -C /repo worktree add -q --detach $WT HEAD
cd $WT || exit 2
git checkout -q -- . ; git clean -fdq; git checkout -q --detach $HEAD || exit 2
git apply --check "$PATCH" 2>/dev/null || { echo "$P-$NAME: PATCH-DOES-NOT-APPLY"; exit 3; }
# demo without the change
cp $SRC/seed_demo_test.go . 
go test -vet=off -count=1 -run 'TestSeedDemo' . > $SRC/demo_clean.log 2>&1; RC_CLEAN=$?
git apply "$PATCH"
go build ./... || { echo "$P-$NAME: DOES-NOT-BUILD"; git checkout -q -- .; rm -f seed_demo_test.go; exit 4; }
go test -vet=off -count=1 -run 'TestSeedDemo' . > $SRC/demo_mut.log 2>&1; RC_MUT=$?
rm -f seed_demo_test.go
# the suite, with the proxy/TLS dial tests (which flake under load on the pristine tree too) run separately with retries
go test -vet=off -count=1 -skip 'TestHTTPS?Proxy|TestTLSValidationErrors' ./... > $SRC/suite_mut.log 2>&1; RC_SUITE=$?
RC_FLAKY=1
for try in 1 2 3 4 5 6 7 8; do
  go test -vet=off -count=1 -run 'TestHTTPS?Proxy|TestTLSValidationErrors' . >> $SRC/suite_mut.log 2>&1 && { RC_FLAKY=0; break; }
  sleep 1
done
[ $RC_FLAKY -ne 0 ] && RC_SUITE=1
git checkout -q -- .; git clean -fdq
echo "$P-$NAME: demo_clean=$RC_CLEAN demo_mut=$RC_MUT suite_mut=$RC_SUITE"
if [ $RC_CLEAN -eq 0 ] && [ $RC_MUT -ne 0 ] && [ $RC_SUITE -eq 0 ]; then
  mkdir -p $OUT; cp "$PATCH" $OUT/patch.diff; cp $SRC/seed_demo_test.go $OUT/; cp $SRC/NOTES.md $OUT/ 2>/dev/null
  echo "$P-$NAME: CONFIRMED"
else
  echo "$P-$NAME: NOT-CONFIRMED"
fi
