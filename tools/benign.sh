#!/bin/bash
# false-alarm test: run relevant quick checks against property-preserving refactors; every result must be exit=0
ROOT=$(cd "$(dirname "$0")/.." && pwd); cd $ROOT
declare -A REL=( [01]="C04 C10 C12 C03" [02]="C03 C05 C01 C06" [03]="C01 C02 C10 C20" [04]="C01 C02 C10 C20" [05]="C10 C11 C09 C02" [06]="C01 C03 C17 C19 C02" [07]="C02 C19 C20 C10" [08]="C12 C13" [09]="C12 C14 C15 C17" [10]="C04 C08" [11]="C02 C19" [12]="C16 C14 C18" [13]="C20 C10" [14]="C11 C09" [15]="C03 C05 C06 C17 C04" )
for n in ${ONLY:-01 02 03 04 05 06 07 08 09 10 11 12 13 14 15}; do
  for c in ${REL[$n]}; do
    r=$(tools/trymutant.sh $ROOT/benign/$n/patch.diff $c | tail -1)
    echo "benign-$n $c $r $(date +%T)"
    if [ "$r" != "exit=0" ]; then cp $ROOT/run/mut-$c.out $ROOT/run/benign-$n-$c.out; fi
  done
done
