#!/usr/bin/env python3
"""Writes /verif/mutants/AUTOMUT.md from /verif/run/automut (results.txt of tools/mutate.py run, sel.log of hand-picked runs)."""
import json, glob, os, re, collections
D = "/verif/run/automut"
metas = {os.path.basename(os.path.dirname(f)): json.load(open(f)) for f in glob.glob(D + "/*/meta.json")}
filt = collections.Counter(m.get("filter", "todo") for m in metas.values())
res = {}
if os.path.exists(D + "/results.txt"):
    for l in open(D + "/results.txt"):
        p = l.split()
        res[p[0]] = p[1]
if os.path.exists("/verif/run/sel.log"):
    for l in open("/verif/run/sel.log"):
        p = l.split()
        if len(p) >= 3:
            v = "DETECTED(%s)" % p[1] if p[2] == "exit=1" else "UNDETECTED"
            if res.get(p[0], "").startswith("DETECTED"):
                continue
            res[p[0]] = v
NOTES = {
    "0050": "1013 (Try Again Later) is in neither MustAccept nor MustReject of C04/C08 (domain decision: 1012-1014 unspecified)",
    "0064": "equivalent: ReadBufferSize 0 then falls into the '< 125' clamp; buffer sizes are not observable through the properties",
    "0067": "equivalent: 125 is clamped to 125",
    "0440": "equivalent: a second Read after io.EOF still returns (0, io.EOF) through the readFinal branch",
    "1022": "equivalent: with w.n == 4 the fill branch copies nothing",
    "1030": "equivalent: m == 4 either way",
    "0798": "equivalent in effect: tls.Conn.HandshakeContext already verifies the certificate for cfg.ServerName; the explicit VerifyHostname is redundant",
    "0779": "equivalent for C18: crypto/tls performs the (verified) handshake lazily on the first write; C16 still sees every operation under the connection deadline",
    "0919": "quoted-string unescaping of extension parameter VALUES: the values are never used; a parse failure only means compression is not negotiated, which C12/C15 allow ('only if')",
    "0924": "as 0919",
    "0604": "equivalent: p[:n] with len(p) == n",
    "0525": "equivalent: a 257-byte hijacked reader is wrapped instead of reused; both paths lose nothing (C17)",
}
surv = sorted(k for k, m in metas.items() if m.get("filter") == "survived")
out = []
out.append("# Systematic mutation run (tools/mutate.py)\n")
out.append("Operators: relational swaps, && <-> ||, integer literal +-1 in conditions, condition negation, boolean literal flips, deletion of simple statements, over conn.go server.go client.go proxy.go util.go prepared.go compression.go join.go json.go.\n")
out.append("Candidates: %d; do not build: %d; killed by the repository's own test suite: %d; **survive the suite: %d**.\n" % (len(metas), filt["nobuild"], filt["killed"], filt["survived"]))
c = collections.Counter()
for k in surv:
    v = res.get(k, "NOT-RUN")
    c[re.sub(r"\(.*", "", v)] += 1
out.append("Survivors run against the relevant quick checks so far: detected %d, undetected %d, in code no listed property talks about (error texts, httptrace callbacks) %d, not run yet %d.\n" % (c["DETECTED"], c["UNDETECTED"], c["NO-PROPERTY"], c["NOT-RUN"]))
out.append("\n## Undetected survivors and why\n")
for k in surv:
    if res.get(k) == "UNDETECTED":
        m = metas[k]
        out.append("* `%s` %s:%d `%s`: `%s` -> `%s` — %s" % (k, m["file"], m["line"], m["func"], m["old"], m["new"], NOTES.get(k, "TO ANALYSE")))
out.append("\n## Detected survivors\n")
for k in surv:
    if res.get(k, "").startswith("DETECTED"):
        m = metas[k]
        out.append("* `%s` %s:%d `%s`: `%s` -> `%s` — %s" % (k, m["file"], m["line"], m["func"], m["old"][:90], m["new"][:90], res[k]))
out.append("\n## Survivors in code outside the listed properties\n")
out.append(", ".join("`%s` %s:%d" % (k, metas[k]["file"], metas[k]["line"]) for k in surv if res.get(k) == "NO-PROPERTY"))
out.append("\n\n## Not run yet\n")
out.append(", ".join("`%s` %s:%d %s" % (k, metas[k]["file"], metas[k]["line"], metas[k]["func"]) for k in surv if k not in res))
open("/verif/mutants/AUTOMUT.md", "w").write("\n".join(out) + "\n")
print(c)
