#!/usr/bin/env python3
"""Writes /verif/mutants/AUTOMUT.md from /verif/run/automut (results.txt of tools/mutate.py run, sel.log of hand-picked runs)."""
import json, glob, os, re, collections
D = "/verif/run/automut"
metas = {os.path.basename(os.path.dirname(f)): json.load(open(f)) for f in glob.glob(D + "/*/meta.json")}
filt = collections.Counter(m.get("filter", "todo") for m in metas.values())
res = {}
if os.path.exists(D + "/results.txt"):
    for l in open(D + "/results.txt"):
        p = l.split()
        res[p[0]] = p[1]
for extra in ("/verif/run/sel2.log", "/verif/run/rerun2.log"):
    if os.path.exists(extra):
        for l in open(extra):
            p = l.split()
            if len(p) >= 3 and p[2] == "exit=1":
                res[p[0]] = "DETECTED(%s)" % p[1]
if os.path.exists("/verif/run/sel.log"):
    for l in open("/verif/run/sel.log"):
        p = l.split()
        if len(p) >= 3:
            v = "DETECTED(%s)" % p[1] if p[2] == "exit=1" else "UNDETECTED"
            if res.get(p[0], "").startswith("DETECTED"):
                continue
            res[p[0]] = v
NOTES = {
    "0050": "1013 (Try Again Later) is in neither MustAccept nor MustReject of C04/C08 (domain decision: 1012-1014 unspecified)",
    "0064": "equivalent: ReadBufferSize 0 then falls into the '< 125' clamp; buffer sizes are not observable through the properties",
    "0067": "equivalent: 125 is clamped to 125",
    "0440": "equivalent: a second Read after io.EOF still returns (0, io.EOF) through the readFinal branch",
    "1022": "equivalent: with w.n == 4 the fill branch copies nothing",
    "1030": "equivalent: m == 4 either way",
    "0798": "equivalent in effect: tls.Conn.HandshakeContext already verifies the certificate for cfg.ServerName; the explicit VerifyHostname is redundant",
    "0779": "equivalent for C18: crypto/tls performs the (verified) handshake lazily on the first write; C16 still sees every operation under the connection deadline",
    "0919": "quoted-string unescaping of extension parameter VALUES: the values are never used; a parse failure only means compression is not negotiated, which C12/C15 allow ('only if')",
    "0924": "as 0919",
    "0604": "equivalent: p[:n] with len(p) == n",
    "0525": "equivalent: a 257-byte hijacked reader is wrapped instead of reused; both paths lose nothing (C17)",
    "0921": "a quoted-string that contains a quoted-pair becomes unparsable: that offer line is skipped and compression is not negotiated, which the properties allow ('only if'); agreement holds",
    "0923": "the unescaped VALUE of an extension parameter is never used", "0930": "as 0923", "0929": "as 0923 (rest of the element after a quoted value with escapes)",
    "0927": "as 0921",
    "0575": "equivalent for the properties: only byte 31 passes unscrubbed into a response header value (not CR/LF, no response splitting)",
    "0576": "equivalent: a space is replaced by a space",
    "0653": "gap (C14): exactly one Dialer.Subprotocols entry plus a caller Sec-Websocket-Protocol header; handed to the dial family (programs {nil, 1, 2 entries} x {caller header absent, present})",
    "0256": "as 0218 (ReadFrom on an ended writer)",
    "0524": "equivalent: the hijacked reader is never reused; the wrap path loses nothing either (C17)",
    "0126": "no property: timer.Stop() only releases the timer earlier",
    "0166": "equivalent: the next beginMessage closes the stale writer again, which only returns errWriteClosed (ignored)",
    "0204": "no property: the 'concurrent write' panic guards against misuse the contract excludes",
    "0214": "equivalent for the properties: the buffer is flushed one byte early; flush points are free (C02)",
    "0220": "equivalent: copying max bytes either way",
    "0218": "io.Writer detail (n returned together with an error) that no listed property constrains",
    "0239": "as 0218", "0250": "as 0218", "0256": "as 0218",
    "0227": "equivalent for the properties: direct-write threshold moved by one byte; framing stays valid",
    "0229": "equivalent for the properties: more writes take the direct path; framing stays valid",
    "0370": "equivalent: io.CopyN of zero bytes",
    "0391": "equivalent: no protocol error text is long enough for the truncation to matter (longest joined text is about 100 bytes)",
    "0396": "equivalent for the properties: a stale reader still delivers nothing (operation RDO)",
    "0397": "as 0396",
    "0398": "equivalent since fix 85a08ab: readLength is reset at the first frame of every message",
    "0412": "the documented panic comes one call later; the specification admits the panic from the 1000th failed call on, it does not demand it",
    "0413": "as 0412",
    "0424": "equivalent: len(b) == readRemaining reads the same bytes",
    "0447": "unreachable on conformant and on violating streams (advanceFrame rejects the frame first)",
    "0503": "error text only", "0509": "error text only",
    "0515": "compression is never negotiated: allowed ('only if'), both endpoints still agree (C15)",
    "0533": "buffer reuse of the hijacked writer: not observable through the properties", "0534": "as 0533", "0540": "as 0533",
    "0548": "as 0533", "0549": "as 0533", "0550": "as 0533",
    "0584": "a handshake timeout of one nanosecond", "0589": "as 0584", "0590": "as 0584",
    "0596": "deprecated package-level Upgrade only", "0619": "Dial on a nil *Dialer only",
    "0678": "equivalent: SetDeadline with the zero time / re-arming the same deadline",
    "0712": "httptrace callback only", "0720": "error text for NextProtos misconfiguration only", "0721": "as 0720", "0722": "as 0720", "0723": "as 0720",
    "0726": "equivalent: SetCookies with an empty list",
    "0742": "resp.Body of a SUCCESSFUL dial is not mentioned by any property",
    "0815": "no property: response body of the CONNECT reply is not closed",
    "0819": "equivalent: a status line without reason phrase is refused either way", "0820": "as 0819", "0824": "error text only",
    "0933": "equivalent: an exhausted string decodes to RuneError width 0, the comparison still fails exactly when the lengths differ",
    "1007": "performance only: the prepared frame is rebuilt on every send",
    "1014": "performance only: a fresh inflater per message", "1015": "dead code: the pool's New function never returns nil",
    "1041": "performance only: deflaters are not recycled",
    "1058": "performance only: inflaters are not recycled", "1059": "as 1058",
}
surv = sorted(k for k, m in metas.items() if m.get("filter") == "survived")
out = []
out.append("# Systematic mutation run (tools/mutate.py)\n")
out.append("Operators: relational swaps, && <-> ||, integer literal +-1 in conditions, condition negation, boolean literal flips, deletion of simple statements, over conn.go server.go client.go proxy.go util.go prepared.go compression.go join.go json.go.\n")
out.append("Candidates: %d; do not build: %d; killed by the repository's own test suite: %d; **survive the suite: %d**.\n" % (len(metas), filt["nobuild"], filt["killed"], filt["survived"]))
c = collections.Counter()
for k in surv:
    v = res.get(k, "NOT-RUN")
    c[re.sub(r"\(.*", "", v)] += 1
out.append("Survivors run against the relevant quick checks so far: detected %d, undetected %d, in code no listed property talks about (error texts, httptrace callbacks) %d, not run yet %d.\n" % (c["DETECTED"], c["UNDETECTED"], c["NO-PROPERTY"], c["NOT-RUN"]))
out.append("The first pass ran at an early state of the checks (and assigned the util.go helpers to the wrong owners); a second pass re-ran the "
           "survivors that touch behaviour a property talks about against the final checks (run/sel2.log, run/rerun2.log). Gaps this run exposed and that were closed: "
           "`0367` (read limit 1 not enforced: C06 now has L = 1), `1042` (a closed compressed writer keeps its deflater: stale-writer operation WRO), `1050` `1075` `1076` "
           "(errors of the final flush / of the JSON encoder swallowed: fault enumeration over WriteJSON and compressed messages, WJB), the 24 `isTokenOctet` table flips "
           "(token alphabet of C12), `0653` (handed to the dial family). Every remaining undetected survivor is explained below: equivalent for the listed properties "
           "(performance, dead code, error texts, io.Writer details) or outside their domain.\n")
out.append("\n## Undetected survivors and why\n")
for k in surv:
    if res.get(k) == "UNDETECTED":
        m = metas[k]
        out.append("* `%s` %s:%d `%s`: `%s` -> `%s` — %s" % (k, m["file"], m["line"], m["func"], m["old"], m["new"], NOTES.get(k, "TO ANALYSE")))
out.append("\n## Detected survivors\n")
for k in surv:
    if res.get(k, "").startswith("DETECTED"):
        m = metas[k]
        out.append("* `%s` %s:%d `%s`: `%s` -> `%s` — %s" % (k, m["file"], m["line"], m["func"], m["old"][:90], m["new"][:90], res[k]))
out.append("\n## Survivors in code outside the listed properties\n")
out.append(", ".join("`%s` %s:%d" % (k, metas[k]["file"], metas[k]["line"]) for k in surv if res.get(k) == "NO-PROPERTY"))
out.append("\n\n## Not run yet\n")
out.append(", ".join("`%s` %s:%d %s" % (k, metas[k]["file"], metas[k]["line"], metas[k]["func"]) for k in surv if k not in res))
open("/verif/mutants/AUTOMUT.md", "w").write("\n".join(out) + "\n")
print(c)
