#!/bin/bash
# usage: tools/round3.sh <prop> [A|B ...]   confirm a round-7 delivery (/tmp/seedout7) and run the owning check against it
cd /verif
P=$1; shift
XS=${@:-A B}
for x in $XS; do
  n=M; [ $x = B ] && n=N
  [ -f /tmp/seedout7/$P/$x/patch.diff ] || { echo "$P-$n: no delivery"; continue; }
  SEEDSRC=/tmp/seedout7 tools/confirm_seed.sh $P $x /tmp/seedout7/$P/$x/patch.diff $n 2>&1 | tail -2
  if [ -d seeded/$P-$n ]; then
    echo "$P-$n check: $(tools/trymutant.sh seeded/$P-$n/patch.diff $P | tail -2 | tr '\n' ' ')"
  fi
done
