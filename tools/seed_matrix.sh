#!/bin/bash
# Runs the owning check (quick tier) against every seeded change in /verif/seeded and records the result in
# seeded/<id>/meta.json ("detected_by") and seeded/INDEX.md. Never touches /repo (tools/trymutant.sh).
ROOT=$(cd "$(dirname "$0")/.." && pwd); cd $ROOT
OUT=seeded/INDEX.md
echo "# Seeded changes: which check reports them (quick tier, VERIF_SEED=${VERIF_SEED:-1})" > $OUT.tmp
echo "" >> $OUT.tmp
echo "| change | property | check run | result |" >> $OUT.tmp
echo "|---|---|---|---|" >> $OUT.tmp
for d in seeded/C*-*/; do
  k=$(basename $d); p=${k%-*}
  checks=$p
  [ -f $d/also.txt ] && checks="$p $(cat $d/also.txt)"
  for c in $checks; do
    res=$(tools/trymutant.sh $d/patch.diff $c | tail -1)
    echo "| $k | $p | ./check $c --tier quick | $res |" >> $OUT.tmp
    python3 - "$d" "$c" "$res" <<'PY'
import json,sys
d,c,res=sys.argv[1:]
m=json.load(open(d+"/meta.json")); m.setdefault("detected_by",{})[c]=res
json.dump(m,open(d+"/meta.json","w"),indent=1)
PY
  done
done
mv $OUT.tmp $OUT
cat $OUT
