#!/bin/bash
# kill background helper loops by name, excluding this script and its parent shell
for pat in "$@"; do
  for p in $(pgrep -f "$pat"); do
    [ "$p" = "$$" ] && continue; [ "$p" = "$PPID" ] && continue
    kill "$p" 2>/dev/null
  done
done
