#!/bin/bash
ROOT=$(cd "$(dirname "$0")/.." && pwd); cd $ROOT
for t in ${LIST:-C14/A C16/A C16/B C12/B C17/A C17/B C18/B C11/A C11/B C09/A C15/A C15/B C13/A C13/B C14/B C18/A C19/A C19/B C20/A C12/A C01/A C01/B C02/A C02/B C03/B C04/A C04/B C05/A C06/A C06/B C07/A C07/B C08/A C08/B C09/B C10/A C10/B}; do
  p=${t%/*}; x=${t#*/}
  r=$(tools/trymutant.sh /tmp/seedout2/$p/$x/patch.diff $p | tail -1)
  echo "seed2 $p-$x $r $(date +%T)"
done
