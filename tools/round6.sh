#!/bin/bash
# usage: tools/round3.sh <prop> [A|B ...]   confirm a round-6 delivery (/tmp/seedout6) and run the owning check against it
cd /verif
P=$1; shift
XS=${@:-A B}
for x in $XS; do
  n=K; [ $x = B ] && n=L
  [ -f /tmp/seedout6/$P/$x/patch.diff ] || { echo "$P-$n: no delivery"; continue; }
  SEEDSRC=/tmp/seedout6 tools/confirm_seed.sh $P $x /tmp/seedout6/$P/$x/patch.diff $n 2>&1 | tail -2
  if [ -d seeded/$P-$n ]; then
    echo "$P-$n check: $(tools/trymutant.sh seeded/$P-$n/patch.diff $P | tail -2 | tr '\n' ' ')"
  fi
done
