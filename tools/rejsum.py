#!/usr/bin/env python3
"""summarise replay files of a property: tools/rejsum.py C04"""
import json,glob,sys,collections
pid=sys.argv[1]
c=collections.Counter(); ex={}
for f in sorted(glob.glob('/verif/replay/%s-*.json'%pid)):
    r=json.load(open(f)); p=r['program']; ev=r['trace']
    idx=int(r['why'].split()[1]); e=ev[idx]
    fr=[(x['op'],int(x['fin']),x['len'],x['lk'],''.join(k for k in ('r1','r2','r3','mk','nonmin') if x.get(k)), x.get('code')) for x in p['frames']]
    rd=[(o['op'],o['k']) for o in p['reads']]
    obs=[(o['t'],o.get('kind') or o['op'],o['code']) for o in e.get('obs',[])]
    key=(e['e'], e.get('ok'), e.get('err',{}).get('cls'), e.get('n'), tuple(obs))
    c[key]+=1
    ex.setdefault(key,(f.split('/')[-1],p['role'],p['pmce'],p['limit'],p['hmode'],fr,rd,idx,p['rbuf'],p['chunk'],p.get('cut')))
for k,v in c.most_common(): print(v,k,'\n     ',ex[k])
