#!/bin/bash
# Runs the owning check (quick tier) against every seeded change, JOBS at a time; writes run/matrix.log (one line per change)
# and regenerates seeded/INDEX.md and meta.json "detected_by". Never touches /repo (tools/trymutant.sh).
ROOT=$(cd "$(dirname "$0")/.." && pwd); cd $ROOT
JOBS=${JOBS:-3}
[ "$FRESH" = 1 ] && : > run/matrix.log
touch run/matrix.log
one() { d=$1; k=$(basename $d); p=${k%-*}; grep -q "^$k " run/matrix.log && return; res=$(tools/trymutant.sh $d/patch.diff $p | tail -1); echo "$k $p $res" >> run/matrix.log; }
export -f one
ls -d seeded/C*-*/ | xargs -P $JOBS -I{} bash -c 'one {}'
python3 - <<'PY'
import json, os
rows = sorted(l.split() for l in open("run/matrix.log") if l.strip())
out = ["# Seeded changes: which check reports them (quick tier, VERIF_SEED=%s)" % os.environ.get("VERIF_SEED", "1"), "",
       "Variants A-D: rounds 1 and 2; E, F: round 3; G, H: round 4; I, J: round 5 (connection-level properties only).", "",
       "| change | property | check run | result |", "|---|---|---|---|"]
for k, p, res in rows:
    out.append("| %s | %s | ./check %s --tier quick | %s |" % (k, p, p, res))
    mp = "seeded/%s/meta.json" % k
    if os.path.exists(mp):
        m = json.load(open(mp)); m.setdefault("detected_by", {})[p] = res
        json.dump(m, open(mp, "w"), indent=1)
n1 = sum(1 for r in rows if r[2] == "exit=1")
out += ["", "%d changes, %d reported by the owning check (exit=1)." % (len(rows), n1)]
open("seeded/INDEX.md", "w").write("\n".join(out) + "\n")
print(out[-1])
PY
