#!/bin/bash
# round-1 leftovers (rebased / flaky-suite) and all round-2 changes
cd /verif
for t in "C05 A run/mut/C05-A.diff" "C05 B" "C08 B" "C09 A run/mut/C09-A.diff" "C09 B" "C18 A run/mut/C18-A.diff" "C20 B run/mut/C20-B.diff" "C11 A run/mut/C11-A.diff" "C06 B run/mut/C06-B.diff"; do
  set -- $t; P=/tmp/seedout/$1/$2/patch.diff; [ -n "$3" ] && P=/verif/$3
  tools/confirm_seed.sh $1 $2 $P
done
for p in 01 02 03 04 05 06 07 08 09 10 11 12 13 14 15 16 17 18 19 20; do
  for x in A B; do
    n=C; [ $x = B ] && n=D
    P=/tmp/seedout2/C$p/$x/patch.diff
    [ -f /verif/run/mut/C$p-$n.diff ] && P=/verif/run/mut/C$p-$n.diff
    SEEDSRC=/tmp/seedout2 tools/confirm_seed.sh C$p $x $P $n
  done
done
