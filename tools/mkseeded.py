#!/usr/bin/env python3
"""Builds /verif/seeded/<id>-<X>/ (patch.diff, seed_demo_test.go, NOTES.md, meta.json) from the sub-agents' deliveries
(/tmp/seedout) and the confirmation logs. A rebased patch in /verif/run/mut/<id>-<X>.diff replaces the original."""
import json, os, re, shutil, subprocess
head = subprocess.run(["git", "-C", "/repo", "rev-parse", "--short", "HEAD"], capture_output=True, text=True).stdout.strip()
conf = {}
for log in ("/verif/run/confirm_all.log", "/verif/run/confirm_final.log", "/verif/run/confirm_retry.log"):
    if os.path.exists(log):
        for l in open(log):
            m = re.match(r"(C\d\d-[ABCD]): (CONFIRMED|NOT-CONFIRMED|PATCH-DOES-NOT-APPLY|demo_clean=(\d) demo_mut=(\d) suite_mut=(\d))", l)
            if m:
                conf.setdefault(m.group(1), []).append(l.strip())
props = {json.loads(l)["id"]: json.loads(l) for l in open("/verif/properties.jsonl")}
for p in sorted(props):
    for x in "ABCD":
        key = "%s-%s" % (p, x)
        src = "/tmp/seedout/%s/%s" % (p, x) if x in "AB" else "/tmp/seedout2/%s/%s" % (p, "A" if x == "C" else "B")
        if not os.path.exists(src + "/patch.diff"):
            continue
        reb = "/verif/run/mut/%s.diff" % key
        patch = reb if os.path.exists(reb) else src + "/patch.diff"
        lines = conf.get(key, [])
        ok = any("CONFIRMED" in l and "NOT-" not in l for l in lines)
        out = "/verif/seeded/" + key
        if key == "C06-A":
            ok = False
        if not ok:
            continue
        os.makedirs(out, exist_ok=True)
        shutil.copy(patch, out + "/patch.diff")
        shutil.copy(src + "/seed_demo_test.go", out + "/seed_demo_test.go")
        notes = open(src + "/NOTES.md").read() if os.path.exists(src + "/NOTES.md") else ""
        open(out + "/NOTES.md", "w").write(notes)
        meta_path = out + "/meta.json"
        meta = json.load(open(meta_path)) if os.path.exists(meta_path) else {}
        meta.update(dict(
            property=p, title=props[p]["title"], variant=x,
            origin="independent sub-agent given only the property text and a scratch worktree" + ("" if x in "AB" else " (second round: told the mechanisms of the first two changes and asked for different ones)"),
            rebased=os.path.exists(reb),
            needs=(re.search(r"(?is)(needs?|manifest|trigger)[^\n]*\n(.{0,600})", notes).group(0)[:700] if re.search(r"(?is)(needs?|manifest|trigger)", notes) else notes[:500]),
            confirmed=dict(against_repo_head=head, how="tools/confirm_seed.sh: in a scratch worktree of /repo HEAD: go test ./... passes with the patch; "
                           "seed_demo_test.go (TestSeedDemo) fails with the patch and passes without it", log=lines[-2:]),
        ))
        json.dump(meta, open(meta_path, "w"), indent=1)
print(sorted(os.listdir("/verif/seeded")))
