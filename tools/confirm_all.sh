#!/bin/bash
# confirm every seeded mutant against /repo's current HEAD (uses a rebased patch from seeded-rebased/ when present)
for p in 01 02 03 04 05 06 07 08 09 10 11 12 13 14 15 16 17 18 19 20; do for x in A B; do
  P=/tmp/seedout/C$p/$x/patch.diff
  [ -f /verif/run/mut/C$p-$x.diff ] && P=/verif/run/mut/C$p-$x.diff
  /verif/tools/confirm_seed.sh C$p $x $P
done; done
