#!/bin/bash
# false-alarm test, second batch (handshake side): every result must be exit=0
ROOT=$(cd "$(dirname "$0")/.." && pwd); cd $ROOT
declare -A REL=( [01]="C12 C16 C17 C15" [02]="C16 C12" [03]="C12 C13" [04]="C12 C14" [05]="C13 C12" [06]="C12 C14 C07" [07]="C12 C14" [08]="C14 C12 C15" [09]="C14 C16 C07" [10]="C16 C18 C14" [11]="C18 C16 C07" [12]="C18 C07 C16" [13]="C19 C02 C11 C15" [14]="C01 C02 C15 C19" [15]="C01 C02 C10 C20 C09" )
for n in ${ONLY:-01 02 03 04 05 06 07 08 09 10 11 12 13 14 15}; do
  for c in ${REL[$n]}; do
    r=$(tools/trymutant.sh $ROOT/benign2/$n/patch.diff $c | tail -1)
    echo "benign2-$n $c $r $(date +%T)"
    if [ "$r" != "exit=0" ]; then cp $ROOT/run/mut-$c.out $ROOT/run/benign2-$n-$c.out; fi
  done
done
