#!/usr/bin/env python3
"""seeded/INDEX.md and meta.json "detected_by" from run/matrix.final (consolidated output of tools/seed_matrix_par.sh)."""
import json, os
os.chdir("/verif")
rows = sorted(l.split() for l in open("run/matrix.final") if l.strip())
out = ["# Seeded changes: which check reports them (quick tier, VERIF_SEED=%s)" % os.environ.get("VERIF_SEED", "1"), "",
       "Variants A-D: rounds 1 and 2; E, F: round 3; G, H: round 4; I, J: round 5 (connection-level properties only); K, L: round 6 (eight properties); M: round 7 (ten properties). Every change was",
       "confirmed in a scratch worktree (suite passes with it, its demonstration fails with it and passes without it) and the owning",
       "check was run against it with `tools/trymutant.sh` (scratch worktree, `VERIF_REPO`); /repo itself is never touched.", "",
       "| change | property | check run | result |", "|---|---|---|---|"]
for k, p, res in rows:
    own = k.split("-")[0]
    out.append("| %s | %s | ./check %s --tier quick | %s%s |" % (k, own, p, res, "" if p == own else " (another property's check: the change lies in that property's code path)"))
    mp = "seeded/%s/meta.json" % k
    if os.path.exists(mp):
        m = json.load(open(mp)); m.setdefault("detected_by", {})[p] = res
        json.dump(m, open(mp, "w"), indent=1)
keys = sorted({r[0] for r in rows})
own_ok = {r[0] for r in rows if r[2] == "exit=1" and r[1] == r[0].split("-")[0]}
any_ok = {r[0] for r in rows if r[2] == "exit=1"}
out += ["", "%d changes, %d reported by the owning check (exit=1), %d by some check." % (len(keys), len(own_ok), len(any_ok))]
missing = [k for k in keys if k not in own_ok]
if missing:
    out += ["", "Not reported by the owning check: " + ", ".join(missing) + " (see DESIGN.md 0.6)."]
open("seeded/INDEX.md", "w").write("\n".join(out) + "\n")
print(out[-1])
