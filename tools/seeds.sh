#!/bin/bash
# run every quick check with several seeds; print only problems
cd /verif
for s in ${SEEDS:-2 3 4}; do for id in C01 C02 C03 C04 C05 C06 C07 C08 C09 C10 C11 C12 C13 C14 C15 C16 C17 C18 C19 C20; do
  out=$(VERIF_SEED=$s ./check $id --tier quick 2>&1); rc=$?
  if [ $rc -ne 0 ]; then echo "SEED $s $id rc=$rc"; echo "$out" | grep -E "VIOLATION|INFRA|Error" | head -5; fi
done; echo "seed $s done $(date +%T)"; done
