#!/bin/bash
# usage: tools/trymutant.sh <patch.diff> <property id> [tier]
# Applies the patch to a scratch worktree of /repo's HEAD (never to /repo itself), runs the check against it
# (VERIF_REPO), removes the worktree.
ROOT=$(cd "$(dirname "$0")/.." && pwd)
P=$(readlink -f "$1"); ID=$2; TIER=${3:-quick}
WT=/tmp/wt/mut-$$-$ID
git -C /repo worktree add -q --detach $WT HEAD || exit 3
cd $WT
if ! git apply --check "$P" 2>/dev/null; then echo "PATCH DOES NOT APPLY"; cd /; git -C /repo worktree remove --force $WT; exit 3; fi
git apply "$P"
mkdir -p $ROOT/run; cd $ROOT && VERIF_REPO=$WT ./check $ID --tier $TIER > $ROOT/run/mut-$$-$ID.out 2>&1; RC=$?
git -C /repo worktree remove --force $WT
# scratch state of this run (binaries, run directory incl. replays) is removed unless KEEP=1
if [ "$KEEP" != 1 ]; then
  TAG=$(python3 -c "import hashlib,sys; print(hashlib.sha1(sys.argv[1].encode()).hexdigest()[:8])" $WT)
  rm -rf $ROOT/run/alt-$TAG $ROOT/bin-$TAG $ROOT/harness/go.alt-$TAG.mod $ROOT/harness/go.alt-$TAG.sum
fi
grep -E "VIOLATION|KNOWN|INFRA" $ROOT/run/mut-$$-$ID.out | head -3
rm -f $ROOT/run/mut-$$-$ID.out
echo "exit=$RC"
