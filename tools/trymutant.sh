#!/bin/sh
# usage: tools/trymutant.sh <patch.diff> <property id> [tier]   -- applies the patch to /repo, runs the check, reverts
P=$1; ID=$2; TIER=${3:-quick}
git -C /repo apply --check "$P" || { echo "PATCH DOES NOT APPLY"; exit 3; }
git -C /repo apply "$P"
cd /verif && ./check $ID --tier $TIER > /verif/run/mut.out 2>&1; RC=$?
git -C /repo checkout -- .
grep -E "VIOLATION|KNOWN|INFRA" /verif/run/mut.out | head -5
echo "exit=$RC"
