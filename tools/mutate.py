#!/usr/bin/env python3
"""Systematic small mutations of the library (self-test of the checks' detection power).

  tools/mutate.py gen   <outdir>            generate candidate mutants (one patch per mutant) from /repo HEAD
  tools/mutate.py filter <outdir> [jobs]    keep those that build and pass the repository's test suite (survivors.txt)
  tools/mutate.py run    <outdir>           run the relevant quick checks against every survivor (results.txt)

Mutation operators (line based): relational operator swaps, && <-> ||, integer literal +-1 in conditions,
condition negation, boolean literal flips, deletion of simple statements.  Everything happens in scratch worktrees;
/repo is never touched."""
import os, re, subprocess, sys, json, hashlib, shutil, concurrent.futures as cf

FILES = ["conn.go", "server.go", "client.go", "proxy.go", "util.go", "prepared.go", "compression.go", "join.go", "json.go"]
ENV = dict(os.environ, GOFLAGS="-mod=mod", GOPROXY="off", GOSUMDB="off", GOTOOLCHAIN="local")
ROOT = os.path.dirname(os.path.dirname(os.path.abspath(__file__)))

# function -> checks that should notice a behavioural change in it
READ = ["C03", "C04", "C05", "C06", "C08"]
WRITE = ["C02", "C10", "C09", "C20"]
# functions no listed property talks about (error texts, httptrace callbacks, deprecated wrappers' plumbing)
NO_PROPERTY = r"^(Error|Temporary|Timeout)$"

FUNC_CHECKS = [
    (r"validReceivedCloseCodes|isValidReceivedCloseCode", ["C04", "C08"]),
    (r"^isData$|^isControl$", ["C10", "C02", "C04"]),
    (r"generateChallengeKey|computeAcceptKey", ["C14", "C12"]),
    (r"advanceFrame|NextReader|messageReader|ReadMessage|setReadRemaining|read\b|handleProtocolError|isValidReceivedCloseCode|SetReadLimit|SetCloseHandler|SetPingHandler|SetPongHandler|maskBytes", READ + ["C01"]),
    (r"WriteControl", ["C09", "C10", "C11", "C08", "C02"]),
    (r"write\b|writeBufs|writeFatal", ["C09", "C10", "C11", "C02"]),
    (r"beginMessage|NextWriter|endMessage|flushFrame|ncopy|messageWriter|WriteMessage|SetWriteDeadline|FormatCloseMessage|newMaskKey|EnableWriteCompression|SetCompressionLevel", WRITE + ["C01", "C19"]),
    (r"WritePreparedMessage|PreparedMessage|frame\b|prepareConn", ["C19", "C02", "C09"]),
    (r"newConn", ["C01", "C03", "C08", "C17", "C02"]),
    (r"Upgrade|returnError|checkSameOrigin|selectSubprotocol|Subprotocols|IsWebSocketUpgrade|brNetConn", ["C12", "C13", "C15", "C16", "C17"]),
    (r"DialContext|Dial\b|NewClient|hostPortNoPort|netDial|cloneTLSConfig|doHandshake|proxyFromURL|httpProxyDialer", ["C14", "C16", "C18", "C15", "C17", "C07"]),
    (r"tokenListContainsValue|nextToken|skipSpace|parseExtensions|equalASCIIFold|isValidChallengeKey|computeAcceptKey|generateChallengeKey|nextTokenOrQuoted", ["C12", "C13", "C14", "C15", "C07"]),
    (r"compressNoContextTakeover|decompressNoContextTakeover|truncWriter|flateWriteWrapper|flateReadWrapper|isValidCompressionLevel", ["C01", "C02", "C03", "C15", "C19"]),
    (r"JoinMessages|joinReader", ["C03", "C01"]),
    (r"WriteJSON|ReadJSON", ["C01", "C02"]),
]


def checks_for(fn):
    for pat, cs in FUNC_CHECKS:
        if re.search(pat, fn):
            return cs
    return ["C01", "C02", "C03"]


def sh(cmd, cwd=None, timeout=600):
    return subprocess.run(cmd, cwd=cwd, env=ENV, capture_output=True, text=True, errors="replace", timeout=timeout)


def gen(outdir):
    os.makedirs(outdir, exist_ok=True)
    n = 0
    meta = []
    for fname in FILES:
        src = open("/repo/" + fname).read().split("\n")
        fn = ""
        depth_cmt = False
        for i, line in enumerate(src):
            m = re.match(r"func (\([^)]*\) )?(\w+)", line)
            if m:
                fn = m.group(2)
            m = re.match(r"var (\w+)", line)
            if m:
                fn = m.group(1)
            st = line.strip()
            if not fn or st.startswith("//") or "verifGate" in st or "verifWire" in st or not st:
                continue
            cands = []
            is_cond = bool(re.match(r"(if|for|case|switch|return|\}? ?else if) ", st)) or "&&" in st or "||" in st
            if is_cond:
                for a, b in (("<=", "<"), (">=", ">"), ("==", "!="), ("!=", "=="), ("&&", "||"), ("||", "&&")):
                    for mm in re.finditer(re.escape(a), line):
                        # avoid touching ":=" / "<-" / "=>"
                        if a in ("<", ">") and line[mm.end():mm.end() + 1] == "=":
                            continue
                        cands.append(line[:mm.start()] + b + line[mm.end():])
                for a, b in ((r"(?<![<>=!:])<(?![=<-])", "<="), (r"(?<![<>=!-])>(?![=>])", ">=")):
                    for mm in re.finditer(a, line):
                        cands.append(line[:mm.start()] + b + line[mm.end():])
                for mm in re.finditer(r"(?<![\w.\"])(\d+)(?![\w.\"])", line):
                    v = int(mm.group(1))
                    for nv in (v + 1, v - 1):
                        if nv >= 0:
                            cands.append(line[:mm.start()] + str(nv) + line[mm.end():])
                mm = re.match(r"(\s*(?:\} else )?if )(.*)( \{)$", line)
                if mm and ";" not in mm.group(2):
                    cands.append(mm.group(1) + "!(" + mm.group(2) + ")" + mm.group(3))
            for a, b in (("true", "false"), ("false", "true")):
                for mm in re.finditer(r"\b" + a + r"\b", line):
                    cands.append(line[:mm.start()] + b + line[mm.end():])
            # statement deletion: simple assignments / calls (not declarations, not control flow)
            if re.match(r"^[\w.\[\]\*]+(\([^)]*\))? (=|\+=|-=) ", st) or re.match(r"^_ = ", st) or re.match(r"^[\w.]+\([^{]*\)$", st) or re.match(r"^(c|w|r|pm|d|u)\.[\w.]+\+\+$", st):
                cands.append(re.match(r"\s*", line).group(0) + "_ = 0 // deleted: " + st.replace("/*", "").replace("*/", ""))
            seen = set()
            for c in cands:
                if c == line or c in seen:
                    continue
                seen.add(c)
                n += 1
                mid = "%04d" % n
                new = src[:i] + [c] + src[i + 1:]
                d = os.path.join(outdir, mid)
                os.makedirs(d, exist_ok=True)
                open(os.path.join(d, "new_" + fname), "w").write("\n".join(new))
                json.dump(dict(id=mid, file=fname, line=i + 1, func=fn, old=line.strip(), new=c.strip()), open(os.path.join(d, "meta.json"), "w"))
                meta.append(mid)
    print("generated", n, "candidates")


def worktree(tag):
    wt = "/tmp/wt/automut-%s" % tag
    if not os.path.exists(wt):
        sh(["git", "-C", "/repo", "worktree", "add", "-q", "--detach", wt, "HEAD"])
    return wt


def test_one(args):
    outdir, mid, slot = args
    d = os.path.join(outdir, mid)
    m = json.load(open(os.path.join(d, "meta.json")))
    wt = worktree(slot)
    sh(["git", "checkout", "-q", "--", "."], cwd=wt)
    shutil.copy(os.path.join(d, "new_" + m["file"]), os.path.join(wt, m["file"]))
    res = "survived"
    b = sh(["go", "build", "./..."], cwd=wt)
    if b.returncode != 0:
        res = "nobuild"
    else:
        b2 = sh(["go", "vet", "-tags", "verif", "."], cwd=wt)  # also must build with the tag
        b3 = sh(["go", "build", "-tags", "verif", "./..."], cwd=wt)
        if b3.returncode != 0:
            res = "nobuild"
        else:
            ok = False
            for attempt in range(3):
                try:
                    t = sh(["go", "test", "-vet=off", "-count=1", "-timeout", "60s", "./..."], cwd=wt, timeout=100)
                except subprocess.TimeoutExpired:
                    res = "killed"
                    break
                if t.returncode == 0:
                    ok = True
                    break
                fails = re.findall(r"--- FAIL: (\w+)", t.stdout)
                if not fails or not all(re.match(r"TestHTTPS?Proxy|TestTLSValidationErrors|TestProxy", f) for f in fails):
                    break
            if not ok and res != "killed":
                res = "killed"
    if res == "survived":
        p = sh(["git", "diff"], cwd=wt)
        open(os.path.join(d, "patch.diff"), "w").write(p.stdout)
    sh(["git", "checkout", "-q", "--", "."], cwd=wt)
    m["filter"] = res
    json.dump(m, open(os.path.join(d, "meta.json"), "w"))
    return mid, res


def filt(outdir, jobs):
    ids = sorted(x for x in os.listdir(outdir) if x.isdigit())
    todo = [i for i in ids if "filter" not in json.load(open(os.path.join(outdir, i, "meta.json")))]
    res = {}
    # each slot has its own worktree; run slots in parallel
    def slot_run(slot):
        out = []
        for k, mid in enumerate(todo):
            if k % jobs == slot:
                out.append(test_one((outdir, mid, str(slot))))
        return out
    with cf.ThreadPoolExecutor(max_workers=jobs) as ex:
        for part in ex.map(slot_run, range(jobs)):
            for mid, r in part:
                res[mid] = r
    for s in range(jobs):
        sh(["git", "-C", "/repo", "worktree", "remove", "--force", "/tmp/wt/automut-%d" % s])
    surv = [i for i in ids if json.load(open(os.path.join(outdir, i, "meta.json"))).get("filter") == "survived"]
    open(os.path.join(outdir, "survivors.txt"), "w").write("\n".join(surv) + "\n")
    print("candidates", len(ids), "survivors", len(surv))


def run(outdir):
    surv = open(os.path.join(outdir, "survivors.txt")).read().split()
    resf = os.path.join(outdir, "results.txt")
    done = set()
    if os.path.exists(resf):
        done = {l.split()[0] for l in open(resf)}
    sel = os.path.join(os.path.dirname(outdir.rstrip("/")), "sel.log")
    if os.path.exists(sel):
        done |= {l.split()[0] for l in open(sel) if len(l.split()) >= 3 and l.split()[2] == "exit=1"}
    import threading
    lock = threading.Lock()
    jobs = int(os.environ.get("MUT_JOBS", "3"))

    def one(mid):
        m = json.load(open(os.path.join(outdir, mid, "meta.json")))
        verdict = "UNDETECTED"
        tried = []
        if re.search(NO_PROPERTY, m["func"]) or "trace." in m["old"] or "trace != nil" in m["old"]:
            with lock, open(resf, "a") as f:
                f.write("%s NO-PROPERTY %s:%d %s | %s -> %s |\n" % (mid, m["file"], m["line"], m["func"], m["old"], m["new"]))
            return
        for c in checks_for(m["func"])[:4]:
            p = subprocess.run([os.path.join(ROOT, "tools", "trymutant.sh"), os.path.join(outdir, mid, "patch.diff"), c], capture_output=True, text=True)
            last = p.stdout.strip().split("\n")[-1]
            tried.append("%s:%s" % (c, last.replace("exit=", "")))
            if last == "exit=1":
                verdict = "DETECTED(%s)" % c
                break
        with lock, open(resf, "a") as f:
            f.write("%s %s %s:%d %s | %s -> %s | %s\n" % (mid, verdict, m["file"], m["line"], m["func"], m["old"], m["new"], " ".join(tried)))
        print(mid, verdict, flush=True)

    with cf.ThreadPoolExecutor(max_workers=jobs) as ex:
        list(ex.map(one, [m for m in surv if m not in done]))


if __name__ == "__main__":
    cmd, outdir = sys.argv[1], sys.argv[2]
    if cmd == "gen":
        gen(outdir)
    elif cmd == "filter":
        filt(outdir, int(sys.argv[3]) if len(sys.argv) > 3 else 8)
    elif cmd == "run":
        run(outdir)
