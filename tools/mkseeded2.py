#!/usr/bin/env python3
"""meta.json for the round-3 (E, F) and round-4 (G, H) seeded changes already copied to /verif/seeded by tools/confirm_seed.sh
(tools/round3.sh, tools/round4.sh). Confirmation lines are taken from /verif/run/round3*.log and round4*.log."""
import json, os, re, glob, subprocess
head = subprocess.run(["git", "-C", "/repo", "rev-parse", "--short", "HEAD"], capture_output=True, text=True).stdout.strip()
conf = {}
for log in sorted(glob.glob("/verif/run/round[34567]*.log")):
    for l in open(log):
        m = re.match(r"(C\d\d-[EFGHIJKLMN]): (CONFIRMED|NOT-CONFIRMED|demo_clean=\d demo_mut=\d suite_mut=\d)", l)
        if m:
            conf.setdefault(m.group(1), []).append(l.strip())
props = {json.loads(l)["id"]: json.loads(l) for l in open("/verif/properties.jsonl")}
for d in sorted(glob.glob("/verif/seeded/C??-[EFGHIJKLMN]")):
    key = os.path.basename(d)
    p, x = key.split("-")
    notes = open(d + "/NOTES.md").read() if os.path.exists(d + "/NOTES.md") else ""
    m = re.search(r"(?is)needed to manifest\W*(.{0,700})", notes)
    mp = d + "/meta.json"
    meta = json.load(open(mp)) if os.path.exists(mp) else {}
    rnd = 3 if x in "EF" else (4 if x in "GH" else (5 if x in "IJ" else (6 if x in "KL" else 7)))
    meta.update(dict(
        property=p, title=props[p]["title"], variant=x,
        origin="independent sub-agent given only the property text and a scratch worktree (round %d: told the triggers of the earlier changes "
               "for this property and asked for different code sites and triggers)" % rnd,
        needs=re.sub(r"\s+", " ", m.group(1) if m else notes[:500])[:700],
        confirmed=dict(against_repo_head=head, how="tools/confirm_seed.sh: in a scratch worktree of /repo HEAD: go test ./... passes with the patch "
                       "(the proxy/TLS tests that flake under load are retried); seed_demo_test.go (TestSeedDemo) fails with the patch and passes without it",
                       log=conf.get(key, [])[-2:])))
    json.dump(meta, open(mp, "w"), indent=1)
    print(key, "ok" if any("CONFIRMED" in l and "NOT-" not in l for l in conf.get(key, [])) else "NO CONFIRM LINE")
