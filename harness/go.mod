module wsverif

go 1.20

require github.com/gorilla/websocket v0.0.0

require golang.org/x/net v0.26.0

replace github.com/gorilla/websocket => /repo
