package wire

// Pay returns the deterministic payload of identity id and length n: a
// xorshift stream seeded by (seed,id). Distinct ids give streams that differ
// with overwhelming probability in every window of 4+ bytes, so a decoded
// payload can be attributed to its source.
func Pay(seed uint64, id int, n int) []byte {
	x := seed*0x9E3779B97F4A7C15 + uint64(id+1)*0xBF58476D1CE4E5B9
	if x == 0 {
		x = 1
	}
	out := make([]byte, n)
	for i := 0; i < n; i += 8 {
		x ^= x << 13
		x ^= x >> 7
		x ^= x << 17
		v := x
		for j := 0; j < 8 && i+j < n; j++ {
			out[i+j] = byte(v)
			v >>= 8
		}
	}
	return out
}

// TextPay returns compressible, valid-UTF-8, JSON-string-safe text of length n
// that still depends on id.
func TextPay(seed uint64, id int, n int) []byte {
	words := []string{"alpha ", "beta ", "gamma ", "delta ", "websocket ", "frame ", "0123456789 ", "zz"}
	r := Pay(seed, id, n/3+8)
	out := make([]byte, 0, n+16)
	for i := 0; len(out) < n; i++ {
		out = append(out, words[int(r[i%len(r)])%len(words)]...)
	}
	return out[:n]
}
