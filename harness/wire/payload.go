package wire

// Pay returns the deterministic payload of identity id and length n: a
// xorshift stream seeded by (seed,id). Distinct ids give streams that differ
// with overwhelming probability in every window of 4+ bytes, so a decoded
// payload can be attributed to its source.
func Pay(seed uint64, id int, n int) []byte {
	x := seed*0x9E3779B97F4A7C15 + uint64(id+1)*0xBF58476D1CE4E5B9
	if x == 0 {
		x = 1
	}
	out := make([]byte, n)
	for i := 0; i < n; i += 8 {
		x ^= x << 13
		x ^= x >> 7
		x ^= x << 17
		v := x
		for j := 0; j < 8 && i+j < n; j++ {
			out[i+j] = byte(v)
			v >>= 8
		}
	}
	return out
}

// TextPay returns compressible, valid-UTF-8, JSON-string-safe text of length n
// that still depends on id.
func TextPay(seed uint64, id int, n int) []byte {
	words := []string{"alpha ", "beta ", "gamma ", "delta ", "websocket ", "frame ", "0123456789 ", "zz"}
	r := Pay(seed, id, n/3+8)
	out := make([]byte, 0, n+16)
	for i := 0; len(out) < n; i++ {
		out = append(out, words[int(r[i%len(r)])%len(words)]...)
	}
	return out[:n]
}

// JSONDoc returns a document of exactly n bytes for ReadJSON programs. Most
// variants begin with one JSON value (string, array, object, number, value
// followed by a newline or by trailing bytes); some are deliberately not JSON
// (unterminated string, plain text). The content still depends on (seed, id).
func JSONDoc(seed uint64, id int, n int) []byte {
	if n == 0 {
		return []byte{}
	}
	sel := int(Pay(seed, id+7777, 1)[0])
	body := func(k int) []byte { return TextPay(seed, id, k) }
	cat := func(parts ...[]byte) []byte {
		var o []byte
		for _, p := range parts {
			o = append(o, p...)
		}
		return o
	}
	digits := func(k int) []byte {
		o := make([]byte, k)
		r := Pay(seed, id+99, k)
		for i := range o {
			o[i] = '1' + r[i]%9
		}
		return o
	}
	switch {
	case n == 1:
		return digits(1)
	case n == 2:
		return [][]byte{[]byte(`""`), []byte("[]"), digits(2), []byte(`"x`)}[sel%4]
	}
	q := []byte{'"'}
	switch v := sel % 8; {
	case v == 1:
		return cat(q, body(n-3), q, []byte("\n"))
	case v == 2 && n >= 4:
		return cat([]byte(`["`), body(n-4), []byte(`"]`))
	case v == 3 && n >= 8:
		return cat([]byte(`{"k":"`), body(n-8), []byte(`"}`))
	case v == 4 && n <= 15:
		return digits(n)
	case v == 4 && n >= 4:
		return cat(digits(3), []byte(" "), body(n-4))
	case v == 5:
		return cat(q, body(n-1))
	case v == 6:
		return body(n)
	case v == 7 && n >= 4:
		return cat(q, body(n-4), q, []byte(" z"))
	}
	return cat(q, body(n-2), q)
}
