package wire

import (
	"bytes"
	"compress/flate"
	"errors"
	"io"
)

// Inflate decompresses a permessage-deflate message payload per RFC 7692
// section 7.2.2: append 00 00 ff ff and inflate until the input is consumed.
func Inflate(p []byte) ([]byte, error) {
	in := append(append([]byte{}, p...), 0x00, 0x00, 0xff, 0xff)
	// A final empty stored block with BFINAL=1 terminates the stream for the
	// std-lib inflater, which otherwise reports an unexpected EOF.
	in = append(in, 0x01, 0x00, 0x00, 0xff, 0xff)
	r := flate.NewReader(bytes.NewReader(in))
	out, err := io.ReadAll(r)
	if err != nil {
		return out, err
	}
	return out, nil
}

// bitWriter writes DEFLATE bit streams (LSB first).
type bitWriter struct {
	out  []byte
	acc  uint32
	nacc uint
}

func (w *bitWriter) bits(v uint32, n uint) {
	w.acc |= v << w.nacc
	w.nacc += n
	for w.nacc >= 8 {
		w.out = append(w.out, byte(w.acc))
		w.acc >>= 8
		w.nacc -= 8
	}
}

// huff writes a Huffman code (MSB first as per RFC 1951 3.1.1).
func (w *bitWriter) huff(code uint32, n uint) {
	for i := int(n) - 1; i >= 0; i-- {
		w.bits((code>>uint(i))&1, 1)
	}
}

func (w *bitWriter) align() {
	if w.nacc > 0 {
		w.out = append(w.out, byte(w.acc))
		w.acc = 0
		w.nacc = 0
	}
}

func (w *bitWriter) stored(p []byte, final bool) {
	// one stored block (len <= 65535)
	var f uint32
	if final {
		f = 1
	}
	w.bits(f, 1)
	w.bits(0, 2)
	w.align()
	n := len(p)
	w.out = append(w.out, byte(n), byte(n>>8), byte(^n), byte((^n)>>8))
	w.out = append(w.out, p...)
}

func (w *bitWriter) fixedLiterals(p []byte, final bool) {
	var f uint32
	if final {
		f = 1
	}
	w.bits(f, 1)
	w.bits(1, 2) // BTYPE=01 fixed Huffman
	for _, b := range p {
		if b <= 143 {
			w.huff(0x30+uint32(b), 8)
		} else {
			w.huff(0x190+uint32(b-144), 9)
		}
	}
	w.huff(0, 7) // end of block (256)
}

// syncTail appends an empty stored block (BFINAL=0), i.e. the 00 00 ff ff
// marker preceded by the 3 header bits and padding.
func (w *bitWriter) syncTail() {
	w.stored(nil, false)
}

var errTail = errors.New("wire: deflate stream does not end in 00 00 ff ff")

func stripTail(b []byte) ([]byte, error) {
	if len(b) < 4 || !bytes.Equal(b[len(b)-4:], []byte{0, 0, 0xff, 0xff}) {
		return nil, errTail
	}
	return b[:len(b)-4], nil
}

// Deflate variants produced by an encoder independent of the library.
const (
	DefStored    = "stored"    // hand-written stored blocks (<= 1000 bytes each)
	DefFixed     = "fixed"     // hand-written fixed-Huffman literal-only block
	DefFixed2    = "fixed2"    // two fixed blocks with a sync flush between them
	DefBFinal    = "bfinal"    // RFC 7692 7.2.3.5: last block BFINAL=1, then 00
	DefStdPrefix = "std"       // "std<level>": compress/flate at that level, sync flush
	DefStd2      = "std2"      // compress/flate level 6 with a Flush mid-message
)

// DeflateMsg returns the permessage-deflate payload (tail removed) for the
// plaintext p using the given variant. p must be non-empty for every variant
// to yield a non-empty payload that is a valid DEFLATE prefix.
func DeflateMsg(p []byte, variant string) ([]byte, error) {
	switch {
	case variant == DefStored:
		var w bitWriter
		for len(p) > 1000 {
			w.stored(p[:1000], false)
			p = p[1000:]
		}
		w.stored(p, false)
		w.syncTail()
		return stripTail(w.out)
	case variant == DefFixed:
		var w bitWriter
		w.fixedLiterals(p, false)
		w.syncTail()
		return stripTail(w.out)
	case variant == DefFixed2:
		var w bitWriter
		h := len(p) / 2
		w.fixedLiterals(p[:h], false)
		w.syncTail()
		w.fixedLiterals(p[h:], false)
		w.syncTail()
		return stripTail(w.out)
	case variant == DefBFinal:
		// A block with BFINAL=1 followed by an empty stored block so that the
		// stream ends in 00 00 ff ff, then the tail is removed (leaves "00").
		var w bitWriter
		w.fixedLiterals(p, true)
		w.align()
		// RFC 7692 7.2.3.5: append 0x00 after removing the tail. The empty
		// stored non-final block 00 00 00 ff ff minus tail = 00.
		w.out = append(w.out, 0x00)
		return w.out, nil
	case variant == DefStd2:
		var buf bytes.Buffer
		fw, err := flate.NewWriter(&buf, 6)
		if err != nil {
			return nil, err
		}
		h := len(p) / 2
		fw.Write(p[:h])
		fw.Flush()
		fw.Write(p[h:])
		fw.Flush()
		return stripTail(buf.Bytes())
	case len(variant) > 3 && variant[:3] == DefStdPrefix:
		lvl := 0
		neg := false
		for _, c := range variant[3:] {
			if c == '-' {
				neg = true
				continue
			}
			lvl = lvl*10 + int(c-'0')
		}
		if neg {
			lvl = -lvl
		}
		var buf bytes.Buffer
		fw, err := flate.NewWriter(&buf, lvl)
		if err != nil {
			return nil, err
		}
		fw.Write(p)
		fw.Flush()
		return stripTail(buf.Bytes())
	}
	return nil, errors.New("wire: unknown deflate variant " + variant)
}

// SyncOffset returns, for the variants that flush in the middle of the message
// ("fixed2", "std2"), the offset inside the permessage-deflate payload at which
// the first sync flush's 00 00 ff ff begins (the bytes before it are a complete
// deflate prefix); -1 for other variants.
func SyncOffset(p []byte, variant string) int {
	switch variant {
	case DefFixed2:
		var w bitWriter
		w.fixedLiterals(p[:len(p)/2], false)
		w.syncTail()
		return len(w.out) - 4
	case DefStd2:
		var buf bytes.Buffer
		fw, err := flate.NewWriter(&buf, 6)
		if err != nil {
			return -1
		}
		fw.Write(p[:len(p)/2])
		fw.Flush()
		return buf.Len() - 4
	}
	return -1
}
