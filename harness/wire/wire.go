// Package wire is an RFC 6455 frame codec written from the RFC text (section
// 5.2) for the verification harness. It shares no code with the library under
// test. The decoder rejects nothing: it only reports header fields so that the
// grammar can be judged by the TLA+ specification.
package wire

import (
	"encoding/binary"
)

// Frame is one decoded or to-be-encoded frame.
type Frame struct {
	Op      int
	Fin     bool
	R1      bool
	R2      bool
	R3      bool
	Masked  bool
	Key     [4]byte
	Payload []byte // unmasked payload

	// Encoding controls (encoder) / observations (decoder).
	Enc     int    // 7, 16 or 64: width of the length field used
	Decl    uint64 // declared length (decoder: as read; encoder: used when DeclSet)
	DeclSet bool   // encoder: write Decl instead of len(Payload)
	Minimal bool   // decoder: the length used the shortest possible encoding
	HdrLen  int    // decoder: header bytes
	Off     int    // decoder: offset of the frame's first byte in the stream
}

// MinEnc returns the minimal length-field width for n.
func MinEnc(n uint64) int {
	switch {
	case n <= 125:
		return 7
	case n <= 65535:
		return 16
	default:
		return 64
	}
}

// Encode serialises f. If f.Enc is 0 the minimal encoding is used. The
// payload is masked with f.Key when f.Masked.
func Encode(f Frame) []byte {
	n := uint64(len(f.Payload))
	if f.DeclSet {
		n = f.Decl
	}
	enc := f.Enc
	if enc == 0 {
		enc = MinEnc(n)
	}
	b0 := byte(f.Op & 0xf)
	if f.Fin {
		b0 |= 0x80
	}
	if f.R1 {
		b0 |= 0x40
	}
	if f.R2 {
		b0 |= 0x20
	}
	if f.R3 {
		b0 |= 0x10
	}
	var b1 byte
	if f.Masked {
		b1 = 0x80
	}
	out := make([]byte, 0, 14+len(f.Payload))
	switch enc {
	case 7:
		out = append(out, b0, b1|byte(n&0x7f))
	case 16:
		out = append(out, b0, b1|126, 0, 0)
		binary.BigEndian.PutUint16(out[2:], uint16(n))
	default:
		out = append(out, b0, b1|127, 0, 0, 0, 0, 0, 0, 0, 0)
		binary.BigEndian.PutUint64(out[2:], n)
	}
	if f.Masked {
		out = append(out, f.Key[:]...)
		st := len(out)
		out = append(out, f.Payload...)
		for i := st; i < len(out); i++ {
			out[i] ^= f.Key[(i-st)&3]
		}
	} else {
		out = append(out, f.Payload...)
	}
	return out
}

// Decoder is an incremental frame decoder.
type Decoder struct {
	buf    []byte
	off    int // stream offset of buf[0]
	Frames []Frame
	// MaxPayload bounds how much payload the decoder is willing to buffer;
	// a frame declaring more is reported as Huge and decoding stops.
	Huge bool
}

// Feed appends bytes and decodes as many complete frames as possible. It
// returns the frames completed by this call.
func (d *Decoder) Feed(p []byte) []Frame {
	d.buf = append(d.buf, p...)
	var done []Frame
	for !d.Huge {
		f, n, ok := decodeOne(d.buf)
		if !ok {
			if n < 0 {
				d.Huge = true
			}
			break
		}
		f.Off = d.off
		d.buf = d.buf[n:]
		d.off += n
		d.Frames = append(d.Frames, f)
		done = append(done, f)
	}
	return done
}

// Pending returns the number of buffered bytes belonging to an incomplete frame.
func (d *Decoder) Pending() int { return len(d.buf) }

// PendingBytes returns the bytes of the incomplete trailing frame.
func (d *Decoder) PendingBytes() []byte { return d.buf }

func decodeOne(b []byte) (Frame, int, bool) {
	var f Frame
	if len(b) < 2 {
		return f, 0, false
	}
	f.Op = int(b[0] & 0xf)
	f.Fin = b[0]&0x80 != 0
	f.R1 = b[0]&0x40 != 0
	f.R2 = b[0]&0x20 != 0
	f.R3 = b[0]&0x10 != 0
	f.Masked = b[1]&0x80 != 0
	l7 := b[1] & 0x7f
	pos := 2
	var n uint64
	switch l7 {
	case 126:
		if len(b) < pos+2 {
			return f, 0, false
		}
		n = uint64(binary.BigEndian.Uint16(b[pos:]))
		pos += 2
		f.Enc = 16
	case 127:
		if len(b) < pos+8 {
			return f, 0, false
		}
		n = binary.BigEndian.Uint64(b[pos:])
		pos += 8
		f.Enc = 64
	default:
		n = uint64(l7)
		f.Enc = 7
	}
	f.Decl = n
	f.Minimal = MinEnc(n) == f.Enc
	if n > 1<<30 {
		return f, -1, false
	}
	if f.Masked {
		if len(b) < pos+4 {
			return f, 0, false
		}
		copy(f.Key[:], b[pos:pos+4])
		pos += 4
	}
	f.HdrLen = pos
	if uint64(len(b)-pos) < n {
		return f, 0, false
	}
	pl := make([]byte, n)
	copy(pl, b[pos:pos+int(n)])
	if f.Masked {
		for i := range pl {
			pl[i] ^= f.Key[i&3]
		}
	}
	f.Payload = pl
	return f, pos + int(n), true
}

// IsControl reports whether op is a control opcode (8..15).
func IsControl(op int) bool { return op >= 8 }

// CloseBody builds a close frame body.
func CloseBody(code int, reason []byte) []byte {
	b := make([]byte, 2+len(reason))
	binary.BigEndian.PutUint16(b, uint16(code))
	copy(b[2:], reason)
	return b
}
