// Package xport provides scripted, fault-injecting, fully logged net.Conn
// implementations for driving the library deterministically.
package xport

import (
	"bytes"
	"errors"
	"io"
	"net"
	"runtime"
	"strconv"
	"sync"
	"sync/atomic"
	"time"
)

// Op kinds.
const (
	OpRead  = "R"
	OpWrite = "W"
	OpSWD   = "SWD" // SetWriteDeadline
	OpSRD   = "SRD" // SetReadDeadline
	OpSD    = "SD"  // SetDeadline
	OpClose = "C"
)

// Op is one logged transport operation.
type Op struct {
	Seq  int
	Kind string
	G    int64 // goroutine id of the caller
	Data []byte
	N    int
	Err  error
	T    time.Time // deadline argument
	WIdx int       // index among write-side ops (SWD, W), -1 otherwise
}

// Chunk is one scripted transport read result.
type Chunk struct {
	Data []byte
	Err  error
	Gen  func() []byte // if non-nil, produces Data lazily (handshake replies)
	Wait <-chan struct{}
	// Gate: while *Gate == 0 the chunk is not available and Read keeps
	// returning the previous error (a failed transport stays failed until
	// the driver "heals" it by setting *Gate = 1).
	Gate *int32
}

// TimeoutErr is a net.Error with Timeout() == true.
type TimeoutErr struct{ Msg string }

func (e *TimeoutErr) Error() string   { return e.Msg }
func (e *TimeoutErr) Timeout() bool   { return true }
func (e *TimeoutErr) Temporary() bool { return true }

// Fault describes what a write-side transport operation returns.
type Fault struct {
	Kind  string // "err", "timeout", "short"
	Short int    // bytes accepted for "short"
	Err   error  // filled by the conn: the error value returned
}

// Addr is a dummy net.Addr.
type Addr string

func (a Addr) Network() string { return "script" }
func (a Addr) String() string  { return string(a) }

// ScriptConn is a scripted net.Conn.
type ScriptConn struct {
	mu     sync.Mutex
	seq    *int // shared sequence counter (may be shared between conns)
	seqMu  *sync.Mutex
	Ops    []*Op
	In     []Chunk
	inPos  int
	rest   []byte
	restE  error
	EndErr error // returned by Read after the script is exhausted (default io.EOF)
	Block  bool  // block instead of returning EndErr, until Close

	Faults map[int]*Fault // keyed by write-side op index
	widx   int
	closed chan struct{}
	wake   chan struct{}
	once   sync.Once
	NClose int

	// Hook is called (outside the conn mutex) at the start of every
	// operation; it may block (scheduler gate).
	Hook func(kind string, widx int, data []byte)
	// After is called after a write-side op has been logged.
	After func(op *Op)
	// CloseErr is returned by Close.
	CloseErr error
	// QuietReads: do not log successful Read ops (only count their bytes).
	QuietReads bool
	nread      int
	lastErr    error
	// SDErr: if set, returned by SetDeadline-family calls with the given
	// all-op index (used by handshake fault enumeration).
	Name string
}

// New returns a ScriptConn with the given inbound script.
func New(in []Chunk) *ScriptConn {
	n := 0
	return &ScriptConn{In: in, seq: &n, seqMu: &sync.Mutex{}, closed: make(chan struct{}), wake: make(chan struct{}, 1), Faults: map[int]*Fault{}}
}

// GID returns the current goroutine's id.
func GID() int64 { return gid() }

func gid() int64 {
	var b [64]byte
	n := runtime.Stack(b[:], false)
	// "goroutine 123 ["
	s := b[len("goroutine "):n]
	i := bytes.IndexByte(s, ' ')
	id, _ := strconv.ParseInt(string(s[:i]), 10, 64)
	return id
}

func (c *ScriptConn) log(op *Op) *Op {
	c.seqMu.Lock()
	*c.seq++
	op.Seq = *c.seq
	c.seqMu.Unlock()
	op.G = gid()
	c.Ops = append(c.Ops, op)
	return op
}

// Read implements net.Conn.
func (c *ScriptConn) Read(p []byte) (int, error) {
	if c.Hook != nil {
		c.Hook(OpRead, -1, nil)
	}
	c.mu.Lock()
	for len(c.rest) == 0 && c.restE == nil {
		if c.inPos >= len(c.In) {
			if c.Block {
				c.mu.Unlock()
				select {
				case <-c.wake:
					c.mu.Lock()
					continue
				case <-c.closed:
				}
				c.mu.Lock()
				err := errors.New("script: use of closed connection")
				c.log(&Op{Kind: OpRead, Err: err, WIdx: -1})
				c.mu.Unlock()
				return 0, err
			}
			e := c.EndErr
			if e == nil {
				e = io.EOF
			}
			c.log(&Op{Kind: OpRead, Err: e, WIdx: -1})
			c.mu.Unlock()
			return 0, e
		}
		ch := c.In[c.inPos]
		if ch.Gate != nil && atomic.LoadInt32(ch.Gate) == 0 && c.lastErr != nil {
			e := c.lastErr
			c.log(&Op{Kind: OpRead, Err: e, WIdx: -1})
			c.mu.Unlock()
			return 0, e
		}
		c.inPos++
		if ch.Wait != nil {
			c.mu.Unlock()
			select {
			case <-ch.Wait:
			case <-c.closed:
			}
			c.mu.Lock()
		}
		if ch.Gen != nil {
			c.mu.Unlock()
			g := ch.Gen()
			c.mu.Lock()
			c.rest = g
		} else {
			c.rest = ch.Data
		}
		c.restE = ch.Err
		if len(c.rest) == 0 && c.restE == nil {
			continue
		}
	}
	n := copy(p, c.rest)
	c.rest = c.rest[n:]
	var err error
	if len(c.rest) == 0 {
		err = c.restE
		c.restE = nil
	}
	if err != nil {
		c.lastErr = err
	}
	c.nread += n
	if !c.QuietReads || err != nil {
		c.log(&Op{Kind: OpRead, N: n, Err: err, WIdx: -1})
	}
	c.mu.Unlock()
	return n, err
}

func (c *ScriptConn) faultFor(widx int) *Fault {
	return c.Faults[widx]
}

func mkErr(f *Fault) error {
	if f.Err != nil {
		return f.Err
	}
	switch f.Kind {
	case "timeout":
		f.Err = &TimeoutErr{"script: i/o timeout"}
	default:
		f.Err = errors.New("script: injected " + f.Kind)
	}
	return f.Err
}

// Write implements net.Conn.
func (c *ScriptConn) Write(p []byte) (int, error) {
	c.mu.Lock()
	w := c.widx
	c.mu.Unlock()
	if c.Hook != nil {
		c.Hook(OpWrite, w, p)
	}
	c.mu.Lock()
	w = c.widx
	c.widx++
	op := &Op{Kind: OpWrite, WIdx: w}
	n := len(p)
	var err error
	if f := c.faultFor(w); f != nil {
		err = mkErr(f)
		n = 0
		if f.Kind == "short" {
			n = f.Short
			if n > len(p) {
				n = len(p)
			}
		}
	}
	op.Data = append([]byte{}, p[:n]...)
	op.N = n
	op.Err = err
	c.log(op)
	c.mu.Unlock()
	if c.After != nil {
		c.After(op)
	}
	return n, err
}

// SetWriteDeadline implements net.Conn.
func (c *ScriptConn) SetWriteDeadline(t time.Time) error {
	c.mu.Lock()
	w := c.widx
	c.mu.Unlock()
	if c.Hook != nil {
		c.Hook(OpSWD, w, nil)
	}
	c.mu.Lock()
	w = c.widx
	c.widx++
	op := &Op{Kind: OpSWD, T: t, WIdx: w}
	if f := c.faultFor(w); f != nil {
		op.Err = mkErr(f)
	}
	c.log(op)
	c.mu.Unlock()
	if c.After != nil {
		c.After(op)
	}
	return op.Err
}

// SetReadDeadline implements net.Conn.
func (c *ScriptConn) SetReadDeadline(t time.Time) error {
	c.mu.Lock()
	c.log(&Op{Kind: OpSRD, T: t, WIdx: -1})
	c.mu.Unlock()
	return nil
}

// SetDeadline implements net.Conn.
func (c *ScriptConn) SetDeadline(t time.Time) error {
	c.mu.Lock()
	c.log(&Op{Kind: OpSD, T: t, WIdx: -1})
	c.mu.Unlock()
	return nil
}

// Close implements net.Conn.
func (c *ScriptConn) Close() error {
	c.mu.Lock()
	c.NClose++
	c.log(&Op{Kind: OpClose, WIdx: -1, Err: c.CloseErr})
	c.mu.Unlock()
	c.once.Do(func() { close(c.closed) })
	return c.CloseErr
}

func (c *ScriptConn) LocalAddr() net.Addr  { return Addr("local") }
func (c *ScriptConn) RemoteAddr() net.Addr { return Addr("remote") }

// Snapshot returns a copy of the op log.
func (c *ScriptConn) Snapshot() []*Op {
	c.mu.Lock()
	defer c.mu.Unlock()
	return append([]*Op{}, c.Ops...)
}

// Written returns the concatenation of all bytes accepted by Write.
func (c *ScriptConn) Written() []byte {
	c.mu.Lock()
	defer c.mu.Unlock()
	var b []byte
	for _, o := range c.Ops {
		if o.Kind == OpWrite {
			b = append(b, o.Data...)
		}
	}
	return b
}

// AppendIn appends chunks to the inbound script (before it is exhausted).
func (c *ScriptConn) AppendIn(ch ...Chunk) {
	c.mu.Lock()
	c.In = append(c.In, ch...)
	c.mu.Unlock()
}

// PrependIn inserts chunks at the current read position of the script.
func (c *ScriptConn) PrependIn(ch ...Chunk) {
	c.mu.Lock()
	rest := append([]Chunk{}, c.In[c.inPos:]...)
	c.In = append(append(c.In[:c.inPos:c.inPos], ch...), rest...)
	c.mu.Unlock()
}

// ResetLog clears the op log and the write-side op counter (used after the
// handshake so that observations start at the first WebSocket operation).
func (c *ScriptConn) ResetLog() {
	c.mu.Lock()
	c.Ops = nil
	c.widx = 0
	c.NClose = 0
	c.mu.Unlock()
}

// BytesRead returns the number of bytes handed out by Read so far.
func (c *ScriptConn) BytesRead() int {
	c.mu.Lock()
	defer c.mu.Unlock()
	return c.nread
}

// AppendInWake appends chunks and wakes a reader blocked at the end of the script.
func (c *ScriptConn) AppendInWake(ch ...Chunk) {
	c.mu.Lock()
	c.In = append(c.In, ch...)
	c.mu.Unlock()
	select {
	case c.wake <- struct{}{}:
	default:
	}
}
