// wswire converts a VERIF_WIRE log (one successful transport write per line:
// connection id, isServer, pmce, hex bytes) into one trace per connection for
// WSWireTrace: the frames each connection wrote, decoded by the independent codec.
package main

import (
	"bufio"
	"encoding/hex"
	"encoding/json"
	"fmt"
	"os"
	"sort"
	"strings"

	"wsverif/wire"
)

type conn struct {
	id     int
	server bool
	pmce   bool
	dec    wire.Decoder
	evs    []map[string]interface{}
}

func main() {
	if len(os.Args) < 3 {
		fmt.Fprintln(os.Stderr, "usage: wswire <wire.log> <traces.ndjson>")
		os.Exit(2)
	}
	f, err := os.Open(os.Args[1])
	if err != nil {
		fmt.Fprintln(os.Stderr, err)
		os.Exit(2)
	}
	conns := map[int]*conn{}
	sc := bufio.NewScanner(f)
	sc.Buffer(make([]byte, 1<<20), 1<<28)
	for sc.Scan() {
		fs := strings.Fields(sc.Text())
		if len(fs) < 3 {
			continue
		}
		var id int
		fmt.Sscanf(fs[0], "%d", &id)
		c := conns[id]
		if c == nil {
			c = &conn{id: id, server: fs[1] == "true", pmce: fs[2] == "true"}
			conns[id] = c
		}
		if fs[2] == "true" {
			c.pmce = true
		}
		var b []byte
		if len(fs) > 3 {
			b, _ = hex.DecodeString(fs[3])
		}
		for _, fr := range c.dec.Feed(b) {
			c.evs = append(c.evs, map[string]interface{}{"e": "F", "op": fr.Op, "fin": fr.Fin, "r1": fr.R1, "r2": fr.R2, "r3": fr.R3,
				"mk": fr.Masked, "len": len(fr.Payload), "lk": "n", "min": fr.Minimal})
		}
	}
	out, err := os.Create(os.Args[2])
	if err != nil {
		fmt.Fprintln(os.Stderr, err)
		os.Exit(2)
	}
	w := bufio.NewWriter(out)
	enc := json.NewEncoder(w)
	ids := []int{}
	for id := range conns {
		ids = append(ids, id)
	}
	sort.Ints(ids)
	nf := 0
	for _, id := range ids {
		c := conns[id]
		role := "client"
		if c.server {
			role = "server"
		}
		enc.Encode(map[string]interface{}{"e": "Reset", "tid": fmt.Sprintf("conn-%d", id), "role": role, "pmce": c.pmce})
		for _, e := range c.evs {
			enc.Encode(e)
			nf++
		}
		enc.Encode(map[string]interface{}{"e": "END", "pending": c.dec.Pending()})
	}
	w.Flush()
	out.Close()
	fmt.Printf("wswire: connections=%d frames=%d\n", len(ids), nf)
}
