// wsdrive executes abstract programs (ndjson) on the real library and writes
// their external traces (ndjson), one "Reset" event per program.
package main

import (
	"bufio"
	"encoding/json"
	"flag"
	"fmt"
	"os"

	"wsverif/drive"
)

func main() {
	fam := flag.String("fam", "", "program family: reader | writer | ...")
	in := flag.String("in", "", "programs (ndjson)")
	out := flag.String("out", "", "traces (ndjson)")
	flag.Parse()
	fi, err := os.Open(*in)
	if err != nil {
		fmt.Fprintln(os.Stderr, err)
		os.Exit(2)
	}
	fo, err := os.Create(*out)
	if err != nil {
		fmt.Fprintln(os.Stderr, err)
		os.Exit(2)
	}
	w := bufio.NewWriterSize(fo, 1<<20)
	enc := json.NewEncoder(w)
	sc := bufio.NewScanner(fi)
	sc.Buffer(make([]byte, 1<<20), 1<<26)
	n := 0
	for sc.Scan() {
		line := sc.Bytes()
		if len(line) == 0 {
			continue
		}
		evs, err := drive.Run(*fam, line)
		if err != nil {
			fmt.Fprintf(os.Stderr, "program %d: %v\n", n, err)
			os.Exit(2)
		}
		for _, e := range evs {
			if err := enc.Encode(e); err != nil {
				fmt.Fprintln(os.Stderr, err)
				os.Exit(2)
			}
		}
		n++
	}
	w.Flush()
	fo.Close()
	fmt.Printf("wsdrive: fam=%s programs=%d\n", *fam, n)
}
