package drive

import (
	"encoding/json"
	"fmt"
)

// Run executes one program of the given family.
func Run(fam string, line []byte) ([]Ev, error) {
	switch fam {
	case "reader":
		var p RProg
		if err := json.Unmarshal(line, &p); err != nil {
			return nil, err
		}
		return RunReader(&p), nil
	case "writer":
		var p WProg
		if err := json.Unmarshal(line, &p); err != nil {
			return nil, err
		}
		return RunWriter(&p), nil
	}
	return nil, fmt.Errorf("unknown family %q", fam)
}
