package drive

import (
	"encoding/json"
	"fmt"
	"os"
	"runtime"
	"strconv"
	"strings"
	"sync/atomic"
	"time"
)

// Runner executes one program (a JSON line) of a family and returns its trace
// events, starting with a "Reset" event that carries "tid" = the program id.
type Runner func(line []byte) ([]Ev, error)

var families = map[string]Runner{}

// hangs counts watchdog expiries in this process; after a few, the watchdog
// shortens so that a tree on which everything hangs does not stall the run.
var hangs int32

// Watchdog returns the time to wait for a program before declaring a hang.
func Watchdog(normal time.Duration) time.Duration {
	if atomic.LoadInt32(&hangs) >= 3 {
		return 300 * time.Millisecond
	}
	return time.Duration(float64(normal) * loadFactor())
}

// loadFactor stretches the watchdogs when the machine is overloaded (run
// queue longer than the number of CPUs): a program that is merely starved of
// CPU is not a hang. Between 1 and 10.
func loadFactor() float64 {
	b, err := os.ReadFile("/proc/loadavg")
	if err != nil {
		return 1
	}
	f := strings.Fields(string(b))
	if len(f) == 0 {
		return 1
	}
	l, err := strconv.ParseFloat(f[0], 64)
	if err != nil {
		return 1
	}
	k := l / float64(runtime.NumCPU())
	if k < 1 {
		return 1
	}
	if k > 10 {
		return 10
	}
	return k
}

// NoteHang records a watchdog expiry.
func NoteHang() { atomic.AddInt32(&hangs, 1) }

// Register adds a program family (called from init functions).
func Register(fam string, r Runner) { families[fam] = r }

func init() {
	Register("reader", func(line []byte) ([]Ev, error) {
		var p RProg
		if err := json.Unmarshal(line, &p); err != nil {
			return nil, err
		}
		return RunReader(&p), nil
	})
	Register("writer", func(line []byte) ([]Ev, error) {
		var p WProg
		if err := json.Unmarshal(line, &p); err != nil {
			return nil, err
		}
		return RunWriter(&p), nil
	})
	Register("share", func(line []byte) ([]Ev, error) {
		var p WProg
		if err := json.Unmarshal(line, &p); err != nil {
			return nil, err
		}
		return RunShare(&p), nil
	})
}

// Run executes one program of the given family.
func Run(fam string, line []byte) ([]Ev, error) {
	r, ok := families[fam]
	if !ok {
		return nil, fmt.Errorf("unknown family %q", fam)
	}
	return r(line)
}
