package drive

import (
	"encoding/json"
	"fmt"
)

// Runner executes one program (a JSON line) of a family and returns its trace
// events, starting with a "Reset" event that carries "tid" = the program id.
type Runner func(line []byte) ([]Ev, error)

var families = map[string]Runner{}

// Register adds a program family (called from init functions).
func Register(fam string, r Runner) { families[fam] = r }

func init() {
	Register("reader", func(line []byte) ([]Ev, error) {
		var p RProg
		if err := json.Unmarshal(line, &p); err != nil {
			return nil, err
		}
		return RunReader(&p), nil
	})
	Register("writer", func(line []byte) ([]Ev, error) {
		var p WProg
		if err := json.Unmarshal(line, &p); err != nil {
			return nil, err
		}
		return RunWriter(&p), nil
	})
}

// Run executes one program of the given family.
func Run(fam string, line []byte) ([]Ev, error) {
	r, ok := families[fam]
	if !ok {
		return nil, fmt.Errorf("unknown family %q", fam)
	}
	return r(line)
}
