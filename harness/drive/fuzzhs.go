package drive

// Family "hsfuzz" (C07, header-value part): bounded-exhaustive enumeration of
// header value strings over a class alphabet.  One program = one batch: all
// class strings stem+x with len(x) <= ext, each concretised with the class
// representatives, placed between Pre and Suf, presented as the value of one
// handshake header to Upgrader.Upgrade (side "server") or inside a 101
// response to Dialer.Dial (side "client").  The trace holds one Batch event
// with the counts of normal results and error returns; PANIC / HANG / ALLOC
// are separate events (no specification action explains them).

import (
	"bufio"
	"encoding/hex"
	"encoding/json"
	"fmt"
	"io"
	"net"
	"net/http"
	"net/url"
	"runtime"
	"strings"
	"sync/atomic"
	"time"

	"github.com/gorilla/websocket"
)

// HProg is a header-value batch.
type HProg struct {
	ID     string          `json:"id"`
	Side   string          `json:"side"`
	Header string          `json:"header"`
	Pre    string          `json:"pre"`  // hex
	Suf    string          `json:"suf"`  // hex
	Stem   []int           `json:"stem"` // class indices (1-based)
	Ext    int             `json:"ext"`
	Reps   [][]string      `json:"reps"` // per class: representatives (hex)
	Seed   uint64          `json:"seed"`
	Abs    json.RawMessage `json:"abs"`
	// kind "long": explicit structured values instead of the enumeration; each
	// value is the concatenation of its parts (a byte string repeated N times),
	// placed between Pre and Suf.
	Vals [][]HPart `json:"vals"`
}

// HPart is a byte string (hex) repeated N times.
type HPart struct {
	Hex string `json:"hex"`
	N   int    `json:"n"`
}

func init() {
	Register("hsfuzz", func(line []byte) ([]Ev, error) {
		var p HProg
		if err := json.Unmarshal(line, &p); err != nil {
			return nil, err
		}
		return RunHsFuzz(&p), nil
	})
}

// sinkConn discards writes and reports EOF on reads.
type sinkConn struct{}

func (sinkConn) Read(p []byte) (int, error)         { return 0, io.EOF }
func (sinkConn) Write(p []byte) (int, error)        { return len(p), nil }
func (sinkConn) Close() error                       { return nil }
func (sinkConn) LocalAddr() net.Addr                { return qaddr{} }
func (sinkConn) RemoteAddr() net.Addr               { return qaddr{} }
func (sinkConn) SetDeadline(t time.Time) error      { return nil }
func (sinkConn) SetReadDeadline(t time.Time) error  { return nil }
func (sinkConn) SetWriteDeadline(t time.Time) error { return nil }

// replyConn answers the first complete request with a scripted 101 response.
type replyConn struct {
	sinkConn
	req    []byte
	hdr    string // canonical name of the fuzzed header
	val    string
	out    []byte
	primed bool
}

func (c *replyConn) Write(p []byte) (int, error) {
	c.req = append(c.req, p...)
	return len(p), nil
}

func (c *replyConn) Read(p []byte) (int, error) {
	if !c.primed {
		c.primed = true
		key := ""
		for _, l := range strings.Split(string(c.req), "\r\n") {
			if len(l) > 18 && strings.EqualFold(l[:18], "sec-websocket-key:") {
				key = strings.TrimSpace(l[18:])
			}
		}
		lines := map[string]string{"Upgrade": "websocket", "Connection": "Upgrade", "Sec-WebSocket-Accept": acceptDigest(key)}
		name := c.hdr
		switch c.hdr {
		case "Sec-Websocket-Accept":
			name = "Sec-WebSocket-Accept"
		case "Sec-Websocket-Protocol":
			name = "Sec-WebSocket-Protocol"
		case "Sec-Websocket-Extensions":
			name = "Sec-WebSocket-Extensions"
		}
		lines[name] = c.val
		var sb strings.Builder
		sb.WriteString("HTTP/1.1 101 Switching Protocols\r\n")
		for _, n := range []string{"Upgrade", "Connection", "Sec-WebSocket-Accept", "Sec-WebSocket-Protocol", "Sec-WebSocket-Extensions"} {
			if v, ok := lines[n]; ok {
				sb.WriteString(n + ": " + v + "\r\n")
			}
		}
		sb.WriteString("\r\n")
		c.out = []byte(sb.String())
	}
	if len(c.out) == 0 {
		return 0, io.EOF
	}
	n := copy(p, c.out)
	c.out = c.out[n:]
	return n, nil
}

// RunHsFuzz executes one batch.
// hsHung is set once a batch did not terminate: the goroutine of that batch keeps
// spinning (it cannot be killed), so the remaining batches of this process are
// skipped (their traces say so); the hang itself is reported by its own trace.
var hsHung int32

func RunHsFuzz(p *HProg) []Ev {
	evs := []Ev{{"e": "Reset", "tid": p.ID, "prog": p.Abs}}
	if atomic.LoadInt32(&hsHung) != 0 {
		return append(evs, Ev{"e": "Skipped"})
	}
	pre, _ := hex.DecodeString(p.Pre)
	suf, _ := hex.DecodeString(p.Suf)
	reps := make([][][]byte, len(p.Reps))
	for i, rs := range p.Reps {
		for _, r := range rs {
			b, _ := hex.DecodeString(r)
			reps[i] = append(reps[i], b)
		}
	}
	type outT struct {
		evs []Ev
	}
	done := make(chan []Ev, 1)
	go func() {
		var out []Ev
		n, normal, errs := 0, 0, 0
		var ms runtime.MemStats
		runtime.ReadMemStats(&ms)
		a0 := ms.TotalAlloc
		seed := p.Seed | 1
		cur := append([]int{}, p.Stem...)
		npanic := 0
		present := func(cs []int) {
			for variant := 0; variant < 3; variant++ {
				var v []byte
				v = append(v, pre...)
				for _, c := range cs {
					r := reps[c-1]
					switch variant {
					case 0:
						v = append(v, r[0]...)
					case 1:
						v = append(v, r[len(r)-1]...)
					default:
						seed = seed*6364136223846793005 + 1442695040888963407
						v = append(v, r[int(seed>>33)%len(r)]...)
					}
				}
				v = append(v, suf...)
				ok, pan := presentOne(p, string(v))
				n++
				if pan != nil {
					npanic++
					if npanic <= 3 {
						out = append(out, Ev{"e": "PANIC", "v": truncate(fmt.Sprint(pan), 200), "value": hex.EncodeToString(v),
							"text": fmt.Sprintf("%q", string(v)), "cs": append([]int{}, cs...), "side": p.Side, "header": p.Header})
					}
					continue
				}
				if ok {
					normal++
				} else {
					errs++
				}
			}
		}
		presented := uint64(0) // bytes of header values presented (long values)
		for _, parts := range p.Vals {
			var v []byte
			v = append(v, pre...)
			for _, pt := range parts {
				u, _ := hex.DecodeString(pt.Hex)
				for i := 0; i < pt.N; i++ {
					v = append(v, u...)
				}
			}
			v = append(v, suf...)
			presented += uint64(len(v))
			ok, pan := presentOne(p, string(v))
			n++
			if pan != nil {
				npanic++
				if npanic <= 3 {
					shown := v
					if len(shown) > 120 {
						shown = shown[:120]
					}
					out = append(out, Ev{"e": "PANIC", "v": truncate(fmt.Sprint(pan), 200), "len": len(v),
						"text": fmt.Sprintf("%q", string(shown)), "parts": parts, "side": p.Side, "header": p.Header})
				}
				continue
			}
			if ok {
				normal++
			} else {
				errs++
			}
		}
		var rec func(depth int)
		rec = func(depth int) {
			present(cur)
			if depth == p.Ext {
				return
			}
			for c := 1; c <= len(reps); c++ {
				cur = append(cur, c)
				rec(depth + 1)
				cur = cur[:len(cur)-1]
			}
		}
		if len(p.Vals) == 0 {
			rec(0)
		}
		runtime.ReadMemStats(&ms)
		delta := ms.TotalAlloc - a0
		out = append(out, Ev{"e": "Batch", "n": n - npanic, "normal": normal, "errors": errs, "bytes": presented, "alloc": delta})
		// Allocation in proportion to what was presented.  "In proportion" is read as
		// linear with a generous factor: the harness builds each value (and, on the
		// client side, the response around it) a few times, and the library may keep
		// one small map or string header per list element (measured on the unchanged
		// tree: 200 bytes per byte presented for a 1 MiB list of one-letter extension
		// elements).  Anything super-linear, or sized by a number the peer declares,
		// exceeds 1024 bytes per byte on the long values.
		if n > 0 && delta > 1024*presented+uint64(n)*(256<<10)+(4<<20) {
			out = append(out, Ev{"e": "ALLOC", "delta": delta, "n": n, "bytes": presented})
		}
		done <- out
	}()
	select {
	case out := <-done:
		evs = append(evs, out...)
	case <-time.After(30 * time.Second):
		atomic.StoreInt32(&hsHung, 1)
		evs = append(evs, Ev{"e": "HANG"})
	}
	return evs
}

var hsURL, _ = url.Parse("http://example.test/ws")

// presentOne presents one header value; ok = normal result (connection), else error return.
func presentOne(p *HProg, val string) (ok bool, pan interface{}) {
	defer func() {
		if v := recover(); v != nil {
			pan = v
		}
	}()
	if p.Side == "server" {
		h := http.Header{
			"Connection":            {"Upgrade"},
			"Upgrade":               {"websocket"},
			"Sec-Websocket-Version": {"13"},
			"Sec-Websocket-Key":     {testKey},
			"Origin":                {"http://example.test"},
		}
		h[p.Header] = []string{val}
		if p.Header != "Sec-Websocket-Extensions" && len(val)%2 == 0 {
			h["Sec-Websocket-Extensions"] = []string{"permessage-deflate; client_max_window_bits"}
		}
		if p.Header != "Sec-Websocket-Protocol" && len(val)%3 == 0 {
			h["Sec-Websocket-Protocol"] = []string{"chat, superchat"}
		}
		req := &http.Request{Method: "GET", URL: hsURL, Proto: "HTTP/1.1", ProtoMajor: 1, ProtoMinor: 1, Header: h, Host: "example.test"}
		var sc sinkConn
		w := &fakeRW{conn: sc, hdr: http.Header{}, brw: bufio.NewReadWriter(bufio.NewReaderSize(sc, 16), bufio.NewWriterSize(sc, 16))}
		u := websocket.Upgrader{ReadBufferSize: 64, WriteBufferSize: 64, EnableCompression: true}
		if len(val)%2 == 1 {
			u.Subprotocols = []string{"superchat", "chat"}
		}
		c, err := u.Upgrade(w, req, nil)
		if c != nil {
			c.Close()
		}
		return err == nil && c != nil, nil
	}
	rc := &replyConn{hdr: p.Header, val: val}
	d := websocket.Dialer{NetDial: func(network, addr string) (net.Conn, error) { return rc, nil }, ReadBufferSize: 64, WriteBufferSize: 64,
		EnableCompression: len(val)%2 == 0}
	c, _, err := d.Dial("ws://example.test/ws", nil)
	if c != nil {
		c.Close()
	}
	return err == nil && c != nil, nil
}
