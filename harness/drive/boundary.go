package drive

// Family "boundary" (C17): bytes glued to the handshake. A frame stream is
// split at offset K between what had arrived before the handshake completed
// and what arrives afterwards:
//
//	server: the first K bytes are already buffered in the hijacked
//	        bufio.Reader (they were read by the HTTP server together with
//	        the request), the rest comes from the socket;
//	client: the scripted server sends "101 response + frames" and the
//	        transport delivers it in reads split at offset K of the glued
//	        bytes (K may fall inside the response).
//
// After the handshake (public API: Upgrader.Upgrade / Dialer.Dial) the
// messages delivered by the returned Conn are recorded as reader-family
// events (Reset with the frame stream, then one RM event per ReadMessage) and
// validated against the reader model (WSReaderTrace): they must be exactly
// the messages of the glued stream, complete and in order.

import (
	"bufio"
	"encoding/binary"
	"encoding/json"
	"fmt"
	"math/rand"
	"net"
	"net/http"
	"strings"
	"time"
	"unicode/utf8"

	"github.com/gorilla/websocket"

	"wsverif/xport"
)

type BProg struct {
	ID     string   `json:"id"`
	Side   string   `json:"side"` // "server" | "client"
	RBuf   int      `json:"rbuf"`
	HSize  int      `json:"hsize"` // size of the hijacked bufio.Reader (server)
	K      int      `json:"k"`     // split offset
	Chunk  string   `json:"chunk"` // chunking of the bytes after the split: whole | byte | rand | half
	Pre    string   `json:"pre"`   // client: chunking of the bytes before the split: whole | byte
	Frames []RFrame `json:"frames"`
	Seed   uint64   `json:"seed"`
	Reads  int      `json:"reads"`
	Path   string   `json:"path"` // reader selection path predicted by the model (coverage accounting only)
	Total  int      `json:"total"`
}

// RespLen is the length of the scripted server's 101 response (the split
// offsets of client programs are relative to it).
const RespLen = 129

func scriptedReply(key string) []byte {
	return []byte("HTTP/1.1 101 Switching Protocols\r\nUpgrade: websocket\r\nConnection: Upgrade\r\nSec-WebSocket-Accept: " + AcceptFor(key) + "\r\n\r\n")
}

func splitSizes(kind string, n int, rng *rand.Rand) []int {
	return chunkSizes(kind, n, rng, nil)
}

// RunBoundary executes one boundary program.
func RunBoundary(p *BProg) (evs []Ev) {
	rp := &RProg{ID: p.ID, Role: p.Side, RBuf: p.RBuf, HMode: "default", Frames: p.Frames, Chunk: p.Chunk, Seed: p.Seed}
	r := &readerRun{p: rp, role: p.Side}
	stream := r.concretise()

	frs := make([]Ev, len(r.cf))
	for i, f := range r.cf {
		code, u8 := -1, true
		if f.Op == 8 && len(f.payload) >= 2 {
			code = int(binary.BigEndian.Uint16(f.payload))
			u8 = utf8.Valid(f.payload[2:])
		}
		frs[i] = Ev{"op": f.Op, "fin": f.Fin, "r1": f.R1, "r2": f.R2, "r3": f.R3, "mk": f.Mk,
			"len": len(f.payload), "lk": f.Lk, "min": !f.NonMin, "code": code, "utf8": u8,
			"arr": "full", "h2": true, "hdrOK": true, "pgot": len(f.payload), "plain": f.Plain, "comp": f.Comp != ""}
	}
	evs = append(evs, Ev{"e": "Reset", "tid": p.ID, "raw": false,
		"cfg": Ev{"role": p.Side, "pmce": false, "limit": 0, "hmode": "default", "herrAt": 0, "policy": "per_message",
			"rbuf": p.RBuf, "hsize": p.HSize, "k": p.K, "chunk": p.Chunk, "path": p.Path, "streamlen": len(stream)},
		"fr": frs})

	done := make(chan []Ev, 1)
	go func() {
		var out []Ev
		defer func() {
			if v := recover(); v != nil {
				out = append(out, Ev{"e": "PANIC", "v": truncate(fmt.Sprint(v), 200)})
			}
			done <- out
		}()
		if p.Total != 0 && p.Total != len(stream) {
			out = []Ev{{"e": "SETUPFAIL", "v": fmt.Sprintf("stream length %d, model says %d", len(stream), p.Total)}}
			return
		}
		if p.Side == "server" {
			out = r.execBoundaryServer(p, stream)
		} else {
			out = r.execBoundaryClient(p, stream)
		}
	}()
	select {
	case out := <-done:
		evs = append(evs, out...)
	case <-time.After(Watchdog(20 * time.Second)):
		NoteHang()
		evs = append(evs, Ev{"e": "HANG"})
	}
	return evs
}

func (r *readerRun) execBoundaryServer(p *BProg, stream []byte) []Ev {
	rng := rand.New(rand.NewSource(int64(p.Seed) + 11))
	k := p.K
	if k > len(stream) {
		k = len(stream)
	}
	var chunks []xport.Chunk
	if k > 0 {
		chunks = append(chunks, xport.Chunk{Data: stream[:k]})
	}
	off := k
	for _, n := range splitSizes(p.Chunk, len(stream)-k, rng) {
		chunks = append(chunks, xport.Chunk{Data: stream[off : off+n]})
		off += n
	}
	sc := xport.New(chunks)
	sc.QuietReads = true
	hsize := p.HSize
	if hsize == 0 {
		hsize = 4096
	}
	hbr := bufio.NewReaderSize(sc, hsize)
	if k > 0 {
		// the HTTP server read these bytes together with the request
		if _, err := hbr.Peek(k); err != nil {
			return []Ev{{"e": "SETUPFAIL", "v": "preload: " + err.Error()}}
		}
		if hbr.Buffered() != k {
			return []Ev{{"e": "SETUPFAIL", "v": fmt.Sprintf("preload: buffered %d, want %d", hbr.Buffered(), k)}}
		}
	}
	w := &fakeRW{conn: sc, hdr: http.Header{}, brw: bufio.NewReadWriter(hbr, bufio.NewWriterSize(sc, 4096))}
	req, _ := http.NewRequest("GET", "http://example.test/ws", nil)
	req.Header.Set("Connection", "Upgrade")
	req.Header.Set("Upgrade", "websocket")
	req.Header.Set("Sec-Websocket-Version", "13")
	req.Header.Set("Sec-Websocket-Key", testKey)
	u := websocket.Upgrader{ReadBufferSize: p.RBuf}
	c, err := u.Upgrade(w, req, nil)
	if err != nil {
		return []Ev{{"e": "SETUPFAIL", "v": "upgrade: " + err.Error()}}
	}
	sc.ResetLog()
	sc.After = r.onWrite
	return r.rmLoop(c, p.Reads)
}

func (r *readerRun) execBoundaryClient(p *BProg, stream []byte) []Ev {
	rng := rand.New(rand.NewSource(int64(p.Seed) + 13))
	total := RespLen + len(stream)
	k := p.K
	if k > total {
		k = total
	}
	var glued []byte
	var sc *xport.ScriptConn
	get := func(a, b int) func() []byte {
		return func() []byte {
			if glued == nil {
				key := ""
				for _, line := range strings.Split(string(sc.Written()), "\r\n") {
					if strings.HasPrefix(strings.ToLower(line), "sec-websocket-key:") {
						key = strings.TrimSpace(line[len("sec-websocket-key:"):])
					}
				}
				rep := scriptedReply(key)
				if len(rep) != RespLen {
					panic(fmt.Sprintf("scripted reply has %d bytes, want %d", len(rep), RespLen))
				}
				glued = append(rep, stream...)
			}
			return glued[a:b]
		}
	}
	var chunks []xport.Chunk
	off := 0
	pre := p.Pre
	if pre == "" {
		pre = "whole"
	}
	for _, n := range splitSizes(pre, k, rng) {
		chunks = append(chunks, xport.Chunk{Gen: get(off, off+n)})
		off += n
	}
	for _, n := range splitSizes(p.Chunk, total-k, rng) {
		chunks = append(chunks, xport.Chunk{Gen: get(off, off+n)})
		off += n
	}
	sc = xport.New(chunks)
	sc.QuietReads = true
	d := websocket.Dialer{
		NetDial:        func(network, addr string) (net.Conn, error) { return sc, nil },
		ReadBufferSize: p.RBuf,
	}
	c, _, err := d.Dial("ws://example.test/ws", nil)
	if err != nil {
		return []Ev{{"e": "SETUPFAIL", "v": "dial: " + err.Error()}}
	}
	sc.ResetLog()
	sc.After = r.onWrite
	return r.rmLoop(c, p.Reads)
}

// rmLoop calls ReadMessage n times and records reader-family RM events.
func (r *readerRun) rmLoop(c *websocket.Conn, n int) (out []Ev) {
	for i := 0; i < n; i++ {
		t, b, err := c.ReadMessage()
		cand := []int{}
		any := len(b) == 0
		if !any {
			for s, e := range r.expect {
				if len(b) <= len(e) && string(e[:len(b)]) == string(b) {
					cand = append(cand, s)
				}
			}
		}
		out = append(out, Ev{"e": "RM", "ok": t == 1 || t == 2, "type": t, "n": len(b), "err": r.classify(err),
			"obs": r.takeObs(), "cand": cand, "any": any})
	}
	if r.dec.Pending() > 0 {
		out = append(out, Ev{"e": "PARTIALTX", "n": r.dec.Pending()})
	}
	return out
}

func init() {
	Register("boundary", func(line []byte) ([]Ev, error) {
		var p BProg
		if err := json.Unmarshal(line, &p); err != nil {
			return nil, err
		}
		return RunBoundary(&p), nil
	})
}
