package drive

import (
	"bufio"
	"bytes"
	"encoding/binary"
	"encoding/json"
	"fmt"
	"net"
	"net/http"
	"sync"
	"time"

	"github.com/gorilla/websocket"

	"wsverif/wire"
)

// closing-handshake family (WSClose): a real Dialer connection and a real
// Upgrader connection over an in-memory pipe, both with a read loop and the
// default handlers; each side sends its data messages, initiators then send
// a close frame. Reported: what each side wrote after the opening handshake
// (decoded from the pipe tap) and what its read loop ended with.

type chPlan struct {
	Init  bool `json:"init"`
	Code  int  `json:"code"`
	NData int  `json:"ndata"`
}

type chProg struct {
	ID   string `json:"id"`
	A    chPlan `json:"a"` // the client
	B    chPlan `json:"b"` // the server
	Seed uint64 `json:"seed"`
}

func init() {
	Register("closehs", func(line []byte) ([]Ev, error) {
		var p chProg
		if err := json.Unmarshal(line, &p); err != nil {
			return nil, err
		}
		return runCloseHS(&p), nil
	})
}

func framesAfterHandshake(raw []byte) []Ev {
	i := bytes.Index(raw, []byte("\r\n\r\n"))
	out := []Ev{}
	if i < 0 {
		return out
	}
	var d wire.Decoder
	for _, f := range d.Feed(raw[i+4:]) {
		switch {
		case f.Op == 8:
			code := 1005
			if len(f.Payload) >= 2 {
				code = int(binary.BigEndian.Uint16(f.Payload))
			}
			out = append(out, Ev{"k": "close", "code": code})
		case f.Op == 1 || f.Op == 2 || f.Op == 0:
			if f.Fin {
				out = append(out, Ev{"k": "data", "code": 0})
			}
		}
	}
	return out
}

func runCloseHS(p *chProg) []Ev {
	evs := []Ev{{"e": "Reset", "tid": p.ID}}
	cEnd, sEnd := newPipe()
	type dres struct {
		c   *websocket.Conn
		err error
	}
	dch := make(chan dres, 1)
	go func() {
		d := websocket.Dialer{NetDial: func(network, addr string) (net.Conn, error) { return cEnd, nil }}
		c, _, err := d.Dial("ws://example.test/ws", nil)
		dch <- dres{c, err}
	}()
	br := bufio.NewReader(sEnd)
	req, err := http.ReadRequest(br)
	if err != nil {
		return append(evs, Ev{"e": "SETUPFAIL", "v": err.Error()})
	}
	w := &fakeRW{conn: sEnd, hdr: http.Header{}, brw: bufio.NewReadWriter(br, bufio.NewWriter(sEnd))}
	u := websocket.Upgrader{}
	sc, serr := u.Upgrade(w, req, nil)
	dr := <-dch
	if serr != nil || dr.err != nil {
		return append(evs, Ev{"e": "SETUPFAIL", "v": fmt.Sprint(serr, dr.err)})
	}
	conns := map[string]*websocket.Conn{"a": dr.c, "b": sc}
	plans := map[string]chPlan{"a": p.A, "b": p.B}
	rerr := map[string]int{"a": -1, "b": -1}
	var mu sync.Mutex
	var wg sync.WaitGroup
	for _, e := range []string{"a", "b"} {
		c := conns[e]
		wg.Add(1)
		go func(e string, c *websocket.Conn) { // read loop
			defer wg.Done()
			for {
				_, _, err := c.ReadMessage()
				if err != nil {
					if ce, ok := err.(*websocket.CloseError); ok {
						mu.Lock()
						rerr[e] = ce.Code
						mu.Unlock()
					}
					return
				}
			}
		}(e, c)
		wg.Add(1)
		go func(e string, c *websocket.Conn, pl chPlan) { // writer
			defer wg.Done()
			for i := 0; i < pl.NData; i++ {
				if err := c.WriteMessage(websocket.BinaryMessage, wire.Pay(p.Seed, i, 3+i)); err != nil {
					return
				}
			}
			if pl.Init {
				_ = c.WriteControl(websocket.CloseMessage, websocket.FormatCloseMessage(pl.Code, ""), time.Now().Add(2*time.Second))
			}
		}(e, c, plans[e])
	}
	done := make(chan struct{})
	go func() { wg.Wait(); close(done) }()
	select {
	case <-done:
	case <-time.After(Watchdog(8 * time.Second)):
		NoteHang()
		evs = append(evs, Ev{"e": "HANG"})
		cEnd.Close()
		sEnd.Close()
		return evs
	}
	mu.Lock()
	ev := Ev{"e": "Handshake",
		"plan": Ev{"a": Ev{"init": p.A.Init, "code": p.A.Code, "ndata": p.A.NData}, "b": Ev{"init": p.B.Init, "code": p.B.Code, "ndata": p.B.NData}},
		"out":  Ev{"a": framesAfterHandshake(cEnd.logged()), "b": framesAfterHandshake(sEnd.logged())},
		"rerr": Ev{"a": rerr["a"], "b": rerr["b"]}}
	mu.Unlock()
	cEnd.Close()
	sEnd.Close()
	return append(evs, ev)
}
