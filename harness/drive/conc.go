package drive

import (
	"bytes"
	"encoding/binary"
	"encoding/json"
	"fmt"
	"math/rand"
	"sync"
	"time"

	"github.com/gorilla/websocket"

	"wsverif/wire"
	"wsverif/xport"
)

// COp is one operation of a thread program in a concurrency program.
type COp struct {
	API  string `json:"api"` // WM NW WR CL SD WC
	Type int    `json:"type"`
	N    int    `json:"n"`
	DL   string `json:"dl"` // zero | d1 | past | auto
}

// CStep is one step of a schedule.
type CStep struct {
	T string `json:"t"`
	S string `json:"s"` // start | go | block | timeout
}

// CProg is a concurrency program: thread programs plus a schedule to replay.
type CProg struct {
	ID      string           `json:"id"`
	Role    string           `json:"role"`
	WBuf    int              `json:"wbuf"`
	Progs   map[string][]COp `json:"progs"`
	Sched   []CStep          `json:"sched"`
	FaultAt int              `json:"faultAt"` // 1-based index of the failing write-side transport op, 0 = none
	FaultKind string         `json:"faultKind"` // "" / "err" | "timeout" | "short" (a write that accepts one byte and then fails)
	Free    bool             `json:"free"`    // free-running stress: no gates, random yields
	Seed    uint64           `json:"seed"`
	Block   int              `json:"blockms"` // free mode: hold the writer inside the transport for this long
	Pool    bool             `json:"pool"`    // the connection uses a (recording) WriteBufferPool
	Scale   int              `json:"scale"`   // free mode: WriteMessage data payloads are n*scale bytes (direct-write path, many frames)
}

type cthread struct {
	name   string
	start  chan struct{}
	ret    chan struct{}
	finish chan struct{}
}

type arrival struct {
	t     string
	point string
}

type concRun struct {
	p       *CProg
	c       *websocket.Conn
	sc      *xport.ScriptConn
	mu      sync.Mutex
	evs     []Ev
	gids    map[int64]string
	gates   map[string]chan struct{} // thread -> release channel of the gate it is parked at
	arrive  chan arrival
	free    bool
	dec     wire.Decoder
	pays    map[int][]byte
	curCall map[string]*ccall
	wmsg    struct{ mid, sent int }
	pings   map[int][]byte
	rng     *rand.Rand
	rngMu   sync.Mutex
	lastSWD string
}

type ccall struct {
	api string
	m   int
	dl  time.Time
	has bool
}

func (r *concRun) thread() string {
	g := xport.GID()
	r.mu.Lock()
	t := r.gids[g]
	r.mu.Unlock()
	return t
}

func (r *concRun) setPay(id int, b []byte) {
	r.mu.Lock()
	r.pays[id] = b
	r.mu.Unlock()
}

func (r *concRun) appendPay(id int, b []byte) {
	r.mu.Lock()
	r.pays[id] = append(r.pays[id], b...)
	r.mu.Unlock()
}

func (r *concRun) getPay(id int) ([]byte, bool) {
	r.mu.Lock()
	b, ok := r.pays[id]
	r.mu.Unlock()
	return b, ok
}

func (r *concRun) add(e Ev) {
	r.mu.Lock()
	r.evs = append(r.evs, e)
	r.mu.Unlock()
}

// gate parks the calling goroutine (if it is a scheduled thread) until released.
func (r *concRun) gate(point string) {
	t := r.thread()
	if t == "" {
		return
	}
	r.mu.Lock()
	if r.free {
		r.mu.Unlock()
		r.jitter()
		return
	}
	ch := make(chan struct{})
	r.gates[t] = ch
	r.mu.Unlock()
	r.arrive <- arrival{t, point}
	<-ch
}

func (r *concRun) jitter() {
	r.rngMu.Lock()
	k := r.rng.Intn(6)
	r.rngMu.Unlock()
	switch k {
	case 0:
		time.Sleep(time.Duration(50+k*37) * time.Microsecond)
	case 1, 2:
		for i := 0; i < k; i++ {
			yield()
		}
	}
}

func yield() { time.Sleep(0) }

func (r *concRun) release(t string) bool {
	r.mu.Lock()
	ch := r.gates[t]
	delete(r.gates, t)
	r.mu.Unlock()
	if ch != nil {
		close(ch)
		return true
	}
	return false
}

func (r *concRun) setFree() {
	r.mu.Lock()
	r.free = true
	gs := r.gates
	r.gates = map[string]chan struct{}{}
	r.mu.Unlock()
	for _, ch := range gs {
		close(ch)
	}
}

// dlName maps a deadline passed to SetWriteDeadline to its abstract name.
func (r *concRun) dlName(t time.Time, th string) string {
	if t.IsZero() {
		return "zero"
	}
	r.mu.Lock()
	cc := r.curCall[th]
	r.mu.Unlock()
	if cc != nil && cc.has && cc.dl.Equal(t) {
		return "d1"
	}
	if connD1.Equal(t) {
		return "d1"
	}
	d := time.Until(t)
	if d > -2*time.Second && d <= 1500*time.Millisecond {
		return "auto"
	}
	return "other"
}

var connD1 = time.Unix(4102444800, 0) // the W thread's "d1" write deadline (far future)

func (r *concRun) onOp(op *xport.Op) {
	r.mu.Lock()
	th := r.gids[op.G]
	r.mu.Unlock()
	if th == "" {
		th = "?"
	}
	switch op.Kind {
	case xport.OpSWD:
		r.add(Ev{"e": "Op", "t": th, "it": Ev{"t": "SWD", "d": r.dlName(op.T, th), "err": op.Err != nil}})
	case xport.OpWrite:
		for _, f := range r.dec.Feed(op.Data) {
			r.add(Ev{"e": "Op", "t": th, "it": r.frameItem(th, f)})
		}
		if op.Err != nil {
			r.add(Ev{"e": "Op", "t": th, "it": Ev{"t": "WERR", "pending": r.dec.Pending()}})
		}
	}
}

func (r *concRun) frameItem(th string, f wire.Frame) Ev {
	it := Ev{"t": "F", "op": f.Op, "fin": f.Fin, "r1": f.R1, "r2": f.R2, "r3": f.R3, "mk": f.Masked,
		"len": len(f.Payload), "lk": "n", "min": f.Minimal, "m": -1, "off": 0, "code": -1}
	if f.Op == 8 && len(f.Payload) >= 2 {
		it["code"] = int(binary.BigEndian.Uint16(f.Payload))
	}
	switch {
	case th == "R":
		if f.Op == 10 {
			r.mu.Lock()
			for id, p := range r.pings {
				if bytes.Equal(p, f.Payload) {
					it["m"] = id
				}
			}
			r.mu.Unlock()
		} else {
			it["m"] = 0
		}
	case th == "W":
		if f.Op >= 8 {
			if p, ok := r.getPay(r.wmsg.mid); ok && bytes.Equal(p, f.Payload) {
				it["m"] = r.wmsg.mid
			}
			break
		}
		exp, _ := r.getPay(r.wmsg.mid)
		it["off"] = r.wmsg.sent
		if r.wmsg.sent+len(f.Payload) <= len(exp) && bytes.Equal(exp[r.wmsg.sent:r.wmsg.sent+len(f.Payload)], f.Payload) {
			it["m"] = r.wmsg.mid
		}
		r.wmsg.sent += len(f.Payload)
	default:
		r.mu.Lock()
		cc := r.curCall[th]
		r.mu.Unlock()
		if cc != nil {
			if p, ok := r.getPay(cc.m); ok && bytes.Equal(p, f.Payload) {
				it["m"] = cc.m
			}
		}
	}
	return it
}

func init() {
	Register("conc", func(line []byte) ([]Ev, error) {
		var p CProg
		if err := json.Unmarshal(line, &p); err != nil {
			return nil, err
		}
		return RunConc(&p), nil
	})
}

// RunConc executes one concurrency program.
func RunConc(p *CProg) []Ev {
	r := &concRun{p: p, gids: map[int64]string{}, gates: map[string]chan struct{}{}, arrive: make(chan arrival, 64),
		pays: map[int][]byte{}, curCall: map[string]*ccall{}, pings: map[int][]byte{}, free: p.Free,
		rng: rand.New(rand.NewSource(int64(p.Seed) + 99))}
	evs := []Ev{{"e": "Reset", "tid": p.ID, "role": p.Role, "pmce": false}}
	done := make(chan struct{})
	go func() {
		defer func() {
			if v := recover(); v != nil {
				r.add(Ev{"e": "PANIC", "v": truncate(fmt.Sprint(v), 200)})
			}
			close(done)
		}()
		r.exec()
	}()
	select {
	case <-done:
	case <-time.After(Watchdog(8 * time.Second)):
		NoteHang()
		r.add(Ev{"e": "HANG"})
	}
	websocket.VerifGateFn = nil
	r.mu.Lock()
	evs = append(evs, r.evs...)
	r.mu.Unlock()
	return evs
}

func (r *concRun) exec() {
	p := r.p
	sc := xport.New(nil)
	sc.Block = true
	sc.QuietReads = true
	r.sc = sc
	wb := p.WBuf
	var pool *poolRec
	opts := ConnOpts{Role: p.Role, WBuf: wb}
	if p.Pool {
		pool = &poolRec{ids: map[uintptr]int{}, emit: func(Ev) {}}
		opts.Pool = pool
	}
	c, err := NewConn(sc, opts)
	if err != nil {
		r.add(Ev{"e": "SETUPFAIL", "v": err.Error()})
		return
	}
	r.c = c
	if pool != nil {
		// pool operations are transport-level observations attributed to the calling goroutine
		pool.emit = func(e Ev) {
			th := r.thread()
			if th == "" {
				th = "?"
			}
			r.add(Ev{"e": "Op", "t": th, "it": e})
		}
	}
	if p.FaultAt > 0 {
		k := p.FaultKind
		if k == "" {
			k = "err"
		}
		sc.Faults[p.FaultAt-1] = &xport.Fault{Kind: k, Short: 1}
	}
	sc.After = r.onOp
	sc.Hook = func(kind string, widx int, data []byte) {
		if kind == xport.OpSWD {
			r.gate("SWD")
		} else if kind == xport.OpWrite {
			r.gate("W")
			if r.p.Free && r.p.Block > 0 && r.thread() == "W" {
				time.Sleep(time.Duration(r.p.Block) * time.Millisecond)
			}
		}
	}
	websocket.VerifGateFn = func(cc *websocket.Conn, point string) {
		if cc == c {
			r.gate(point)
		}
	}

	// thread goroutines
	threads := map[string]*cthread{}
	msgID := 0
	var idMu sync.Mutex
	nextID := func() int { idMu.Lock(); msgID++; v := msgID; idMu.Unlock(); return v }
	var wg sync.WaitGroup
	errs := &errTable{}
	classify := func(err error) Ev {
		if err == nil {
			return Ev{"cls": "nil", "id": -1}
		}
		r.mu.Lock()
		id := errs.id(err)
		r.mu.Unlock()
		e := Ev{"id": id, "txt": truncate(err.Error(), 60)}
		type to interface{ Timeout() bool }
		switch {
		case err == websocket.ErrCloseSent:
			e["cls"] = "closesent"
		default:
			if t, ok := err.(to); ok && t.Timeout() {
				e["cls"] = "timeout"
			} else {
				e["cls"] = "other"
			}
		}
		return e
	}
	for _, name := range []string{"W", "K1", "K2"} {
		ops := p.Progs[name]
		th := &cthread{name: name, start: make(chan struct{}, len(ops)+1), ret: make(chan struct{}, len(ops)+1), finish: make(chan struct{})}
		threads[name] = th
		wg.Add(1)
		go func(th *cthread, ops []COp) {
			defer wg.Done()
			defer close(th.finish)
			defer func() {
				// a panic inside the library on an application goroutine is an observation, not a driver crash
				if v := recover(); v != nil {
					r.add(Ev{"e": "PANIC", "t": th.name, "v": truncate(fmt.Sprint(v), 200)})
					r.setFree()
				}
			}()
			r.mu.Lock()
			r.gids[xport.GID()] = th.name
			r.mu.Unlock()
			var w interface {
				Write([]byte) (int, error)
				Close() error
			}
			for _, op := range ops {
				if !r.isFree() {
					<-th.start
				} else {
					r.jitter()
				}
				var err error
				id := nextID()
				cc := &ccall{api: op.API, m: id}
				var dl time.Time
				switch op.DL {
				case "d1":
					if th.name == "W" {
						dl = connD1
					} else {
						dl = time.Now().Add(30 * time.Millisecond)
					}
					cc.dl, cc.has = dl, true
				case "past":
					dl = time.Now().Add(-time.Second)
				}
				nbytes := op.N
				if p.Free && p.Scale > 1 && op.API == "WM" && (op.Type == 1 || op.Type == 2) {
					nbytes = op.N * p.Scale
				}
				data := wire.TextPay(p.Seed, id, nbytes)
				if op.Type == 8 && op.N >= 2 {
					data = wire.CloseBody(1000, wire.TextPay(p.Seed, id, op.N-2))
				}
				r.mu.Lock()
				r.curCall[th.name] = cc
				r.mu.Unlock()
				call := Ev{"e": "Call", "t": th.name, "api": op.API, "type": op.Type, "n": nbytes, "dl": dlOr(op.DL), "m": id}
				t0 := time.Now()
				switch op.API {
				case "WM":
					r.setPay(id, data)
					r.wmsg.mid, r.wmsg.sent = id, 0
					r.add(call)
					err = c.WriteMessage(op.Type, data)
				case "NW":
					r.setPay(id, []byte{})
					r.add(call)
					var ww interface {
						Write([]byte) (int, error)
						Close() error
					}
					ww, err = c.NextWriter(op.Type)
					if err == nil {
						w = ww
						r.wmsg.mid, r.wmsg.sent = id, 0
					} else {
						w = nil
					}
				case "WR":
					// n = number of buffer-fulls: each forces one non-final frame
					nb := op.N * r.bufSize()
					if nb > 0 {
						nb++ // one byte beyond the last full buffer forces its flush
					}
					data = wire.TextPay(p.Seed, id, nb)
					call["n"] = nb
					call["m"] = r.wmsg.mid
					r.appendPay(r.wmsg.mid, data)
					r.add(call)
					if w == nil {
						err = fmt.Errorf("no writer")
					} else {
						_, err = w.Write(data)
					}
				case "CL":
					call["m"] = r.wmsg.mid
					r.add(call)
					if w == nil {
						err = fmt.Errorf("no writer")
					} else {
						err = w.Close()
					}
				case "SD":
					r.add(call)
					err = c.SetWriteDeadline(dl)
				case "XC":
					r.add(call)
					_ = c.Close()
				case "WC":
					r.setPay(id, data)
					r.add(call)
					err = c.WriteControl(op.Type, data, dl)
				}
				late := false
				if op.API == "WC" && cc.has && time.Since(t0) > 5*time.Second+30*time.Millisecond {
					late = true
				}
				r.add(Ev{"e": "Ret", "t": th.name, "err": classify(err), "late": late})
				th.ret <- struct{}{}
				if !r.isFree() {
					r.arrive <- arrival{th.name, "ret"}
				}
			}
		}(th, ops)
	}
	// the read goroutine
	rstart := make(chan struct{})
	wg.Add(1)
	go func() {
		defer wg.Done()
		defer func() {
			// a panic inside the library on the read goroutine is an observation, not a driver crash
			if v := recover(); v != nil {
				r.add(Ev{"e": "PANIC", "t": "R", "v": truncate(fmt.Sprint(v), 200)})
				r.setFree()
			}
		}()
		r.mu.Lock()
		r.gids[xport.GID()] = "R"
		r.mu.Unlock()
		close(rstart)
		for {
			if _, _, err := c.ReadMessage(); err != nil {
				return
			}
		}
	}()
	<-rstart
	ridx := 0
	feed := func() {
		ops := p.Progs["R"]
		if ridx >= len(ops) {
			return
		}
		op := ops[ridx]
		ridx++
		id := 10000 + ridx
		var f wire.Frame
		masked := p.Role == "server"
		if op.Type == 8 && p.Seed%3 == 1 {
			// a framing violation: the read goroutine answers with a close 1002 (automatic close, C09)
			f = wire.Frame{Op: 2, Fin: true, R2: true, Masked: masked, Payload: []byte{1}}
		} else if op.Type == 8 {
			f = wire.Frame{Op: 8, Fin: true, Masked: masked, Payload: wire.CloseBody(1000, nil)}
		} else {
			pl := wire.TextPay(p.Seed, id, op.N)
			r.mu.Lock()
			r.pings[id] = pl
			r.mu.Unlock()
			f = wire.Frame{Op: 9, Fin: true, Masked: masked, Payload: pl}
		}
		sc.AppendInWake(xport.Chunk{Data: wire.Encode(f)})
	}

	if p.Free {
		for range p.Progs["R"] {
			feed()
			r.jitter()
		}
	} else {
		r.runSchedule(threads, feed)
		r.setFree()
		// let remaining ops run freely
		for _, th := range threads {
			for i := 0; i < 8; i++ {
				select {
				case th.start <- struct{}{}:
				default:
				}
			}
		}
		for ridx < len(p.Progs["R"]) {
			feed()
		}
	}
	// wait for the writer threads, then stop the reader
	for _, th := range threads {
		select {
		case <-th.finish:
		case <-time.After(Watchdog(6 * time.Second)):
			r.add(Ev{"e": "HANG", "t": th.name})
		}
	}
	time.Sleep(2 * time.Millisecond)
	c.Close()
	wg.Wait()
}

func (r *concRun) isFree() bool {
	r.mu.Lock()
	defer r.mu.Unlock()
	return r.free
}

func (r *concRun) bufSize() int {
	if r.p.WBuf > 0 {
		return r.p.WBuf
	}
	return 4096
}

// waitQuiet waits until thread t arrives at a gate, returns from its call
// (ret signalled) or nothing happens for the grace period.
func (r *concRun) waitQuiet(parked map[string]string, grace time.Duration) {
	timer := time.NewTimer(grace)
	defer timer.Stop()
	for {
		select {
		case a := <-r.arrive:
			if a.point == "ret" {
				delete(parked, a.t)
			} else {
				parked[a.t] = a.point
			}
			// keep draining briefly: other threads may arrive as a consequence
			if !timer.Stop() {
				select {
				case <-timer.C:
				default:
				}
			}
			timer.Reset(150 * time.Microsecond)
		case <-timer.C:
			return
		}
	}
}

func (r *concRun) runSchedule(threads map[string]*cthread, feed func()) {
	parked := map[string]string{}
	for _, st := range r.p.Sched {
		switch st.S {
		case "start":
			if st.T == "R" {
				feed()
			} else if th := threads[st.T]; th != nil {
				select {
				case th.start <- struct{}{}:
				default:
				}
			}
			r.waitQuiet(parked, time.Millisecond)
		case "go", "block":
			if _, ok := parked[st.T]; ok {
				delete(parked, st.T)
				r.release(st.T)
			}
			r.waitQuiet(parked, time.Millisecond)
		case "timeout":
			// the blocked WriteControl gives up when its deadline passes
			if th := threads[st.T]; th != nil {
				t := time.NewTimer(300 * time.Millisecond)
			loop:
				for {
					select {
					case a := <-r.arrive:
						parked[a.t] = a.point
						if a.t == st.T && a.point == "ret" {
							break loop
						}
					case <-t.C:
						break loop
					}
				}
				t.Stop()
			} else {
				time.Sleep(1100 * time.Millisecond) // the reader's writeWait
			}
		}
	}
}
