package drive

import (
	"bytes"
	"encoding/json"
	"reflect"
	"encoding/binary"
	"encoding/hex"
	"errors"
	"fmt"
	"io"
	"math/rand"
	"net"
	"os"
	"runtime"
	"sort"
	"sync"
	"sync/atomic"
	"time"
	"unicode/utf8"

	"github.com/gorilla/websocket"

	"wsverif/wire"
	"wsverif/xport"
)

// RFrame is an abstract inbound frame of a reader program.
type RFrame struct {
	Op     int    `json:"op"`
	Fin    bool   `json:"fin"`
	R1     bool   `json:"r1"`
	R2     bool   `json:"r2"`
	R3     bool   `json:"r3"`
	Mk     bool   `json:"mk"`
	Len    int    `json:"len"`
	Lk     string `json:"lk"`     // "n" | "max" | "top"
	NonMin bool   `json:"nonmin"` // non-minimal length encoding
	Code   int    `json:"code"`   // close code; -1 = body is Len opaque bytes
	Rs     string `json:"rs"`     // close reason class: "ok" | "bad" (invalid UTF-8)
	Comp   string `json:"comp"`   // deflate variant if this frame starts a compressed message
	Plain  int    `json:"plain"`  // plaintext length of that message
	Short  int    `json:"short"`  // >0: the header declares Len bytes but only Short-1 payload bytes are sent
	Key    string `json:"key"`    // mask key choice: "", "zero", "ff", "pay"
}

// RCut describes a transport fault.
type RCut struct {
	Frame  int    `json:"frame"`  // 1-based; Len(frames)+1 = after the last frame
	Part   string `json:"part"`   // "start" | "hdr1" | "hdr" | "pay0" | "pay" | "end"
	Var    int    `json:"var"`    // selects the concrete offset inside the class
	Kind   string `json:"kind"`   // "eof" | "err" | "timeout"
	With   bool   `json:"with"`   // error returned together with the last bytes
	Resume bool   `json:"resume"` // the transport keeps yielding the rest of the stream afterwards
}

// ROp is one application call.
type ROp struct {
	Op string `json:"op"` // NR RD RA RM RF(ReadFull exactly the message, no EOF read)
	K  int    `json:"k"`
	R  int    `json:"r"` // JA: size of the Read calls on the joined reader (0 = io.ReadAll)
}

// RProg is a reader program.
type RProg struct {
	ID     string   `json:"id"`
	Role   string   `json:"role"`
	Pmce   bool     `json:"pmce"`
	Limit  int      `json:"limit"`
	RBuf   int      `json:"rbuf"`
	HMode  string   `json:"hmode"` // default | record | chain | err
	HErrAt int      `json:"herrAt"`
	Frames []RFrame `json:"frames"`
	Cut    *RCut    `json:"cut"`
	Chunk  string   `json:"chunk"` // whole | byte | half | frame | rand | hdr
	Reads  []ROp    `json:"reads"`
	Seed   uint64   `json:"seed"`
	Tail   int      `json:"tail"` // extra NextReader calls at the end
	Raw    string   `json:"raw"`  // hex: raw bytes sent verbatim instead of frames (C07 garbage)
	JSON   bool     `json:"json"` // data messages carry JSON documents (ReadJSON programs)
	NoAlloc bool    `json:"noalloc"` // no allocation monitor (concurrent groups)
	AllocAll bool   `json:"allocall"` // allocation monitor over ALL calls (floods of small frames), not only the first 64
}

// Ev is a generic trace event.
type Ev map[string]interface{}

type errTable struct {
	vals []error
}

func (t *errTable) id(e error) int {
	for i, v := range t.vals {
		if sameErr(v, e) {
			return i
		}
	}
	t.vals = append(t.vals, e)
	return len(t.vals) - 1
}

func sameErr(a, b error) (eq bool) {
	defer func() {
		if recover() != nil {
			eq = false
		}
	}()
	return a == b
}

var errHandler = errors.New("verif: handler error")

type concFrame struct {
	RFrame
	payload []byte // unmasked payload actually placed on the wire
	start   int    // byte offset of the frame
	hdrLen  int
	end     int // offset one past the last byte sent for this frame
	zsync   int // single-frame compressed message of a mid-message-flush variant: payload offset of the flush marker (0 = none)
}

type readerRun struct {
	healed int32
	p      *RProg
	cf     []concFrame
	expect map[int][]byte // message start frame (1-based) -> expected content
	errs   errTable
	xerr   error
	mu     sync.Mutex
	obs    []interface{}
	dec    wire.Decoder
	role   string
}

func noErr() Ev { return Ev{"cls": "nil", "id": -1, "code": 0, "cand": []int{}} }

func (r *readerRun) classify(err error) Ev {
	if err == nil {
		return noErr()
	}
	if err != io.EOF {
		atomic.StoreInt32(&r.healed, 1) // an error has been reported to the application
	}
	e := Ev{"id": r.errs.id(err), "code": 0, "cand": []int{}, "txt": truncate(err.Error(), 80)}
	var ne net.Error
	switch {
	case err == io.EOF:
		e["cls"] = "eof"
	case err == websocket.ErrCloseSent:
		e["cls"] = "closesent"
	case err == websocket.ErrReadLimit:
		e["cls"] = "limit"
	case err == errHandler:
		e["cls"] = "herr"
	case r.xerr != nil && err == r.xerr:
		e["cls"] = "xerr"
	case errors.As(err, &ne) && ne.Timeout():
		e["cls"] = "timeout"
	default:
		if ce, ok := err.(*websocket.CloseError); ok {
			e["cls"] = "close"
			e["code"] = ce.Code
			e["cand"] = r.closeCand(ce.Code, ce.Text)
		} else {
			e["cls"] = "other"
		}
	}
	return e
}

func truncate(s string, n int) string {
	if len(s) > n {
		return s[:n]
	}
	return s
}

// closeCand lists the close frames whose body denotes exactly (code, text).
func (r *readerRun) closeCand(code int, text string) []int {
	c := []int{}
	for i, f := range r.cf {
		if f.Op != 8 {
			continue
		}
		fc, ft := 1005, ""
		if len(f.payload) >= 2 {
			fc = int(binary.BigEndian.Uint16(f.payload))
			ft = string(f.payload[2:])
		}
		if fc == code && ft == text {
			c = append(c, i+1)
		}
	}
	return c
}

func (r *readerRun) payCand(op int, data []byte) []int {
	c := []int{}
	for i, f := range r.cf {
		if f.Op == op && bytes.Equal(f.payload, data) {
			c = append(c, i+1)
		}
	}
	return c
}

func (r *readerRun) addObs(o Ev) {
	r.mu.Lock()
	r.obs = append(r.obs, o)
	r.mu.Unlock()
}

func (r *readerRun) takeObs() []interface{} {
	r.mu.Lock()
	o := r.obs
	r.obs = nil
	r.mu.Unlock()
	if o == nil {
		o = []interface{}{}
	}
	return o
}

// TxObs converts a decoded outbound frame into an observation.
func txObs(f wire.Frame, pingCand []int) Ev {
	code := -1
	if f.Op == 8 && len(f.Payload) >= 2 {
		code = int(binary.BigEndian.Uint16(f.Payload))
	}
	return Ev{"t": "TX", "op": f.Op, "fin": f.Fin, "r1": f.R1, "r2": f.R2, "r3": f.R3, "mk": f.Masked,
		"len": len(f.Payload), "min": f.Minimal, "code": code, "cand": pingCand, "kind": ""}
}

func (r *readerRun) onWrite(op *xport.Op) {
	if op.Kind != xport.OpWrite {
		return
	}
	for _, f := range r.dec.Feed(op.Data) {
		cand := []int{}
		if f.Op == 10 {
			cand = r.payCand(9, f.Payload)
		}
		r.addObs(txObs(f, cand))
	}
}

// concretise builds payloads and the byte stream.
func (r *readerRun) concretise() []byte {
	p := r.p
	rng := rand.New(rand.NewSource(int64(p.Seed)))
	r.cf = make([]concFrame, len(p.Frames))
	r.expect = map[int][]byte{}
	// compressed messages: compute compressed bytes and spread over frames
	i := 0
	for i < len(p.Frames) {
		f := p.Frames[i]
		r.cf[i].RFrame = f
		switch {
		case f.Op == 8 && f.Lk == "n" && f.Code >= 0:
			var reason []byte
			n := f.Len - 2
			if n < 0 {
				n = 0
			}
			if f.Rs == "bad" {
				reason = bytes.Repeat([]byte{0xff}, n)
				if n == 0 {
					reason = []byte{0xff}
				}
			} else if f.Rs != "" && f.Rs != "ok" {
				reason = reasonOfClass(f.Rs, n, wire.TextPay(p.Seed, 1000+i, n))
			} else {
				reason = wire.TextPay(p.Seed, 1000+i, n)
				// keep valid UTF-8 (TextPay is ASCII)
			}
			r.cf[i].payload = wire.CloseBody(f.Code, reason)
		case f.Comp != "" && (f.Op == 1 || f.Op == 2):
			plain := wire.TextPay(p.Seed, i, f.Plain)
			if p.JSON {
				plain = wire.JSONDoc(p.Seed, i, f.Plain)
			}
			comp, err := wire.DeflateMsg(plain, f.Comp)
			if err != nil {
				panic(err)
			}
			if f.Fin {
				if so := wire.SyncOffset(plain, f.Comp); so > 0 {
					r.cf[i].zsync = so
				}
			}
			// frames of this message: i and following continuation frames
			idx := []int{i}
			if !f.Fin {
				for j := i + 1; j < len(p.Frames); j++ {
					if p.Frames[j].Op == 0 {
						idx = append(idx, j)
						if p.Frames[j].Fin {
							break
						}
					} else if p.Frames[j].Op == 1 || p.Frames[j].Op == 2 {
						break
					}
				}
			}
			rest := comp
			for k, j := range idx {
				n := p.Frames[j].Len
				if n < 0 {
					n = len(rest) + n
					if n < 0 {
						n = 0
					}
				}
				if k == len(idx)-1 || n > len(rest) {
					n = len(rest)
				}
				if k == len(idx)-1 {
					n = len(rest)
				}
				r.cf[j].RFrame = p.Frames[j]
				r.cf[j].payload = rest[:n]
				rest = rest[n:]
			}
			r.expect[i+1] = plain
		default:
			if r.cf[i].payload == nil {
				n := f.Len
				if f.Short > 0 && f.Short-1 < n {
					n = f.Short - 1
				}
				if f.Op == 1 || f.Op == 9 || f.Op == 10 {
					r.cf[i].payload = wire.TextPay(p.Seed, i, n)
				} else {
					r.cf[i].payload = wire.Pay(p.Seed, i, n)
				}
			}
		}
		i++
	}
	// expected contents of uncompressed messages
	for i := range r.cf {
		f := r.cf[i]
		if (f.Op == 1 || f.Op == 2) && r.expect[i+1] == nil {
			var e []byte
			e = append(e, f.payload...)
			if !f.Fin {
				for j := i + 1; j < len(r.cf); j++ {
					if r.cf[j].Op == 0 {
						e = append(e, r.cf[j].payload...)
						if r.cf[j].Fin {
							break
						}
					} else if r.cf[j].Op == 1 || r.cf[j].Op == 2 {
						break
					}
				}
			}
			if e == nil {
				e = []byte{}
			}
			if p.JSON && f.Lk == "n" && f.Short == 0 {
				// JSON flavour: replace the content of the message by a document of the same length,
				// spread over the same frames
				doc := wire.JSONDoc(p.Seed, i, len(e))
				rest := doc
				for j := i; j < len(r.cf) && len(rest) > 0; j++ {
					if j > i && r.cf[j].Op != 0 {
						if r.cf[j].Op == 1 || r.cf[j].Op == 2 {
							break
						}
						continue
					}
					n := len(r.cf[j].payload)
					if n > len(rest) {
						n = len(rest)
					}
					r.cf[j].payload = append([]byte{}, rest[:n]...)
					rest = rest[n:]
				}
				if len(rest) == 0 {
					e = doc
				}
			}
			r.expect[i+1] = e
		}
	}
	// encode
	var stream []byte
	swallowed := false
	for i := range r.cf {
		f := &r.cf[i]
		declared := f.Len
		f.Len = len(f.payload)
		short := f.Short > 0 && f.Lk == "n" && declared > f.Len
		if short {
			f.Len = declared
		}
		wf := wire.Frame{Op: f.Op, Fin: f.Fin, R1: f.R1, R2: f.R2, R3: f.R3, Masked: f.Mk, Payload: f.payload}
		switch f.Key {
		case "zero":
		case "ff":
			wf.Key = [4]byte{0xff, 0xff, 0xff, 0xff}
		case "pay":
			copy(wf.Key[:], f.payload)
		default:
			rng.Read(wf.Key[:])
		}
		if f.NonMin {
			if wire.MinEnc(uint64(len(f.payload))) == 7 {
				wf.Enc = 16
			} else {
				wf.Enc = 64
			}
		}
		if short {
			wf.DeclSet, wf.Decl = true, uint64(declared)
			wf.Enc = wire.MinEnc(uint64(declared))
		}
		switch f.Lk {
		case "max":
			wf.Enc, wf.DeclSet, wf.Decl = 64, true, 1<<63-1
		case "top":
			wf.Enc, wf.DeclSet, wf.Decl = 64, true, 1<<63+uint64(len(f.payload))
		}
		b := wire.Encode(wf)
		f.start = len(stream)
		f.hdrLen = len(b) - len(f.payload)
		if !swallowed {
			stream = append(stream, b...)
		}
		f.end = len(stream)
		if f.Lk != "n" || short {
			// A frame declaring a huge length swallows everything after it:
			// nothing that follows is distinguishable from its payload, so it
			// is the last frame actually sent.
			swallowed = true
		}
	}
	return stream
}

func chunkSizes(kind string, n int, rng *rand.Rand, cf []concFrame) []int {
	var out []int
	switch kind {
	case "byte":
		for i := 0; i < n; i++ {
			out = append(out, 1)
		}
	case "half":
		if n > 1 {
			out = []int{n / 2, n - n/2}
		} else if n == 1 {
			out = []int{1}
		}
	case "frame":
		for _, f := range cf {
			if f.end > f.start {
				out = append(out, f.end-f.start)
			}
		}
	case "zsync":
		// compressed frames of a sender that flushed inside the message: split exactly where that flush's
		// 00 00 ff ff begins (what arrived before is a complete deflate prefix); other frames as "hdr"
		for _, f := range cf {
			out = append(out, f.hdrLen)
			pl := f.end - f.start - f.hdrLen
			if f.zsync > 0 && f.zsync < pl {
				out = append(out, f.zsync, pl-f.zsync)
			} else if pl > 0 {
				out = append(out, pl)
			}
		}
	case "hdr":
		// split just after every header and at every frame end
		for _, f := range cf {
			out = append(out, f.hdrLen)
			if f.end-f.start-f.hdrLen > 0 {
				out = append(out, f.end-f.start-f.hdrLen)
			}
		}
	case "rand":
		left := n
		for left > 0 {
			k := 1 + rng.Intn(1+left/2+3)
			if k > left {
				k = left
			}
			out = append(out, k)
			left -= k
		}
	default:
		if n > 0 {
			out = []int{n}
		}
	}
	// clip to n
	var res []int
	sum := 0
	for _, k := range out {
		if sum+k > n {
			k = n - sum
		}
		if k > 0 {
			res = append(res, k)
			sum += k
		}
	}
	if sum < n {
		res = append(res, n-sum)
	}
	return res
}

// RunReader executes one reader program and returns its trace events
// (starting with the Reset event).
func RunReader(p *RProg) (evs []Ev) {
	r := &readerRun{p: p, role: p.Role}
	stream := r.concretise()
	if p.Raw != "" {
		stream, _ = hex.DecodeString(p.Raw)
	}
	return r.run(stream)
}

// run executes the read program over an already concretised stream (r.cf, r.expect set).
func (r *readerRun) run(stream []byte) (evs []Ev) {
	p := r.p
	rng := rand.New(rand.NewSource(int64(p.Seed) + 7))

	// cut
	cutOff := len(stream)
	kind := "eof"
	with := false
	resume := false
	if p.Cut != nil {
		kind, with, resume = p.Cut.Kind, p.Cut.With, p.Cut.Resume
		if p.Cut.Frame >= 1 && p.Cut.Frame <= len(r.cf) {
			f := r.cf[p.Cut.Frame-1]
			plen := f.end - f.start - f.hdrLen
			switch p.Cut.Part {
			case "hdr1":
				cutOff = f.start + 1
			case "hdr":
				cutOff = f.start + 2
				if f.hdrLen > 3 {
					cutOff += p.Cut.Var % (f.hdrLen - 2)
				}
			case "pay0":
				cutOff = f.start + f.hdrLen
			case "pay":
				cutOff = f.start + f.hdrLen + 1
				if plen > 2 {
					cutOff += p.Cut.Var % (plen - 1)
				}
			case "end":
				cutOff = f.end
			default:
				cutOff = f.start
			}
			if cutOff > f.end {
				cutOff = f.end
			}
		}
	}
	var ferr error
	switch kind {
	case "eof":
		ferr = io.EOF
	case "timeout":
		ferr = &xport.TimeoutErr{Msg: "script: read timeout"}
	case "ueof":
		// what crypto/tls reports when the peer closes TCP without close_notify
		ferr = io.ErrUnexpectedEOF
		r.xerr = ferr
	case "cpipe":
		ferr = io.ErrClosedPipe
		r.xerr = ferr
	case "osdl":
		ferr = os.ErrDeadlineExceeded
	default:
		ferr = errors.New("script: injected read error")
		r.xerr = ferr
	}
	sizes := chunkSizes(p.Chunk, cutOff, rng, r.cf)
	var chunks []xport.Chunk
	off := 0
	failStart := cutOff // offset where the failing read's data starts
	for i, k := range sizes {
		c := xport.Chunk{Data: stream[off : off+k]}
		if with && i == len(sizes)-1 {
			c.Err = ferr
			failStart = off
		}
		chunks = append(chunks, c)
		off += k
	}
	if !with || len(sizes) == 0 {
		chunks = append(chunks, xport.Chunk{Err: ferr})
		failStart = cutOff
	}
	if resume && cutOff < len(stream) {
		// the transport delivers again only after the application has been told about the failure
		// (until then it keeps failing): C05's last clause is about what happens AFTER a reported error
		// Half of the programs (by seed) get a ONE-SHOT fault instead: the transport fails exactly once and delivers the
		// rest at once, whether or not anybody was told. A library that loses the one error (seeded/C05-M: the skip of an
		// abandoned frame's remainder) then reads on; the specification is the same - the error must still follow.
		gate := &r.healed
		if p.Seed%2 == 1 {
			gate = nil
		}
		chunks = append(chunks, xport.Chunk{Data: stream[cutOff:], Gate: gate})
	}
	sc := xport.New(chunks)
	sc.EndErr = ferr
	sc.QuietReads = true

	// arrival annotation
	frs := make([]Ev, len(r.cf))
	for i, f := range r.cf {
		arr := "full"
		hb := f.hdrLen
		pgot := len(f.payload)
		h2, hdrOK := true, true
		switch {
		case f.end == f.start:
			arr, h2, hdrOK, pgot = "none", false, false, 0
		case f.end <= failStart && f.Lk == "n" && len(f.payload) == f.Len:
			arr = "full"
		case f.end <= cutOff && f.Lk == "n" && len(f.payload) == f.Len:
			arr = "with"
		case f.start >= cutOff:
			arr, h2, hdrOK, pgot = "none", false, false, 0
		default:
			arr = "part"
			got := cutOff - f.start
			if got > f.end-f.start {
				got = f.end - f.start
			}
			h2 = got >= 2
			hdrOK = got >= hb
			pgot = got - hb
			if pgot < 0 {
				pgot = 0
			}
		}
		code, u8 := -1, true
		if f.Op == 8 && len(f.payload) >= 2 {
			code = int(binary.BigEndian.Uint16(f.payload))
			u8 = utf8.Valid(f.payload[2:])
		}
		frs[i] = Ev{"op": f.Op, "fin": f.Fin, "r1": f.R1, "r2": f.R2, "r3": f.R3, "mk": f.Mk,
			"len": f.Len, "lk": f.Lk, "min": !f.NonMin, "code": code, "utf8": u8,
			"arr": arr, "h2": h2, "hdrOK": hdrOK, "pgot": pgot, "plain": f.Plain, "comp": f.Comp != "",
			"jneed": jsonNeed(r.expect[i+1])}
	}
	policy := "per_message"
	evs = append(evs, Ev{"e": "Reset", "tid": p.ID, "raw": p.Raw != "",
		"cfg": Ev{"role": p.Role, "pmce": p.Pmce, "limit": p.Limit, "hmode": p.HMode, "herrAt": p.HErrAt, "policy": policy,
			"rbuf": p.RBuf, "fault": kind, "chunk": p.Chunk},
		"fr": frs})

	// run with monitors
	done := make(chan []Ev, 1)
	go func() {
		var out []Ev
		defer func() {
			if v := recover(); v != nil {
				out = append(out, Ev{"e": "PANIC", "v": truncate(fmt.Sprint(v), 200)})
			}
			done <- out
		}()
		r.exec(sc, &out)
	}()
	select {
	case out := <-done:
		evs = append(evs, out...)
	case <-time.After(Watchdog(watchdogFor(p))):
		NoteHang()
		evs = append(evs, Ev{"e": "HANG"})
	}
	return evs
}

func (r *readerRun) exec(sc *xport.ScriptConn, outp *[]Ev) (out []Ev) {
	defer func() { *outp = out }()
	p := r.p
	c, err := NewConn(sc, ConnOpts{Role: p.Role, Pmce: p.Pmce, RBuf: p.RBuf})
	if err != nil {
		return []Ev{{"e": "SETUPFAIL", "v": err.Error()}}
	}
	sc.After = r.onWrite
	if p.Limit > 0 {
		c.SetReadLimit(int64(p.Limit))
	}
	hn := 0
	hook := func(kind string, op int, cand func() []int, def func() error) error {
		hn++
		r.addObs(Ev{"t": "H", "kind": kind, "cand": cand(), "op": 0, "fin": false, "r1": false, "r2": false, "r3": false, "mk": false, "len": 0, "min": false, "code": 0})
		if p.HMode == "err" && hn == p.HErrAt {
			return errHandler
		}
		if p.HMode == "chain" {
			return def()
		}
		return nil
	}
	if p.HMode != "default" {
		dping, dpong, dclose := c.PingHandler(), c.PongHandler(), c.CloseHandler()
		c.SetPingHandler(func(s string) error {
			return hook("ping", 9, func() []int { return r.payCand(9, []byte(s)) }, func() error { return dping(s) })
		})
		c.SetPongHandler(func(s string) error {
			return hook("pong", 10, func() []int { return r.payCand(10, []byte(s)) }, func() error { return dpong(s) })
		})
		c.SetCloseHandler(func(code int, text string) error {
			return hook("close", 8, func() []int { return r.closeCand(code, text) }, func() error { return dclose(code, text) })
		})
	}

	// Allocation monitor (C06/C07): TotalAlloc is sampled around library
	// calls only, so that the harness' own bookkeeping is not counted.
	var ms runtime.MemStats
	var libAlloc uint64
	ncalls := 0
	measure := func(f func()) {
		ncalls++
		if (ncalls > 64 && !p.AllocAll) || p.NoAlloc {
			f()
			return
		}
		runtime.ReadMemStats(&ms)
		a0 := ms.TotalAlloc
		f()
		runtime.ReadMemStats(&ms)
		libAlloc += ms.TotalAlloc - a0
	}
	kmax := 1
	for _, op := range p.Reads {
		if op.K > kmax {
			kmax = op.K
		}
	}
	big := make([]byte, kmax)

	type keptMsg struct{ got, want []byte }
	var kept []keptMsg // payloads returned by ReadMessage: they belong to the application and must not change later
	var rd io.Reader
	var prevRd io.Reader // the reader of an earlier message, stale once the application has moved on
	var acc []byte
	contentCand := func() ([]int, bool) {
		if len(acc) == 0 {
			return []int{}, true
		}
		c := []int{}
		for s, e := range r.expect {
			if len(acc) <= len(e) && bytes.Equal(e[:len(acc)], acc) {
				c = append(c, s)
			}
		}
		return c, false
	}
	ops := append([]ROp{}, p.Reads...)
	for i := 0; i < p.Tail; i++ {
		ops = append(ops, ROp{Op: "NR"})
	}
	for _, op := range ops {
		switch op.Op {
		case "NR":
			var t int
			var rr io.Reader
			var err error
			measure(func() { t, rr, err = c.NextReader() })
			if rd != nil {
				prevRd = rd
			}
			rd = rr
			acc = nil
			out = append(out, Ev{"e": "NR", "ok": err == nil, "type": t, "err": r.classify(err), "obs": r.takeObs()})
		case "RD":
			if rd == nil {
				continue
			}
			buf := big[:op.K]
			var n int
			var err error
			measure(func() { n, err = rd.Read(buf) })
			acc = append(acc, buf[:n]...)
			cand, any := contentCand()
			out = append(out, Ev{"e": "RD", "k": op.K, "n": n, "err": r.classify(err), "obs": r.takeObs(), "cand": cand, "any": any})
		case "RF":
			// read exactly what remains of the message without the EOF read:
			// expressed as RD events of the needed size
			if rd == nil {
				continue
			}
			for {
				e, ok := r.expectFor(acc)
				if !ok || len(acc) >= len(e) {
					break
				}
				k := len(e) - len(acc)
				if k > len(big) {
					big = make([]byte, k)
				}
				buf := big[:k]
				var n int
				var err error
				measure(func() { n, err = rd.Read(buf) })
				acc = append(acc, buf[:n]...)
				cand, any := contentCand()
				out = append(out, Ev{"e": "RD", "k": k, "n": n, "err": r.classify(err), "obs": r.takeObs(), "cand": cand, "any": any})
				if err != nil || n == 0 {
					break
				}
			}
		case "RL":
			// read loop: Read(k) until EOF or error
			if rd == nil {
				continue
			}
			for it := 0; it < 200000; it++ {
				buf := big[:op.K]
				var n int
				var err error
				measure(func() { n, err = rd.Read(buf) })
				acc = append(acc, buf[:n]...)
				cand, any := contentCand()
				out = append(out, Ev{"e": "RD", "k": op.K, "n": n, "err": r.classify(err), "obs": r.takeObs(), "cand": cand, "any": any})
				if err != nil {
					break
				}
			}
		case "RA":
			if rd == nil {
				continue
			}
			var b []byte
			var err error
			if op.K == 1 {
				var bb bytes.Buffer
				measure(func() { _, err = io.Copy(&bb, rd) })
				b = bb.Bytes()
			} else {
				measure(func() { b, err = io.ReadAll(rd) })
			}
			acc = append(acc, b...)
			cand, any := contentCand()
			out = append(out, Ev{"e": "RA", "n": len(b), "err": r.classify(err), "obs": r.takeObs(), "cand": cand, "any": any})
		case "JA":
			// io.ReadAll(JoinMessages(c, term)): runs until NextReader fails
			term := bytes.Repeat([]byte{'#'}, op.K)
			var b []byte
			var err error
			if op.R > 0 {
				// small reads on the joined reader: message / terminator boundaries fall inside and between calls
				jr := websocket.JoinMessages(c, string(term))
				small := make([]byte, op.R)
				for it := 0; it < 4000000; it++ {
					var n int
					measure(func() { n, err = jr.Read(small) })
					b = append(b, small[:n]...)
					if err != nil {
						break
					}
				}
				if err == io.EOF {
					err = nil // what io.ReadAll would report
				}
			} else {
				measure(func() { b, err = io.ReadAll(websocket.JoinMessages(c, string(term))) })
			}
			if rd != nil {
				prevRd = rd
			}
			rd = nil
			segs, rest, restOK := r.splitJoined(b, term)
			out = append(out, Ev{"e": "JA", "tl": op.K, "n": len(b), "segs": segs, "rest": rest, "restOK": restOK,
				"err": r.classify(err), "obs": r.takeObs()})
		case "RJ":
			// ReadJSON: NextReader + JSON decoder; the reader is never handed to the application
			var v interface{}
			var err error
			measure(func() { err = c.ReadJSON(&v) })
			if rd != nil {
				prevRd = rd
			}
			rd = nil
			acc = nil
			cand := []int{}
			if err == nil {
				cand = r.jsonCand(v)
			}
			out = append(out, Ev{"e": "RJ", "ok": err == nil, "err": r.classify(err), "obs": r.takeObs(), "cand": cand})
		case "WCL":
			// the application sends a close frame on the connection it reads from, and keeps reading
			err := c.WriteControl(websocket.CloseMessage, websocket.FormatCloseMessage(1000, ""), time.Now().Add(5*time.Second))
			h := atomic.LoadInt32(&r.healed)
			e := r.classify(err)
			atomic.StoreInt32(&r.healed, h) // a write-side report is not the report of the read-side fault
			out = append(out, Ev{"e": "WCL", "err": e, "obs": r.takeObs()})
		case "WCP":
			// a WriteControl whose deadline has already passed: times out, writes nothing, poisons nothing
			err := c.WriteControl(websocket.PingMessage, []byte("late"), time.Now().Add(-time.Second))
			h := atomic.LoadInt32(&r.healed)
			e := r.classify(err)
			atomic.StoreInt32(&r.healed, h)
			out = append(out, Ev{"e": "WCP", "err": e, "obs": r.takeObs()})
		case "RDO":
			// Read on the reader of an EARLIER message after the application has moved on: delivers nothing, consumes nothing
			if prevRd == nil {
				continue
			}
			buf := big[:op.K]
			var n int
			var err error
			measure(func() { n, err = prevRd.Read(buf) })
			out = append(out, Ev{"e": "RDO", "k": op.K, "n": n, "err": r.classify(err), "obs": r.takeObs()})
		case "SWD":
			// SetWriteDeadline by the application (K < 0: a deadline that has already passed): the replies and closes the
			// read side sends on its own use their own deadline
			dl := time.Now().Add(time.Duration(op.K) * time.Second)
			err := c.SetWriteDeadline(dl)
			out = append(out, Ev{"e": "SWD", "k": op.K, "err": r.classify(err)})
		case "SRD":
			// SetReadDeadline is a pass-through: it must not change what the read API reports
			err := c.SetReadDeadline(time.Time{})
			out = append(out, Ev{"e": "SRD", "err": r.classify(err)})
		case "RM":
			var t int
			var b []byte
			var err error
			measure(func() { t, b, err = c.ReadMessage() })
			if len(b) > 0 {
				kept = append(kept, keptMsg{got: b, want: append([]byte{}, b...)})
			}
			if rd != nil {
				prevRd = rd
			}
			rd = nil
			acc = b
			cand, any := contentCand()
			out = append(out, Ev{"e": "RM", "ok": t == 1 || t == 2, "type": t, "n": len(b), "err": r.classify(err), "obs": r.takeObs(), "cand": cand, "any": any})
			acc = nil
		}
	}
	for i, k := range kept {
		if !bytes.Equal(k.got, k.want) {
			// a delivered message changed after delivery (e.g. it aliases the connection's read buffer)
			out = append(out, Ev{"e": "MUTATED", "i": i, "n": len(k.want)})
			break
		}
	}
	delta := libAlloc
	fed := uint64(sc.BytesRead())
	if delta > 8*fed+(4<<20) {
		out = append(out, Ev{"e": "ALLOC", "delta": delta, "fed": fed})
	}
	if r.dec.Pending() > 0 {
		out = append(out, Ev{"e": "PARTIALTX", "n": r.dec.Pending()})
	}
	return out
}

// expectFor returns the unique expected content of which acc is a prefix,
// preferring... (used only by RF on a freshly opened reader: acc empty means
// "the message NextReader just opened", which the harness cannot know, so RF
// first reads one byte when acc is empty).
func (r *readerRun) expectFor(acc []byte) ([]byte, bool) {
	if len(acc) == 0 {
		return []byte{0}, true // read 1 byte first to identify the message
	}
	var found []byte
	n := 0
	for _, e := range r.expect {
		if len(acc) <= len(e) && bytes.Equal(e[:len(acc)], acc) {
			found = e
			n++
		}
	}
	return found, n == 1
}

// splitJoined recognises, in stream order, the expected message contents (each
// followed by term) at the front of b; the unmatched tail must be a prefix of
// some later message's content.
func (r *readerRun) splitJoined(b, term []byte) (segs [][]int, rest int, restOK bool) {
	segs = [][]int{}
	var starts []int
	for s := range r.expect {
		if r.expect[s] != nil {
			starts = append(starts, s)
		}
	}
	sort.Ints(starts)
	// Messages appear in stream order: search the segmentation into (content + term) pieces with increasing
	// message starts that covers the longest prefix of b (a payload byte may coincide with the terminator,
	// so a greedy choice can be wrong).
	restOf := func(pos int) (int, bool) {
		rest := len(b) - pos
		if rest == 0 {
			return 0, true
		}
		for _, s := range starts {
			if rest <= len(r.expect[s]) && bytes.Equal(r.expect[s][:rest], b[pos:]) {
				return rest, true
			}
		}
		return rest, false
	}
	// candidates: every segmentation prefix reached by the search; the one kept explains the tail as well if any does
	// (a short message may coincide with the beginning of a longer one), and among those covers the longest prefix
	var best []int
	bestPos, bestOK := -1, false
	var cur []int
	nodes := 0
	var dfs func(pos, from int)
	dfs = func(pos, from int) {
		nodes++
		_, ok := restOf(pos)
		if bestPos < 0 || (ok && !bestOK) || (ok == bestOK && pos > bestPos) {
			bestPos, bestOK = pos, ok
			best = append([]int{}, cur...)
		}
		if pos >= len(b) || nodes > 20000 {
			return
		}
		for k := from; k < len(starts); k++ {
			e := r.expect[starts[k]]
			if len(e)+len(term) == 0 {
				continue // empty message and empty terminator: leaves no trace in the output
			}
			if pos+len(e)+len(term) <= len(b) && bytes.Equal(b[pos:pos+len(e)], e) && bytes.Equal(b[pos+len(e):pos+len(e)+len(term)], term) {
				cur = append(cur, starts[k])
				dfs(pos+len(e)+len(term), k+1)
				cur = cur[:len(cur)-1]
			}
		}
	}
	dfs(0, 0)
	for _, s0 := range best {
		cand := []int{}
		for _, s := range starts {
			if bytes.Equal(r.expect[s], r.expect[s0]) {
				cand = append(cand, s)
			}
		}
		segs = append(segs, cand)
	}
	rest, restOK = restOf(bestPos)
	return
}

// jsonNeed: -1 if e does not begin with a JSON value; otherwise the number of
// bytes a decoder has to see to know that the first value is complete
// (len(e)+1 if only the end of the message terminates it).
func jsonNeed(e []byte) int {
	if e == nil {
		return -1
	}
	dec := json.NewDecoder(bytes.NewReader(e))
	var v interface{}
	if err := dec.Decode(&v); err != nil {
		return -1
	}
	off := int(dec.InputOffset())
	i := 0
	for i < len(e) && (e[i] == ' ' || e[i] == '\t' || e[i] == '\r' || e[i] == '\n') {
		i++
	}
	if i < len(e) && (e[i] == '"' || e[i] == '[' || e[i] == '{') {
		return off
	}
	return off + 1
}

// jsonCand lists the messages whose expected content decodes to v.
func (r *readerRun) jsonCand(v interface{}) []int {
	c := []int{}
	for s, e := range r.expect {
		if e == nil {
			continue
		}
		var w interface{}
		if err := json.NewDecoder(bytes.NewReader(e)).Decode(&w); err == nil && reflect.DeepEqual(v, w) {
			c = append(c, s)
		}
	}
	sort.Ints(c)
	return c
}

// reasonOfClass builds a close reason of exactly n bytes (n >= 3; shorter
// requests grow to the size of the special sequence) that contains the special
// byte sequence of the class, padded with ASCII text. Valid classes put the
// sequence in the middle, "trunc" puts an incomplete sequence at the very end.
func reasonOfClass(class string, n int, ascii []byte) []byte {
	var seq []byte
	switch class {
	case "u2":
		seq = []byte("\u00e9") // C3 A9
	case "u3":
		seq = []byte("\u20ac") // E2 82 AC
	case "u4":
		seq = []byte("\U0001F600") // F0 9F 98 80
	case "fffd":
		seq = []byte{0xEF, 0xBF, 0xBD}
	case "edge":
		seq = []byte("\u0080\u07ff\u0800\uffff\U00010000\U0010FFFF")
	case "trunc":
		seq = []byte{0xE2, 0x82}
	case "overlong":
		seq = []byte{0xC0, 0x80}
	case "surr":
		seq = []byte{0xED, 0xA0, 0x80}
	case "big":
		seq = []byte{0xF4, 0x90, 0x80, 0x80}
	case "cont":
		seq = []byte{0x80}
	default:
		return ascii
	}
	if n < len(seq) {
		n = len(seq)
	}
	if n > 123 {
		n = 123
	}
	pad := n - len(seq)
	if pad > len(ascii) {
		pad = len(ascii)
	}
	if class == "trunc" {
		return append(append([]byte{}, ascii[:pad]...), seq...)
	}
	h := pad / 2
	out := append([]byte{}, ascii[:h]...)
	out = append(out, seq...)
	return append(out, ascii[h:pad]...)
}

// watchdogFor: programs of a concurrent group run under the race detector next to five others
func watchdogFor(p *RProg) time.Duration {
	if p.NoAlloc {
		return 90 * time.Second
	}
	return 20 * time.Second
}
