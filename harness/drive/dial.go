package drive

// Family "dial": programs are histories of Dialer.DialContext calls made with
// ONE Dialer against the in-memory network of dialnet.go.  One trace event
// per call carries the inputs (abstract, echoed from the program) and the
// observed facts: dial hooks invoked, every transport operation on the
// obtained connection(s), what the remote side saw layer by layer, and the
// result class of DialContext.

import (
	"context"
	"encoding/json"
	"errors"
	"fmt"
	"io"
	"net"
	"net/http"
	"net/http/cookiejar"
	"net/http/httptrace"
	"net/url"
	"os"
	"runtime"
	"sort"
	"strings"
	"sync"
	"time"

	"crypto/tls"

	"github.com/gorilla/websocket"

	"wsverif/wire"
)

// DHdr is one caller-supplied request header (canonical key).
type DHdr struct {
	K string `json:"k"`
	V string `json:"v"`
}

// DCfg configures the Dialer of a program.
type DCfg struct {
	Proxy    string   `json:"proxy"` // none | http | https | socks5
	PUser    string   `json:"puser"`
	PPass    string   `json:"ppass"`
	HasPass  bool     `json:"haspass"`
	PHost    string   `json:"phost"`
	PPort    string   `json:"pport"`
	ND       bool     `json:"nd"`
	NDC      bool     `json:"ndc"`
	NDTC     bool     `json:"ndtc"`
	Subs     []string `json:"subs"`
	Comp     bool     `json:"comp"`
	Tmo      string   `json:"tmo"` // none | ht | ctx | bothe (both, context deadline earlier) | bothl (both, HandshakeTimeout earlier)
	Jar      bool     `json:"jar"`
	Loop     bool     `json:"loop"`     // no hooks: real loopback listener
	LoopPort int      `json:"loopport"` // port of that listener
	NoTLSCfg bool     `json:"notlscfg"` // leave Dialer.TLSClientConfig nil
	RBuf     int      `json:"rbuf"`     // Dialer.ReadBufferSize
	Trace    bool     `json:"trace"`    // every DialContext call carries an httptrace.ClientTrace with all the hooks the Dialer knows
}

// DDial is one DialContext call.
type DDial struct {
	URL      string          `json:"url"`
	URLHost  string          `json:"urlhost"` // host of the URL without port and brackets
	Hdrs     []DHdr          `json:"hdrs"`
	Reply    DReply          `json:"reply"`
	CReply   DCReply         `json:"creply"`
	Cert     string          `json:"cert"`
	OtherSAN []string        `json:"othersan"`
	Fault    DFault          `json:"fault"`
	HookErr  bool            `json:"hookerr"`
	Abs      json.RawMessage `json:"abs"`
}

// DProg is a dial program.
type DProg struct {
	ID      string          `json:"id"`
	Cfg     DCfg            `json:"cfg"`
	CfgAbs  json.RawMessage `json:"cfgabs"`
	Dials   []DDial         `json:"dials"`
	AllK    bool            `json:"allk"`   // expand the last dial: one run per transport-op index and fault kind
	Kinds   []string        `json:"kinds"`  // fault kinds for AllK
	AllCut  string          `json:"allcut"` // "reply" | "creply": one run per truncation offset of the last dial's raw reply
	CutHead int             `json:"cuthead"`
	CutTail int             `json:"cuttail"`
	CutStep int             `json:"cutstep"`
	// AllSplit: one run per split offset of the last dial's reply (header block +
	// body + glued frames handed to the transport in two segments cut at that
	// offset); "3" adds three-segment variants around and after the end of the
	// header block.  SplitStep > 1 thins the offsets inside the header block
	// (the last 8 header bytes and every offset behind them are always taken).
	AllSplit  string `json:"allsplit"`
	SplitStep int    `json:"splitstep"`
	TmoMs   int             `json:"tmoms"`   // timeout used when no stall is planned
	StallMs int             `json:"stallms"` // timeout used when a stall (timeout fault) is planned
	Seed    uint64          `json:"seed"`
}

func init() {
	Register("dial", func(line []byte) ([]Ev, error) {
		var p DProg
		if err := json.Unmarshal(line, &p); err != nil {
			return nil, err
		}
		return RunDial(&p), nil
	})
}

// RunDial executes one dial program (with its expansions).
func RunDial(p *DProg) []Ev {
	initCA()
	if len(p.Dials) == 0 {
		return []Ev{{"e": "Reset", "tid": p.ID, "cfg": p.CfgAbs}}
	}
	last := len(p.Dials) - 1
	switch {
	case p.AllK:
		evs, nops, kinds := runDialOnce(p, p.ID+"/dry", nil)
		fk := p.Kinds
		if len(fk) == 0 {
			fk = []string{"error", "timeout", "eof"}
		}
		// the hook itself fails
		q := *p
		q.Dials = append([]DDial{}, p.Dials...)
		q.Dials[last].HookErr = true
		e2, _, _ := runDialOnce(&q, p.ID+"/h", nil)
		evs = append(evs, e2...)
		closePhase := false // the TLS layer's own close sequence (SetWriteDeadline(5s), close_notify, ...)
		for k := 1; k <= nops; k++ {
			if k-1 < len(kinds) && kinds[k-1] == "SWD" {
				closePhase = true
			}
			for _, kind := range fk {
				if kind != "error" && k-1 < len(kinds) && kinds[k-1] != "R" && kinds[k-1] != "W" {
					continue
				}
				if kind == "timeout" && closePhase {
					// domain decision: no stall is injected into the close_notify write of a
					// dial that has already failed (crypto/tls bounds it by its own 5 s deadline)
					continue
				}
				f := DFault{K: k, Kind: kind}
				e3, _, _ := runDialOnce(p, fmt.Sprintf("%s/k%d%s", p.ID, k, kind), &f)
				evs = append(evs, e3...)
			}
		}
		return evs
	case p.AllCut != "":
		hx := p.Dials[last].Reply.Hex
		if p.AllCut == "creply" {
			hx = p.Dials[last].CReply.Hex
		}
		n := len(hx) / 2
		var evs []Ev
		step := p.CutStep
		if step <= 0 {
			step = 97
		}
		total, okc, failc := 0, 0, 0
		for k := 0; k <= n; k++ {
			if p.CutHead > 0 && k > p.CutHead && k < n-p.CutTail && k%step != 0 {
				continue
			}
			q := *p
			q.Dials = append([]DDial{}, p.Dials...)
			if p.AllCut == "creply" {
				q.Dials[last].CReply.Cut = k
			} else {
				q.Dials[last].Reply.Cut = k
			}
			e, _, _ := runDialOnce(&q, fmt.Sprintf("%s/c%d", p.ID, k), nil)
			total++
			// Runs with a plain outcome are only counted (facts: result class and
			// cleanup); every other run is reported with its full trace.
			cls := plainOutcome(e, len(q.Dials))
			switch cls {
			case "ok":
				okc++
			case "fail":
				failc++
			default:
				evs = append(evs, e...)
				total--
			}
		}
		evs = append(evs, Ev{"e": "Reset", "tid": p.ID + "/cuts", "cfg": p.CfgAbs},
			Ev{"e": "Cuts", "n": total, "ok": okc, "fail": failc, "len": n})
		return evs
	}
	if p.AllSplit != "" {
		evs, _, _, pr := runDialOnceInfo(p, p.ID+"/dry", nil)
		total, hdr := pr.replyLen, pr.replyHdr
		step := p.SplitStep
		if step <= 0 {
			step = 1
		}
		one := func(tag string, segs []int) {
			q := *p
			q.Dials = append([]DDial{}, p.Dials...)
			q.Dials[last].Reply.Segs = segs
			q.Dials[last].Reply.SegAbs = true
			e, _, _ := runDialOnce(&q, p.ID+"/"+tag, nil)
			evs = append(evs, e...)
		}
		for k := 1; k < total; k++ {
			if k < hdr-8 && k > 2 && k%step != 0 {
				continue
			}
			if k > hdr+640 && k < total-8 && k%97 != 0 {
				continue // long tails: every 97th offset beyond the first 640 bytes
			}
			one(fmt.Sprintf("s%d", k), []int{k})
			if p.AllSplit == "3" && k >= hdr-4 {
				if k+1 < total {
					one(fmt.Sprintf("s%d.%d", k, k+1), []int{k, k + 1})
				}
				if k > hdr {
					one(fmt.Sprintf("s%d.%d", hdr, k), []int{hdr, k})
				}
			}
		}
		return evs
	}
	evs, _, _ := runDialOnce(p, p.ID, nil)
	return evs
}

// plainOutcome classifies a complete run: "ok" = every dial event present and
// the last one returned an open connection without error; "fail" = ... returned
// (nil, _, err) with every obtained connection closed; "" = anything else.
func plainOutcome(evs []Ev, ndials int) string {
	if len(evs) != ndials+1 {
		return ""
	}
	for _, e := range evs[1:] {
		if e["e"] != "Dial" {
			return ""
		}
	}
	lastEv := evs[len(evs)-1]
	res := lastEv["res"].(Ev)
	closed := lastEv["closed"].([]int)
	conn, _ := res["conn"].(bool)
	errc, _ := res["err"].(string)
	if conn && errc == "nil" {
		for _, c := range closed {
			if c != 0 {
				return ""
			}
		}
		return "ok"
	}
	if !conn && errc != "nil" {
		for _, c := range closed {
			if c < 1 {
				return ""
			}
		}
		return "fail"
	}
	return ""
}

type progRun struct {
	p       *DProg
	keys    *keyTable
	prevKey string
	tlsCfg  *tls.Config
	dialer  *websocket.Dialer
	cur     *dialCtx
	// facts about the scripted reply of the last dial (for the AllSplit expansion)
	replyLen, replyHdr int
}

// dialCtx is what the hooks of the shared Dialer consult for the dial in progress.
type dialCtx struct {
	run   *dialRun
	d     *DDial
	pc    *peerCfg
	tmo   time.Duration
	ctxDL time.Time
	useHT bool
	fed   int
	plook int
}

// runDialOnce runs the whole history once; override (if non-nil) replaces the
// fault of the last dial.  Returns the events, and the number and kinds of
// transport operations of the last dial.
func runDialOnce(p *DProg, tid string, override *DFault) ([]Ev, int, []string) {
	evs, nops, kinds, _ := runDialOnceInfo(p, tid, override)
	return evs, nops, kinds
}

func runDialOnceInfo(p *DProg, tid string, override *DFault) ([]Ev, int, []string, *progRun) {
	pr := &progRun{p: p, keys: &keyTable{}}
	if p.Cfg.Loop {
		// cells without an applicable dial hook: a real loopback listener; its
		// port replaces the placeholder @PORT@ in the URLs and in the echoed inputs
		ln, err := net.Listen("tcp", "127.0.0.1:0")
		if err != nil {
			return []Ev{{"e": "Reset", "tid": tid, "cfg": p.CfgAbs}, {"e": "SETUPFAIL", "v": err.Error()}}, 0, nil, pr
		}
		defer ln.Close()
		port := fmt.Sprint(ln.Addr().(*net.TCPAddr).Port)
		q := *p
		q.CfgAbs = json.RawMessage(strings.ReplaceAll(string(p.CfgAbs), "@PORT@", port))
		q.Cfg.PPort = strings.ReplaceAll(p.Cfg.PPort, "@PORT@", port)
		q.Dials = append([]DDial{}, p.Dials...)
		for i := range q.Dials {
			q.Dials[i].URL = strings.ReplaceAll(q.Dials[i].URL, "@PORT@", port)
			q.Dials[i].Abs = json.RawMessage(strings.ReplaceAll(string(q.Dials[i].Abs), "@PORT@", port))
		}
		p = &q
		pr.p = p
		go func() {
			for {
				c, err := ln.Accept()
				if err != nil {
					return
				}
				dc := pr.cur
				if dc == nil {
					c.Close()
					continue
				}
				run := dc.run
				run.mu.Lock()
				ci := len(run.conns) + 100
				run.hooks = append(run.hooks, Ev{"hook": "listener", "net": "tcp", "addr": c.LocalAddr().String(), "ret": "conn"})
				run.loopConns = append(run.loopConns, c)
				run.mu.Unlock()
				run.peers.Add(1)
				go servePeer(run, ci, c, dc.pc)
			}
		}()
	}
	evs := []Ev{{"e": "Reset", "tid": tid, "cfg": p.CfgAbs}}
	cfg := &p.Cfg
	if !cfg.NoTLSCfg {
		pr.tlsCfg = &tls.Config{RootCAs: caGood.pool}
	}
	d := &websocket.Dialer{Subprotocols: cfg.Subs, EnableCompression: cfg.Comp, TLSClientConfig: pr.tlsCfg, ReadBufferSize: cfg.RBuf}
	pr.dialer = d
	if cfg.Jar {
		d.Jar, _ = cookiejar.New(nil)
	}
	if cfg.Proxy != "none" && cfg.Proxy != "" {
		pu := &url.URL{Scheme: cfg.Proxy, Host: cfg.PHost}
		if cfg.PPort != "" {
			pu.Host = cfg.PHost + ":" + cfg.PPort
		}
		if cfg.PUser != "" {
			if cfg.HasPass {
				pu.User = url.UserPassword(cfg.PUser, cfg.PPass)
			} else {
				pu.User = url.User(cfg.PUser)
			}
		}
		fixed := http.ProxyURL(pu)
		d.Proxy = func(r *http.Request) (*url.URL, error) {
			// fact: the Dialer consulted its Proxy function (counted per dial)
			if dc := pr.cur; dc != nil {
				dc.run.mu.Lock()
				dc.plook++
				dc.run.mu.Unlock()
			}
			return fixed(r)
		}
	}
	hook := func(name string) func(network, addr string) (net.Conn, error) {
		return func(network, addr string) (net.Conn, error) {
			dc := pr.cur
			run := dc.run
			now := time.Now()
			run.mu.Lock()
			if dc.useHT {
				b := now.Add(dc.tmo)
				if !run.hasBnd || b.Before(run.bound) {
					run.bound, run.hasBnd = b, true
				}
			}
			ret := "conn"
			if dc.d.HookErr {
				ret = "err"
			}
			run.hooks = append(run.hooks, Ev{"hook": name, "net": network, "addr": addr, "ret": ret})
			run.mu.Unlock()
			if dc.d.HookErr {
				return nil, errDHook
			}
			cl, sv := qPipe()
			w := newDConn(run, cl)
			run.peers.Add(1)
			go servePeer(run, w.idx, sv, dc.pc)
			return &fedConn{dconn: w, dc: dc}, nil
		}
	}
	if cfg.ND {
		d.NetDial = hook("nd")
	}
	if cfg.NDC {
		h := hook("ndc")
		d.NetDialContext = func(ctx context.Context, network, addr string) (net.Conn, error) { return h(network, addr) }
	}
	if cfg.NDTC {
		h := hook("ndtc")
		d.NetDialTLSContext = func(ctx context.Context, network, addr string) (net.Conn, error) { return h(network, addr) }
	}
	nops := 0
	var kinds []string
	for i := range p.Dials {
		dd := p.Dials[i]
		if i == len(p.Dials)-1 && override != nil {
			dd.Fault = *override
		}
		ev, n, ks, fatal := pr.doDial(i, &dd)
		evs = append(evs, ev...)
		nops, kinds = n, ks
		if fatal {
			break
		}
	}
	return evs, nops, kinds, pr
}

// fedConn counts the bytes handed to the library (allocation monitor).
type fedConn struct {
	*dconn
	dc *dialCtx
}

func (f *fedConn) Read(p []byte) (int, error) {
	n, err := f.dconn.Read(p)
	f.dc.run.mu.Lock()
	f.dc.fed += n
	f.dc.run.mu.Unlock()
	return n, err
}

func classifyDialErr(err error) string {
	if err == nil {
		return "nil"
	}
	if err == websocket.ErrBadHandshake {
		return "badhs"
	}
	var ne net.Error
	if errors.As(err, &ne) && ne.Timeout() {
		return "timeout"
	}
	if errors.Is(err, context.DeadlineExceeded) || errors.Is(err, os.ErrDeadlineExceeded) {
		return "timeout"
	}
	return "other"
}

func (pr *progRun) doDial(i int, d *DDial) (evs []Ev, nops int, kinds []string, fatal bool) {
	p := pr.p
	cfg := &p.Cfg
	run := &dialRun{fault: d.Fault, keyIDs: pr.keys, prevKey: pr.prevKey, slack: 3 * time.Second}
	marker := fmt.Sprintf("%s#%d", p.ID, i)
	pc := &peerCfg{proxy: cfg.Proxy, proxyHost: cfg.PHost, proxyUser: cfg.PUser, proxyPass: cfg.PPass, hasPass: cfg.HasPass,
		urlHost: d.URLHost, otherSAN: d.OtherSAN, cert: d.Cert, reply: &d.Reply, creply: &d.CReply, marker: marker, hdrs: d.Hdrs}
	if pc.proxy == "" {
		pc.proxy = "none"
	}
	if len(pc.otherSAN) == 0 {
		pc.otherSAN = []string{"other.example.test"}
	}
	if d.Reply.BLen > 0 {
		pc.body = wire.TextPay(p.Seed, 4242+i, d.Reply.BLen)
	}
	var tailTypes []int
	var tailMsgs [][]byte
	if len(d.Reply.TailFr) > 0 {
		pc.tail, tailTypes, tailMsgs = tailStream(p.Seed, i, d.Reply.TailFr)
	}
	tmoMs := p.TmoMs
	if tmoMs == 0 {
		tmoMs = 30000
	}
	stalling := d.Fault.K > 0 && d.Fault.Kind == "timeout" && cfg.Tmo != "none" && cfg.Tmo != ""
	if stalling {
		tmoMs = p.StallMs
		if tmoMs == 0 {
			tmoMs = 80
		}
		run.stall = true
	}
	dc := &dialCtx{run: run, d: d, pc: pc, tmo: time.Duration(tmoMs) * time.Millisecond}
	pr.cur = dc
	ctx := context.Background()
	var cancel context.CancelFunc
	pr.dialer.HandshakeTimeout = 0
	switch cfg.Tmo {
	case "ht":
		pr.dialer.HandshakeTimeout = dc.tmo
		dc.useHT = true
	case "ctx":
		dl := time.Now().Add(dc.tmo)
		ctx, cancel = context.WithDeadline(ctx, dl)
		run.bound, run.hasBnd = dl, true
	case "both", "bothe", "bothl":
		// Both configured; the earlier of the two is always dc.tmo away, the later
		// one four times as far.  bothe: the context deadline is the earlier one;
		// bothl: the HandshakeTimeout; "both" (older programs): by seed parity.
		ctxEarlier := cfg.Tmo == "bothe" || (cfg.Tmo == "both" && (p.Seed+uint64(i))%2 == 1)
		ht, cd := dc.tmo, 4*dc.tmo
		if ctxEarlier {
			ht, cd = 4*dc.tmo, dc.tmo
		}
		pr.dialer.HandshakeTimeout = ht
		dc.useHT = true
		dc.tmo = ht // the hooks bound the run by hook time + HandshakeTimeout as well
		dl := time.Now().Add(cd)
		ctx, cancel = context.WithDeadline(ctx, dl)
		run.bound, run.hasBnd = dl, true
	}
	if cancel != nil {
		defer cancel()
	}
	// httptrace hooks (facts: how often each was called); installing them must not change any outcome
	var tmu sync.Mutex
	thooks := map[string]int{}
	if cfg.Trace {
		note := func(k string) { tmu.Lock(); thooks[k]++; tmu.Unlock() }
		ctx = httptrace.WithClientTrace(ctx, &httptrace.ClientTrace{
			GetConn:              func(string) { note("getconn") },
			GotConn:              func(httptrace.GotConnInfo) { note("gotconn") },
			GotFirstResponseByte: func() { note("firstbyte") },
			TLSHandshakeStart:    func() { note("tlsstart") },
			TLSHandshakeDone:     func(tls.ConnectionState, error) { note("tlsdone") },
			WroteRequest:         func(httptrace.WroteRequestInfo) { note("wroterequest") },
			WroteHeaders:         func() { note("wroteheaders") },
		})
	}
	if cfg.Jar && pr.dialer.Jar != nil {
		if u, err := url.Parse(d.URL); err == nil && u.Host != "" {
			hu := &url.URL{Scheme: "http", Host: u.Host, Path: "/"}
			if strings.EqualFold(u.Scheme, "wss") {
				hu.Scheme = "https"
			}
			pr.dialer.Jar.SetCookies(hu, []*http.Cookie{{Name: "verifjar", Value: "j1"}})
			pc.jarCookie = "verifjar=j1"
		}
	}
	hdr := http.Header{}
	for _, h := range d.Hdrs {
		hdr[h.K] = append(hdr[h.K], h.V)
	}
	var hdrArg http.Header
	if len(d.Hdrs) > 0 {
		hdrArg = hdr
	}

	type result struct {
		conn *websocket.Conn
		resp *http.Response
		err  error
		pan  interface{}
	}
	done := make(chan result, 1)
	var ms runtime.MemStats
	runtime.ReadMemStats(&ms)
	a0 := ms.TotalAlloc
	go func() {
		var r result
		defer func() {
			if v := recover(); v != nil {
				r.pan = v
			}
			done <- r
		}()
		r.conn, r.resp, r.err = pr.dialer.DialContext(ctx, d.URL, hdrArg)
	}()
	var r result
	hang := false
	select {
	case r = <-done:
	case <-time.After(Watchdog(20 * time.Second)):
		NoteHang()
		hang = true
	}
	runtime.ReadMemStats(&ms)
	delta := ms.TotalAlloc - a0

	// facts about the result
	res := Ev{"conn": r.conn != nil, "resp": r.resp != nil, "err": classifyDialErr(r.err), "status": 0, "marker": false,
		"bodyn": 0, "bodyok": true, "sub": "", "txt": ""}
	if r.err != nil {
		res["txt"] = truncate(r.err.Error(), 100)
	}
	if r.resp != nil && r.pan == nil && !hang {
		res["status"] = r.resp.StatusCode
		res["marker"] = r.resp.Header.Get("X-Verif-Id") == marker
		if r.resp.Body != nil {
			b, _ := io.ReadAll(io.LimitReader(r.resp.Body, 1<<20))
			res["bodyn"] = len(b)
			res["bodyok"] = len(b) <= len(pc.body) && string(b) == string(pc.body[:len(b)])
		}
	}
	if r.conn != nil {
		res["sub"] = r.conn.Subprotocol()
	}
	// snapshot of the transport log at the moment DialContext returned
	run.mu.Lock()
	ops := make([]Ev, 0, len(run.ops))
	for _, o := range run.ops {
		ops = append(ops, Ev{"c": o.C, "kind": o.Kind, "zero": o.Zero, "flt": o.Flt, "how": o.How, "within": o.Within})
		kinds = append(kinds, o.Kind)
	}
	nops = len(run.ops)
	conns := append([]*dconn{}, run.conns...)
	hooks := append([]Ev{}, run.hooks...)
	fed := dc.fed
	run.mu.Unlock()
	closed := []int{}
	for _, w := range conns {
		w.mu.Lock()
		closed = append(closed, w.nclose)
		w.mu.Unlock()
	}
	// C17, client side: the frames glued to the reply are read back through the
	// public API after DialContext has returned (facts: result, type, length and
	// which of the sent messages the delivered bytes are equal to).
	rx := []Ev{}
	rxHang := false
	if r.conn != nil && len(d.Reply.TailFr) > 0 && !hang && r.pan == nil {
		rdone := make(chan interface{}, 1)
		var out []Ev
		go func() {
			defer func() { rdone <- recover() }()
			for n := 0; n < len(tailMsgs)+2; n++ {
				t, b, err := r.conn.ReadMessage()
				eq := []int{}
				for j, m := range tailMsgs {
					if tailTypes[j] == t && string(m) == string(b) {
						eq = append(eq, j+1)
					}
				}
				e := Ev{"ok": err == nil, "type": t, "n": len(b), "eq": eq, "err": ""}
				if err != nil {
					e["type"], e["err"] = 0, truncate(err.Error(), 80)
				}
				out = append(out, e)
				if err != nil {
					break
				}
			}
		}()
		select {
		case v := <-rdone:
			if v != nil {
				r.pan = v
			}
			rx = out
		case <-time.After(Watchdog(20 * time.Second)):
			NoteHang()
			rxHang = true
		}
	}
	// tear down (harness' own cleanup, not logged)
	for _, w := range conns {
		w.under.Close()
	}
	if r.conn != nil && cfg.Loop {
		r.conn.Close()
	}
	run.mu.Lock()
	for _, c := range run.loopConns {
		c.Close()
	}
	run.mu.Unlock()
	waitc := make(chan struct{})
	go func() { run.peers.Wait(); close(waitc) }()
	select {
	case <-waitc:
	case <-time.After(6 * time.Second):
	}
	run.mu.Lock()
	layers := append([]Ev{}, run.layers...)
	if cfg.Loop {
		hooks = append([]Ev{}, run.hooks...)
	}
	pr.prevKey = run.prevKey
	pr.replyLen, pr.replyHdr = run.replyLen, run.replyHdr
	nsegs := run.nsegs
	plook := dc.plook
	run.mu.Unlock()

	if r.pan != nil {
		return []Ev{{"e": "PANIC", "v": truncate(fmt.Sprint(r.pan), 200), "i": i, "url": d.URL}}, nops, kinds, true
	}
	if hang || rxHang {
		return []Ev{{"e": "HANG", "i": i, "reading": rxHang}}, nops, kinds, true
	}
	evs = append(evs, Ev{"e": "Dial", "i": i + 1, "d": d.Abs, "short": stalling, "hooks": hooks, "ops": ops, "closed": closed, "peer": layers, "res": res,
		"rx": rx, "plook": plook, "nsegs": nsegs, "thooks": func() string {
			tmu.Lock()
			defer tmu.Unlock()
			ks := []string{}
			for k, v := range thooks {
				ks = append(ks, fmt.Sprintf("%s:%d", k, v))
			}
			sort.Strings(ks)
			return strings.Join(ks, ",")
		}()})
	if delta > 8*uint64(fed)+(6<<20) {
		evs = append(evs, Ev{"e": "ALLOC", "delta": delta, "fed": fed})
	}
	return evs, nops, kinds, false
}

var _ = sync.Mutex{}
