package drive

import (
	"encoding/json"
	"errors"
	"net/http"

	"github.com/gorilla/websocket"
)

// helper-API family: one call of a helper function per program; the result is reported as a fact.

func cps(s []int) string {
	b := make([]byte, len(s))
	for i, c := range s {
		b[i] = byte(c)
	}
	return string(b)
}

func tocps(s string) []int {
	out := make([]int, len(s))
	for i := 0; i < len(s); i++ {
		out[i] = int(s[i])
	}
	return out
}

type hcall struct {
	ID    string  `json:"id"`
	Fn    string  `json:"fn"`
	Code  int     `json:"code"`
	Text  []int   `json:"text"`
	Err   struct {
		Kind string `json:"kind"`
		Code int    `json:"code"`
	} `json:"err"`
	Codes []int   `json:"codes"`
	Lines [][]int `json:"lines"`
	Conn  [][]int `json:"conn"`
	Upg   [][]int `json:"upg"`
}

func init() {
	Register("helpers", func(line []byte) ([]Ev, error) {
		var c hcall
		if err := json.Unmarshal(line, &c); err != nil {
			return nil, err
		}
		var raw map[string]interface{}
		json.Unmarshal(line, &raw)
		delete(raw, "id")
		res := Ev{}
		switch c.Fn {
		case "FormatCloseMessage":
			res["bytes"] = tocps(string(websocket.FormatCloseMessage(c.Code, cps(c.Text))))
		case "IsCloseError", "IsUnexpectedCloseError":
			var err error
			switch c.Err.Kind {
			case "close":
				err = &websocket.CloseError{Code: c.Err.Code}
			case "other":
				err = errors.New("other")
			}
			if c.Fn == "IsCloseError" {
				res["bool"] = websocket.IsCloseError(err, c.Codes...)
			} else {
				res["bool"] = websocket.IsUnexpectedCloseError(err, c.Codes...)
			}
		case "Subprotocols":
			r, _ := http.NewRequest("GET", "http://example.test/", nil)
			for _, l := range c.Lines {
				r.Header.Add("Sec-Websocket-Protocol", cps(l))
			}
			ps := websocket.Subprotocols(r)
			lst := make([][]int, len(ps))
			for i, p := range ps {
				lst[i] = tocps(p)
			}
			res["list"] = lst
		case "IsWebSocketUpgrade":
			r, _ := http.NewRequest("GET", "http://example.test/", nil)
			for _, l := range c.Conn {
				r.Header.Add("Connection", cps(l))
			}
			for _, l := range c.Upg {
				r.Header.Add("Upgrade", cps(l))
			}
			res["bool"] = websocket.IsWebSocketUpgrade(r)
		}
		return []Ev{{"e": "Reset", "tid": c.ID}, {"e": "Call", "call": raw, "res": res}}, nil
	})
}
