package drive

// Family "upgrade": executes one server handshake (Upgrader.Upgrade) per
// program on the real library through the public API, over a fake
// http.ResponseWriter + http.Hijacker whose connection is a fault-injecting,
// fully logged net.Conn. Checks C12, C13 and the server part of C16.
//
// The driver reports facts only: the request as sent (header lines as code
// point sequences), the return values, what happened to the ResponseWriter,
// every operation performed on the hijacked connection and the raw bytes
// written to it. Splitting the 101 response into lines, parsing token lists,
// deciding validity of the request: all of that is done by TLC
// (spec/WSUpgrade.tla).

import (
	"bufio"
	"encoding/json"
	"errors"
	"fmt"
	"io"
	"net"
	"net/http"
	"net/url"
	"strings"
	"sync"
	"time"
	"unicode/utf8"

	"github.com/gorilla/websocket"

	"wsverif/xport"
)

// ---- program ---------------------------------------------------------------

type UKey struct {
	Present bool   `json:"present"`
	Cls     string `json:"cls"`
	V       []int  `json:"v"`
}

type UOrigin struct {
	Present bool   `json:"present"`
	Shape   string `json:"shape"`
	Scheme  []int  `json:"scheme"`
	Y       []int  `json:"y"`
	Port    []int  `json:"port"`
	Str     []int  `json:"str"`
}

type UReq struct {
	Method string  `json:"method"`
	Conn   [][]int `json:"conn"`
	Upg    [][]int `json:"upg"`
	Ver    [][]int `json:"ver"`
	Key    UKey    `json:"key"`
	Host   []int   `json:"host"`
	Origin UOrigin `json:"origin"`
	Proto  [][]int `json:"proto"`
	Ext    [][]int `json:"ext"`
}

type UCfg struct {
	CheckOrigin string  `json:"checkOrigin"`
	SubsNil     bool    `json:"subsNil"`
	Subs        [][]int `json:"subs"`
	Compress    bool    `json:"compress"`
	Hto         int     `json:"hto"` // HandshakeTimeout in ms
	Errfn       bool    `json:"errfn"`
	Rbuf        int     `json:"rbuf"`
	Wbuf        int     `json:"wbuf"`
	Pool        bool    `json:"pool"`
	Hsize       int     `json:"hsize"`
	Hwsize      int     `json:"hwsize"`
	Preload     int     `json:"preload"` // bytes already buffered in the hijacked bufio.Reader
}

type UNameVal struct {
	Name []int `json:"name"`
	V    []int `json:"v"`
}

type URH struct {
	Nil    bool `json:"nil"`
	HasExt bool  `json:"hasExt"`
	ExtKey []int `json:"extKey"` // spelling of the Sec-WebSocket-Extensions key in the map (hasExt)
	ExtV   []int `json:"extV"`   // its value
	Proto  struct {
		Present bool  `json:"present"`
		V       []int `json:"v"`
	} `json:"proto"`
	Extras []UNameVal `json:"extras"`
}

type UFault struct {
	Op        int    `json:"op"` // 1-based index among the non-Close operations, 0 = none
	Kind      string `json:"kind"`
	CloseErr  bool   `json:"closeErr"`
	HijackErr bool   `json:"hijackErr"`
}

type UP struct {
	Req   UReq   `json:"req"`
	Cfg   UCfg   `json:"cfg"`
	RH    URH    `json:"rh"`
	Fault UFault `json:"fault"`
}

type UProg struct {
	ID string `json:"id"`
	P  UP     `json:"p"`
}

// ---- code points -----------------------------------------------------------

// cpBytes maps code points to raw bytes (header field bytes); code points
// above 255 are UTF-8 encoded.
func cpBytes(cps []int) string {
	var b []byte
	for _, c := range cps {
		if c < 256 {
			b = append(b, byte(c))
		} else {
			b = utf8.AppendRune(b, rune(c))
		}
	}
	return string(b)
}

// cpUTF8 maps Unicode code points to their UTF-8 encoding (Host / Origin).
func cpUTF8(cps []int) string {
	var b []byte
	for _, c := range cps {
		b = utf8.AppendRune(b, rune(c))
	}
	return string(b)
}

func bytesCP(s string) []int {
	out := make([]int, len(s))
	for i := 0; i < len(s); i++ {
		out[i] = int(s[i])
	}
	return out
}

func linesCP(ss []string) [][]int {
	out := make([][]int, len(ss))
	for i, s := range ss {
		out[i] = bytesCP(s)
	}
	return out
}

func nz(x []int) []int {
	if x == nil {
		return []int{}
	}
	return x
}

func nzz(x [][]int) [][]int {
	if x == nil {
		return [][]int{}
	}
	for i := range x {
		x[i] = nz(x[i])
	}
	return x
}

// ---- fault injecting, logging connection -----------------------------------

type hsOp struct {
	K    string
	Zero bool
	OK   bool
}

// hsConn wraps a net.Conn, logs every operation and fails the FailAt-th
// (1-based) operation other than Close.
type hsConn struct {
	net.Conn
	mu       sync.Mutex
	Ops      []hsOp
	Raw      []byte
	n        int
	FailAt   int
	Kind     string
	CloseErr bool
	Frozen   bool // after the handshake: stop logging
}

func (c *hsConn) faultErr() error {
	switch c.Kind {
	case "timeout":
		return &xport.TimeoutErr{Msg: "script: i/o timeout"}
	case "eof":
		return io.EOF
	default:
		return errors.New("script: injected " + c.Kind)
	}
}

func (c *hsConn) step(k string, zero bool) (fail bool) {
	c.n++
	fail = c.FailAt > 0 && c.n == c.FailAt
	c.Ops = append(c.Ops, hsOp{K: k, Zero: zero, OK: !fail})
	return fail
}

func (c *hsConn) Read(p []byte) (int, error) {
	c.mu.Lock()
	if c.Frozen {
		c.mu.Unlock()
		return c.Conn.Read(p)
	}
	fail := c.step("R", false)
	c.mu.Unlock()
	if fail {
		return 0, c.faultErr()
	}
	return c.Conn.Read(p)
}

func (c *hsConn) Write(p []byte) (int, error) {
	c.mu.Lock()
	if c.Frozen {
		c.mu.Unlock()
		return c.Conn.Write(p)
	}
	fail := c.step("W", false)
	if fail {
		n := 0
		if c.Kind == "short" {
			n = len(p) / 2
			c.Raw = append(c.Raw, p[:n]...)
		}
		c.mu.Unlock()
		return n, c.faultErr()
	}
	c.Raw = append(c.Raw, p...)
	c.mu.Unlock()
	return c.Conn.Write(p)
}

func (c *hsConn) deadline(k string, t time.Time, f func(time.Time) error) error {
	c.mu.Lock()
	if c.Frozen {
		c.mu.Unlock()
		return f(t)
	}
	fail := c.step(k, t.IsZero())
	c.mu.Unlock()
	if fail {
		return c.faultErr()
	}
	return f(t)
}

func (c *hsConn) SetDeadline(t time.Time) error { return c.deadline("SD", t, c.Conn.SetDeadline) }
func (c *hsConn) SetReadDeadline(t time.Time) error {
	return c.deadline("SRD", t, c.Conn.SetReadDeadline)
}
func (c *hsConn) SetWriteDeadline(t time.Time) error {
	return c.deadline("SWD", t, c.Conn.SetWriteDeadline)
}

func (c *hsConn) Close() error {
	c.mu.Lock()
	frozen := c.Frozen
	if !frozen {
		c.Ops = append(c.Ops, hsOp{K: "C", OK: !c.CloseErr})
	}
	ce := c.CloseErr
	c.mu.Unlock()
	err := c.Conn.Close()
	if ce && !frozen {
		return errors.New("script: injected close error")
	}
	return err
}

func (c *hsConn) opsEv() []Ev {
	c.mu.Lock()
	defer c.mu.Unlock()
	out := make([]Ev, 0, len(c.Ops))
	for _, o := range c.Ops {
		out = append(out, Ev{"k": o.K, "zero": o.Zero, "ok": o.OK})
	}
	return out
}

// ---- building the request and the Upgrader ---------------------------------

type simplePool struct{ p sync.Pool }

func (s *simplePool) Get() interface{}  { return s.p.Get() }
func (s *simplePool) Put(v interface{}) { s.p.Put(v) }

func setLines(h http.Header, name string, lines [][]int) {
	if len(lines) == 0 {
		return
	}
	ss := make([]string, len(lines))
	for i, l := range lines {
		ss[i] = cpBytes(l)
	}
	h[name] = ss
}

// buildRequest constructs the *http.Request the way net/http would hand it to
// a handler: canonical header keys, Host in r.Host.
func buildRequest(q *UReq) *http.Request {
	r := &http.Request{
		Method:     q.Method,
		Proto:      "HTTP/1.1",
		ProtoMajor: 1,
		ProtoMinor: 1,
		Header:     http.Header{},
		Host:       cpUTF8(q.Host),
		RequestURI: "/ws",
	}
	r.URL, _ = url.Parse("/ws")
	setLines(r.Header, "Connection", q.Conn)
	setLines(r.Header, "Upgrade", q.Upg)
	setLines(r.Header, "Sec-Websocket-Version", q.Ver)
	if q.Key.Present {
		r.Header["Sec-Websocket-Key"] = []string{cpBytes(q.Key.V)}
	}
	if q.Origin.Present {
		r.Header["Origin"] = []string{cpUTF8(q.Origin.Str)}
	}
	setLines(r.Header, "Sec-Websocket-Protocol", q.Proto)
	setLines(r.Header, "Sec-Websocket-Extensions", q.Ext)
	return r
}

func buildRH(h *URH) http.Header {
	if h.Nil {
		return nil
	}
	rh := http.Header{}
	if h.HasExt {
		k, v := "Sec-Websocket-Extensions", "x-app-extension"
		if len(h.ExtKey) > 0 {
			k, v = cpBytes(h.ExtKey), cpBytes(h.ExtV)
		}
		rh[k] = []string{v} // direct map assignment: the key is used exactly as spelled
	}
	if h.Proto.Present {
		rh["Sec-Websocket-Protocol"] = []string{cpBytes(h.Proto.V)}
	}
	for _, e := range h.Extras {
		n := cpBytes(e.Name)
		rh[n] = append(rh[n], cpBytes(e.V))
	}
	return rh
}

type errObs struct {
	called bool
	status int
	hs     bool
}

func buildUpgrader(c *UCfg, eo *errObs) *websocket.Upgrader {
	u := &websocket.Upgrader{
		ReadBufferSize:    c.Rbuf,
		WriteBufferSize:   c.Wbuf,
		EnableCompression: c.Compress,
		HandshakeTimeout:  time.Duration(c.Hto) * time.Millisecond,
	}
	if c.Pool {
		u.WriteBufferPool = &simplePool{}
	}
	if !c.SubsNil {
		u.Subprotocols = make([]string, 0, len(c.Subs))
		for _, s := range c.Subs {
			u.Subprotocols = append(u.Subprotocols, cpBytes(s))
		}
	}
	switch c.CheckOrigin {
	case "true":
		u.CheckOrigin = func(*http.Request) bool { return true }
	case "false":
		u.CheckOrigin = func(*http.Request) bool { return false }
	}
	if c.Errfn {
		u.Error = func(w http.ResponseWriter, r *http.Request, status int, reason error) {
			eo.called = true
			eo.status = status
			_, eo.hs = reason.(websocket.HandshakeError)
			w.WriteHeader(status)
		}
	}
	return u
}

func errClass(err error) string {
	if err == nil {
		return "nil"
	}
	var he websocket.HandshakeError
	if errors.As(err, &he) {
		return "handshake"
	}
	return "other"
}

// requestEcho reports the request as it is seen by Upgrade: the header lines
// taken back from the constructed *http.Request.
func requestEcho(q *UReq, r *http.Request) Ev {
	key := Ev{"present": false, "v": []int{}, "cls": q.Key.Cls}
	if v, ok := r.Header["Sec-Websocket-Key"]; ok && len(v) > 0 {
		key = Ev{"present": true, "v": bytesCP(v[0]), "cls": q.Key.Cls}
	}
	return Ev{
		"method": r.Method,
		"conn":   linesCP(r.Header["Connection"]),
		"upg":    linesCP(r.Header["Upgrade"]),
		"ver":    linesCP(r.Header["Sec-Websocket-Version"]),
		"key":    key,
		"host":   nz(q.Host),
		"origin": Ev{"present": q.Origin.Present, "shape": q.Origin.Shape, "scheme": nz(q.Origin.Scheme),
			"y": nz(q.Origin.Y), "port": nz(q.Origin.Port), "str": nz(q.Origin.Str)},
		"proto": linesCP(r.Header["Sec-Websocket-Protocol"]),
		"ext":   linesCP(r.Header["Sec-Websocket-Extensions"]),
	}
}

func rhEcho(h *URH) Ev {
	ex := make([]Ev, 0, len(h.Extras))
	for _, e := range h.Extras {
		ex = append(ex, Ev{"name": nz(e.Name), "v": nz(e.V)})
	}
	ek, ev := h.ExtKey, h.ExtV
	if len(ek) == 0 {
		ek, ev = bytesCP("Sec-Websocket-Extensions"), bytesCP("x-app-extension")
	}
	return Ev{"nil": h.Nil, "hasExt": h.HasExt, "extKey": nz(ek), "extV": nz(ev), "proto": Ev{"present": h.Proto.Present, "v": nz(h.Proto.V)}, "extras": ex}
}

func cfgEcho(c *UCfg) Ev {
	return Ev{"checkOrigin": c.CheckOrigin, "subsNil": c.SubsNil, "subs": nzz(c.Subs), "compress": c.Compress,
		"hto": c.Hto, "errfn": c.Errfn, "rbuf": c.Rbuf, "wbuf": c.Wbuf, "pool": c.Pool, "hsize": c.Hsize, "hwsize": c.Hwsize, "preload": c.Preload}
}

// RunUpgrade executes one upgrade program.
func RunUpgrade(up *UProg) (evs []Ev) {
	p := &up.P
	if p.Cfg.Hsize == 0 {
		p.Cfg.Hsize = 4096
	}
	if p.Cfg.Hwsize == 0 {
		p.Cfg.Hwsize = 4096
	}
	req := buildRequest(&p.Req)
	evs = append(evs, Ev{"e": "Reset", "tid": up.ID, "p": Ev{
		"req": requestEcho(&p.Req, req), "cfg": cfgEcho(&p.Cfg), "rh": rhEcho(&p.RH),
		"fault": Ev{"op": p.Fault.Op, "kind": p.Fault.Kind, "closeErr": p.Fault.CloseErr, "hijackErr": p.Fault.HijackErr}}})

	done := make(chan []Ev, 1)
	go func() {
		var out []Ev
		defer func() {
			if v := recover(); v != nil {
				out = append(out, Ev{"e": "PANIC", "v": truncate(fmt.Sprint(v), 200)})
			}
			done <- out
		}()
		out = execUpgrade(p, req)
	}()
	select {
	case out := <-done:
		evs = append(evs, out...)
	case <-time.After(Watchdog(20 * time.Second)):
		NoteHang()
		evs = append(evs, Ev{"e": "HANG"})
	}
	return evs
}

func execUpgrade(p *UP, req *http.Request) []Ev {
	var in []xport.Chunk
	if p.Cfg.Preload > 0 {
		in = []xport.Chunk{{Data: make([]byte, p.Cfg.Preload)}}
	}
	sc := xport.New(in)
	hc := &hsConn{Conn: sc, FailAt: p.Fault.Op, Kind: p.Fault.Kind, CloseErr: p.Fault.CloseErr}
	hbr := bufio.NewReaderSize(hc, p.Cfg.Hsize)
	if p.Cfg.Preload > 0 {
		// bytes the HTTP server had already read behind the request
		hc.Frozen = true
		if _, err := hbr.Peek(p.Cfg.Preload); err != nil {
			return []Ev{{"e": "SETUPFAIL", "v": "preload: " + err.Error()}}
		}
		hc.Frozen = false
	}
	w := &fakeRW{conn: hc, hdr: http.Header{},
		brw: bufio.NewReadWriter(hbr, bufio.NewWriterSize(hc, p.Cfg.Hwsize))}
	if p.Fault.HijackErr {
		w.HijackErr = errors.New("script: hijack refused")
	}
	eo := &errObs{}
	u := buildUpgrader(&p.Cfg, eo)
	c, err := u.Upgrade(w, req, buildRH(&p.RH))

	status := w.Status
	if eo.called {
		status = eo.status
	}
	ecls := errClass(err)
	if eo.called && !eo.hs && ecls == "handshake" {
		ecls = "other" // the reason handed to Upgrader.Error must be the HandshakeError too
	}
	upgHdr := strings.EqualFold(strings.TrimSpace(w.hdr.Get("Upgrade")), "websocket")
	accept := ""
	if v, ok := req.Header["Sec-Websocket-Key"]; ok && len(v) > 0 {
		accept = AcceptFor(v[0])
	}
	hc.mu.Lock()
	raw := append([]byte{}, hc.Raw...)
	hc.mu.Unlock()
	sub := []int{}
	if c != nil {
		sub = bytesCP(c.Subprotocol())
	}
	o := Ev{"conn": c != nil, "err": ecls, "status": status, "upgHdr": upgHdr, "hijacked": w.Hijacked,
		"ops": hc.opsEv(), "raw": bytesCP(string(raw)), "accept": bytesCP(accept), "sub": sub,
		"body": w.Body.Len(), "errtxt": errText(err)}
	return []Ev{{"e": "Upgrade", "o": o}}
}

func errText(err error) string {
	if err == nil {
		return ""
	}
	return truncate(err.Error(), 120)
}

func init() {
	Register("upgrade", func(line []byte) ([]Ev, error) {
		var p UProg
		if err := json.Unmarshal(line, &p); err != nil {
			return nil, err
		}
		return RunUpgrade(&p), nil
	})
}
