// Package drive executes abstract programs on the real library through its
// public API and records external traces.
package drive

import (
	"bufio"
	"bytes"
	"crypto/sha1"
	"encoding/base64"
	"fmt"
	"net"
	"net/http"
	"strings"

	"github.com/gorilla/websocket"

	"wsverif/xport"
)

// ConnOpts selects the configuration of a connection obtained through the
// library's own handshake code.
type ConnOpts struct {
	Role     string // "server" | "client"
	Pmce     bool
	RBuf     int
	WBuf     int
	Pool     websocket.BufferPool
	HijackRB int // size of the hijacked bufio.Reader (server), default 4096
	HijackWB int // size of the hijacked bufio.Writer (server), default 4096
	Preload  []byte // bytes already buffered in the hijacked reader (server)
}

// fakeRW is an http.ResponseWriter + http.Hijacker over a net.Conn.
type fakeRW struct {
	conn     net.Conn
	brw      *bufio.ReadWriter
	hdr      http.Header
	Status   int
	Body     bytes.Buffer
	Hijacked bool
	HijackErr error
}

func (w *fakeRW) Header() http.Header { return w.hdr }
func (w *fakeRW) Write(p []byte) (int, error) {
	if w.Status == 0 {
		w.Status = 200
	}
	return w.Body.Write(p)
}
func (w *fakeRW) WriteHeader(s int) {
	if w.Status == 0 {
		w.Status = s
	}
}
func (w *fakeRW) Hijack() (net.Conn, *bufio.ReadWriter, error) {
	if w.HijackErr != nil {
		return nil, nil, w.HijackErr
	}
	w.Hijacked = true
	return w.conn, w.brw, nil
}

const testKey = "dGhlIHNhbXBsZSBub25jZQ=="

// AcceptFor computes the RFC 6455 accept digest (independent of the library).
func AcceptFor(key string) string {
	h := sha1.New()
	h.Write([]byte(key + "258EAFA5-E914-47DA-95CA-C5AB0DC85B11"))
	return base64.StdEncoding.EncodeToString(h.Sum(nil))
}

// NewConn obtains a *websocket.Conn of the requested role over sc using the
// public handshake API. For a client, the scripted reply is prepended to sc's
// inbound script. After return, sc's op log and counters are reset so that
// observations start at the first post-handshake operation.
func NewConn(sc *xport.ScriptConn, o ConnOpts) (*websocket.Conn, error) {
	if o.Role == "server" {
		req, _ := http.NewRequest("GET", "http://example.test/ws", nil)
		req.Header.Set("Connection", "Upgrade")
		req.Header.Set("Upgrade", "websocket")
		req.Header.Set("Sec-Websocket-Version", "13")
		req.Header.Set("Sec-Websocket-Key", testKey)
		if o.Pmce {
			req.Header.Set("Sec-Websocket-Extensions", "permessage-deflate; client_max_window_bits")
		}
		hrb, hwb := o.HijackRB, o.HijackWB
		if hrb == 0 {
			hrb = 4096
		}
		if hwb == 0 {
			hwb = 4096
		}
		br := bufio.NewReaderSize(sc, hrb)
		if len(o.Preload) > 0 {
			// Make the reader hold the preload bytes: they are the first
			// inbound chunk of sc; Peek pulls them in.
			if _, err := br.Peek(len(o.Preload)); err != nil {
				return nil, fmt.Errorf("preload: %v", err)
			}
		}
		w := &fakeRW{conn: sc, hdr: http.Header{}, brw: bufio.NewReadWriter(br, bufio.NewWriterSize(sc, hwb))}
		u := websocket.Upgrader{ReadBufferSize: o.RBuf, WriteBufferSize: o.WBuf, EnableCompression: o.Pmce, WriteBufferPool: o.Pool}
		c, err := u.Upgrade(w, req, nil)
		if err != nil {
			return nil, err
		}
		sc.ResetLog()
		return c, nil
	}
	// client
	reply := xport.Chunk{Gen: func() []byte {
		reqb := sc.Written()
		key := ""
		for _, line := range strings.Split(string(reqb), "\r\n") {
			if strings.HasPrefix(strings.ToLower(line), "sec-websocket-key:") {
				key = strings.TrimSpace(line[len("sec-websocket-key:"):])
			}
		}
		r := "HTTP/1.1 101 Switching Protocols\r\nUpgrade: websocket\r\nConnection: Upgrade\r\nSec-WebSocket-Accept: " + AcceptFor(key) + "\r\n"
		if o.Pmce {
			r += "Sec-WebSocket-Extensions: permessage-deflate; server_no_context_takeover; client_no_context_takeover\r\n"
		}
		return []byte(r + "\r\n")
	}}
	sc.PrependIn(reply)
	d := websocket.Dialer{
		NetDial:           func(network, addr string) (net.Conn, error) { return sc, nil },
		ReadBufferSize:    o.RBuf,
		WriteBufferSize:   o.WBuf,
		EnableCompression: o.Pmce,
		WriteBufferPool:   o.Pool,
	}
	c, _, err := d.Dial("ws://example.test/ws", nil)
	if err != nil {
		return nil, err
	}
	sc.ResetLog()
	return c, nil
}
