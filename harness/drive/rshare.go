package drive

import (
	"encoding/json"
	"sync"
)

// RGroup is a group of reader programs executed concurrently, one goroutine
// per connection, in one process: the connections share nothing but the
// library's process-wide state (the inflater / deflater pools). Each
// connection's own trace must still be a behaviour of the reader model.
type RGroup struct {
	ID    string  `json:"id"`
	Progs []RProg `json:"progs"`
}

func init() {
	Register("rshare", func(line []byte) ([]Ev, error) {
		var g RGroup
		if err := json.Unmarshal(line, &g); err != nil {
			return nil, err
		}
		return RunRGroup(&g), nil
	})
}

// RunRGroup returns the traces of the group's programs, one after the other.
func RunRGroup(g *RGroup) []Ev {
	outs := make([][]Ev, len(g.Progs))
	start := make(chan struct{})
	var wg sync.WaitGroup
	for i := range g.Progs {
		wg.Add(1)
		go func(i int) {
			defer wg.Done()
			p := g.Progs[i]
			p.NoAlloc = true // TotalAlloc is process-wide: the allocation monitor is meaningless here
			<-start
			outs[i] = RunReader(&p)
		}(i)
	}
	close(start)
	wg.Wait()
	var evs []Ev
	for _, o := range outs {
		evs = append(evs, o...)
	}
	return evs
}
