package drive

// In-memory network for the client-dial family (C14 C16 C18 C07): a test CA,
// a counting / fault-injecting net.Conn wrapper for the connection returned
// by the Dialer's dial hooks, and a protocol-sniffing peer that plays HTTP(S)
// proxy, SOCKS5 proxy and TLS / plain WebSocket backend over one connection
// and logs what it saw (layer by layer).  Nothing here judges a property:
// the logs are facts for the trace specification.

import (
	"bufio"
	"bytes"
	"crypto/ecdsa"
	"crypto/elliptic"
	"crypto/rand"
	"crypto/sha1"
	"crypto/tls"
	"crypto/x509"
	"crypto/x509/pkix"
	"encoding/base64"
	"encoding/hex"
	"errors"
	"fmt"
	"io"
	"math/big"
	"net"
	"net/http"
	"os"
	"sort"
	"strconv"
	"strings"
	"sync"
	"time"

	"wsverif/wire"
)

// ---- test CA ---------------------------------------------------------------

type testCA struct {
	cert *x509.Certificate
	key  *ecdsa.PrivateKey
	pool *x509.CertPool
}

func newCA(cn string) *testCA {
	key, err := ecdsa.GenerateKey(elliptic.P256(), rand.Reader)
	if err != nil {
		panic(err)
	}
	tmpl := &x509.Certificate{
		SerialNumber:          big.NewInt(time.Now().UnixNano()),
		Subject:               pkix.Name{CommonName: cn},
		NotBefore:             time.Now().Add(-time.Hour),
		NotAfter:              time.Now().Add(24 * time.Hour),
		KeyUsage:              x509.KeyUsageCertSign | x509.KeyUsageDigitalSignature,
		BasicConstraintsValid: true,
		IsCA:                  true,
	}
	der, err := x509.CreateCertificate(rand.Reader, tmpl, tmpl, &key.PublicKey, key)
	if err != nil {
		panic(err)
	}
	cert, _ := x509.ParseCertificate(der)
	pool := x509.NewCertPool()
	pool.AddCert(cert)
	return &testCA{cert: cert, key: key, pool: pool}
}

var (
	caOnce    sync.Once
	caGood    *testCA // trusted by the client
	caRogue   *testCA // not trusted by the client
	leafMu    sync.Mutex
	leafCache = map[string]*tls.Certificate{}
	leafSeq   int64
)

func initCA() {
	caOnce.Do(func() {
		caGood = newCA("wsverif test CA")
		caRogue = newCA("wsverif rogue CA")
	})
}

// leafFor returns a certificate signed by ca whose SANs are exactly names
// (DNS names or IP literals).
func leafFor(ca *testCA, names []string) *tls.Certificate {
	initCA()
	key := fmt.Sprintf("%p|%s", ca, strings.Join(names, ","))
	leafMu.Lock()
	defer leafMu.Unlock()
	if c, ok := leafCache[key]; ok {
		return c
	}
	k, err := ecdsa.GenerateKey(elliptic.P256(), rand.Reader)
	if err != nil {
		panic(err)
	}
	leafSeq++
	tmpl := &x509.Certificate{
		SerialNumber: big.NewInt(1000 + leafSeq),
		Subject:      pkix.Name{CommonName: "wsverif leaf"},
		NotBefore:    time.Now().Add(-time.Hour),
		NotAfter:     time.Now().Add(24 * time.Hour),
		KeyUsage:     x509.KeyUsageDigitalSignature,
		ExtKeyUsage:  []x509.ExtKeyUsage{x509.ExtKeyUsageServerAuth},
	}
	for _, n := range names {
		if ip := net.ParseIP(n); ip != nil {
			tmpl.IPAddresses = append(tmpl.IPAddresses, ip)
		} else {
			tmpl.DNSNames = append(tmpl.DNSNames, n)
		}
	}
	der, err := x509.CreateCertificate(rand.Reader, tmpl, ca.cert, &k.PublicKey, ca.key)
	if err != nil {
		panic(err)
	}
	c := &tls.Certificate{Certificate: [][]byte{der}, PrivateKey: k}
	leafCache[key] = c
	return c
}

// ---- errors ----------------------------------------------------------------

type dTimeoutErr struct{}

func (dTimeoutErr) Error() string   { return "verif: i/o timeout" }
func (dTimeoutErr) Timeout() bool   { return true }
func (dTimeoutErr) Temporary() bool { return true }

var (
	errDInjected = errors.New("verif: injected transport error")
	errDHook     = errors.New("verif: dial hook refused")
)

// ---- the run: shared state of one Dial call ---------------------------------

// DFault makes the K-th transport operation (1-based, counted over all
// connections obtained in this dial) fail.
type DFault struct {
	K    int    `json:"k"`
	Kind string `json:"kind"` // error | timeout | eof
}

type opRec struct {
	C      int
	Kind   string // R W SD SRD SWD C
	Zero   bool   // deadline argument is the zero time
	Flt    string // fault kind injected at this op ("" = none)
	How    string // stalled op: deadline | closed | unbounded | imm
	Within bool   // stalled op: ended no later than the configured bound
}

type dialRun struct {
	mu        sync.Mutex
	k         int
	ops       []*opRec
	fault     DFault
	stall     bool      // a timeout fault blocks until deadline-or-close
	bound     time.Time // latest admissible deadline (zero: none configured)
	hasBnd    bool
	slack     time.Duration
	conns     []*dconn
	hooks     []Ev
	layers    []Ev
	peers     sync.WaitGroup
	keyIDs    *keyTable
	loopConns []net.Conn
	prevKey   string
	replyLen  int // bytes of the scripted reply to the opening handshake (0: none was sent)
	replyHdr  int // ... of which header block
	nsegs     int // number of transport writes the reply was handed over in
}

type keyTable struct {
	mu  sync.Mutex
	ids map[string]int
}

func (t *keyTable) id(k string) int {
	t.mu.Lock()
	defer t.mu.Unlock()
	if t.ids == nil {
		t.ids = map[string]int{}
	}
	if i, ok := t.ids[k]; ok {
		return i
	}
	i := len(t.ids) + 1
	t.ids[k] = i
	return i
}

func (r *dialRun) addLayer(e Ev) {
	r.mu.Lock()
	r.layers = append(r.layers, e)
	r.mu.Unlock()
}

// ---- dconn: the connection handed to the library ---------------------------

type dconn struct {
	under  net.Conn
	run    *dialRun
	idx    int
	mu     sync.Mutex
	rd, wd time.Time
	closed bool
	chg    chan struct{} // closed and replaced whenever deadlines / closed change
	nclose int
	// direction-wise: the fault kind every further operation repeats ("" = healthy)
	stickyR, stickyW string
}

func newDConn(run *dialRun, under net.Conn) *dconn {
	w := &dconn{under: under, run: run, chg: make(chan struct{})}
	run.mu.Lock()
	w.idx = len(run.conns)
	run.conns = append(run.conns, w)
	run.mu.Unlock()
	return w
}

func (w *dconn) signal() {
	close(w.chg)
	w.chg = make(chan struct{})
}

// begin logs the operation and reports the fault to inject (if any).
func (w *dconn) begin(kind string, zero bool) (*opRec, string) {
	r := w.run
	r.mu.Lock()
	r.k++
	op := &opRec{C: w.idx, Kind: kind, Zero: zero}
	flt := ""
	if r.fault.K == r.k {
		flt = r.fault.Kind
		op.Flt = flt
	}
	r.ops = append(r.ops, op)
	r.mu.Unlock()
	return op, flt
}

func fltErr(kind string) error {
	switch kind {
	case "timeout":
		return dTimeoutErr{}
	case "eof":
		return io.EOF
	}
	return errDInjected
}

// block implements a stalled operation: it ends when the deadline armed on
// this connection (for the given direction) expires, when the connection is
// closed, or - failing both - when the watchdog gives up.
func (w *dconn) block(op *opRec, read bool) error {
	r := w.run
	if !r.stall || !r.hasBnd {
		r.mu.Lock()
		op.How = "imm"
		op.Within = true
		r.mu.Unlock()
		return dTimeoutErr{}
	}
	giveUp := r.bound.Add(r.slack)
	for {
		w.mu.Lock()
		dl := w.wd
		if read {
			dl = w.rd
		}
		closed := w.closed
		ch := w.chg
		w.mu.Unlock()
		now := time.Now()
		if closed {
			r.mu.Lock()
			op.How, op.Within = "closed", !now.After(giveUp)
			r.mu.Unlock()
			return net.ErrClosed
		}
		if !dl.IsZero() && !now.Before(dl) {
			r.mu.Lock()
			op.How, op.Within = "deadline", !dl.After(r.bound)
			r.mu.Unlock()
			return dTimeoutErr{}
		}
		if now.After(giveUp) {
			r.mu.Lock()
			op.How, op.Within = "unbounded", false
			r.mu.Unlock()
			return dTimeoutErr{}
		}
		wait := giveUp.Sub(now) + time.Millisecond
		if !dl.IsZero() && dl.Sub(now) < wait {
			wait = dl.Sub(now)
		}
		t := time.NewTimer(wait)
		select {
		case <-ch:
		case <-t.C:
		}
		t.Stop()
	}
}

// A transport that has failed stays failed: after an injected fault every later
// operation in the same direction on this connection fails in the same way
// (a broken or ended stream does not heal; a deadline that has expired keeps
// expiring until a deadline call for that direction arms a new one).  The
// repetitions are logged as faults of their own (how = "imm").
func (w *dconn) sticky(op *opRec, read bool) string {
	w.mu.Lock()
	k := w.stickyW
	if read {
		k = w.stickyR
	}
	w.mu.Unlock()
	if k != "" {
		w.run.mu.Lock()
		op.Flt, op.How, op.Within = k, "imm", true
		w.run.mu.Unlock()
	}
	return k
}

func (w *dconn) setSticky(kind string, read bool) {
	w.mu.Lock()
	if read {
		w.stickyR = kind
	} else {
		w.stickyW = kind
	}
	w.mu.Unlock()
}

func (w *dconn) Read(p []byte) (int, error) {
	op, flt := w.begin("R", false)
	switch flt {
	case "":
		if k := w.sticky(op, true); k != "" {
			return 0, fltErr(k)
		}
		return w.under.Read(p)
	case "timeout":
		err := w.block(op, true)
		w.setSticky("timeout", true)
		return 0, err
	}
	w.setSticky(flt, true)
	return 0, fltErr(flt)
}

func (w *dconn) Write(p []byte) (int, error) {
	op, flt := w.begin("W", false)
	switch flt {
	case "":
		if k := w.sticky(op, false); k != "" {
			return 0, fltErr(k)
		}
		return w.under.Write(p)
	case "timeout":
		err := w.block(op, false)
		w.setSticky("timeout", false)
		return 0, err
	}
	w.setSticky(flt, false)
	return 0, fltErr(flt)
}

func (w *dconn) setDL(kind string, t time.Time, r, wr bool) error {
	_, flt := w.begin(kind, t.IsZero())
	if flt != "" {
		return fltErr(flt)
	}
	w.mu.Lock()
	if r {
		w.rd = t
		if w.stickyR == "timeout" {
			w.stickyR = ""
		}
	}
	if wr {
		w.wd = t
		if w.stickyW == "timeout" {
			w.stickyW = ""
		}
	}
	w.signal()
	w.mu.Unlock()
	switch kind {
	case "SRD":
		w.under.SetReadDeadline(t)
	case "SWD":
		w.under.SetWriteDeadline(t)
	default:
		w.under.SetDeadline(t)
	}
	return nil
}

func (w *dconn) SetDeadline(t time.Time) error      { return w.setDL("SD", t, true, true) }
func (w *dconn) SetReadDeadline(t time.Time) error  { return w.setDL("SRD", t, true, false) }
func (w *dconn) SetWriteDeadline(t time.Time) error { return w.setDL("SWD", t, false, true) }

func (w *dconn) Close() error {
	_, flt := w.begin("C", false)
	w.mu.Lock()
	w.closed = true
	w.nclose++
	w.signal()
	w.mu.Unlock()
	err := w.under.Close()
	if flt != "" {
		return fltErr(flt)
	}
	return err
}

func (w *dconn) LocalAddr() net.Addr  { return w.under.LocalAddr() }
func (w *dconn) RemoteAddr() net.Addr { return w.under.RemoteAddr() }

// ---- the peer ----------------------------------------------------------------

// DReply describes the server's answer to the WebSocket opening handshake.
type DReply struct {
	Mode   string      `json:"mode"`   // std | raw | none (close without answering)
	Status int         `json:"status"` // std
	Reason string      `json:"reason"`
	Upg    [][]string  `json:"upg"` // header lines, each a token list
	Con    [][]string  `json:"con"`
	Acc    string      `json:"acc"` // ok | stale | other | key | absent | swap | ows | trunc | empty
	BLen   int         `json:"blen"`
	CL     bool        `json:"cl"`    // send Content-Length
	CLStr  string      `json:"clstr"` // CL: the declared value, verbatim (""  = the body length BLen); the server closes after the body
	Ext    string      `json:"ext"`   // raw Sec-WebSocket-Extensions value ("" = absent)
	Sub    string      `json:"sub"`   // Sec-WebSocket-Protocol value ("" = absent)
	Sep    string      `json:"sep"`   // token separator used when rendering lists
	Extra  [][2]string `json:"extra"` // additional header lines
	Hex    string      `json:"hex"`   // raw: bytes of the reply; "@ACCEPT@" is replaced by the right digest
	Cut    int         `json:"cut"`   // >= 0: send only the first Cut bytes, then close
	Tail   string      `json:"tail"`  // hex bytes sent right after a std reply
	// Segmentation of the reply on the transport: the reply (header block,
	// body, tail) is handed to the connection in len(Segs)+1 separate writes
	// cut at the offsets Segs (relative to the end of the header block, may
	// be negative; absolute offsets when SegAbs).  The in-memory pipe
	// preserves write boundaries, so one transport Read of the client returns
	// bytes of at most one segment.
	Segs   []int    `json:"segs"`
	SegAbs bool     `json:"segabs"`
	TailFr []TFrame `json:"tailfr"` // frames glued to a std reply (client side of the handshake boundary, C17)
}

// TFrame is one unmasked server-to-client frame glued to the 101 response.
type TFrame struct {
	Op  int  `json:"op"`
	Fin bool `json:"fin"`
	Len int  `json:"len"`
}

// tailStream renders the frames with deterministic payloads of identity
// (seed, 9000+100*dial+j) and returns the bytes together with the data
// messages they carry (type, payload), in order.
func tailStream(seed uint64, dial int, fs []TFrame) (stream []byte, types []int, msgs [][]byte) {
	var cur []byte
	curType := 0
	for j, f := range fs {
		var pay []byte
		if f.Op == 1 || (f.Op == 0 && curType == 1) {
			pay = wire.TextPay(seed, 9000+100*dial+j, f.Len)
		} else {
			pay = wire.Pay(seed, 9000+100*dial+j, f.Len)
		}
		stream = append(stream, wire.Encode(wire.Frame{Op: f.Op, Fin: f.Fin, Payload: pay})...)
		if f.Op >= 8 {
			continue
		}
		if f.Op != 0 {
			curType, cur = f.Op, nil
		}
		cur = append(cur, pay...)
		if f.Fin {
			types = append(types, curType)
			msgs = append(msgs, append([]byte{}, cur...))
			curType, cur = 0, nil
		}
	}
	return
}

// segments cuts out at the given offsets (see DReply.Segs).
func segments(out []byte, hdrLen int, segs []int, abs bool) [][]byte {
	cuts := []int{}
	for _, s := range segs {
		k := s
		if !abs {
			k = hdrLen + s
		}
		if k <= 0 || k >= len(out) {
			continue
		}
		dup := false
		for _, c := range cuts {
			if c == k {
				dup = true
			}
		}
		if !dup {
			cuts = append(cuts, k)
		}
	}
	sort.Ints(cuts)
	parts := [][]byte{}
	prev := 0
	for _, k := range cuts {
		parts = append(parts, out[prev:k])
		prev = k
	}
	return append(parts, out[prev:])
}

// DCReply describes the proxy's answer to CONNECT / the SOCKS5 request.
type DCReply struct {
	Mode   string `json:"mode"` // ok | status | raw | none
	Status int    `json:"status"`
	Reason string `json:"reason"` // "-" = no reason phrase and no space
	Hex    string `json:"hex"`
	Cut    int    `json:"cut"`
	Rep    int    `json:"rep"` // socks5 reply code for mode "status"
}

type peerCfg struct {
	proxy     string // none | http | https | socks5
	proxyHost string
	proxyUser string
	proxyPass string
	hasPass   bool
	urlHost   string // URL host without port / brackets
	otherSAN  []string
	cert      string // valid | other | untrusted
	reply     *DReply
	creply    *DCReply
	marker    string
	hdrs      []DHdr
	jarCookie string
	body      []byte
	tail      []byte // rendered TailFr
}

type bufConn struct {
	net.Conn
	br *bufio.Reader
}

func (b *bufConn) Read(p []byte) (int, error) { return b.br.Read(p) }

func lowerAll(xs []string) []string {
	out := make([]string, 0, len(xs))
	for _, x := range xs {
		out = append(out, strings.ToLower(x))
	}
	return out
}

func splitList(vals []string) []string {
	out := []string{}
	for _, v := range vals {
		for _, t := range strings.Split(v, ",") {
			t = strings.Trim(t, " \t")
			if t != "" {
				out = append(out, t)
			}
		}
	}
	return out
}

// acceptDigest is the RFC 6455 digest, written from the RFC.
func acceptDigest(key string) string {
	h := sha1.Sum([]byte(key + "258EAFA5-E914-47DA-95CA-C5AB0DC85B11"))
	return base64.StdEncoding.EncodeToString(h[:])
}

func swapCase(s string) string {
	b := []byte(s)
	for i, c := range b {
		switch {
		case 'a' <= c && c <= 'z':
			b[i] = c - 32
		case 'A' <= c && c <= 'Z':
			b[i] = c + 32
		}
	}
	return string(b)
}

// servePeer plays the remote side of one connection obtained by the Dialer.
func servePeer(run *dialRun, ci int, c net.Conn, pc *peerCfg) {
	defer run.peers.Done()
	br := bufio.NewReader(c)
	depth := 0
	inner := "none"
	tunnel := false
	for step := 0; step < 8; step++ {
		b, err := br.Peek(1)
		if err != nil {
			return
		}
		switch {
		case b[0] == 0x16:
			role := "backend"
			if pc.proxy == "https" && !tunnel && depth == 0 {
				role = "proxy"
			}
			sni := ""
			var cert *tls.Certificate
			certCls := "valid"
			if role == "proxy" {
				cert = leafFor(caGood, []string{pc.proxyHost})
			} else {
				certCls = pc.cert
				switch pc.cert {
				case "other":
					cert = leafFor(caGood, pc.otherSAN)
				case "untrusted":
					cert = leafFor(caRogue, []string{pc.urlHost})
				default:
					cert = leafFor(caGood, []string{pc.urlHost})
				}
			}
			cfg := &tls.Config{GetCertificate: func(chi *tls.ClientHelloInfo) (*tls.Certificate, error) {
				sni = chi.ServerName
				return cert, nil
			}}
			tc := tls.Server(&bufConn{Conn: c, br: br}, cfg)
			herr := tc.Handshake()
			run.addLayer(Ev{"t": "tls", "c": ci, "role": role, "sni": sni, "done": herr == nil, "cert": certCls, "depth": depth})
			if herr != nil {
				return
			}
			c = tc
			br = bufio.NewReader(c)
			depth++
			inner = role
		case b[0] == 0x05 && !tunnel:
			if !serveSocks(run, ci, c, br, pc, depth) {
				return
			}
			tunnel = true
		case b[0] == 'C':
			req, err := http.ReadRequest(br)
			if err != nil {
				run.addLayer(Ev{"t": "junk", "c": ci, "what": "bad CONNECT", "depth": depth})
				return
			}
			auth, authOK := "none", false
			pa := req.Header["Proxy-Authorization"]
			if len(pa) > 0 {
				auth = "other"
				if len(pa) == 1 && strings.HasPrefix(pa[0], "Basic ") {
					auth = "basic"
					if dec, err := base64.StdEncoding.DecodeString(pa[0][6:]); err == nil {
						authOK = string(dec) == pc.proxyUser+":"+pc.proxyPass
					}
				}
			}
			run.addLayer(Ev{"t": "connect", "c": ci, "method": req.Method, "target": req.RequestURI, "hosth": req.Host,
				"auth": auth, "authok": authOK, "depth": depth, "inner": inner})
			var out []byte
			cut := -1
			switch pc.creply.Mode {
			case "none":
				c.Close()
				return
			case "raw":
				out, _ = hex.DecodeString(pc.creply.Hex)
				cut = pc.creply.Cut
			case "status":
				if pc.creply.Reason == "-" {
					out = []byte(fmt.Sprintf("HTTP/1.1 %03d\r\n\r\n", pc.creply.Status))
				} else {
					out = []byte(fmt.Sprintf("HTTP/1.1 %03d %s\r\n\r\n", pc.creply.Status, pc.creply.Reason))
				}
			default:
				out = []byte("HTTP/1.1 200 Connection established\r\n\r\n")
			}
			if cut >= 0 && cut < len(out) {
				c.Write(out[:cut])
				c.Close()
				return
			}
			if _, err := c.Write(out); err != nil {
				return
			}
			if pc.creply.Mode == "raw" {
				// A scripted peer never stalls: after a raw reply the proxy has said
				// everything and half-closes (the client sees EOF, not silence).
				if cw, ok := c.(interface{ CloseWrite() error }); ok {
					cw.CloseWrite()
				} else {
					c.Close()
					return
				}
			}
			tunnel = true
		case b[0] == 'G':
			serveGet(run, ci, c, br, pc, depth, inner)
			return
		default:
			run.addLayer(Ev{"t": "junk", "c": ci, "what": fmt.Sprintf("byte %#x", b[0]), "depth": depth})
			return
		}
	}
}

func serveSocks(run *dialRun, ci int, c net.Conn, br *bufio.Reader, pc *peerCfg, depth int) bool {
	hd := make([]byte, 2)
	if _, err := io.ReadFull(br, hd); err != nil {
		return false
	}
	methods := make([]byte, int(hd[1]))
	if _, err := io.ReadFull(br, methods); err != nil {
		return false
	}
	ms := []int{}
	offersUP := false
	for _, m := range methods {
		ms = append(ms, int(m))
		if m == 2 {
			offersUP = true
		}
	}
	usedUP, user, pass := false, "", ""
	if offersUP && pc.proxyUser != "" {
		c.Write([]byte{5, 2})
		h := make([]byte, 2)
		if _, err := io.ReadFull(br, h); err != nil {
			return false
		}
		u := make([]byte, int(h[1]))
		io.ReadFull(br, u)
		pl := make([]byte, 1)
		if _, err := io.ReadFull(br, pl); err != nil {
			return false
		}
		p := make([]byte, int(pl[0]))
		io.ReadFull(br, p)
		usedUP, user, pass = true, string(u), string(p)
		c.Write([]byte{1, 0})
	} else {
		c.Write([]byte{5, 0})
	}
	rq := make([]byte, 4)
	if _, err := io.ReadFull(br, rq); err != nil {
		return false
	}
	host := ""
	switch rq[3] {
	case 1:
		a := make([]byte, 4)
		io.ReadFull(br, a)
		host = net.IP(a).String()
	case 4:
		a := make([]byte, 16)
		io.ReadFull(br, a)
		host = net.IP(a).String()
	case 3:
		l := make([]byte, 1)
		io.ReadFull(br, l)
		a := make([]byte, int(l[0]))
		io.ReadFull(br, a)
		host = string(a)
	}
	pt := make([]byte, 2)
	if _, err := io.ReadFull(br, pt); err != nil {
		return false
	}
	port := int(pt[0])<<8 | int(pt[1])
	run.addLayer(Ev{"t": "socks", "c": ci, "cmd": int(rq[1]), "atyp": int(rq[3]), "addr": host, "port": strconv.Itoa(port),
		"methods": ms, "userpass": usedUP, "credok": usedUP && user == pc.proxyUser && pass == pc.proxyPass, "depth": depth})
	switch pc.creply.Mode {
	case "none":
		c.Close()
		return false
	case "raw":
		out, _ := hex.DecodeString(pc.creply.Hex)
		if pc.creply.Cut >= 0 && pc.creply.Cut < len(out) {
			out = out[:pc.creply.Cut]
		}
		c.Write(out)
		c.Close()
		return false
	case "status":
		c.Write([]byte{5, byte(pc.creply.Rep), 0, 1, 0, 0, 0, 0, 0, 0})
		return true
	}
	c.Write([]byte{5, 0, 0, 1, 0, 0, 0, 0, 0, 0})
	return true
}

// serveGet reads one HTTP request head byte-wise (own parser), logs the facts
// about it and plays the scripted reply.
func serveGet(run *dialRun, ci int, c net.Conn, br *bufio.Reader, pc *peerCfg, depth int, inner string) {
	var head []byte
	for !bytes.HasSuffix(head, []byte("\r\n\r\n")) {
		b, err := br.ReadByte()
		if err != nil {
			run.addLayer(Ev{"t": "junk", "c": ci, "what": "truncated request", "depth": depth})
			return
		}
		head = append(head, b)
		if len(head) > 1<<20 {
			run.addLayer(Ev{"t": "junk", "c": ci, "what": "request too long", "depth": depth})
			return
		}
	}
	lines := strings.Split(strings.TrimSuffix(string(head), "\r\n\r\n"), "\r\n")
	rl := strings.Split(lines[0], " ")
	method, tgt, proto := "", "", ""
	if len(rl) == 3 {
		method, tgt, proto = rl[0], rl[1], rl[2]
	}
	hv := map[string][]string{}
	wellformed := len(rl) == 3
	for _, l := range lines[1:] {
		i := strings.IndexByte(l, ':')
		if i <= 0 {
			wellformed = false
			continue
		}
		name := strings.ToLower(l[:i])
		if strings.ContainsAny(name, " \t") {
			wellformed = false
		}
		hv[name] = append(hv[name], strings.Trim(l[i+1:], " \t"))
	}
	_, stdErr := http.ReadRequest(bufio.NewReader(bytes.NewReader(head)))
	key := ""
	if len(hv["sec-websocket-key"]) > 0 {
		key = hv["sec-websocket-key"][0]
	}
	keyLen := -1
	if dec, err := base64.StdEncoding.DecodeString(key); err == nil {
		keyLen = len(dec)
	}
	cnt := Ev{}
	for _, n := range []string{"host", "upgrade", "connection", "sec-websocket-version", "sec-websocket-key", "sec-websocket-extensions", "sec-websocket-protocol"} {
		cnt[strings.ReplaceAll(strings.TrimPrefix(n, "sec-websocket-"), "-", "")] = len(hv[n])
	}
	exts := []string{}
	for _, e := range splitList(hv["sec-websocket-extensions"]) {
		name := strings.Trim(strings.SplitN(e, ";", 2)[0], " \t")
		exts = append(exts, strings.ToLower(name))
	}
	// Caller headers: for the i-th [k, v] the caller supplied, seen[i] says whether
	// v is among the values of field k on the wire (as a field line of its own or
	// as an element of a comma-joined line), pos[i] its position among those
	// values (1-based, 0 = absent).  Values are matched front to back, so that
	// pos tells whether several values of one field kept the caller's order.
	seen := []bool{}
	pos := []int{}
	flat := map[string][]string{}
	last := map[string]int{}
	for _, h := range pc.hdrs {
		k := strings.ToLower(h.K)
		if _, ok := flat[k]; !ok {
			vals := []string{}
			for _, line := range hv[k] {
				if strings.Contains(h.V, ",") || !strings.Contains(line, ",") {
					vals = append(vals, line)
					continue
				}
				for _, el := range strings.Split(line, ",") {
					vals = append(vals, strings.Trim(el, " \t"))
				}
			}
			flat[k] = vals
		}
		at := 0
		for j := last[k]; j < len(flat[k]); j++ {
			if flat[k][j] == h.V {
				at = j + 1
				break
			}
		}
		if at == 0 {
			for j, v := range flat[k] {
				if v == h.V {
					at = j + 1
					break
				}
			}
		} else {
			last[k] = at
		}
		seen = append(seen, at > 0)
		pos = append(pos, at)
	}
	jar := false
	for _, v := range hv["cookie"] {
		if pc.jarCookie != "" && strings.Contains(v, pc.jarCookie) {
			jar = true
		}
	}
	hosth := ""
	if len(hv["host"]) > 0 {
		hosth = hv["host"][0]
	}
	ver := hv["sec-websocket-version"]
	if ver == nil {
		ver = []string{}
	}
	run.mu.Lock()
	prev := run.prevKey
	run.mu.Unlock()
	run.addLayer(Ev{"t": "get", "c": ci, "depth": depth, "inner": inner, "method": method, "tgt": tgt, "proto": proto,
		"wf": wellformed, "std": stdErr == nil, "hosth": hosth, "cnt": cnt,
		"upg": lowerAll(splitList(hv["upgrade"])), "con": lowerAll(splitList(hv["connection"])), "ver": ver,
		"keylen": keyLen, "keyid": run.keyIDs.id(key), "protos": splitList(hv["sec-websocket-protocol"]),
		"exts": exts, "seen": seen, "pos": pos, "jar": jar})
	run.mu.Lock()
	run.prevKey = key
	run.mu.Unlock()

	rp := pc.reply
	var out []byte
	hdrLen := 0
	switch rp.Mode {
	case "none":
		c.Close()
		return
	case "raw":
		out, _ = hex.DecodeString(rp.Hex)
		out = bytes.ReplaceAll(out, []byte("@ACCEPT@"), []byte(acceptDigest(key)))
	default:
		var sb strings.Builder
		reason := rp.Reason
		if reason == "" {
			reason = http.StatusText(rp.Status)
		}
		fmt.Fprintf(&sb, "HTTP/1.1 %03d %s\r\n", rp.Status, reason)
		sep := rp.Sep
		if sep == "" {
			sep = ", "
		}
		for _, l := range rp.Upg {
			fmt.Fprintf(&sb, "Upgrade: %s\r\n", strings.Join(l, sep))
		}
		for _, l := range rp.Con {
			fmt.Fprintf(&sb, "Connection: %s\r\n", strings.Join(l, sep))
		}
		good := acceptDigest(key)
		switch rp.Acc {
		case "ok":
			fmt.Fprintf(&sb, "Sec-WebSocket-Accept: %s\r\n", good)
		case "ows":
			fmt.Fprintf(&sb, "Sec-WebSocket-Accept:  \t%s \t\r\n", good)
		case "stale":
			fmt.Fprintf(&sb, "Sec-WebSocket-Accept: %s\r\n", acceptDigest(prev))
		case "other":
			fmt.Fprintf(&sb, "Sec-WebSocket-Accept: %s\r\n", acceptDigest(testKey))
		case "key":
			fmt.Fprintf(&sb, "Sec-WebSocket-Accept: %s\r\n", key)
		case "swap":
			fmt.Fprintf(&sb, "Sec-WebSocket-Accept: %s\r\n", swapCase(good))
		case "lower":
			fmt.Fprintf(&sb, "Sec-WebSocket-Accept: %s\r\n", strings.ToLower(good))
		case "trunc":
			fmt.Fprintf(&sb, "Sec-WebSocket-Accept: %s\r\n", good[:len(good)-2])
		case "twice":
			fmt.Fprintf(&sb, "Sec-WebSocket-Accept: %s\r\nSec-WebSocket-Accept: %s\r\n", acceptDigest(testKey), good)
		case "empty":
			sb.WriteString("Sec-WebSocket-Accept:\r\n")
		}
		if rp.Ext != "" {
			fmt.Fprintf(&sb, "Sec-WebSocket-Extensions: %s\r\n", rp.Ext)
		}
		if rp.Sub != "" {
			fmt.Fprintf(&sb, "Sec-WebSocket-Protocol: %s\r\n", rp.Sub)
		}
		for _, kv := range rp.Extra {
			fmt.Fprintf(&sb, "%s: %s\r\n", kv[0], kv[1])
		}
		fmt.Fprintf(&sb, "X-Verif-Id: %s\r\n", pc.marker)
		if rp.CL && rp.CLStr != "" {
			fmt.Fprintf(&sb, "Content-Length: %s\r\n", rp.CLStr)
		} else if rp.CL {
			fmt.Fprintf(&sb, "Content-Length: %d\r\n", rp.BLen)
		}
		sb.WriteString("\r\n")
		hdrLen = sb.Len()
		out = append([]byte(sb.String()), pc.body[:rp.BLen]...)
		if rp.Tail != "" {
			t, _ := hex.DecodeString(rp.Tail)
			out = append(out, t...)
		}
		out = append(out, pc.tail...)
	}
	if rp.Mode == "raw" {
		if i := bytes.Index(out, []byte("\r\n\r\n")); i >= 0 {
			hdrLen = i + 4
		}
	}
	if rp.Cut >= 0 && rp.Cut < len(out) {
		c.Write(out[:rp.Cut])
		c.Close()
		return
	}
	parts := segments(out, hdrLen, rp.Segs, rp.SegAbs)
	run.mu.Lock()
	run.replyLen, run.replyHdr, run.nsegs = len(out), hdrLen, len(parts)
	run.mu.Unlock()
	for _, part := range parts {
		if _, err := c.Write(part); err != nil {
			break
		}
	}
	if rp.Mode == "raw" || (rp.Mode == "std" && (rp.BLen > 0 || !rp.CL || rp.CLStr != "") && rp.Status != 101) {
		// a server that has said everything closes (ends bodies delimited by EOF)
		c.Close()
		return
	}
	if len(pc.tail) > 0 {
		// the server has sent its frames and will send nothing more: half-close, so
		// that the client reads end-of-stream after the glued frames (its own
		// writes, e.g. a pong, still succeed)
		if cw, ok := c.(interface{ CloseWrite() error }); ok {
			cw.CloseWrite()
		}
	}
}

// ---- qpipe: in-memory duplex connection --------------------------------------
//
// Like net.Pipe it preserves write boundaries (a Read returns bytes of at most
// one Write of the other side, so the sequence of transport operations seen by
// the library does not depend on goroutine timing), but Write never blocks
// (like a socket with a large send buffer).

type qhalf struct {
	mu     sync.Mutex
	chunks [][]byte
	closed bool          // the writing side has closed
	wake   chan struct{} // replaced at every change
}

func newQHalf() *qhalf { return &qhalf{wake: make(chan struct{})} }

func (h *qhalf) signal() {
	close(h.wake)
	h.wake = make(chan struct{})
}

type qconn struct {
	in, out *qhalf
	mu      sync.Mutex
	rdl     time.Time
	lclosed bool
	lwake   chan struct{}
}

func qPipe() (*qconn, *qconn) {
	a, b := newQHalf(), newQHalf()
	return &qconn{in: a, out: b, lwake: make(chan struct{})}, &qconn{in: b, out: a, lwake: make(chan struct{})}
}

func (c *qconn) Read(p []byte) (int, error) {
	for {
		c.mu.Lock()
		lclosed, dl, lw := c.lclosed, c.rdl, c.lwake
		c.mu.Unlock()
		if lclosed {
			return 0, io.ErrClosedPipe
		}
		h := c.in
		h.mu.Lock()
		if len(h.chunks) > 0 {
			n := copy(p, h.chunks[0])
			if n == len(h.chunks[0]) {
				h.chunks = h.chunks[1:]
			} else {
				h.chunks[0] = h.chunks[0][n:]
			}
			h.mu.Unlock()
			return n, nil
		}
		if h.closed {
			h.mu.Unlock()
			return 0, io.EOF
		}
		wk := h.wake
		h.mu.Unlock()
		if len(p) == 0 {
			return 0, nil
		}
		var tc <-chan time.Time
		var t *time.Timer
		if !dl.IsZero() {
			d := time.Until(dl)
			if d <= 0 {
				return 0, os.ErrDeadlineExceeded
			}
			t = time.NewTimer(d)
			tc = t.C
		}
		select {
		case <-wk:
		case <-lw:
		case <-tc:
		}
		if t != nil {
			t.Stop()
		}
	}
}

func (c *qconn) Write(p []byte) (int, error) {
	c.mu.Lock()
	lclosed := c.lclosed
	c.mu.Unlock()
	if lclosed {
		return 0, io.ErrClosedPipe
	}
	h := c.out
	h.mu.Lock()
	defer h.mu.Unlock()
	if h.closed {
		return 0, io.ErrClosedPipe
	}
	if len(p) > 0 {
		h.chunks = append(h.chunks, append([]byte(nil), p...))
		h.signal()
	}
	return len(p), nil
}

func (c *qconn) Close() error {
	c.mu.Lock()
	if c.lclosed {
		c.mu.Unlock()
		return nil
	}
	c.lclosed = true
	close(c.lwake)
	c.lwake = make(chan struct{})
	c.mu.Unlock()
	c.out.mu.Lock()
	c.out.closed = true
	c.out.signal()
	c.out.mu.Unlock()
	// the other side can no longer be written to either
	c.in.mu.Lock()
	c.in.closed = true
	c.in.signal()
	c.in.mu.Unlock()
	return nil
}

// CloseWrite half-closes: the other side reads EOF after the queued bytes.
func (c *qconn) CloseWrite() error {
	c.out.mu.Lock()
	c.out.closed = true
	c.out.signal()
	c.out.mu.Unlock()
	return nil
}

func (c *qconn) SetReadDeadline(t time.Time) error {
	c.mu.Lock()
	c.rdl = t
	close(c.lwake)
	c.lwake = make(chan struct{})
	c.mu.Unlock()
	return nil
}
func (c *qconn) SetWriteDeadline(t time.Time) error { return nil }
func (c *qconn) SetDeadline(t time.Time) error      { return c.SetReadDeadline(t) }
func (c *qconn) LocalAddr() net.Addr                { return qaddr{} }
func (c *qconn) RemoteAddr() net.Addr               { return qaddr{} }

type qaddr struct{}

func (qaddr) Network() string { return "verif" }
func (qaddr) String() string  { return "verif" }
