package drive

import (
	"encoding/json"

	"wsverif/wire"
)

// PProg is a round-trip program (C01): a write program on connection A, whose
// captured wire bytes are then presented, re-chunked, to a real connection B
// of the opposite role running a read program.
type PProg struct {
	ID    string `json:"id"`
	W     WProg  `json:"w"`
	RBuf  int    `json:"rbuf"`
	Chunk string `json:"chunk"`
	Reads []ROp  `json:"reads"`
	Seed  uint64 `json:"seed"`
	Limit bool   `json:"limit"` // the reader sets a read limit equal to the largest message on the wire: every message is within it
}

func init() {
	Register("pair", func(line []byte) ([]Ev, error) {
		var p PProg
		if err := json.Unmarshal(line, &p); err != nil {
			return nil, err
		}
		return RunPair(&p), nil
	})
}

// RunPair returns the writer trace (tid "<id>/w") followed by the reader trace (tid "<id>/r").
func RunPair(p *PProg) []Ev {
	rewindMask()
	w := p.W
	w.Seed = p.Seed
	evs, _, wr := runWriterKeep(&w, nil, p.ID+"/w")
	if wr == nil || len(wr.conns) == 0 {
		return evs
	}
	wc := wr.conns[0]
	stream := wc.sc.Written()
	var dec wire.Decoder
	frames := dec.Feed(stream)
	// the F items of the writer trace correspond 1:1, in order, to the decoded frames
	var items []Ev
	for _, e := range evs {
		if tx, ok := e["tx"].([]interface{}); ok {
			for _, it := range tx {
				if m, ok := it.(Ev); ok && m["t"] == "F" {
					items = append(items, m)
				}
			}
		}
	}
	role := "client"
	if w.Conns[0].Role == "client" {
		role = "server"
	}
	rp := &RProg{ID: p.ID + "/r", Role: role, Pmce: w.Conns[0].Pmce, RBuf: p.RBuf, HMode: "default", Chunk: p.Chunk,
		Reads: p.Reads, Seed: p.Seed, Tail: 2}
	r := &readerRun{p: rp, role: role, expect: map[int][]byte{}}
	off := 0
	for i, f := range frames {
		rf := RFrame{Op: f.Op, Fin: f.Fin, R1: f.R1, R2: f.R2, R3: f.R3, Mk: f.Masked, Len: len(f.Payload), Lk: "n", NonMin: !f.Minimal, Code: -1}
		cf := concFrame{RFrame: rf, payload: f.Payload, start: off, hdrLen: f.HdrLen}
		off += f.HdrLen + len(f.Payload)
		cf.end = off
		if (f.Op == 1 || f.Op == 2) && i < len(items) {
			mid := -1
			if f.R1 {
				cf.Comp = "peer"
				for j := i; j < len(items); j++ {
					op := items[j]["op"].(int)
					if op < 8 && items[j]["fin"].(bool) {
						mid = items[j]["zm"].(int)
						break
					}
				}
			} else {
				mid = items[i]["m"].(int)
			}
			if pay, ok := wr.pays[mid]; ok && mid >= 0 {
				r.expect[i+1] = pay
				cf.Plain = len(pay)
			} else if mid >= 1000 && mid-1000 < len(wr.pmPay) {
				r.expect[i+1] = wr.pmPay[mid-1000]
				cf.Plain = len(wr.pmPay[mid-1000])
			} else {
				r.expect[i+1] = nil // unattributable: any delivery is a mismatch
			}
		}
		r.cf = append(r.cf, cf)
	}
	if p.Limit {
		// largest data message on the wire (sum of the payload lengths of its frames)
		max, cur := 1, 0
		for _, f := range frames {
			if f.Op == 1 || f.Op == 2 {
				cur = len(f.Payload)
			} else if f.Op == 0 {
				cur += len(f.Payload)
			} else {
				continue
			}
			if cur > max {
				max = cur
			}
		}
		rp.Limit = max
	}
	if dec.Pending() > 0 {
		// a trailing partial frame cannot occur without faults; report it
		evs = append(evs, Ev{"e": "PARTIALWIRE", "n": dec.Pending()})
	}
	return append(evs, r.run(stream)...)
}
