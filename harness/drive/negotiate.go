package drive

// Family "negotiate" (C15): compression agreement between a Dialer and an
// Upgrader. Three modes, all through the public API:
//
//	pair   a real Dialer connected to a real Upgrader through an in-memory
//	       pipe (the server side reads the request with net/http and calls
//	       Upgrade over a fake ResponseWriter/Hijacker on the pipe);
//	offer  a hand-made client offer against the real Upgrader;
//	reply  a scripted 101 reply against the real Dialer.
//
// Facts reported: the Sec-WebSocket-Extensions header lines seen on the wire
// (code points; parsed by TLC), for every message a library endpoint writes
// the RSV1 bit of its first frame as decoded by the independent codec and
// whether the wire bytes decode (inflate) to the message, what the peer's
// ReadMessage returned, and for every message fed to a library endpoint
// (compressed with RSV1 by the harness' own DEFLATE writer, or plain) whether
// it was delivered intact.

import (
	"bufio"
	"bytes"
	"encoding/json"
	"errors"
	"fmt"
	"io"
	"math/rand"
	"net"
	"net/http"
	"strings"
	"sync"
	"time"

	"github.com/gorilla/websocket"

	"wsverif/wire"
)

type NStep struct {
	Op    string `json:"op"` // send | feed | ewc | scl | open | wr | cls
	Side  string `json:"side"`
	Comp  bool   `json:"comp"`
	On    bool   `json:"on"`
	Level int    `json:"level"`
	N     int    `json:"n"` // message length (send / feed)
}

type NProgBody struct {
	Mode  string  `json:"mode"`
	DEn   bool    `json:"dEn"`
	UEn   bool    `json:"uEn"`
	Offer [][]int `json:"offer"`
	Reply [][]int `json:"reply"`
	Rhx   NRhx    `json:"rhx"`
	Steps []NStep `json:"steps"`
}

// NRhx is an application supplied Sec-WebSocket-Extensions entry of the
// responseHeader map handed to Upgrade (pair and offer modes).
type NRhx struct {
	Present bool  `json:"present"`
	Key     []int `json:"key"` // the key exactly as spelled in the map
	V       []int `json:"v"`
}

func (x *NRhx) header() http.Header {
	if !x.Present {
		return nil
	}
	return http.Header{cpBytes(x.Key): []string{cpBytes(x.V)}}
}

type NProg struct {
	ID   string    `json:"id"`
	Prog NProgBody `json:"prog"`
	Seed uint64    `json:"seed"`
}

// ---- in-memory pipe ---------------------------------------------------------

type pipeBuf struct {
	mu       sync.Mutex
	cond     *sync.Cond
	data     []byte
	closed   bool
	nonblock bool
}

func newPipeBuf() *pipeBuf {
	b := &pipeBuf{}
	b.cond = sync.NewCond(&b.mu)
	return b
}

type wouldBlock struct{}

func (wouldBlock) Error() string   { return "pipe: no data (would block)" }
func (wouldBlock) Timeout() bool   { return true }
func (wouldBlock) Temporary() bool { return true }

func (b *pipeBuf) read(p []byte) (int, error) {
	b.mu.Lock()
	defer b.mu.Unlock()
	for len(b.data) == 0 {
		if b.closed {
			return 0, errors.New("pipe: closed")
		}
		if b.nonblock {
			return 0, wouldBlock{}
		}
		b.cond.Wait()
	}
	n := copy(p, b.data)
	b.data = b.data[n:]
	return n, nil
}

func (b *pipeBuf) write(p []byte) {
	b.mu.Lock()
	b.data = append(b.data, p...)
	b.mu.Unlock()
	b.cond.Broadcast()
}

func (b *pipeBuf) replace(p []byte) {
	b.mu.Lock()
	b.data = append([]byte{}, p...)
	b.mu.Unlock()
	b.cond.Broadcast()
}

func (b *pipeBuf) setNonblock() {
	b.mu.Lock()
	b.nonblock = true
	b.mu.Unlock()
	b.cond.Broadcast()
}

func (b *pipeBuf) close() {
	b.mu.Lock()
	b.closed = true
	b.mu.Unlock()
	b.cond.Broadcast()
}

// pipeEnd is one end of the pipe; everything the endpoint writes is also
// appended to Log (the wire tap).
type pipeEnd struct {
	in, out *pipeBuf
	mu      sync.Mutex
	Log     []byte
	name    string
}

func (e *pipeEnd) Read(p []byte) (int, error) { return e.in.read(p) }
func (e *pipeEnd) Write(p []byte) (int, error) {
	e.mu.Lock()
	e.Log = append(e.Log, p...)
	e.mu.Unlock()
	e.out.write(p)
	return len(p), nil
}
func (e *pipeEnd) Close() error                       { e.in.close(); e.out.close(); return nil }
func (e *pipeEnd) LocalAddr() net.Addr                { return pipeAddr(e.name) }
func (e *pipeEnd) RemoteAddr() net.Addr               { return pipeAddr("peer-of-" + e.name) }
func (e *pipeEnd) SetDeadline(t time.Time) error      { return nil }
func (e *pipeEnd) SetReadDeadline(t time.Time) error  { return nil }
func (e *pipeEnd) SetWriteDeadline(t time.Time) error { return nil }
func (e *pipeEnd) logged() []byte {
	e.mu.Lock()
	defer e.mu.Unlock()
	return append([]byte{}, e.Log...)
}

type pipeAddr string

func (a pipeAddr) Network() string { return "mem" }
func (a pipeAddr) String() string  { return string(a) }

func newPipe() (c, s *pipeEnd) {
	c2s, s2c := newPipeBuf(), newPipeBuf()
	return &pipeEnd{in: s2c, out: c2s, name: "client"}, &pipeEnd{in: c2s, out: s2c, name: "server"}
}

// ---- header extraction (abstraction function) -------------------------------

// headerLines returns the values of all header lines called name (ASCII
// case-insensitive) of the HTTP message head at the start of raw, each
// trimmed of surrounding SP/HTAB, as code point sequences, and the length of
// the head (0 if incomplete).
func headerLines(raw []byte, name string) ([][]int, int) {
	end := bytes.Index(raw, []byte("\r\n\r\n"))
	out := [][]int{}
	if end < 0 {
		return out, 0
	}
	lines := strings.Split(string(raw[:end]), "\r\n")
	for _, l := range lines[1:] {
		i := strings.IndexByte(l, ':')
		if i < 0 {
			continue
		}
		if strings.EqualFold(l[:i], name) {
			out = append(out, bytesCP(strings.Trim(l[i+1:], " \t")))
		}
	}
	return out, end + 4
}

// ---- run --------------------------------------------------------------------

type negRun struct {
	p          *NProg
	cEnd, sEnd *pipeEnd
	cc, sc     *websocket.Conn // library endpoints (nil: the harness plays this side)
	dec        map[string]*wire.Decoder
	fed        map[string]int // bytes of the end's log already fed to the decoder
	rng        *rand.Rand
	open       map[string]*openMsg // side -> message writer obtained by an "open" step and not closed yet
}

// openMsg is a data message being written through NextWriter.
type openMsg struct {
	w   io.WriteCloser
	msg []byte // what the application has written to w so far
}

func RunNegotiate(p *NProg) (evs []Ev) {
	pr := &p.Prog
	evs = append(evs, Ev{"e": "Reset", "tid": p.ID, "prog": Ev{"mode": pr.Mode, "dEn": pr.DEn, "uEn": pr.UEn,
		"offer": nzz(pr.Offer), "reply": nzz(pr.Reply), "nsteps": len(pr.Steps),
		"rhx": Ev{"present": pr.Rhx.Present, "key": nz(pr.Rhx.Key), "v": nz(pr.Rhx.V)}}})
	done := make(chan []Ev, 1)
	go func() {
		var out []Ev
		defer func() {
			if v := recover(); v != nil {
				out = append(out, Ev{"e": "PANIC", "v": truncate(fmt.Sprint(v), 200)})
			}
			done <- out
		}()
		r := &negRun{p: p, dec: map[string]*wire.Decoder{"c": {}, "s": {}}, fed: map[string]int{}, open: map[string]*openMsg{}, rng: rand.New(rand.NewSource(int64(p.Seed)))}
		r.exec(&out)
	}()
	select {
	case out := <-done:
		evs = append(evs, out...)
	case <-time.After(Watchdog(20 * time.Second)):
		NoteHang()
		evs = append(evs, Ev{"e": "HANG"})
	}
	return evs
}

type dialRes struct {
	c   *websocket.Conn
	err error
}

func (r *negRun) exec(out *[]Ev) {
	pr := &r.p.Prog
	r.cEnd, r.sEnd = newPipe()
	defer r.cEnd.Close()
	var reqExt, respExt [][]int
	ok := false
	errtxt := ""

	dial := func() chan dialRes {
		ch := make(chan dialRes, 1)
		go func() {
			d := websocket.Dialer{
				NetDial:           func(network, addr string) (net.Conn, error) { return r.cEnd, nil },
				EnableCompression: pr.DEn,
			}
			c, _, err := d.Dial("ws://example.test/ws", nil)
			ch <- dialRes{c, err}
		}()
		return ch
	}
	wait := func(ch chan dialRes) dialRes {
		select {
		case x := <-ch:
			return x
		case <-time.After(10 * time.Second):
			return dialRes{nil, errors.New("harness: dial did not return")}
		}
	}

	switch pr.Mode {
	case "pair":
		ch := dial()
		br := bufio.NewReader(r.sEnd)
		req, err := http.ReadRequest(br)
		if err != nil {
			*out = append(*out, Ev{"e": "SETUPFAIL", "v": "read request: " + err.Error()})
			return
		}
		w := &fakeRW{conn: r.sEnd, hdr: http.Header{}, brw: bufio.NewReadWriter(br, bufio.NewWriter(r.sEnd))}
		u := websocket.Upgrader{EnableCompression: pr.UEn}
		sc, serr := u.Upgrade(w, req, pr.Rhx.header())
		if serr != nil {
			r.sEnd.Close()
		}
		dr := wait(ch)
		r.cc, r.sc = dr.c, sc
		ok = serr == nil && dr.err == nil
		if !ok {
			errtxt = fmt.Sprint("server: ", serr, " client: ", dr.err)
		}
		reqExt, _ = headerLines(r.cEnd.logged(), "Sec-WebSocket-Extensions")
		respExt, _ = headerLines(r.sEnd.logged(), "Sec-WebSocket-Extensions")
	case "offer":
		req, _ := http.NewRequest("GET", "http://example.test/ws", nil)
		req.Header.Set("Connection", "Upgrade")
		req.Header.Set("Upgrade", "websocket")
		req.Header.Set("Sec-Websocket-Version", "13")
		req.Header.Set("Sec-Websocket-Key", testKey)
		setLines(req.Header, "Sec-Websocket-Extensions", pr.Offer)
		br := bufio.NewReader(r.sEnd)
		w := &fakeRW{conn: r.sEnd, hdr: http.Header{}, brw: bufio.NewReadWriter(br, bufio.NewWriter(r.sEnd))}
		u := websocket.Upgrader{EnableCompression: pr.UEn}
		sc, serr := u.Upgrade(w, req, pr.Rhx.header())
		r.sc = sc
		ok = serr == nil
		if !ok {
			errtxt = serr.Error()
		}
		reqExt = linesCP(req.Header["Sec-Websocket-Extensions"])
		respExt, _ = headerLines(r.sEnd.logged(), "Sec-WebSocket-Extensions")
	case "reply":
		ch := dial()
		br := bufio.NewReader(r.sEnd)
		req, err := http.ReadRequest(br)
		if err != nil {
			*out = append(*out, Ev{"e": "SETUPFAIL", "v": "read request: " + err.Error()})
			return
		}
		rep := "HTTP/1.1 101 Switching Protocols\r\nUpgrade: websocket\r\nConnection: Upgrade\r\nSec-WebSocket-Accept: " +
			AcceptFor(req.Header.Get("Sec-Websocket-Key")) + "\r\n"
		for _, l := range pr.Reply {
			rep += "Sec-WebSocket-Extensions: " + cpBytes(l) + "\r\n"
		}
		rep += "\r\n"
		r.sEnd.out.write([]byte(rep)) // not through the tap: the harness is the server
		dr := wait(ch)
		r.cc = dr.c
		ok = dr.err == nil
		if !ok {
			errtxt = dr.err.Error()
		}
		reqExt, _ = headerLines(r.cEnd.logged(), "Sec-WebSocket-Extensions")
		respExt = nzz(pr.Reply)
	default:
		*out = append(*out, Ev{"e": "SETUPFAIL", "v": "unknown mode"})
		return
	}
	*out = append(*out, Ev{"e": "Handshake", "ok": ok, "reqExt": nzz(reqExt), "respExt": nzz(respExt), "errtxt": truncate(errtxt, 160)})
	if !ok {
		*out = append(*out, Ev{"e": "End"})
		return
	}
	// from here on reads never block: an endpoint asked to read when nothing
	// was sent to it gets a timeout error
	r.cEnd.in.setNonblock()
	r.sEnd.in.setNonblock()
	r.fed["c"] = len(r.cEnd.logged())
	r.fed["s"] = len(r.sEnd.logged())

	for i, st := range pr.Steps {
		conn := r.conn(st.Side)
		if conn == nil {
			*out = append(*out, Ev{"e": "BADSTEP", "i": i})
			return
		}
		switch st.Op {
		case "send":
			*out = append(*out, r.send(i, st, conn)...)
		case "open":
			if r.open[st.Side] != nil {
				*out = append(*out, Ev{"e": "BADSTEP", "i": i})
				return
			}
			r.newFrames(st.Side) // what was written before is not part of this message
			w, err := conn.NextWriter(websocket.TextMessage)
			if err == nil {
				r.open[st.Side] = &openMsg{w: w}
			}
			*out = append(*out, Ev{"e": "Open", "side": st.Side, "err": err != nil, "errtxt": errText(err)})
		case "wr":
			om := r.open[st.Side]
			if om == nil {
				*out = append(*out, Ev{"e": "BADSTEP", "i": i})
				return
			}
			part := wire.TextPay(r.p.Seed, 2000+i, st.N)
			_, err := om.w.Write(part)
			if err == nil {
				om.msg = append(om.msg, part...)
			}
			*out = append(*out, Ev{"e": "Wr", "side": st.Side, "n": st.N, "err": err != nil, "errtxt": errText(err)})
		case "cls":
			om := r.open[st.Side]
			if om == nil {
				*out = append(*out, Ev{"e": "BADSTEP", "i": i})
				return
			}
			delete(r.open, st.Side)
			werr := om.w.Close()
			msgs := splitMessages(r.newFrames(st.Side))
			var fr []wire.Frame
			if len(msgs) > 0 {
				fr = msgs[0]
			}
			*out = append(*out, r.msgEv("Cls", st.Side, om.msg, fr, werr, len(msgs) == 1, Ev{"implicit": false}))
		case "feed":
			*out = append(*out, r.feed(i, st, conn))
		case "ewc":
			conn.EnableWriteCompression(st.On)
			*out = append(*out, Ev{"e": "EWC", "side": st.Side, "on": st.On})
		case "scl":
			err := conn.SetCompressionLevel(st.Level)
			*out = append(*out, Ev{"e": "SCL", "side": st.Side, "level": st.Level, "err": err != nil})
		}
	}
	*out = append(*out, Ev{"e": "End"})
}

func (r *negRun) conn(side string) *websocket.Conn {
	if side == "c" {
		return r.cc
	}
	return r.sc
}

func (r *negRun) end(side string) *pipeEnd {
	if side == "c" {
		return r.cEnd
	}
	return r.sEnd
}

func other(side string) string {
	if side == "c" {
		return "s"
	}
	return "c"
}

// newFrames feeds what the endpoint of side wrote since the last call to the
// independent decoder.
func (r *negRun) newFrames(side string) []wire.Frame {
	log := r.end(side).logged()
	fr := r.dec[side].Feed(log[r.fed[side]:])
	r.fed[side] = len(log)
	return fr
}

// splitMessages groups the data frames of a decoded frame sequence into
// messages (control frames are skipped; an unfinished message is dropped).
func splitMessages(frames []wire.Frame) [][]wire.Frame {
	var out [][]wire.Frame
	var cur []wire.Frame
	for _, f := range frames {
		if f.Op >= 8 {
			continue
		}
		cur = append(cur, f)
		if f.Fin {
			out = append(out, cur)
			cur = nil
		}
	}
	return out
}

// msgEv reports one data message written by a library endpoint: the RSV1 bit
// of its first frame, whether its frames decode (inflate when RSV1 is set) to
// what the application wrote, and what the peer endpoint's ReadMessage
// returned. alone = the frames of exactly this message were on the wire.
func (r *negRun) msgEv(kind, side string, msg []byte, frames []wire.Frame, werr error, alone bool, extra Ev) Ev {
	rsv1, wireok := false, false
	var payload []byte
	wellformed := alone && len(frames) > 0 && frames[0].Op == 1
	for k, f := range frames {
		if k == 0 {
			rsv1 = f.R1
		} else if f.Op != 0 || f.R1 {
			wellformed = false
		}
		payload = append(payload, f.Payload...)
	}
	if wellformed {
		if rsv1 {
			if plain, err := wire.Inflate(payload); err == nil && bytes.Equal(plain, msg) {
				wireok = true
			}
		} else {
			wireok = bytes.Equal(payload, msg)
		}
	}
	recv := "na"
	if peer := r.conn(other(side)); peer != nil {
		t, b, err := peer.ReadMessage()
		if err == nil && t == websocket.TextMessage && bytes.Equal(b, msg) {
			recv = "ok"
		} else {
			recv = "err"
		}
	}
	ev := Ev{"e": kind, "side": side, "n": len(msg), "rsv1": rsv1, "wireok": wireok, "recv": recv, "werr": werr != nil,
		"nframes": len(frames)}
	for k, v := range extra {
		ev[k] = v
	}
	return ev
}

// send performs one WriteMessage. A message writer still open on this side is
// closed implicitly by it (reported as a Cls event before the Send event).
func (r *negRun) send(i int, st NStep, conn *websocket.Conn) []Ev {
	msg := wire.TextPay(r.p.Seed, i, st.N)
	om := r.open[st.Side]
	delete(r.open, st.Side)
	if om == nil {
		r.newFrames(st.Side) // control frames written meanwhile are not part of this message
	}
	werr := conn.WriteMessage(websocket.TextMessage, msg)
	msgs := splitMessages(r.newFrames(st.Side))
	want := 1
	var out []Ev
	if om != nil {
		want = 2
		var fr []wire.Frame
		if len(msgs) > 0 {
			fr = msgs[0]
			msgs = msgs[1:]
		}
		out = append(out, r.msgEv("Cls", st.Side, om.msg, fr, nil, len(msgs)+1 == want, Ev{"implicit": true}))
	}
	var fr []wire.Frame
	if len(msgs) > 0 {
		fr = msgs[0]
	}
	return append(out, r.msgEv("Send", st.Side, msg, fr, werr, len(msgs) == 1, nil))
}

var feedVariants = []string{wire.DefFixed, "std6", wire.DefStored, "std1", wire.DefFixed2}

func (r *negRun) feed(i int, st NStep, conn *websocket.Conn) Ev {
	n := st.N
	if n <= 0 {
		n = 1
	}
	msg := wire.TextPay(r.p.Seed, 1000+i, n)
	payload := msg
	variant := ""
	if st.Comp {
		variant = feedVariants[(i+int(r.p.Seed))%len(feedVariants)]
		var err error
		payload, err = wire.DeflateMsg(msg, variant)
		if err != nil {
			panic(err)
		}
	}
	f := wire.Frame{Op: 1, Fin: true, R1: st.Comp, Masked: st.Side == "s", Payload: payload}
	r.rng.Read(f.Key[:])
	// whatever the other endpoint has queued for this one (e.g. a close frame
	// after it refused a message) is discarded: the fed message comes first
	r.end(st.Side).in.replace(wire.Encode(f))
	t, b, err := conn.ReadMessage()
	res := "ok"
	switch {
	case err != nil:
		res = "err"
	case t != websocket.TextMessage || !bytes.Equal(b, msg):
		res = "mismatch"
	}
	return Ev{"e": "Feed", "side": st.Side, "comp": st.Comp, "res": res, "variant": variant, "errtxt": errText(err)}
}

func init() {
	Register("negotiate", func(line []byte) ([]Ev, error) {
		var p NProg
		if err := json.Unmarshal(line, &p); err != nil {
			return nil, err
		}
		return RunNegotiate(&p), nil
	})
}
