package drive

import (
	"bytes"
	"encoding/binary"
	"encoding/json"
	"errors"
	"fmt"
	"io"
	"net"
	"reflect"
	"sync"
	"time"
	"unsafe"

	"github.com/gorilla/websocket"

	"wsverif/wire"
	"wsverif/xport"
)

// WOp is one application call of a writer program.
type WOp struct {
	Op     string `json:"op"` // NW WR CL WM WC WJ WP SD EC SL
	C      int    `json:"c"`  // connection index
	Type   int    `json:"type"`
	N      int    `json:"n"`
	Via    string `json:"via"`    // WR: "w" Write | "s" WriteString | "rf" io.Copy/ReadFrom
	Chunks []int  `json:"chunks"` // rf: sizes handed out by the source reader
	EOFW   bool   `json:"eofw"`   // rf: last chunk returned together with io.EOF
	DL     string `json:"dl"`     // WC / SD deadline: zero | d1 | d2 | past
	PM     int    `json:"pm"`
	On     bool   `json:"on"`
	Level  int    `json:"level"`
}

// WConn configures one connection of a writer program.
type WConn struct {
	Role string `json:"role"`
	Pmce bool   `json:"pmce"`
	WBuf int    `json:"wbuf"`
	Pool bool   `json:"pool"`
}

// WFault injects a fault at write-side transport op K of connection C.
type WFault struct {
	C     int    `json:"c"`
	K     int    `json:"k"`
	Kind  string `json:"kind"` // err | timeout | short
	Short int    `json:"short"`
}

// WPM is a prepared message created before the program runs.
type WPM struct {
	Type   int  `json:"type"`
	N      int  `json:"n"`
	Mutate bool `json:"mutate"` // overwrite the caller's slice after creation
}

// WProg is a writer program.
type WProg struct {
	ID      string  `json:"id"`
	Conns   []WConn `json:"conns"`
	Ops     []WOp   `json:"ops"`
	Fault   *WFault `json:"fault"`
	PMs     []WPM   `json:"pms"`
	Seed    uint64  `json:"seed"`
	AllK    bool    `json:"allk"` // expand: run once per write-side op index and fault kind
	Kinds   []string `json:"kinds"`
	MinPool int      `json:"minpool"` // smallest buffer size among the connections sharing this program's pool (concurrent groups)
}

// ---- mask key source -------------------------------------------------------

type maskSource struct {
	mu     sync.Mutex
	stream []byte
	pos    int
	index  map[[4]byte]int
}

func newMaskSource() *maskSource {
	const n = 1 << 20
	m := &maskSource{stream: wire.Pay(0xC0FFEE, 77, n), index: make(map[[4]byte]int, n)}
	for i := 0; i+4 <= n; i++ {
		var k [4]byte
		copy(k[:], m.stream[i:])
		if _, dup := m.index[k]; !dup {
			m.index[k] = i
		}
	}
	return m
}

func (m *maskSource) Read(p []byte) (int, error) {
	m.mu.Lock()
	defer m.mu.Unlock()
	for i := range p {
		p[i] = m.stream[m.pos%len(m.stream)]
		m.pos++
	}
	return len(p), nil
}

func (m *maskSource) offsetOf(k [4]byte) int {
	if i, ok := m.index[k]; ok {
		return i
	}
	return -1
}

var (
	maskOnce sync.Once
	maskSrc  *maskSource
)

func installMask() *maskSource {
	maskOnce.Do(func() {
		maskSrc = newMaskSource()
		websocket.VerifSetMaskRand(maskSrc)
	})
	return maskSrc
}

// rewindMask restarts the key stream (called at the start of every program so
// that the 1 MiB stream never wraps inside a program).
func rewindMask() {
	m := installMask()
	m.mu.Lock()
	m.pos = 0
	m.mu.Unlock()
}

// ---- instrumented pool -----------------------------------------------------

type poolRec struct {
	mu    sync.Mutex
	items []interface{}
	ids   map[uintptr]int
	emit  func(Ev)
}

func bufOf(v interface{}) []byte {
	rv := reflect.ValueOf(v)
	if rv.Kind() == reflect.Struct && rv.NumField() > 0 && rv.Field(0).Kind() == reflect.Slice {
		f := rv.Field(0)
		if f.Len() == 0 {
			return nil
		}
		// the field is unexported: rebuild the slice from its pointer
		return unsafe.Slice((*byte)(unsafe.Pointer(f.Pointer())), f.Len())
	}
	return nil
}

func (p *poolRec) idOf(b []byte) int {
	if len(b) == 0 {
		return -1
	}
	k := uintptr(unsafe.Pointer(&b[0]))
	if id, ok := p.ids[k]; ok {
		return id
	}
	id := len(p.ids) + 1
	p.ids[k] = id
	return id
}

const poison = 0xA5

func (p *poolRec) Get() interface{} {
	p.mu.Lock()
	defer p.mu.Unlock()
	if len(p.items) == 0 {
		p.emit(Ev{"t": "GET", "buf": 0})
		return nil
	}
	v := p.items[len(p.items)-1]
	p.items = p.items[:len(p.items)-1]
	b := bufOf(v)
	touched := false
	for _, x := range b {
		if x != poison {
			touched = true
			break
		}
	}
	p.emit(Ev{"t": "GET", "buf": p.idOf(b)})
	if touched {
		p.emit(Ev{"t": "TOUCHED", "buf": p.idOf(b)})
	}
	return v
}

func (p *poolRec) Put(v interface{}) {
	p.mu.Lock()
	defer p.mu.Unlock()
	b := bufOf(v)
	for i := range b {
		b[i] = poison
	}
	dup := false
	for _, it := range p.items {
		ib := bufOf(it)
		if len(ib) > 0 && len(b) > 0 && &ib[0] == &b[0] {
			dup = true
		}
	}
	p.emit(Ev{"t": "PUT", "buf": p.idOf(b), "dup": dup})
	p.items = append(p.items, v)
}

func (p *poolRec) finalCheck() bool {
	p.mu.Lock()
	defer p.mu.Unlock()
	for _, it := range p.items {
		for _, x := range bufOf(it) {
			if x != poison {
				return false
			}
		}
	}
	return true
}

// ---- the run ---------------------------------------------------------------

type wconn struct {
	cfg     WConn
	sc      *xport.ScriptConn
	c       *websocket.Conn
	dec     wire.Decoder
	w       io.WriteCloser
	prevW   io.WriteCloser // a writer that has ended (closed, or superseded by a later message): stale
	curMsg  int // message id whose data frames are expected next (-1 none)
	sent    int // bytes of curMsg's payload already seen on the wire
	zbuf    []byte
	inZ     bool
	ctlMsg  int // message id of the control payload of the call in progress
	pmID    int // prepared message being sent by the call in progress (-1)
	pmSent  int
	nextMsg int  // message that starts after the FIN of the current one (-1 none)
	open    bool // a data/control message writer is open
}

// shareGroup is state shared by concurrently running writerRuns (C11: one
// PreparedMessage set and one buffer pool used by many connections at once).
type shareGroup struct {
	mu    sync.Mutex
	pool  *poolRec
	pms   []*websocket.PreparedMessage
	pmPay [][]byte
	byGid map[int64]*writerRun
}

func (g *shareGroup) route(e Ev) {
	g.mu.Lock()
	r := g.byGid[xport.GID()]
	g.mu.Unlock()
	if r != nil {
		r.emit(e)
	}
}

type writerRun struct {
	share *shareGroup
	p     *WProg
	conns []*wconn
	pays  map[int][]byte // message id -> payload
	pms   []*websocket.PreparedMessage
	pmPay [][]byte
	dls   map[string]time.Time
	mu    sync.Mutex
	tx    []interface{}
	mask  *maskSource
	errs  errTable
	xerrs map[error]bool
	pool  *poolRec
}

func (r *writerRun) emit(e Ev) {
	r.mu.Lock()
	r.tx = append(r.tx, e)
	r.mu.Unlock()
}

func (r *writerRun) takeTx() []interface{} {
	r.mu.Lock()
	t := r.tx
	r.tx = nil
	r.mu.Unlock()
	if t == nil {
		t = []interface{}{}
	}
	return t
}

func (r *writerRun) dlName(t time.Time) string {
	if t.IsZero() {
		return "zero"
	}
	for k, v := range r.dls {
		if v.Equal(t) {
			return k
		}
	}
	d := time.Until(t)
	if d > 0 && d <= 1500*time.Millisecond {
		return "auto"
	}
	return "other"
}

func (r *writerRun) classifyW(err error) Ev {
	if err == nil {
		return Ev{"cls": "nil", "id": -1}
	}
	e := Ev{"id": r.errs.id(err), "txt": truncate(err.Error(), 80)}
	var ne net.Error
	switch {
	case err == websocket.ErrCloseSent:
		e["cls"] = "closesent"
	case err == errSrc:
		e["cls"] = "src"
	case r.xerrs[err]:
		e["cls"] = "xerr"
	case errors.As(err, &ne) && ne.Timeout():
		e["cls"] = "timeout"
	default:
		e["cls"] = "other"
	}
	return e
}

// onOp converts one transport op of connection ci into tx items.
func (r *writerRun) onOp(ci int, op *xport.Op) {
	wc := r.conns[ci]
	switch op.Kind {
	case xport.OpSWD:
		r.emit(Ev{"t": "SWD", "c": ci, "d": r.dlName(op.T), "err": op.Err != nil})
	case xport.OpWrite:
		frames := wc.dec.Feed(op.Data)
		for _, f := range frames {
			r.emit(r.frameItem(ci, wc, f))
		}
		if op.Err != nil {
			r.emit(Ev{"t": "WERR", "c": ci, "pending": wc.dec.Pending(), "n": op.N})
		}
	}
}

func (r *writerRun) frameItem(ci int, wc *wconn, f wire.Frame) Ev {
	it := Ev{"t": "F", "c": ci, "op": f.Op, "fin": f.Fin, "r1": f.R1, "r2": f.R2, "r3": f.R3, "mk": f.Masked,
		"len": len(f.Payload), "lk": "n", "min": f.Minimal, "key": -1, "m": -1, "off": 0, "zm": -1, "zlen": 0, "code": -1, "zlv": []int{}}
	if f.Masked {
		it["key"] = r.mask.offsetOf(f.Key)
	}
	if f.Op >= 8 {
		if f.Op == 8 && len(f.Payload) >= 2 {
			it["code"] = int(binary.BigEndian.Uint16(f.Payload))
		}
		if wc.pmID >= 0 {
			if bytes.Equal(f.Payload, r.pmPay[wc.pmID]) {
				it["m"] = 1000 + wc.pmID
			}
		} else if p, ok := r.pays[wc.ctlMsg]; ok && bytes.Equal(f.Payload, p) {
			it["m"] = wc.ctlMsg
		}
		return it
	}
	// data / continuation frame
	var exp []byte
	mid := wc.curMsg
	if wc.pmID >= 0 {
		exp = r.pmPay[wc.pmID]
		mid = 1000 + wc.pmID
	} else {
		exp = r.pays[wc.curMsg]
	}
	sent := &wc.sent
	if wc.pmID >= 0 {
		sent = &wc.pmSent
	}
	if f.Op != 0 {
		wc.inZ = f.R1
		wc.zbuf = nil
	}
	if wc.inZ {
		wc.zbuf = append(wc.zbuf, f.Payload...)
		if f.Fin {
			plain, err := wire.Inflate(wc.zbuf)
			if err == nil && exp != nil && bytes.Equal(plain, exp) {
				it["zm"] = mid
			}
			it["zlen"] = len(plain)
			// which compression levels reproduce exactly these bytes for a single
			// Write of the whole message (empty: not attributable, e.g. chunked writes)
			lv := []int{}
			if err == nil && len(plain) > 0 && len(plain) <= 1<<17 {
				for l := -2; l <= 9; l++ {
					if c, e := wire.DeflateMsg(plain, fmt.Sprintf("std%d", l)); e == nil && bytes.Equal(c, wc.zbuf) {
						lv = append(lv, l)
					}
				}
			}
			it["zlv"] = lv
			wc.inZ = false
			wc.afterFin(f)
		}
		return it
	}
	it["off"] = *sent
	if exp != nil && *sent+len(f.Payload) <= len(exp) && bytes.Equal(exp[*sent:*sent+len(f.Payload)], f.Payload) {
		it["m"] = mid
	}
	*sent += len(f.Payload)
	wc.afterFin(f)
	return it
}

func (wc *wconn) afterFin(f wire.Frame) {
	if f.Fin && wc.pmID < 0 && wc.nextMsg >= 0 {
		wc.curMsg, wc.sent, wc.nextMsg = wc.nextMsg, 0, -1
	}
}

type chunkReader struct {
	data   []byte
	chunks []int
	eofw   bool
	fail   bool // the source fails (errSrc) instead of ending with io.EOF
}

var errSrc = errors.New("verif: source reader failed")

func (c *chunkReader) Read(p []byte) (int, error) {
	if len(c.data) == 0 {
		if c.fail {
			return 0, errSrc
		}
		return 0, io.EOF
	}
	n := len(c.data)
	if len(c.chunks) > 0 {
		if c.chunks[0] < n {
			n = c.chunks[0]
		}
		c.chunks = c.chunks[1:]
	}
	if n > len(p) {
		n = len(p)
	}
	if n == 0 {
		n = 1
	}
	copy(p, c.data[:n])
	c.data = c.data[n:]
	if len(c.data) == 0 && c.eofw {
		if c.fail {
			return n, errSrc
		}
		return n, io.EOF
	}
	return n, nil
}

func payFor(seed uint64, id, typ, n int) []byte {
	if typ == websocket.BinaryMessage {
		return wire.Pay(seed, id, n)
	}
	return wire.TextPay(seed, id, n)
}

// RunWriter executes one writer program (or, with AllK, one run per fault
// point) and returns the trace events.
func RunWriter(p *WProg) (evs []Ev) {
	rewindMask()
	if !p.AllK {
		evs, _ = runWriterOnce(p, p.Fault, p.ID)
		return evs
	}
	// dry run to count the write-side transport ops per connection
	dry, nops := runWriterOnce(p, nil, p.ID+"/dry")
	evs = append(evs, dry...)
	kinds := p.Kinds
	if len(kinds) == 0 {
		kinds = []string{"err", "timeout", "short"}
	}
	for ci := range p.Conns {
		for k := 0; k < nops[ci]; k++ {
			for _, kind := range kinds {
				f := &WFault{C: ci, K: k, Kind: kind, Short: 1 + k%3}
				e2, _ := runWriterOnce(p, f, fmt.Sprintf("%s/c%dk%d%s", p.ID, ci, k, kind))
				evs = append(evs, e2...)
			}
		}
	}
	return evs
}

func runWriterOnce(p *WProg, fault *WFault, id string) (evs []Ev, nops map[int]int) {
	evs, nops, _ = runWriterKeep(p, fault, id)
	return evs, nops
}

func runWriterKeep(p *WProg, fault *WFault, id string) (evs []Ev, nops map[int]int, r *writerRun) {
	return runWriterShared(p, fault, id, nil)
}

func runWriterShared(p *WProg, fault *WFault, id string, g *shareGroup) (evs []Ev, nops map[int]int, r *writerRun) {
	r = &writerRun{p: p, pays: map[int][]byte{}, xerrs: map[error]bool{}, share: g}
	r.mask = installMask()
	now := time.Now()
	r.dls = map[string]time.Time{"d1": now.Add(time.Hour), "d2": now.Add(2 * time.Hour), "past": now.Add(-time.Hour)}
	conns := make([]Ev, len(p.Conns))
	// connections that share a pool take whatever buffer the pool hands out: the guaranteed buffer size of a pooled
	// connection is the smallest size configured among the sharers (only "a control message larger than the buffer may
	// be rejected" depends on it)
	minPooled := p.MinPool
	for _, c := range p.Conns {
		wb := c.WBuf
		if wb <= 0 {
			wb = 4096
		}
		if c.Pool && (minPooled == 0 || wb < minPooled) {
			minPooled = wb
		}
	}
	for i, c := range p.Conns {
		wb := c.WBuf
		if wb <= 0 {
			wb = 4096
		}
		if c.Pool && minPooled > 0 {
			wb = minPooled
		}
		conns[i] = Ev{"role": c.Role, "pmce": c.Pmce, "wbuf": wb, "pool": c.Pool}
	}
	pms := make([]Ev, len(p.PMs))
	for i, m := range p.PMs {
		pms[i] = Ev{"type": m.Type, "n": m.N}
	}
	var fe interface{} = Ev{"c": -1, "k": -1, "kind": "none"}
	if fault != nil {
		fe = Ev{"c": fault.C, "k": fault.K, "kind": fault.Kind}
	}
	evs = append(evs, Ev{"e": "Reset", "tid": id, "conns": conns, "pms": pms, "fault": fe,
		"crypto": websocket.VerifMaskRandIsCryptoRand()})

	done := make(chan []Ev, 1)
	go func() {
		var out []Ev
		defer func() {
			if v := recover(); v != nil {
				out = append(out, Ev{"e": "PANIC", "v": truncate(fmt.Sprint(v), 200)})
			}
			done <- out
		}()
		if g != nil {
			g.mu.Lock()
			g.byGid[xport.GID()] = r
			g.mu.Unlock()
		}
		out = r.exec(fault, &out)
	}()
	select {
	case out := <-done:
		evs = append(evs, out...)
	case <-time.After(Watchdog(20 * time.Second)):
		NoteHang()
		evs = append(evs, Ev{"e": "HANG"})
	}
	nops = map[int]int{}
	for i, wc := range r.conns {
		for _, o := range wc.sc.Snapshot() {
			if o.WIdx >= 0 {
				nops[i]++
			}
		}
	}
	return evs, nops, r
}

func (r *writerRun) exec(fault *WFault, outp *[]Ev) (out []Ev) {
	p := r.p
	if r.share != nil {
		r.pool = r.share.pool
		r.pms, r.pmPay = r.share.pms, r.share.pmPay
	} else {
		r.pool = &poolRec{ids: map[uintptr]int{}, emit: r.emit}
	}
	for i, cc := range p.Conns {
		sc := xport.New(nil)
		sc.Block = true
		sc.QuietReads = true
		var pool websocket.BufferPool
		if cc.Pool {
			pool = r.pool
		}
		c, err := NewConn(sc, ConnOpts{Role: cc.Role, Pmce: cc.Pmce, WBuf: cc.WBuf, Pool: pool})
		if err != nil {
			return []Ev{{"e": "SETUPFAIL", "v": err.Error()}}
		}
		wc := &wconn{cfg: cc, sc: sc, c: c, curMsg: -1, ctlMsg: -1, pmID: -1, nextMsg: -1}
		r.conns = append(r.conns, wc)
		ci := i
		sc.After = func(op *xport.Op) { r.onOp(ci, op) }
		if fault != nil && fault.C == i {
			f := &xport.Fault{Kind: fault.Kind, Short: fault.Short}
			sc.Faults[fault.K] = f
		}
	}
	r.takeTx() // drop handshake-time pool events, if any
	// prepared messages
	for i, m := range p.PMs {
		if r.share != nil {
			break
		}
		pay := payFor(p.Seed, 500+i, m.Type, m.N)
		if m.Type >= 8 && m.Type != 8 {
			pay = wire.TextPay(p.Seed, 500+i, m.N)
		}
		if m.Type == 8 && m.N >= 2 {
			pay = wire.CloseBody(1000, wire.TextPay(p.Seed, 500+i, m.N-2))
		}
		keep := append([]byte{}, pay...)
		pm, err := websocket.NewPreparedMessage(m.Type, pay)
		if m.Mutate {
			for j := range pay {
				pay[j] ^= 0x5a
			}
		}
		r.pms = append(r.pms, pm)
		r.pmPay = append(r.pmPay, keep)
		out = append(out, Ev{"e": "PMNEW", "pm": i, "type": m.Type, "n": m.N, "err": r.classifyW(err), "tx": r.takeTx()})
	}
	// collect injected error identities lazily
	xerrOf := func() {
		for _, wc := range r.conns {
			for _, f := range wc.sc.Faults {
				if f.Err != nil {
					r.xerrs[f.Err] = true
				}
			}
		}
	}
	msgID := 0
	for _, op := range p.Ops {
		wc := r.conns[op.C]
		c := wc.c
		ev := Ev{"e": op.Op, "c": op.C}
		var err error
		switch op.Op {
		case "NW":
			var w io.WriteCloser
			if wc.w != nil {
				wc.prevW = wc.w
			}
			w, err = c.NextWriter(op.Type)
			// frames flushed by the implicit close belong to the previous message
			tx := r.takeTx()
			ev["type"] = op.Type
			ev["tx"] = tx
			ev["prev"] = wc.curMsg
			ev["wasopen"] = wc.open
			if err == nil {
				wc.w = w
				msgID++
				wc.curMsg, wc.sent, wc.nextMsg = msgID, 0, -1
				r.pays[msgID] = []byte{}
				ev["m"] = msgID
				wc.open = true
			} else {
				wc.w = nil
				ev["m"] = -1
				wc.open = false
			}
		case "WR":
			if wc.w == nil {
				continue
			}
			typ := websocket.TextMessage
			data := payFor(p.Seed, 100+len(out), typ, op.N)
			// extend the expected payload BEFORE the call so that frames
			// flushed during it can be attributed
			r.pays[wc.curMsg] = append(r.pays[wc.curMsg], data...)
			wc.ctlMsg = wc.curMsg
			var n int
			switch op.Via {
			case "s":
				n, err = io.WriteString(wc.w, string(data))
			case "rf":
				var n64 int64
				n64, err = io.Copy(wc.w, &chunkReader{data: data, chunks: append([]int{}, op.Chunks...), eofw: op.EOFW})
				n = int(n64)
			case "rfe":
				// the source of the copy fails after op.N bytes: the writer has taken those bytes and stays usable
				var n64 int64
				n64, err = io.Copy(wc.w, &chunkReader{data: data, chunks: append([]int{}, op.Chunks...), eofw: op.EOFW, fail: true})
				n = int(n64)
				ev["e"] = "WRS"
			default:
				n, err = wc.w.Write(data)
			}
			ev["n"], ev["ret"], ev["via"], ev["m"] = op.N, n, op.Via, wc.curMsg
			ev["tx"] = r.takeTx()
			if err != nil && err != errSrc {
				wc.open = false
			}
		case "CL":
			if wc.w == nil {
				continue
			}
			err = wc.w.Close()
			ev["m"] = wc.curMsg
			ev["tx"] = r.takeTx()
			wc.open = false
			wc.prevW = wc.w
			wc.w = nil
		case "WM":
			msgID++
			data := payFor(p.Seed, msgID, op.Type, op.N)
			if op.Type == 8 && op.N >= 2 {
				data = wire.CloseBody(1000, wire.TextPay(p.Seed, msgID, op.N-2))
			}
			r.pays[msgID] = data
			wc.ctlMsg = msgID
			ev["type"], ev["n"], ev["m"], ev["prev"], ev["wasopen"] = op.Type, op.N, msgID, wc.curMsg, wc.open
			r.preSwitch(wc, msgID)
			err = c.WriteMessage(op.Type, data)
			ev["tx"] = r.takeTx()
			if wc.w != nil {
				wc.prevW = wc.w
			}
			wc.w = nil
			wc.open = false
		case "WJ":
			msgID++
			s := string(wire.TextPay(p.Seed, msgID, op.N))
			exp, _ := json.Marshal(s)
			exp = append(exp, '\n')
			r.pays[msgID] = exp
			wc.ctlMsg = msgID
			ev["type"], ev["n"], ev["m"], ev["prev"], ev["wasopen"] = 1, len(exp), msgID, wc.curMsg, wc.open
			r.preSwitch(wc, msgID)
			err = c.WriteJSON(s)
			ev["tx"] = r.takeTx()
			wc.w = nil
			wc.open = false
		case "WRO":
			// Write on a writer that has ended (closed, or superseded by a later message): fails, writes nothing, harms nothing
			if wc.prevW == nil {
				continue
			}
			var n int
			n, err = wc.prevW.Write(payFor(p.Seed, 900+len(out), websocket.TextMessage, 3))
			ev["ret"] = n
			// ... and a second Close of it fails as well and releases nothing a second time
			ev["cerr"] = r.classifyW(wc.prevW.Close())
			ev["tx"] = r.takeTx()
		case "WJB":
			// WriteJSON of a value encoding/json cannot encode
			msgID++
			r.pays[msgID] = []byte{}
			wc.ctlMsg = msgID
			ev["type"], ev["n"], ev["m"], ev["prev"], ev["wasopen"] = 1, 0, msgID, wc.curMsg, wc.open
			r.preSwitch(wc, msgID)
			err = c.WriteJSON(map[string]interface{}{"k": []interface{}{1, make(chan int)}})
			ev["tx"] = r.takeTx()
			wc.w = nil
			wc.open = false
		case "WC":
			msgID++
			data := wire.TextPay(p.Seed, msgID, op.N)
			if op.Type == 8 && op.N >= 2 {
				data = wire.CloseBody(1000, wire.TextPay(p.Seed, msgID, op.N-2))
			}
			r.pays[msgID] = data
			wc.ctlMsg = msgID
			var dl time.Time
			if op.DL != "zero" && op.DL != "" {
				dl = r.dls[op.DL]
			}
			ev["type"], ev["n"], ev["m"], ev["dl"] = op.Type, op.N, msgID, dlOr(op.DL)
			err = c.WriteControl(op.Type, data, dl)
			ev["tx"] = r.takeTx()
		case "WJC":
			// ONE WriteJSON call during which a close frame is sent by another path: the value's MarshalJSON
			// (which runs after WriteJSON has opened its message writer) calls WriteControl. Reported as the
			// three steps it consists of: NW (the writer opened by WriteJSON), WC, CL (the end of WriteJSON:
			// the message must not be reported as sent).
			called := false
			prevMsg, wasOpen := wc.curMsg, wc.open
			nwID := -1
			hook := func() {
				called = true
				tx := r.takeTx()
				msgID++
				nwID = msgID
				wc.curMsg, wc.sent, wc.nextMsg = msgID, 0, -1
				r.pays[msgID] = []byte{}
				wc.open = true
				out = append(out, Ev{"e": "NW", "c": op.C, "type": 1, "tx": tx, "prev": prevMsg, "wasopen": wasOpen, "m": msgID, "err": r.classifyW(nil)})
				msgID++
				data := wire.TextPay(p.Seed, msgID, op.N)
				if op.Type == 8 && op.N >= 2 {
					data = wire.CloseBody(1000, wire.TextPay(p.Seed, msgID, op.N-2))
				}
				r.pays[msgID] = data
				wc.ctlMsg = msgID
				var dl time.Time
				if op.DL != "zero" && op.DL != "" {
					dl = r.dls[op.DL]
				}
				e2 := c.WriteControl(op.Type, data, dl)
				xerrOf()
				out = append(out, Ev{"e": "WC", "c": op.C, "type": op.Type, "n": op.N, "m": msgID, "dl": dlOr(op.DL), "tx": r.takeTx(), "err": r.classifyW(e2)})
			}
			err = c.WriteJSON(&hookValue{f: hook})
			wc.w = nil
			wc.open = false
			if !called {
				// NextWriter failed inside WriteJSON
				ev["e"], ev["type"], ev["tx"], ev["prev"], ev["wasopen"], ev["m"] = "NW", 1, r.takeTx(), prevMsg, wasOpen, -1
			} else {
				ev["e"], ev["m"], ev["tx"] = "CL", nwID, r.takeTx()
			}
		case "WP":
			wc.pmID, wc.pmSent = op.PM, 0
			ev["pm"] = op.PM
			err = c.WritePreparedMessage(r.pms[op.PM])
			ev["tx"] = r.takeTx()
			wc.pmID = -1
		case "SD":
			var dl time.Time
			if op.DL != "zero" && op.DL != "" {
				dl = r.dls[op.DL]
			}
			err = c.SetWriteDeadline(dl)
			ev["dl"] = dlOr(op.DL)
			ev["tx"] = r.takeTx()
		case "XC":
			// Close() of the connection (allowed at any moment, C11): closes the transport only
			err = c.Close()
			ev["tx"] = r.takeTx()
		case "EC":
			c.EnableWriteCompression(op.On)
			ev["on"] = op.On
			ev["tx"] = r.takeTx()
		case "SL":
			err = c.SetCompressionLevel(op.Level)
			ev["level"] = op.Level
			ev["tx"] = r.takeTx()
		default:
			continue
		}
		xerrOf()
		ev["err"] = r.classifyW(err)
		out = append(out, ev)
		*outp = out
	}
	for ci, wc := range r.conns {
		if wc.dec.Pending() > 0 {
			out = append(out, Ev{"e": "END", "c": ci, "pending": wc.dec.Pending()})
		}
	}
	if r.share == nil && !r.pool.finalCheck() {
		out = append(out, Ev{"e": "TOUCHED"})
	}
	return out
}

// preSwitch prepares attribution for a message-level call (WriteMessage /
// WriteJSON) that implicitly closes an open writer: frames of the old message
// continue at its offset; frames after its FIN belong to the new message.
func (r *writerRun) preSwitch(wc *wconn, newMsg int) {
	if wc.open {
		wc.nextMsg = newMsg
	} else {
		wc.curMsg, wc.sent, wc.nextMsg = newMsg, 0, -1
	}
}

func dlOr(s string) string {
	if s == "" {
		return "zero"
	}
	return s
}

// RunShare runs the connections of p CONCURRENTLY, one goroutine each, sharing
// one buffer pool and one set of prepared messages (C11, C19 concurrent
// variants). Every connection yields its own single-connection writer trace.
func RunShare(p *WProg) (evs []Ev) {
	rewindMask()
	g := &shareGroup{byGid: map[int64]*writerRun{}}
	g.pool = &poolRec{ids: map[uintptr]int{}, emit: g.route}
	for i, m := range p.PMs {
		pay := payFor(p.Seed, 500+i, m.Type, m.N)
		if m.Type == 8 && m.N >= 2 {
			pay = wire.CloseBody(1000, wire.TextPay(p.Seed, 500+i, m.N-2))
		}
		keep := append([]byte{}, pay...)
		pm, _ := websocket.NewPreparedMessage(m.Type, pay)
		g.pms = append(g.pms, pm)
		g.pmPay = append(g.pmPay, keep)
	}
	res := make([][]Ev, len(p.Conns))
	var wg sync.WaitGroup
	// every connection of the group may be handed any sharer's buffer
	groupMin := 0
	for _, c := range p.Conns {
		wb := c.WBuf
		if wb <= 0 {
			wb = 4096
		}
		if c.Pool && (groupMin == 0 || wb < groupMin) {
			groupMin = wb
		}
	}
	for i := range p.Conns {
		sub := &WProg{ID: p.ID, Conns: []WConn{p.Conns[i]}, PMs: p.PMs, Seed: p.Seed + uint64(i), MinPool: groupMin}
		for _, o := range p.Ops {
			if o.C == i {
				o2 := o
				o2.C = 0
				sub.Ops = append(sub.Ops, o2)
			}
		}
		wg.Add(1)
		go func(i int, sub *WProg) {
			defer wg.Done()
			e, _, _ := runWriterShared(sub, nil, fmt.Sprintf("%s/c%d", p.ID, i), g)
			res[i] = e
		}(i, sub)
	}
	wg.Wait()
	for _, e := range res {
		evs = append(evs, e...)
	}
	if !g.pool.finalCheck() {
		evs = append(evs, Ev{"e": "TOUCHED"})
	}
	return evs
}

// hookValue runs f when encoding/json marshals it.
type hookValue struct{ f func() }

func (h *hookValue) MarshalJSON() ([]byte, error) {
	h.f()
	return []byte(`"x"`), nil
}
